(* Model/Errors.v — property C13: the error values of a graph run.

   Part 1  error terms, Go's errors.Unwrap / errors.Is / errors.As on them, and the three
           constructors of compose/error.go (newGraphRunError, wrapGraphNodeError,
           newStreamWrapperError / wrapStreamWrapperError) exactly as the code builds them.
   Part 2  which error every kind of node hands to the run loop (lambda flavours and their
           derived paradigms of compose/runnable.go, the recover branch of the executor in
           compose/graph_manager.go, the ToolsNode of compose/tool_node.go, sub-graphs).
   Part 3  the run loop of compose/graph_run.go projected on what decides the returned error:
           context test, step-limit test, run the frontier, classify the task errors
           (interrupt / node failure), END test; nested runs over a forest of graphs.
   Part 4  the four public paradigms of a compiled graph and the observables.

   Definitions only (executable; evaluated by vm_compute in the correspondence runs). *)
From Eino Require Import Base.Util.

(* ------------------------------------------------------------------ Part 1: error terms *)

Inductive ityp : Type := NodeRunError | GraphRunError.

Inductive action : Type :=
| InvokeByStream | InvokeByCollect | InvokeByTransform
| StreamByInvoke | StreamByTransform | StreamByCollect
| CollectByTransform | CollectByInvoke | CollectByStream
| TransformByStream | TransformByCollect | TransformByInvoke.

(* An error value.  [Leaf id] is a value made by errors.New / fmt.Errorf without %w (identity =
   id); [Custom ty c] a pointer to a user error type ty carrying c; [Wrapf e] is
   fmt.Errorf("...%w", e); [Internal] is compose's *internalError; [PanicErr] is what
   safe.NewPanicErr builds from a recovered panic value; [InterruptE] / [SubInterruptE] are
   *interruptError / *subGraphInterruptError. *)
Inductive err : Type :=
| Leaf (id : N)
| Custom (ty : N) (code : N)
| CustomW (ty : N) (code : N) (cause : err)   (* a user error type with an Unwrap method *)
| Wrapf (e : err)
| Internal (t : ityp) (sp : list action) (np : list string) (orig : err)
| PanicErr (info : N)
| InterruptE
| SubInterruptE.

(* identities of the sentinels that matter *)
Definition id_exceed : N := 10.        (* compose.ErrExceedMaxSteps *)
Definition id_canceled : N := 11.      (* context.Canceled *)
Definition id_rerun : N := 12.         (* compose.InterruptAndRerun *)
Definition id_recv_closed : N := 13.   (* schema.ErrRecvAfterClosed *)
Definition id_misc : N := 99.          (* any other message-only error of the framework *)

(* errors.Unwrap.  [fixed = false] is the code before the repair of F-C13: *internalError had
   no Unwrap method. *)
Definition unwrap_gen (fixed : bool) (e : err) : option err :=
  match e with
  | Wrapf e' => Some e'
  | CustomW _ _ e' => Some e'
  | Internal _ _ _ o => if fixed then Some o else None
  | _ => None
  end.
Definition unwrap : err -> option err := unwrap_gen true.
Definition unwrap_v0 : err -> option err := unwrap_gen false.

(* the chain errors.Is / errors.As walk: e, Unwrap e, Unwrap (Unwrap e), ... *)
Fixpoint chain_gen (fixed : bool) (e : err) : list err :=
  e :: match e with
       | Wrapf e' => chain_gen fixed e'
       | CustomW _ _ e' => chain_gen fixed e'
       | Internal _ _ _ o => if fixed then chain_gen fixed o else []
       | _ => []
       end.
Definition chain : err -> list err := chain_gen true.
Definition chain_v0 : err -> list err := chain_gen false.

Definition ityp_eqb (a b : ityp) : bool :=
  match a, b with NodeRunError, NodeRunError | GraphRunError, GraphRunError => true | _, _ => false end.

Definition action_tag (a : action) : N :=
  match a with
  | InvokeByStream => 0 | InvokeByCollect => 1 | InvokeByTransform => 2
  | StreamByInvoke => 3 | StreamByTransform => 4 | StreamByCollect => 5
  | CollectByTransform => 6 | CollectByInvoke => 7 | CollectByStream => 8
  | TransformByStream => 9 | TransformByCollect => 10 | TransformByInvoke => 11
  end.
Definition action_eqb (a b : action) : bool := N.eqb (action_tag a) (action_tag b).

Fixpoint list_eqb {A} (eqb : A -> A -> bool) (x y : list A) : bool :=
  match x, y with
  | [], [] => true
  | a :: x', b :: y' => eqb a b && list_eqb eqb x' y'
  | _, _ => false
  end.

(* identity of error values (Go's == on the interface values): pointers made at different
   places are different terms here because they differ in structure or in id *)
Fixpoint err_eqb (a b : err) : bool :=
  match a, b with
  | Leaf i, Leaf j => N.eqb i j
  | Custom t c, Custom t' c' => N.eqb t t' && N.eqb c c'
  | CustomW t c x, CustomW t' c' y => N.eqb t t' && N.eqb c c' && err_eqb x y
  | Wrapf x, Wrapf y => err_eqb x y
  | Internal t sp np o, Internal t' sp' np' o' =>
      ityp_eqb t t' && list_eqb action_eqb sp sp' && list_eqb String.eqb np np' && err_eqb o o'
  | PanicErr i, PanicErr j => N.eqb i j
  | InterruptE, InterruptE => true
  | SubInterruptE, SubInterruptE => true
  | _, _ => false
  end.

(* errors.Is(e, target) *)
Definition is_gen (fixed : bool) (target e : err) : bool := existsb (err_eqb target) (chain_gen fixed e).
Definition is_ : err -> err -> bool := is_gen true.
Definition is_v0 : err -> err -> bool := is_gen false.

(* errors.As(e, &ie) for *internalError: the first one on the chain *)
Definition internal_fields (e : err) : option (ityp * list action * list string * err) :=
  match e with Internal t sp np o => Some (t, sp, np, o) | _ => None end.

Fixpoint first_some {A B} (f : A -> option B) (l : list A) : option B :=
  match l with
  | [] => None
  | a :: l' => match f a with Some b => Some b | None => first_some f l' end
  end.

Definition as_internal_gen (fixed : bool) (e : err) := first_some internal_fields (chain_gen fixed e).
Definition as_internal := as_internal_gen true.

(* errors.As for a user error type *)
Definition custom_code (ty : N) (e : err) : option N :=
  match e with
  | Custom t c | CustomW t c _ => if N.eqb t ty then Some c else None
  | _ => None
  end.
Definition as_custom_gen (fixed : bool) (ty : N) (e : err) : option N := first_some (custom_code ty) (chain_gen fixed e).
Definition as_custom := as_custom_gen true.

Definition panic_info (e : err) : option N := match e with PanicErr i => Some i | _ => None end.
Definition as_panic_gen (fixed : bool) (e : err) : option N := first_some panic_info (chain_gen fixed e).
Definition as_panic := as_panic_gen true.

(* compose/interrupt.go *)
Definition is_interrupt_e (e : err) : bool := match e with InterruptE => true | _ => false end.
Definition is_subinterrupt_e (e : err) : bool := match e with SubInterruptE => true | _ => false end.
Definition extract_interrupt_gen (fixed : bool) (e : err) : bool := existsb is_interrupt_e (chain_gen fixed e).
Definition is_sub_interrupt_gen (fixed : bool) (e : err) : bool := existsb is_subinterrupt_e (chain_gen fixed e).
Definition is_interrupt_error_gen (fixed : bool) (e : err) : bool :=
  extract_interrupt_gen fixed e || is_sub_interrupt_gen fixed e || is_gen fixed (Leaf id_rerun) e.

(* compose/error.go *)
Definition new_graph_run_error (e : err) : err := Internal GraphRunError [] [] e.

(* wrapGraphNodeError.  [fixed] = *internalError has Unwrap (F-C13).
   err is itself the wrapper: its node path is extended in place.  err wraps a wrapper
   (fmt.Errorf %w, typed error): err is kept whole under a new wrapper that carries the
   accumulated paths (repair of F-C13b).  No wrapper on the chain: a fresh NodeRunError. *)
Definition wrap_node_gen (fixed : bool) (key : string) (e : err) : err :=
  if is_interrupt_error_gen fixed e then e
  else match e with
       | Internal t sp np o => Internal t sp (key :: np) o
       | _ => match as_internal_gen fixed e with
              | None => Internal NodeRunError [] [key] e
              | Some (t, sp, np, _) => Internal t sp (key :: np) e
              end
       end.
Definition wrap_node := wrap_node_gen true.

(* before the repair of F-C13b the wrapper that errors.As found was returned instead of the
   error itself: whatever wrapped it was dropped *)
Definition wrap_node_v1 (key : string) (e : err) : err :=
  if is_interrupt_error_gen true e then e
  else match as_internal e with
       | None => Internal NodeRunError [] [key] e
       | Some (t, sp, np, o) => Internal t sp (key :: np) o
       end.

Definition new_stream_wrapper_error (a : action) (e : err) : err := Internal GraphRunError [a] [] e.

Definition wrap_stream_gen (fixed : bool) (a : action) (e : err) : err :=
  if is_interrupt_error_gen fixed e then e
  else match e with
       | Internal t sp np o => Internal t (a :: sp) np o
       | _ => match as_internal_gen fixed e with
              | None => Internal NodeRunError [a] [] e
              | Some (t, sp, np, _) => Internal t (a :: sp) np e
              end
       end.
Definition wrap_stream := wrap_stream_gen true.

(* reading a stream to its end (concatStreamReader inside a derived paradigm) hits an error item:
   newStreamWrapperError(action, fmt.Errorf("concat...%w", newStreamReadError(item))) *)
Definition concat_fail (a : action) (item : err) : err := new_stream_wrapper_error a (Wrapf (Wrapf item)).

(* ------------------------------------------------------------------ Part 2: nodes *)

Inductive flavour : Type := FI | FS | FC | FT.   (* the only native paradigm of a lambda *)

(* what a harness lambda does *)
Inductive behav : Type :=
| BOk
| BFail (e : err)        (* returns e when called *)
| BPanic (info : N)      (* panics when called *)
| BItem (e : err)        (* stream-native: returns a stream  [chunk; error item e] *)
| BRerun                 (* returns compose.InterruptAndRerun *)
| BCancel                (* cancels the run's context and succeeds *)
| BConvPanic (info : N)  (* stream-native: returns a stream whose convert function panics when read *)
| BPreFail (e : err)     (* the node's state pre-handler (invoke-native) returns e: no task of the step is started *)
| BPostFail (e : err).   (* the body succeeds; the node's state post-handler (invoke-native) returns e *)

Inductive tool : Type := TOk | TFail (e : err) | TPanic (info : N) | TConvPanic (info : N).

Inductive node : Type :=
| NLam (key : string) (f : flavour) (b : behav)
| NSub (key : string) (g : nat)              (* index into the forest *)
| NTools (key : string) (ts : list tool).

Definition node_key (n : node) : string :=
  match n with NLam k _ _ | NSub k _ | NTools k _ => k end.

(* the branch after the last stage (its condition is user code): none (plain edges to END), or a
   condition that chooses (the first stage if the graph is cyclic, END otherwise), fails, panics *)
Inductive brb : Type := BrNone | BrOk | BrFail (e : err) | BrPanic (i : N).

Record graph : Type := mkGraph {
  g_dag : bool;                   (* AllPredecessor (no step limit) / Pregel *)
  g_stages : list (list node);    (* stage k+1 is fed by every node of stage k *)
  g_loop : bool;                  (* the last stage branches back to the first, never to END *)
  g_max : nat;                    (* WithMaxRunSteps; 0 = default *)
  g_br : brb                      (* the branch after the last stage *)
}.
Definition forest := list graph.

(* result of calling a node body *)
Inductive cres : Type := COk | CErr (e : err) | CPanic (info : N).
Definition call_time (b : behav) : cres :=
  match b with
  | BFail e => CErr e
  | BPanic i => CPanic i
  | BRerun => CErr (Leaf id_rerun)
  | _ => COk
  end.
Definition raises_cancel (b : behav) : bool := match b with BCancel => true | _ => false end.

(* What a stream may still hold for whoever reads it: an error item, or a convert function that
   panics on the goroutine of the reader (a lazily panicking stream). *)
Inductive item : Type := IErr (e : err) | ILazy (info : N).

(* what a task hands back to the run loop: success (with what its output stream may still hold,
   and whether it cancelled the context), or one of a non-empty list of possible task errors
   (several only where the implementation is nondeterministic), or out of nesting fuel *)
Inductive nres : Type :=
| NOk (items : list item) (cancel : bool)
| NErr (es : list err)
| NFuel.

(* taskManager.executor: a panic of the node is recovered into the task's error *)
Definition of_call (wrap : err -> err) (c : cres) (ok : nres) : nres :=
  match c with
  | COk => ok
  | CErr e => NErr [wrap e]
  | CPanic i => NErr [PanicErr i]
  end.

(* a node that reads its input stream to the end on the executor's goroutine: an error item is
   turned into the node's error by [how]; a lazily panicking stream panics there and the
   executor's recover makes it the task's error *)
Definition consume (how : err -> err) (it : item) : err :=
  match it with IErr e => how e | ILazy i => PanicErr i end.

(* a lambda with one native paradigm, called through composableRunnable.i (value mode) or .t
   (stream mode); [items] = what the input stream holds (stream mode only) *)
Definition exec_lambda (stream : bool) (items : list item) (f : flavour) (b : behav) : nres :=
  let c := call_time b in
  let canc := raises_cancel b in
  if negb stream then
    match f with
    | FI => of_call (fun e => e) c (NOk [] canc)
    | FS => of_call (wrap_stream InvokeByStream) c
              (match b with
               | BItem e => NErr [concat_fail InvokeByStream e]
               | BConvPanic i => NErr [PanicErr i]       (* read on the executor's goroutine *)
               | _ => NOk [] canc
               end)
    | FC => of_call (wrap_stream InvokeByCollect) c (NOk [] canc)
    | FT => of_call (wrap_stream InvokeByTransform) c (NOk [] canc)
    end
  else
    match f with
    | FI => match items with
            | [] => of_call (wrap_stream TransformByInvoke) c (NOk [] canc)
            | _ => NErr (map (consume (concat_fail TransformByInvoke)) items)
            end
    | FS => match items with
            | [] => of_call (wrap_stream TransformByStream) c
                      (match b with
                       | BItem e => NOk [IErr e] canc
                       | BConvPanic i => NOk [ILazy i] canc
                       | _ => NOk [] canc
                       end)
            | _ => NErr (map (consume (concat_fail TransformByStream)) items)
            end
    | FC => match items with          (* the harness body drains its input first and returns the item as it is *)
            | [] => of_call (wrap_stream TransformByCollect) c (NOk [] canc)
            | _ => NErr (map (consume (wrap_stream TransformByCollect)) items)
            end
    | FT => of_call (fun e => e) c (NOk items canc)   (* lazy: what the input holds passes through *)
    end.

(* ToolsNode.Invoke / Stream: tool 0 runs on the node's own goroutine (its panic is the node's
   panic), the others in goroutines with a recover; the error of the lowest failing index wins *)
Fixpoint first_tool_error (stream : bool) (wrap : err -> err) (ts : list tool) : option err :=
  match ts with
  | [] => None
  | TOk :: ts' => first_tool_error stream wrap ts'
  | TFail e :: _ => Some (Wrapf (wrap e))
  | TPanic i :: _ => Some (Wrapf (PanicErr i))
  | TConvPanic i :: ts' =>
      (* value mode: the tool's stream is read (invokeByStream) inside the tool call itself *)
      if stream then first_tool_error stream wrap ts' else Some (Wrapf (PanicErr i))
  end.

(* ToolsNode.Stream: with two or more calls the tools' streams are merged, each convert reader
   behind a forwarding goroutine whose recover turns the panic into an error item; a single
   call's stream is handed on as it is *)
Definition tool_conv_panics (ts : list tool) : list item :=
  flat_map (fun t => match t with
                     | TConvPanic i => [match ts with [_] => ILazy i | _ => IErr (PanicErr i) end]
                     | _ => []
                     end) ts.

Definition tool0_panics (stream : bool) (t0 : tool) : option N :=
  match t0 with
  | TPanic i => Some i
  | TConvPanic i => if stream then None else Some i
  | _ => None
  end.

Definition exec_tools (stream : bool) (items : list item) (ts : list tool) : nres :=
  match ts with
  | [] => NErr [if stream then wrap_stream TransformByStream (Leaf id_misc) else Leaf id_misc]
  | t0 :: _ =>
    match (if stream then items else []) with
    | [] =>
      match tool0_panics stream t0 with
      | Some i => NErr [PanicErr i]
      | None =>
        if negb stream then
          match first_tool_error false (fun e => e) ts with
          | Some e => NErr [e]
          | None => NOk [] false
          end
        else
          match first_tool_error true (wrap_stream StreamByInvoke) ts with
          | Some e => NErr [wrap_stream TransformByStream e]
          | None => NOk (tool_conv_panics ts) false
          end
      end
    | its => NErr (map (consume (concat_fail TransformByStream)) its)
    end
  end.

(* ------------------------------------------------------------------ Part 3: the run loop *)

Inductive gres : Type :=
| GDone (items : list item) (cancelled : bool)
| GFail (es : list err)      (* the legal returned errors (one per possible completion order) *)
| GInt                       (* interrupted: *interruptError at top level, *subGraphInterruptError below *)
| GPanic (info : N)          (* a panic leaves runner.run on the goroutine that called it *)
| GFuel.

(* resolveInterruptCompletedTasks over the completed tasks of one step: every failing task's
   error is a candidate (the first in completion order wins); a sub-graph interrupt or
   InterruptAndRerun is not a failure *)
Definition is_interrupt_task (e : err) : bool :=
  existsb is_subinterrupt_e (chain e) || is_ (Leaf id_rerun) e.

Inductive sres : Type := SOk (items : list item) (cancelled : bool) | SFail (es : list err) | SInt (items : list item) | SFuel.

Fixpoint stage_fold (rs : list (string * nres)) (items : list item) (canc : bool)
                    (fails : list err) (int : bool) (fuel_out : bool) : sres :=
  match rs with
  | [] => if fuel_out then SFuel
          else match fails with
               | [] => if int then SInt items else SOk items canc
               | _ => SFail fails
               end
  | (k, r) :: rs' =>
    match r with
    | NOk it c => stage_fold rs' (items ++ it) (canc || c) fails int fuel_out
    | NErr es =>
        let real := filter (fun e => negb (is_interrupt_task e)) es in
        stage_fold rs' items canc (fails ++ map (wrap_node k) real)
                   (int || existsb is_interrupt_task es) fuel_out
    | NFuel => stage_fold rs' items canc fails int true
    end
  end.

Fixpoint count_nodes (sts : list (list node)) : nat :=
  match sts with [] => O | s :: r => List.length s + count_nodes r end.

Definition effective_max (g : graph) : nat :=
  if g_dag g then List.length (g_stages g)                       (* no limit: exactly enough fuel *)
  else match g_max g with O => count_nodes (g_stages g) + 10 | m => m end.

(* Streams between steps (schema/stream.go).  One output stream read by n >= 2 successors is
   copied: the children share each element through a sync.Once.  When reading the source panics
   (a convert function of the user), the element records the recovered panic as an error item
   followed by the end of the stream (repair of F-C13d): every child finds the panic as an error
   item, nobody panics.  m >= 2 streams into one successor are merged: convert readers and copy
   children are put behind forwarding goroutines (toStream) whose recover turns a panic into an
   error item. *)
Definition is_lazy (it : item) : bool := match it with ILazy _ => true | _ => false end.

Definition forwarded (it : item) : item :=
  match it with ILazy i => IErr (PanicErr i) | _ => it end.

Definition fanout (n : nat) (its : list item) : list item :=
  match n with
  | O | S O => its
  | _ => map forwarded its
  end.

(* before the repair of F-C13d the panic left the sync.Once finished without an element: the child
   that got there first panicked, every other child found a zero chunk and then
   ErrRecvAfterClosed on every later Recv *)
Definition fanout_v3 (n : nat) (its : list item) : list item :=
  match n with
  | O | S O => its
  | _ => its ++ (if existsb is_lazy its then [IErr (Leaf id_recv_closed)] else [])
  end.

Definition fanin (m : nat) (its : list item) : list item :=
  match m with
  | O | S O => its
  | _ => map forwarded its
  end.

Fixpoint first_lazy (its : list item) : option N :=
  match its with
  | [] => None
  | ILazy i :: _ => Some i
  | _ :: r => first_lazy r
  end.

Definition item_errors (its : list item) : list err :=
  flat_map (fun it => match it with IErr e => [e] | ILazy _ => [] end) its.

(* calculateBranch (graph_run.go:721-750) on the run loop's goroutine, after the tasks of the last
   stage have all succeeded.  In stream mode the condition (invoke-native) is given the last
   stage's output through collectByInvoke: the stream is read to its end first, so an error item
   fails the branch (concat) and a lazily panicking stream panics there.  A failure comes back as
   newGraphRunError("failed to calculate next tasks: %w" ("calculate next step fail ...: %w"
   ("branch invoke/collect run error: %w" e))): no node path. *)
Inductive bres : Type := BGo | BFailE (e : err) | BPanicI (i : N).

Definition branch_eval (stream : bool) (br : brb) (it : list item) : bres :=
  match br with
  | BrNone => BGo
  | _ =>
    match it with
    | IErr e :: _ => BFailE (concat_fail CollectByInvoke e)
    | ILazy i :: _ => BPanicI i
    | [] =>
      match br with
      | BrFail e => BFailE (if stream then wrap_stream CollectByInvoke e else e)
      | BrPanic i => BPanicI i
      | _ => BGo
      end
    end
  end.

Definition branch_error (e : err) : err := new_graph_run_error (Wrapf (Wrapf (Wrapf e))).

(* A panic that leaves runner.run is recovered by the executor of the sub-graph's node in the
   parent.  In stream mode the deferred function of runner.run (graph_run.go:106-116) runs
   onGraphEnd on the nil result while the panic unwinds and panics itself (nil interface
   conversion): that second panic is what the parent recovers — the original payload is lost. *)
Definition masked_payload : N := 999999.

(* State handlers (graph_manager.go: submit runs the pre-handlers of all tasks of a step on the run
   loop's goroutine before any task starts, :305-313; waitOne runs the post-handler of a task that
   ended without error, :362-370).  An invoke-native handler called in stream mode goes through
   transformByInvoke: its input stream is read to the end first.

   The post-handler: its failure is the task's error, "run node[k] post processor fail: %w". *)
Definition with_post (stream : bool) (b : behav) (r : nres) : nres :=
  match b with
  | BPostFail e =>
      match r with
      | NOk [] _ => NErr [Wrapf (if stream then wrap_stream TransformByInvoke e else e)]
      | NOk (IErr e0 :: _) _ => NErr [Wrapf (concat_fail TransformByInvoke e0)]
      | NOk (ILazy _ :: _) _ => NFuel   (* the run loop itself would read a panicking stream: outside the model *)
      | _ => r
      end
  | _ => r
  end.

(* The pre-handlers of one step: the error the run ends with when the pre-handler of the node with
   key k fails — wrapGraphNodeError(k, "run node[k] pre processor fail: %w") since the repair of
   F-C13e (before: newGraphRunError("failed to submit tasks: run node[k] pre processor fail: %w"),
   no node named).  In stream mode the handler's wrapper reads the node's input stream first. *)
Definition pre_error (stream : bool) (items : list item) (e : err) : err :=
  if negb stream then e
  else match items with
       | [] => wrap_stream TransformByInvoke e
       | it :: _ => consume (concat_fail TransformByInvoke) it
       end.

(* ... a stream that panics when read panics there, on the run loop's own goroutine: the panic
   leaves the run *)
Definition pre_panic (stream : bool) (items : list item) : option N :=
  if stream then match items with ILazy i :: _ => Some i | _ => None end else None.

Definition pre_fail_of (stream : bool) (items : list item) (n : node) : list err :=
  match n with
  | NLam k _ (BPreFail e) => [wrap_node k (Wrapf (pre_error stream items e))]
  | _ => []
  end.

Definition pre_fails (stream : bool) (items : list item) (st : list node) : list err :=
  flat_map (pre_fail_of stream items) st.

(* before the repair of F-C13e *)
Definition pre_fail_v4 (stream : bool) (items : list item) (e : err) : err :=
  new_graph_run_error (Wrapf (Wrapf (pre_error stream items e))).

Section Run.
  Variable F : forest.
  Variable stream : bool.

  (* one node of the frontier; [rec] runs a sub-graph (one nesting level down) *)
  Definition exec_node (rec : graph -> list item -> bool -> gres) (items : list item) (canc : bool) (n : node) : nres :=
    match n with
    | NLam _ f b => with_post stream b (exec_lambda stream items f b)
    | NTools _ ts => exec_tools stream items ts
    | NSub _ gi =>
        match nth_error F gi with
        | None => NFuel
        | Some g =>
            match rec g items canc with
            | GDone it c => NOk it c
            | GFail es => NErr es
            | GInt => NErr [SubInterruptE]
            | GPanic i => NErr [PanicErr (if stream then masked_payload else i)]   (* the executor of the sub-graph node recovers it *)
            | GFuel => NFuel
            end
        end
    end.

  Definition width_of_first (sts : list (list node)) : nat :=
    match sts with [] => 1 | st :: _ => List.length st end.

  (* the main loop: [k] steps remain before the limit, [cur] = stages still ahead in this round;
     [items] = what the input stream of each node of the next stage holds *)
  Fixpoint steps (rec : graph -> list item -> bool -> gres) (all : list (list node)) (loop : bool) (br : brb)
                 (k : nat) (cur : list (list node)) (items : list item) (canc : bool) {struct k} : gres :=
    match cur with
    | [] => GDone items canc
    | st :: rest =>
      if canc then GFail [new_graph_run_error (Wrapf (Leaf id_canceled))]
      else match k with
      | O => GFail [new_graph_run_error (Leaf id_exceed)]
      | S k' =>
        match pre_fails stream items st with
        | (_ :: _) as pf =>
            (* some pre-handler of the step fails: the run fails before any task of the step starts;
               which one is reported depends on the order of the task list *)
            match pre_panic stream items with Some i => GPanic i | None => GFail pf end
        | [] =>
        match stage_fold (map (fun n => (node_key n, exec_node rec items canc n)) st) [] canc [] false false with
        | SFail es => GFail es
        | SInt its =>
            (* the checkpoint is converted to values on the run loop's goroutine: the finished
               siblings' output streams are read; an error item there is returned as it is found
               (not an interrupt, no wrapper), a lazily panicking stream panics there *)
            match first_lazy its, item_errors its with
            | Some i, _ => GPanic i
            | None, [] => GInt
            | None, es => GFail (map (fun e => Wrapf (Wrapf e)) es)
            end
        | SFuel => GFuel
        | SOk it c =>
          (* every output is copied for the successors (END counts as one), then each successor
             merges what its predecessors sent *)
          let out n := fanin (List.length st) (fanout n it) in
          match rest with
          | [] =>
            match branch_eval stream br it with
            | BGo => if loop then steps rec all loop br k' all (out (width_of_first all)) c else GDone (out 1%nat) c
            | BFailE e => GFail [branch_error e]
            | BPanicI i => GPanic i
            end
          | _ => steps rec all loop br k' rest (out (width_of_first rest)) c
          end
        end
        end
      end
    end.

  (* runner.run of graph g at nesting fuel d *)
  Fixpoint run_graph (d : nat) (g : graph) (items : list item) (canc : bool) : gres :=
    match d with
    | O => GFuel
    | S d' => steps (run_graph d') (g_stages g) (g_loop g) (g_br g) (effective_max g) (g_stages g)
                    (fanout (width_of_first (g_stages g)) items) canc
    end.
End Run.

(* ------------------------------------------------------------------ Part 4: the public API *)

Inductive paradigm : Type := PInvoke | PStream | PCollect | PTransform.

(* what the caller of a compiled graph can get *)
Inductive answer : Type :=
| AOk
| AErr (e : err)      (* the call returns e *)
| AItem (e : err)     (* the call returns a stream; reading it yields the error item e *)
| APanic              (* a panic reaches the caller's goroutine (in the call or while reading the result) *)
| AFuel.

Definition top_error (p : paradigm) (e : err) : err :=
  match p with
  | PInvoke | PTransform => e
  | PStream => wrap_stream StreamByTransform e
  | PCollect => wrap_stream CollectByTransform e
  end.

(* all legal answers of  r.<paradigm>(ctx, input)  for the compiled forest (graph 0 is the top) *)
Definition answers (F : forest) (p : paradigm) (cancel_before : bool) (in_item : option err) : list answer :=
  match F with
  | [] => [AFuel]
  | g :: _ =>
    let stream := match p with PInvoke => false | _ => true end in
    let items := match p, in_item with (PCollect | PTransform), Some e => [IErr e] | _, _ => [] end in
    match run_graph F stream (S (List.length F)) g items cancel_before with
    | GFuel => [AFuel]
    | GInt => [AErr InterruptE]
    | GPanic _ => [APanic]
    | GFail es => map (fun e => AErr (top_error p e)) es
    | GDone [] _ => [AOk]
    | GDone its _ =>
        map (fun it => match it, p with
                       | ILazy _, _ => APanic
                       | IErr e, PCollect => AErr (concat_fail CollectByTransform e)
                       | IErr e, _ => AItem e
                       end) its
    end
  end.

(* The message (the only public carrier of the node path: the wrapper type is private).
   internalError.Error() prints the message of the error it holds and then, when its node path is
   not empty, "node path: [k1, k2, ...]"; fmt.Errorf("...%w") and a typed error's Error() embed
   the message of what they wrap.  [msg_paths] = the node paths printed, in order of appearance;
   the last one is what a reader (and the harness's parser) takes as the failing node path. *)
Fixpoint msg_paths (e : err) : list (list string) :=
  match e with
  | Internal _ _ np o => msg_paths o ++ match np with [] => [] | _ => [np] end
  | Wrapf e' => msg_paths e'
  | CustomW _ _ e' => msg_paths e'
  | _ => []
  end.
Definition msg_path (e : err) : list string := last (msg_paths e) [].

(* the projected observables of an error value *)
Record proj : Type := mkProj {
  p_internal : option (ityp * list action * list string * bool);  (* errors.As for the wrapper: type, stream-wrapper path, node path, is-it-the-outermost *)
  p_is : list bool;          (* errors.Is for the sentinels below *)
  p_as : list (option N);    (* errors.As for custom types 0, 1 and 2 (the wrapping one) *)
  p_panic : option N;        (* payload of a recovered panic on the chain *)
  p_interrupt : bool;        (* ExtractInterruptInfo *)
  p_msg : list string        (* the node path printed last in err.Error() *)
}.

Definition is_targets : list err :=
  [Leaf 0; Leaf 1; Leaf id_exceed; Leaf id_canceled; Leaf id_rerun; Leaf id_recv_closed].

Definition project_gen (fixed : bool) (e : err) : proj :=
  {| p_internal := match as_internal_gen fixed e with
                   | Some (t, sp, np, _) => Some (t, sp, np, match e with Internal _ _ _ _ => true | _ => false end)
                   | None => None
                   end;
     p_is := map (fun t => is_gen fixed t e) is_targets;
     p_as := [as_custom_gen fixed 0 e; as_custom_gen fixed 1 e; as_custom_gen fixed 2 e];
     p_panic := as_panic_gen fixed e;
     p_interrupt := extract_interrupt_gen fixed e;
     p_msg := msg_path e |}.
Definition project := project_gen true.
