(* Model/StatePlumb.v — C11: where the state object of a run comes from, as code (translator tie).

   The few statements of compose/graph.go and compose/graph_run.go that create, restore and save the
   holder of the graph state ( *internalState = state + mutex, found by getState under the context key
   stateKey{}) are programs of a small fragment:

     if g.stateGenerator != nil {                                   graph.compile (graph.go)
         r.runCtx = func(ctx) { return context.WithValue(ctx, stateKey{},
                                   &internalState{state: g.stateGenerator(ctx)}) } }
     if !initialized { if r.runCtx != nil { ctx = r.runCtx(ctx) } … }      runner.run, a new run
         = [start_block]     PIf PHasGen [PInstall KState (HFresh EGenCall)]

     if sm != nil && cp.State != nil { err = sm(ctx, path, cp.State) … }   runner.run, resume
     if cp.State != nil { ctx = context.WithValue(ctx, stateKey{}, &internalState{state: cp.State}) }
     nextTasks, err = r.restoreTasks(ctx, …)
         = [resume_block]  (the top-level one preceded by PPassModifier: ctx = setStateModifier(ctx, sm))    PIf (PAnd PHasModifier PHasCpState) [PModify ECpState];
                             PIf PHasCpState [PInstall KState (HFresh ECpState)]; PRestore

     if r.runCtx != nil { if state, ok := ctx.Value(stateKey{}).( *internalState); ok {
         cp.State = state.state } }                                         handleInterrupt (twice)
         = [save_block]      PIf PHasGen [PIf (PHolderInCtx KState) [PSave (EHolderState KState)]]

   [pexec] is their semantics over: what the context binds, the holders allocated so far (index ->
   state value; every HFresh allocates a new one, i.e. a new mutex), cp.State, the context the
   restored tasks were created with, the number of modifier calls.  Gen/StatePlumb.v is what
   tools/go2v (extractor "stateplumb") reads from the source on every run;
   Proofs/GenAgreeStatePlumb.v proves the blocks equal; Proofs/StatePlumb.v proves that
   [new_inst] / [ChResume] of Model/StateLockLTS.v are what these blocks compute.
   Definitions only. *)
From Eino Require Import Base.Util Model.StateLock Model.StateLockLTS Model.StateLockCode.

Inductive sexpr :=
| EGenCall                    (* g.stateGenerator(ctx) *)
| ECpState                    (* cp.State *)
| EHolderState (k : ckey).    (* state.state, state the holder found in the context under k *)

Inductive hexpr :=
| HFresh (e : sexpr)          (* &internalState{state: e}: a new holder, a new mutex *)
| HShared (e : sexpr).        (* a holder allocated once per compiled graph whose state is set to e *)

Inductive pcond :=
| PHasGen                     (* g.stateGenerator != nil  (= r.runCtx != nil) *)
| PHasCpState                 (* cp.State != nil *)
| PHasModifier                (* the caller's StateModifier != nil *)
| PHolderInCtx (k : ckey)     (* _, ok := ctx.Value(k).( *internalState); ok *)
| PAnd (a b : pcond).

Inductive pstmt :=
| PInstall (k : ckey) (h : hexpr)   (* ctx = context.WithValue(ctx, k, h) *)
| PModify (e : sexpr)               (* modifier(ctx, path, e): updates e in place *)
| PSave (e : sexpr)                 (* cp.State = e *)
| PRestore                          (* r.restoreTasks(ctx, …): the restored tasks get this context *)
| PPassModifier                     (* ctx = setStateModifier(ctx, m): the nested graphs' resume blocks find
                                       the caller's modifier (their PHasModifier / PModify); no effect on
                                       this graph's own state *)
| PIf (c : pcond) (body : list pstmt).

Definition ckey_eqb (a b : ckey) : bool :=
  match a, b with
  | KState, KState => true
  | KOther x, KOther y => String.eqb x y
  | _, _ => false
  end.

Section Plumb.
  Variable S : Type.

  Record penv := mkPE {
    pe_has_gen : bool;              (* the graph declares state *)
    pe_gen : S;                     (* what its generator returns *)
    pe_modifier : option (S -> S);  (* the caller's StateModifier, as a function on the state *)
    pe_shared : nat }.              (* index of a per-compiled-graph holder, were there one *)

  Record pstate := mkPS {
    ps_ctx : ckey -> option nat;    (* the holder the context binds under each key *)
    ps_objs : list S;               (* holders allocated so far: index -> state value *)
    ps_cp : option S;               (* cp.State *)
    ps_restored : list (option nat);(* state holder in the context given to restoreTasks *)
    ps_modcalls : nat }.

  Variable env : penv.

  Definition peval (st : pstate) (e : sexpr) : option S :=
    match e with
    | EGenCall => if pe_has_gen env then Some (pe_gen env) else None   (* call of a nil func *)
    | ECpState => ps_cp st
    | EHolderState k => match ps_ctx st k with Some o => nth_error (ps_objs st) o | None => None end
    end.

  Fixpoint pcond_eval (st : pstate) (c : pcond) : bool :=
    match c with
    | PHasGen => pe_has_gen env
    | PHasCpState => match ps_cp st with Some _ => true | None => false end
    | PHasModifier => match pe_modifier env with Some _ => true | None => false end
    | PHolderInCtx k => match ps_ctx st k with Some _ => true | None => false end
    | PAnd a b => pcond_eval st a && pcond_eval st b
    end.

  Definition bind (ctx : ckey -> option nat) (k : ckey) (o : nat) : ckey -> option nat :=
    fun k' => if ckey_eqb k' k then Some o else ctx k'.

  Fixpoint set_nth {A} (l : list A) (i : nat) (a : A) : list A :=
    match l, i with
    | [], _ => []
    | _ :: l', O => a :: l'
    | b :: l', Datatypes.S i' => b :: set_nth l' i' a
    end.

  (* None = the statement panics (nil function, nil state where one is required) *)
  Fixpoint pexec1 (fuel : nat) (s : pstmt) (st : pstate) : option pstate :=
    match fuel with
    | O => None
    | Datatypes.S fu =>
      match s with
      | PInstall k (HFresh e) =>
          match peval st e with
          | Some v => Some (mkPS (bind (ps_ctx st) k (List.length (ps_objs st))) (ps_objs st ++ [v])
                                 (ps_cp st) (ps_restored st) (ps_modcalls st))
          | None => None
          end
      | PInstall k (HShared e) =>
          match peval st e with
          | Some v => Some (mkPS (bind (ps_ctx st) k (pe_shared env)) (set_nth (ps_objs st) (pe_shared env) v)
                                 (ps_cp st) (ps_restored st) (ps_modcalls st))
          | None => None
          end
      | PModify ECpState =>
          match pe_modifier env, ps_cp st with
          | Some m, Some v => Some (mkPS (ps_ctx st) (ps_objs st) (Some (m v)) (ps_restored st)
                                         (Datatypes.S (ps_modcalls st)))
          | _, _ => None
          end
      | PModify _ => None
      | PSave e => Some (mkPS (ps_ctx st) (ps_objs st) (peval st e) (ps_restored st) (ps_modcalls st))
      | PRestore => Some (mkPS (ps_ctx st) (ps_objs st) (ps_cp st) (ps_restored st ++ [ps_ctx st KState])
                               (ps_modcalls st))
      | PPassModifier => Some st
      | PIf c body =>
          if pcond_eval st c then
            (fix go (l : list pstmt) (st : pstate) : option pstate :=
               match l with
               | [] => Some st
               | s' :: l' => match pexec1 fu s' st with Some st' => go l' st' | None => None end
               end) body st
          else Some st
      end
    end.

  Fixpoint pexec_fuel (fuel : nat) (l : list pstmt) (st : pstate) : option pstate :=
    match l with
    | [] => Some st
    | s :: l' => match pexec1 fuel s st with Some st' => pexec_fuel fuel l' st' | None => None end
    end.

  (* nesting depth of the blocks below is at most 3 *)
  Definition pexec (l : list pstmt) (st : pstate) : option pstate := pexec_fuel 8 l st.
End Plumb.

Arguments mkPE {S} pe_has_gen pe_gen pe_modifier pe_shared.
Arguments mkPS {S} ps_ctx ps_objs ps_cp ps_restored ps_modcalls.
Arguments ps_ctx {S} p.
Arguments ps_objs {S} p.
Arguments ps_cp {S} p.
Arguments ps_restored {S} p.
Arguments ps_modcalls {S} p.

(* what the model assumes the code to be *)
Definition start_block : list pstmt := [PIf PHasGen [PInstall KState (HFresh EGenCall)]].
Definition resume_block : list pstmt :=
  [PIf (PAnd PHasModifier PHasCpState) [PModify ECpState];
   PIf PHasCpState [PInstall KState (HFresh ECpState)];
   PRestore].
(* a nested graph resumed from the checkpoint its parent hands it / the top-level graph resumed from
   the store (which first makes the caller's modifier available to the nested graphs) *)
Definition resume_sub_block : list pstmt := resume_block.
Definition resume_top_block : list pstmt := PPassModifier :: resume_block.
Definition save_block : list pstmt :=
  [PIf PHasGen [PIf (PHolderInCtx KState) [PSave (EHolderState KState)]]].
