(* Model/DagSpec.v — C02: the DENOTATION of an all-predecessor graph / Workflow as an executable function.

   [den_run ord] evaluates the nodes of g once each, in the order [ord] (a topological order of all control and
   data dependencies: for the graphs of the harness, ascending key order), exactly as the property text reads:

     START is resolved with the input x;
     a node without any predecessor is skipped;
     a node with control predecessors runs iff one of them ran and routed control to it (direct control edge,
       or selected by one of its branches); otherwise (all of them skipped or not routing) it is skipped;
     a node with data predecessors only (Workflow inputs WithNoDirectDependency exclusively) is skipped as soon
       as one of them is skipped and runs when all of them ran;
     the input of a node that runs is pre_node (get_merge vals), vals being the key-sorted list of the outputs
       (ToField applied) of exactly the data predecessors that ran and routed data to it;
     its output is [nout n input]; a node whose body fails is DFail, and whatever depends on an undecided node
       (failed, or behind a failing merge / a branch that selects a foreign node) is DStuck;
     the result of the run is the input assembled for END ([den_end]).

   No channels, no work list, no schedule: this is the specification the engine of Model/Graph.v is proved to
   implement (Proofs/DagDenFun.v: every node a run resolves has the output den gives it, every node a run skips
   is skipped by den, a finished run returns den's result, a failed node failed on den's input).
   Corr/C02.v evaluates den on the cases of the harness and compares it with the implementation directly. *)
From Eino Require Import Base.Util Model.Graph.
Open Scope N_scope.

Section Den.
  Variable V : Type.
  Variable ops : vops V.
  Variable g : graph.
  Variable nout : node -> V -> tres V.     (* what executing node n on an input yields *)
  Variable x : V.                          (* the input of the run *)

  Inductive dstat := DRan (out : V) | DSkip | DFail (es : list err) | DStuck.
  Definition dtab := list (key * dstat).   (* newest entry first; START is the last one *)

  Definition stat (T : dtab) (q : key) : dstat :=
    match alookup q T with Some s => s | None => DStuck end.

  Definition is_skip (s : dstat) : bool := match s with DSkip => true | _ => false end.
  Definition undecided (s : dstat) : bool := match s with DFail _ | DStuck => true | _ => false end.

  Definition den_sel (n : node) (out : V) : list key :=
    match eval_branches V ops n out with Ok (s, _) => s | _ => [] end.

  (* q ran and routed control to t *)
  Definition den_routes_c (T : dtab) (t q : key) : bool :=
    match stat T q, find_node g q with
    | DRan out, Some n => memb t (n_csucc n) || memb t (den_sel n out)
    | _, _ => false
    end.

  (* the value q sends to t, if q ran and routed data to t *)
  Definition den_data (T : dtab) (t q : key) : option V :=
    match stat T q, find_node g q with
    | DRan out, Some n =>
        if memb t (n_dsucc n) || memb t (den_sel n out) then Some (edge_value V ops n t out) else None
    | _, _ => None
    end.

  Definition den_vals (T : dtab) (t : key) : list (key * V) :=
    fold_right (fun q m => match den_data T t q with Some v => ainsert q v m | None => m end) [] (dpreds g t).

  Inductive dtrig := TRun (w : V) | TSkip | TStuck.

  Definition den_input (T : dtab) (t : key) : dtrig :=
    if existsb (fun q => undecided (stat T q)) (dpreds g t) then TStuck else
    match get_merge V ops (den_vals T t) with
    | Ok v => TRun (pre_node V ops g t v)
    | _ => TStuck
    end.

  (* does t run, and on which input? *)
  Definition den_trig (T : dtab) (t : key) : dtrig :=
    match cpreds g t with
    | [] =>
        match dpreds g t with
        | [] => TSkip
        | dp => if existsb (fun q => is_skip (stat T q)) dp then TSkip else den_input T t
        end
    | cp =>
        if existsb (fun q => undecided (stat T q)) cp then TStuck
        else if existsb (den_routes_c T t) cp then den_input T t
        else TSkip
    end.

  Definition den_node (T : dtab) (t : key) : dstat :=
    match den_trig T t with
    | TSkip => DSkip
    | TStuck => DStuck
    | TRun w =>
        match find_node g t with
        | None => DStuck
        | Some n =>
            match nout n w with
            | TErr es => DFail es
            | TOk out => match eval_branches V ops n out with Ok _ => DRan out | _ => DStuck end
            end
        end
    end.

  Fixpoint den_from (T : dtab) (ord : list key) : dtab :=
    match ord with
    | [] => T
    | t :: rest => den_from ((t, den_node T t) :: T) rest
    end.

  Definition den_run (ord : list key) : dtab := den_from [(kSTART, DRan x)] ord.

  (* the value assembled for END *)
  Definition den_end (ord : list key) : dtrig := den_trig (den_run ord) kEND.
  Definition den_result (ord : list key) : option V :=
    match den_end ord with TRun w => Some w | _ => None end.

  (* [ord] lists real nodes, each after all its predecessors (checkable) *)
  Fixpoint topo_from (seen : list key) (ord : list key) : bool :=
    match ord with
    | [] => true
    | t :: rest =>
        negb (memb t seen)
        && forallb (fun q => memb q seen) (cpreds g t) && forallb (fun q => memb q seen) (dpreds g t)
        && topo_from (t :: seen) rest
    end.
  Definition topo_ok (ord : list key) : bool :=
    topo_from [kSTART] ord
    && forallb (fun q => memb q (kSTART :: ord)) (cpreds g kEND)
    && forallb (fun q => memb q (kSTART :: ord)) (dpreds g kEND).
End Den.

Arguments DRan {V}. Arguments DSkip {V}. Arguments DFail {V}. Arguments DStuck {V}.
Arguments TRun {V}. Arguments TSkip {V}. Arguments TStuck {V}.

(* the order used for the graphs of the harness: the real nodes as listed (ascending keys) *)
Definition node_order (g : graph) : list key := map n_key (real_nodes g).
