(* Model/ConcatDeepOrder.v — the nested model of Model/ConcatDeep.v with Go's map iteration
   made explicit: every concatMaps call of the call tree (one per nested map key) visits its
   keys in the order a schedule dictates (Model/ConcatOrder.v: [sched]).  Definitions only. *)
From Eino Require Import Base.Util Model.Concat Model.ConcatMsg Model.ConcatMsgMap Model.ConcatOrder Model.ConcatDeep.

(* the same Go value: maps equal as lookup functions, at every depth *)
Inductive deq : dval -> dval -> Prop :=
| deq_same v : deq v v
| deq_map m m' :
    (forall k, alist_get k m = None <-> alist_get k m' = None) ->
    (forall k v v', alist_get k m = Some v -> alist_get k m' = Some v' -> deq v v') ->
    deq (DMap m) (DMap m').

Definition dmeq (m m' : list (string * dval)) : Prop := deq (DMap m) (DMap m').

Section User.
Context {U : UserFn}.

Fixpoint deep_maps_o (fuel : nat) (s : sched) (ms : list (list (string * dval))) : res (list (string * dval)) :=
  match fuel with
  | O => Panic
  | S f =>
      res_mapM (fun k => res_map (fun v => (k, v)) (dkey (deep_maps_o f (s_sub s k)) (gvals_at k ms)))
               (s_ord s (gkeys_of ms))
  end.

Definition dmap_stream_o (s : sched) (l : list (list (string * dval))) : res (list (string * dval)) :=
  match l with
  | [] => Err E_EMPTY
  | [x] => Ok x
  | _ => deep_maps_o (S (mdepth l)) s l
  end.

End User.
