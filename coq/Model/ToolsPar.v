(* Model/ToolsPar.v — parallelRunToolCall (compose/tool_node.go:245-270) as a small-step protocol:
   the caller's goroutine, one goroutine per task 1..N-1, the sync.WaitGroup, and the result
   cells tasks[i] (each written by its own goroutine only: the goroutine is handed &tasks[i]).

       var wg sync.WaitGroup
       for i := 1; i < len(tasks); i++ {
           wg.Add(1)
           go func(t *toolCallTask) {
               defer wg.Done()
               defer func() { if p := recover(); p != nil { t.err = panicErr } }()
               run(t)                       // writes t.output / t.err, or panics
           }(&tasks[i])
       }
       run(&tasks[0])                       // inline: a panic here leaves the function
       wg.Wait()
       -- Invoke / Stream then scan tasks[0..N-1]

   A goroutine executes [prog]: the body first, then the deferred functions in reverse order of
   their defer statements — [prog_ok] = [GRun; GRecover; GDone] for the code above.  A schedule
   is the sequence of threads that take the next step (0 = the caller, i = the goroutine of task
   i); wg.Wait can only be passed when the counter is zero.  Model/Tools.v abstracts all this into
   "the slots are written in some order [pi] before the scan"; Proofs/ToolsPar.v proves that
   abstraction for [prog_ok], for every schedule, and refutes it for the order [GRun; GDone;
   GRecover] (wg.Done deferred after the recover handler, i.e. run before it).
   The scan is modelled as one atomic read of all cells (with [prog_ok] nobody writes any more). *)
From Eino Require Import Base.Util Model.Tools.

Inductive gact : Type := GRun | GRecover | GDone.

Definition prog_ok : list gact := [GRun; GRecover; GDone].
Definition prog_v0 : list gact := [GRun; GDone; GRecover].

Definition gact_eqb (a b : gact) : bool :=
  match a, b with GRun, GRun | GRecover, GRecover | GDone, GDone => true | _, _ => false end.
Fixpoint prog_eqb (a b : list gact) : bool :=
  match a, b with
  | [], [] => true
  | x :: a', y :: b' => gact_eqb x y && prog_eqb a' b'
  | _, _ => false
  end.

Section Par.
  Variable R : Type.                       (* what a task's cell holds once written *)
  Variable exec : nat -> task -> R.        (* running task i (before any recover) *)
  Variable is_panic : R -> bool.           (* ... it panicked *)
  Variable perr : R.                       (* the panic error the recover handler stores *)
  Variable prog : list gact.

  (* a goroutine: how far it is in [prog], whether it is panicking, its task's cell *)
  Record gst : Type := mkG { g_pc : nat; g_pan : bool; g_slot : option R }.

  (* the caller: spawning (next task index to spawn), waiting, finished, or left by a panic *)
  Inductive mst : Type := MSpawn (k : nat) | MWait | MEnd | MPanic.

  Record pst : Type := mkP {
    p_cnt : nat;                            (* the WaitGroup counter *)
    p_slot0 : option R;                     (* tasks[0] *)
    p_gs : list gst;                        (* goroutines of tasks 1.. *)
    p_main : mst;
    p_seen : option (list (option R));      (* what the scan read *)
    p_crash : bool }.                       (* a goroutine ended while panicking: the process dies *)

  Definition pinit (tasks : list task) : pst :=
    mkP 0 None (map (fun _ => mkG 0 false None) (tl tasks)) (MSpawn 1) None false.

  Definition spawned (st : pst) (i : nat) : bool :=
    match p_main st with MSpawn k => Nat.ltb i k | _ => true end.

  (* one action of the goroutine of task [i] *)
  Definition gstep (i : nat) (t : task) (g : gst) : option (gst * bool * bool) :=   (* new state, did Done, crashed *)
    match nth_error prog (g_pc g) with
    | None => None
    | Some a =>
        let g' :=
          match a with
          | GRun => let r := exec i t in
                    if is_panic r then mkG (S (g_pc g)) true (g_slot g) else mkG (S (g_pc g)) false (Some r)
          | GRecover => if g_pan g then mkG (S (g_pc g)) false (Some perr) else mkG (S (g_pc g)) false (g_slot g)
          | GDone => mkG (S (g_pc g)) (g_pan g) (g_slot g)
          end in
        Some (g', match a with GDone => true | _ => false end,
              Nat.eqb (S (g_pc g)) (List.length prog) && g_pan g')
    end.

  Definition pstep (tasks : list task) (st : pst) (th : nat) : option pst :=
    match th with
    | O =>
        match p_main st with
        | MSpawn k =>
            if Nat.ltb k (List.length tasks)
            then Some (mkP (S (p_cnt st)) (p_slot0 st) (p_gs st) (MSpawn (S k)) (p_seen st) (p_crash st))
            else match tasks with
                 | [] => None
                 | t0 :: _ =>
                     let r := exec 0 t0 in
                     if is_panic r
                     then Some (mkP (p_cnt st) (p_slot0 st) (p_gs st) MPanic (p_seen st) (p_crash st))
                     else Some (mkP (p_cnt st) (Some r) (p_gs st) MWait (p_seen st) (p_crash st))
                 end
        | MWait =>
            if Nat.eqb (p_cnt st) 0
            then Some (mkP (p_cnt st) (p_slot0 st) (p_gs st) MEnd
                           (Some (p_slot0 st :: map g_slot (p_gs st))) (p_crash st))
            else None
        | _ => None
        end
    | S j =>
        if spawned st (S j) then
          match nth_error (p_gs st) j, nth_error tasks (S j) with
          | Some g, Some t =>
              match gstep (S j) t g with
              | Some (g', done, crash) =>
                  Some (mkP (if done then Nat.pred (p_cnt st) else p_cnt st) (p_slot0 st)
                            (set_nth j g' (p_gs st)) (p_main st) (p_seen st) (p_crash st || crash))
              | None => None
              end
          | _, _ => None
          end
        else None
    end.

  Fixpoint prun (tasks : list task) (sch : list nat) (st : pst) : option pst :=
    match sch with
    | [] => Some st
    | th :: sch' => match pstep tasks st th with Some st' => prun tasks sch' st' | None => None end
    end.

  (* what the caller of Invoke / Stream gets once parallelRunToolCall is over: the scan of what
     was read, or the panic of the inline task; None while it is still running *)
  Definition par_result {A} (assemble : list (option R) -> list task -> res A) (tasks : list task) (st : pst)
    : option (res A) :=
    match p_main st, p_seen st with
    | MEnd, Some seen => Some (assemble seen tasks)
    | MPanic, _ => Some Panic
    | _, _ => None
    end.
End Par.
Arguments mkG {R} _ _ _.
Arguments g_pc {R} _.
Arguments g_pan {R} _.
Arguments g_slot {R} _.
Arguments p_cnt {R} _.
Arguments p_slot0 {R} _.
Arguments p_gs {R} _.
Arguments p_main {R} _.
Arguments p_seen {R} _.
Arguments p_crash {R} _.
Arguments pinit {R} _.
Arguments pstep {R} _ _ _ _ _ _ _.
Arguments prun {R} _ _ _ _ _ _ _.
Arguments par_result {R A} _ _ _.

(* the instances: Invoke (cells hold a tres) and Stream (cells hold an sres) *)
Definition is_panic_t (r : tres) : bool := match r with TPanic => true | _ => false end.
Definition is_panic_s (r : sres) : bool := match r with SPanic => true | _ => false end.
