(* Model/Interrupt.v — the run loop of Model/RunLoop.v instantiated with the channel layer of
   Model/Graph.v and with the nodes the C05/C06 harness builds (owner: C05/C06).

   What is instantiated
     V     := value                      (map trees, Model/Graph.v)
     CS    := chans value                (pregelChannel / dagChannel tables)
     fold  := resolve_all ; update_chans (resolveCompletedTasks ; updateValues ; updateDependencies)
     getr  := get_all                    (getFromReadyChannels)
     GS    := option gstate              (None: the graph declares no state — nothing is saved, nothing
                                          reported, the state modifier is not called)
     SCP   := ncp, SINFO := ninfo        (nested checkpoints / nested InterruptInfo: the same records, tied
                                          into inductive types)
     ENV   := env                        (attempt counters of the rerun tables, flat log of the lambda
                                          executions of every nesting level, whether the current call
                                          carries WithStateModifier, the observed collection orders of the
                                          eager (Workflow) task managers)
     exec  := node_exec                  (lambda: {key: input} or InterruptAndRerun on the listed attempts;
                                          graph node: a run segment of the nested graph, fresh or continued
                                          from the nested checkpoint handed down by [restore])
     pre   := pre_fn                     (the harness's StatePreHandler: stamp + save, or rebuild from the
                                          saved input when handed the zero input)

   Definitions only (evaluated by the correspondence check). *)
From Eino Require Import Base.Util Model.Graph Model.RunLoop.
Open Scope N_scope.

(* ---------- graph state of the harness: St{Seen, Saved, Mods} ---------- *)
Record gstate := { st_seen : list (N * N); st_saved : list (N * value); st_mods : N }.
Definition st_empty : gstate := {| st_seen := []; st_saved := []; st_mods := 0 |}.
Definition gst := option gstate.

Definition kStamp : N := 1.     (* the map key "#" (the top-level input key "x" is 0; node keys are >= 2) *)

Definition bump (s : gst) : gst :=
  match s with
  | Some g => Some {| st_seen := st_seen g; st_saved := st_saved g; st_mods := st_mods g + 1 |}
  | None => None
  end.

(* ---------- nested checkpoints and interrupt infos ---------- *)
Inductive ncp := NCP (c : @checkpoint value (chans value) gst ncp).
Inductive ninfo := NInfo (i : @iinfo gst ninfo).
Definition cpt := @checkpoint value (chans value) gst ncp.
Definition inf := @iinfo gst ninfo.
Definition tex := @texec value ncp ninfo.
Definition outc := @outcome value (chans value) gst ncp ninfo.
Definition evt := @event value.          (* events of the run loop: one per submitted task *)

(* entries of the flat log kept in the environment *)
Inductive lentry :=
| LExec (k : N) (v : value) (ab : bool)   (* a lambda body ran: node, input, aborted (asked for a rerun)     *)
| LPre (k : N)                            (* the state pre-handler of node k ran (nested graphs with state)  *)
| LCall.                                  (* a call of the run starts                                       *)

(* ---------- environment ---------- *)
Record env := {
  e_att   : list (N * N);                 (* node -> number of body executions so far (whole run)        *)
  e_log   : list lentry;                  (* lambda executions and nested pre-handler runs of every level *)
  e_mod   : bool;                         (* the current call carries WithStateModifier                  *)
  e_sched : list (N * list (list N));     (* graph index -> collection orders of its successive eager
                                             task managers (observed; consumed one per loop entry)       *)
}.

Definition env0 (scheds : list (N * list (list N))) : env :=
  {| e_att := []; e_log := []; e_mod := false; e_sched := scheds |}.

Definition set_mod (b : bool) (e : env) : env :=
  {| e_att := e_att e; e_log := e_log e; e_mod := b; e_sched := e_sched e |}.
Definition clear_log (e : env) : env :=
  {| e_att := e_att e; e_log := []; e_mod := e_mod e; e_sched := e_sched e |}.

Definition pop_sched (gi : N) (e : env) : list N * env :=
  match nlist_get gi (e_sched e) with
  | Some (s :: rest) =>
      (s, {| e_att := e_att e; e_log := e_log e; e_mod := e_mod e; e_sched := nlist_set gi rest (e_sched e) |})
  | _ => ([], e)
  end.

(* ---------- one graph of the case ---------- *)
Record gspec := {
  gs_graph  : graph;
  gs_state  : bool;                  (* WithGenLocalState: handlers attached to every node             *)
  gs_st     : list N;                (* nodes whose pre-handler stamps and saves                       *)
  gs_rerun  : list (N * list N);     (* node -> attempts (1-based, whole run) returning InterruptAndRerun *)
  gs_before : list N;                (* WithInterruptBeforeNodes                                       *)
  gs_after  : list N;                (* WithInterruptAfterNodes                                        *)
  gs_leaf   : list N;                (* lambdas whose output is not a map (a string: the size of the input);
                                        their data edges are mapped with ToField (n_dmap of the graph)   *)
  gs_inkey  : list (N * N);          (* node -> key of WithInputKey                                    *)
}.

(* the same graph compiled without any interrupt configuration, rerun tables off: the reference run *)
Definition strip (g : gspec) : gspec :=
  {| gs_graph := gs_graph g; gs_state := gs_state g; gs_st := gs_st g; gs_rerun := [];
     gs_before := []; gs_after := []; gs_leaf := gs_leaf g; gs_inkey := gs_inkey g |}.

Definition is_empty (v : value) : bool :=
  match v with VNil => true | VMap [] => true | _ => false end.

(* the harness's state pre-handler *)
Definition pre_fn (g : gspec) (k : N) (v : value) (s : gst) : value * gst :=
  match s with
  | Some st =>
    if gs_state g && memN k (gs_st g) then
      if is_empty v then
        (match nlist_get k (st_saved st) with Some x => x | None => VNil end, s)
      else
        let c := match nlist_get k (st_seen st) with Some c => c + 1 | None => 1 end in
        let out := match v with VMap kvs => VMap (ainsert kStamp (VAtom c) kvs) | _ => v end in
        (out, Some {| st_seen := ainsert k c (st_seen st); st_saved := ainsert k out (st_saved st);
                      st_mods := st_mods st |})
    else (v, s)
  | None => (v, s)
  end.

Definition ifold (g : graph) (cs : chans value) (completed : list (N * value)) : res (chans value) :=
  do r <- resolve_all value tree_ops g completed cs;
  let '(cs1, ws, ds) := r in
  update_chans value g ws ds cs1.

Definition igetr (g : graph) (cs : chans value) : res (chans value * list (N * value)) :=
  get_all value tree_ops g cs.

(* step budget of one segment: Pregel = the step limit (restarted by every call); all-predecessor
   mode has no limit in the implementation: every iteration collects a task and a node runs at
   most once per segment, so this bound is never reached (reaching it is reported as a mismatch) *)
Definition seg_fuel (g : graph) : nat :=
  match g_mode g with
  | Pregel => max_steps g
  | Dag => (2 * List.length (g_nodes g) + 4)%nat
  end.

(* what a lambda computes when it completes *)
Definition lam_body (g : gspec) (k : N) (v : value) : value :=
  if memN k (gs_leaf g) then VAtom (vsize v) else VMap [(k, v)].

Definition eNoKey : N := 30.      (* "cannot find input key" *)

(* WithInputKey: the node body sees input[key]. A nested graph that continues from its nested
   checkpoint is handed a placeholder input it ignores (fix 51c8622: the missing key is not an error then) *)
Definition key_input (g : gspec) (k : N) (cpo : option ncp) (v : value) : res value :=
  match nlist_get k (gs_inkey g) with
  | None => Ok v
  | Some f =>
    match (match v with VMap kvs => nlist_get f kvs | _ => None end) with
    | Some x => Ok x
    | None => match cpo with Some _ => Ok VNil | None => Err eNoKey end
    end
  end.

Definition lambda_exec (g : gspec) (k : N) (v : value) (e : env) : tex * env :=
  let a := match nlist_get k (e_att e) with Some a => a + 1 | None => 1 end in
  let ab := match nlist_get k (gs_rerun g) with Some l => memN a l | None => false end in
  ((if ab then TRerun else TDone (lam_body g k v)),
   {| e_att := ainsert k a (e_att e); e_log := e_log e ++ [LExec k v ab]; e_mod := e_mod e; e_sched := e_sched e |}).

Section Seg.
  Variable exec : N -> option ncp -> value -> env -> tex * env.
  Variable gi : N.
  Variable g : gspec.

  Definition gs0 : gst := if gs_state g then Some st_empty else None.

  Definition enter (s : @lstate value (chans value) gst ncp) (e : env) : outc * list evt * env :=
    let gr := gs_graph g in
    if g_eager gr then
      let '(sched, e1) := match ls_next s with [] => ([], e) | _ => pop_sched gi e end in
      eiterate VNil (ifold gr) (igetr gr) (pre_fn g) exec (gs_before g) (gs_after g) false (seg_fuel gr)
               (to_estate s) sched e1 []
    else
      iterate VNil (ifold gr) (igetr gr) (pre_fn g) exec (gs_before g) (gs_after g) (seg_fuel gr) s e [].

  (* a fresh run segment of this graph on input x *)
  Definition seg_fresh (x : value) (e : env) : outc * list evt * env :=
    let gr := gs_graph g in
    match init_chans value gr with
    | Ok cs0 =>
      match init (ifold gr) (igetr gr) (gs_before g) cs0 gs0 x with
      | Continue s => enter s e
      | r => (out_of r, [], e)
      end
    | r => (OFailed (chan_err r), [], e)
    end.

  (* a run segment continued from a checkpoint *)
  Definition seg_resumed (sm : gst -> gst) (c : cpt) (e : env) : outc * list evt * env :=
    let s := restore c in enter (with_gs s (sm (ls_gs s))) e.
End Seg.

(* the pre-handlers that ran in a segment of graph g (handlers exist only in a graph with state) *)
Definition pres_of (g : gspec) (l : list evt) : list N :=
  if gs_state g then map (@ev_key value) (filter (fun ev => negb (ev_skip ev)) l) else [].
Definition log_pres (g : gspec) (l : list evt) (e : env) : env :=
  {| e_att := e_att e; e_log := e_log e ++ map LPre (pres_of g l); e_mod := e_mod e; e_sched := e_sched e |}.

Definition sm_of (e : env) : gst -> gst := if e_mod e then bump else (fun s => s).

(* node bodies; [d] bounds the nesting depth *)
Fixpoint node_exec (d : nat) (F : list gspec) (g : gspec) (k : N) (cpo : option ncp) (v : value) (e : env)
  {struct d} : tex * env :=
  match find_node (gs_graph g) k, key_input g k cpo v with
  | None, _ => (TFail eUnknownNode, e)
  | Some _, Err x => (TFail x, e)
  | Some _, Panic => (TFail ePanic, e)
  | Some n, Ok v =>
    match n_kind n with
    | KSub j =>
      match d with
      | O => (TFail eNestFuel, e)
      | S d' =>
        match nth_error F j with
        | None => (TFail eUnknownNode, e)
        | Some sub =>
          let '(o, l, e1) :=
            match cpo with
            | Some (NCP c) => seg_resumed (node_exec d' F sub) (N.of_nat j) sub (sm_of e) c e
            | None => seg_fresh (node_exec d' F sub) (N.of_nat j) sub v e
            end in
          let e' := log_pres sub l e1 in
          (match o with
           | ODone r => TDone (VMap [(k, r)])              (* WithOutputKey(key) *)
           | OInterrupted i c => TSub (NCP c) (NInfo i)
           | OFailed x => TFail x
           | OLimit => TFail (match g_mode (gs_graph sub) with Pregel => eMaxSteps | Dag => eLoopFuel end)
           end, e')
        end
      end
    | _ => lambda_exec g k v e
    end
  end.

(* ---------- the whole run of a case: Execute of harness/intr/run.go ---------- *)
Definition max_resumes : nat := 12.

Definition mod_at (mods : list bool) (k : nat) : bool :=
  match mods with
  | [] => false
  | _ => nth (k mod List.length mods)%nat mods false
  end.

Definition cobs := @call_obs value (chans value) gst ncp ninfo.

(* what the options of call k change in the environment: the state modifier flag; a marker in the
   flat execution log separates the calls *)
Definition tick_of (mods : list bool) (k : nat) (e : env) : env :=
  {| e_att := e_att e; e_log := e_log e ++ [LCall]; e_mod := mod_at mods k; e_sched := e_sched e |}.
Definition mods_of (mods : list bool) (k : nat) : gst -> gst := if mod_at mods k then bump else (fun s => s).

(* the run driven through a store that keeps the checkpoint as it is (the byte store of the harness
   composed with the serializer is the identity on these values: property C12) *)
Definition run_drive (F : list gspec) (with_id : bool) (mods : list bool) (x : value) (e : env)
  : list cobs * env :=
  match F with
  | [] => ([], e)
  | g0 :: _ =>
    let ex := node_exec (List.length F) F g0 in
    drive (fun c => c) (fun c => Some c) (seg_fresh ex 0 g0 x) (seg_resumed ex 0 g0)
          (tick_of mods) with_id max_resumes O (mods_of mods) None e
  end.

(* the flat log cut at the call markers: one list of entries per call *)
Fixpoint split_log (l : list lentry) (cur : list lentry) (started : bool) : list (list lentry) :=
  match l with
  | [] => if started then [rev cur] else []
  | LCall :: l' => if started then rev cur :: split_log l' [] true else split_log l' [] true
  | en :: l' => split_log l' (en :: cur) started
  end.
Definition call_logs (e : env) : list (list lentry) := split_log (e_log e) [] false.
