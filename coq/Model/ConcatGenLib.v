(* Model/ConcatGenLib.v — the vocabulary of the statement-by-statement translation of
   internal/concat.go (tools/go2v, extractor "concatcode" -> Gen/ConcatCode.v).

   1. control: a Go statement list becomes a term of type [ctl S R]: it either falls through
      with the values of the variables it assigned ([Next]) or returns ([Return], a panic of a
      reflect operation included).  Loops are folds that stop at the first [Return].
   2. reflect: what each reflect operation the translated functions use means on the chunk
      values of Model/Concat.v.  An operation that panics in Go (index out of range, operation
      on the invalid Value, Set of a value of another type ...) is [Panic] here: nothing is
      made total silently.

   Rendering of Go values:
     reflect.Value of a slice ([]T made by toSliceValue, []map... given to concatMaps)   sval = element type, elements
     []any                                                                                list cval (nil interface = CNil)
     reflect.Value of an element / a map                                                  cval
     reflect.Value that may be the invalid Value                                          option cval / option (list cval)
     the map key -> []any that concatMaps collects the values in                          list (string * list cval)
     reflect.Type of a dynamic value (nil for a nil interface)                            option cty
   Definitions only; the agreement proofs are in Proofs/GenAgreeConcatCode.v. *)
From Eino Require Import Base.Util Model.ConcatTable Model.Concat.

(* ---------------------------------------------------------------- control *)

Inductive ctl (S R : Type) : Type :=
| Next (s : S)
| Return (r : res R).
Arguments Next {S R} s.
Arguments Return {S R} r.

Definition cbind {S T R} (c : ctl S R) (k : S -> ctl T R) : ctl T R :=
  match c with Next s => k s | Return r => Return r end.

(* an operation that may panic, or a call whose error is handed on at once
   (x, err := f(..); if err != nil { return zero, err }) *)
Definition cdo {A T R} (e : res A) (k : A -> ctl T R) : ctl T R :=
  match e with Ok a => k a | Err c => Return (Err c) | Panic => Return Panic end.

Fixpoint cfold {X S R} (f : S -> X -> ctl S R) (xs : list X) (s : S) : ctl S R :=
  match xs with
  | [] => Next s
  | x :: xs' => cbind (f s x) (cfold f xs')
  end.

(* a function body: control must not fall off its end *)
Definition crun {S R} (c : ctl S R) : res R :=
  match c with Return r => r | Next _ => Panic end.

Definition enumerate {A} (l : list A) : list (nat * A) := combine (seq 0 (List.length l)) l.

(* ---------------------------------------------------------------- reflect *)

Definition sval : Type := (cty * list cval)%type.
Definition sv_elem (v : sval) : cty := fst v.
Definition sv_list (v : sval) : list cval := snd v.
Definition sv_len (v : sval) : nat := List.length (snd v).

Inductive rkind : Type := KdMap | KdInterface | KdOther.
Definition rkind_eqb (a b : rkind) : bool :=
  match a, b with KdMap, KdMap | KdInterface, KdInterface | KdOther, KdOther => true | _, _ => false end.

(* Kind of a dynamic type (never Interface) *)
Definition ty_kind (t : cty) : rkind := match t with TMap _ => KdMap | _ => KdOther end.
(* reflect.Type.Kind on a possibly nil Type *)
Definition oty_kind (t : option cty) : res rkind :=
  match t with Some t => Ok (ty_kind t) | None => Panic end.

Definition oty_eqb (a b : option cty) : bool :=
  match a, b with
  | Some x, Some y => cty_eqb x y
  | None, None => true
  | _, _ => false
  end.

Definition is_some {A} (o : option A) : bool := match o with Some _ => true | None => false end.

Definition r_nth (l : list cval) (i : nat) : res cval :=
  match nth_error l i with Some x => Ok x | None => Panic end.
Definition r_index (v : sval) (i : nat) : res cval := r_nth (snd v) i.

(* reflect.MakeSlice(reflect.SliceOf(t), n, n): reflect.SliceOf(nil) panics *)
Definition r_make_slice (t : option cty) (n : nat) : res sval :=
  match t with Some t => Ok (t, repeat (zero_of t) n) | None => Panic end.

Fixpoint list_set {A} (l : list A) (i : nat) (x : A) : option (list A) :=
  match l, i with
  | [], _ => None
  | _ :: l', O => Some (x :: l')
  | y :: l', S i' => match list_set l' i' x with Some r => Some (y :: r) | None => None end
  end.

(* v.Index(i).Set(reflect.ValueOf(x)): x must have the element type *)
Definition r_set_index (v : sval) (i : nat) (x : cval) : res sval :=
  if oty_eqb (dyn_ty x) (Some (fst v))
  then match list_set (snd v) i x with Some l => Ok (fst v, l) | None => Panic end
  else Panic.

Section User.
Context {U : UserFn}.

(* GetConcatFunc(t): the registry (Model/ConcatTable.v, tied by the extractor "concat") and the
   functions registered by the application, wrapped as functions on a slice Value *)
Definition get_concat_func (t : cty) : option (sval -> res (option cval)) :=
  match registered t with
  | Some FConcatStrings => Some (fun v => Ok (Some (CStr (concat_strings (strs (snd v))))))
  | Some FUseLast => Some (fun v => Ok (Some (last (snd v) CNil)))
  | Some FUseFirst => Some (fun v => Ok (Some (hd CNil (snd v))))
  | None =>
      match user_registered t with
      | Some (tag, g) => Some (fun v => res_map (fun p => Some (COther tag p)) (g (payloads (snd v))))
      | None => None
      end
  end.

End User.

Definition r_call (f : option (sval -> res (option cval))) (v : sval) : res (option cval) :=
  match f with Some g => g v | None => Panic end.

(* reflect.MakeMap(t) *)
Definition r_make_map (t : cty) : res cval :=
  match t with TMap mt => Ok (CMap mt []) | _ => Panic end.

(* m.MapKeys(): every key once (first-appearance order of the rendering; Go's order is arbitrary,
   see Model/ConcatOrder.v for the independence of it) *)
Definition keys_once {A} (l : list (string * A)) : list string :=
  fold_left (fun ks kv => add_key (fst kv) ks) l [].
Definition r_map_keys (m : cval) : res (list string) :=
  match m with CMap _ l => Ok (keys_once l) | _ => Panic end.
Definition r_map_index (m : cval) (k : string) : res (option cval) :=
  match m with CMap _ l => Ok (alist_get k l) | _ => Panic end.

Fixpoint alist_put {A} (k : string) (a : A) (l : list (string * A)) : list (string * A) :=
  match l with
  | [] => [(k, a)]
  | (k', a') :: l' => if String.eqb k k' then (k, a) :: l' else (k', a') :: alist_put k a l'
  end.
Fixpoint alist_del {A} (k : string) (l : list (string * A)) : list (string * A) :=
  match l with
  | [] => []
  | (k', a') :: l' => if String.eqb k k' then alist_del k l' else (k', a') :: alist_del k l'
  end.

(* m.SetMapIndex(k, v): the invalid Value deletes the key *)
Definition r_set_map (m : cval) (k : string) (v : option cval) : res cval :=
  match m with
  | CMap mt l => Ok (CMap mt (match v with Some x => alist_put k x l | None => alist_del k l end))
  | _ => Panic
  end.
Definition r_set_anys (m : list (string * list cval)) (k : string) (v : option (list cval)) : list (string * list cval) :=
  match v with Some x => alist_put k x m | None => alist_del k m end.

(* reflect.Append(s, v) *)
Definition r_append (s : option (list cval)) (v : option cval) : res (option (list cval)) :=
  match s, v with Some l, Some x => Ok (Some (l ++ [x])) | _, _ => Panic end.
(* s.Interface().([]any) *)
Definition r_anys (s : option (list cval)) : res (list cval) :=
  match s with Some l => Ok l | None => Panic end.

(* reflect.Zero(t.Elem()) for a map type t whose values can be nil: the nil value *)
Definition r_zero_elem (t : cty) : cval := CNil.

(* an element Value as the result of a function returning (reflect.Value, error) *)
Definition r_some (v : cval) : option cval := Some v.

(* *a < *b on two *int: a nil dereference panics (None) *)
Definition oz_cmp (f : Z -> Z -> bool) (a b : option Z) : option bool :=
  match a, b with Some x, Some y => Some (f x y) | _, _ => None end.
