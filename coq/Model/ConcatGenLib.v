(* Model/ConcatGenLib.v — the vocabulary of the statement-by-statement translation of
   internal/concat.go (tools/go2v, extractor "concatcode" -> Gen/ConcatCode.v).

   1. control: a Go statement list becomes a term of type [ctl S R]: it either falls through
      with the values of the variables it assigned ([Next]) or returns ([Return], a panic of a
      reflect operation included).  Loops are folds that stop at the first [Return].
   2. reflect: what each reflect operation the translated functions use means on the chunk
      values of Model/Concat.v.  An operation that panics in Go (index out of range, operation
      on the invalid Value, Set of a value of another type ...) is [Panic] here: nothing is
      made total silently.

   Rendering of Go values:
     reflect.Value of a slice ([]T made by toSliceValue, []map... given to concatMaps)   sval = element type, elements
     []any                                                                                list cval (nil interface = CNil)
     reflect.Value of an element / a map                                                  cval
     reflect.Value that may be the invalid Value                                          option cval / option (list cval)
     the map key -> []any that concatMaps collects the values in                          list (string * list cval)
     reflect.Type of a dynamic value (nil for a nil interface)                            option cty
   Definitions only; the agreement proofs are in Proofs/GenAgreeConcatCode.v. *)
From Eino Require Import Base.Util Model.ConcatTable Model.Concat Model.ConcatMsg Model.ConcatStream.

(* ---------------------------------------------------------------- control *)

Inductive ctl (S R : Type) : Type :=
| Next (s : S)
| Return (r : res R).
Arguments Next {S R} s.
Arguments Return {S R} r.

Definition cbind {S T R} (c : ctl S R) (k : S -> ctl T R) : ctl T R :=
  match c with Next s => k s | Return r => Return r end.

(* an operation that may panic, or a call whose error is handed on at once
   (x, err := f(..); if err != nil { return zero, err }) *)
Definition cdo {A T R} (e : res A) (k : A -> ctl T R) : ctl T R :=
  match e with Ok a => k a | Err c => Return (Err c) | Panic => Return Panic end.

Fixpoint cfold {X S R} (f : S -> X -> ctl S R) (xs : list X) (s : S) : ctl S R :=
  match xs with
  | [] => Next s
  | x :: xs' => cbind (f s x) (cfold f xs')
  end.

(* a function body: control must not fall off its end *)
Definition crun {S R} (c : ctl S R) : res R :=
  match c with Return r => r | Next _ => Panic end.

Definition enumerate {A} (l : list A) : list (nat * A) := combine (seq 0 (List.length l)) l.

(* ---------------------------------------------------------------- reflect *)

Definition sval : Type := (cty * list cval)%type.
Definition sv_elem (v : sval) : cty := fst v.
Definition sv_list (v : sval) : list cval := snd v.
Definition sv_len (v : sval) : nat := List.length (snd v).

Inductive rkind : Type := KdMap | KdInterface | KdOther.
Definition rkind_eqb (a b : rkind) : bool :=
  match a, b with KdMap, KdMap | KdInterface, KdInterface | KdOther, KdOther => true | _, _ => false end.

(* Kind of a dynamic type (never Interface) *)
Definition ty_kind (t : cty) : rkind := match t with TMap _ => KdMap | _ => KdOther end.
(* reflect.Type.Kind on a possibly nil Type *)
Definition oty_kind (t : option cty) : res rkind :=
  match t with Some t => Ok (ty_kind t) | None => Panic end.

Definition oty_eqb (a b : option cty) : bool :=
  match a, b with
  | Some x, Some y => cty_eqb x y
  | None, None => true
  | _, _ => false
  end.

Definition is_some {A} (o : option A) : bool := match o with Some _ => true | None => false end.

Definition r_nth (l : list cval) (i : nat) : res cval :=
  match nth_error l i with Some x => Ok x | None => Panic end.
Definition r_index (v : sval) (i : nat) : res cval := r_nth (snd v) i.

(* reflect.MakeSlice(reflect.SliceOf(t), n, n): reflect.SliceOf(nil) panics *)
Definition r_make_slice (t : option cty) (n : nat) : res sval :=
  match t with Some t => Ok (t, repeat (zero_of t) n) | None => Panic end.

Fixpoint list_set {A} (l : list A) (i : nat) (x : A) : option (list A) :=
  match l, i with
  | [], _ => None
  | _ :: l', O => Some (x :: l')
  | y :: l', S i' => match list_set l' i' x with Some r => Some (y :: r) | None => None end
  end.

(* v.Index(i).Set(reflect.ValueOf(x)): x must have the element type *)
Definition r_set_index (v : sval) (i : nat) (x : cval) : res sval :=
  if oty_eqb (dyn_ty x) (Some (fst v))
  then match list_set (snd v) i x with Some l => Ok (fst v, l) | None => Panic end
  else Panic.

Section User.
Context {U : UserFn}.

(* GetConcatFunc(t): the registry (Model/ConcatTable.v, tied by the extractor "concat") and the
   functions registered by the application, wrapped as functions on a slice Value *)
Definition get_concat_func (t : cty) : option (sval -> res (option cval)) :=
  match registered t with
  | Some FConcatStrings => Some (fun v => Ok (Some (CStr (concat_strings (strs (snd v))))))
  | Some FUseLast => Some (fun v => Ok (Some (last (snd v) CNil)))
  | Some FUseFirst => Some (fun v => Ok (Some (hd CNil (snd v))))
  | None =>
      match user_registered t with
      | Some (tag, g) => Some (fun v => res_map (fun p => Some (COther tag p)) (g (payloads (snd v))))
      | None => None
      end
  end.

End User.

Definition r_call (f : option (sval -> res (option cval))) (v : sval) : res (option cval) :=
  match f with Some g => g v | None => Panic end.

(* reflect.MakeMap(t) *)
Definition r_make_map (t : cty) : res cval :=
  match t with TMap mt => Ok (CMap mt []) | _ => Panic end.

(* m.MapKeys(): every key once (first-appearance order of the rendering; Go's order is arbitrary,
   see Model/ConcatOrder.v for the independence of it) *)
Definition keys_once {A} (l : list (string * A)) : list string :=
  fold_left (fun ks kv => add_key (fst kv) ks) l [].
Definition r_map_keys (m : cval) : res (list string) :=
  match m with CMap _ l => Ok (keys_once l) | _ => Panic end.
Definition r_map_index (m : cval) (k : string) : res (option cval) :=
  match m with CMap _ l => Ok (alist_get k l) | _ => Panic end.

Fixpoint alist_put {A} (k : string) (a : A) (l : list (string * A)) : list (string * A) :=
  match l with
  | [] => [(k, a)]
  | (k', a') :: l' => if String.eqb k k' then (k, a) :: l' else (k', a') :: alist_put k a l'
  end.
Fixpoint alist_del {A} (k : string) (l : list (string * A)) : list (string * A) :=
  match l with
  | [] => []
  | (k', a') :: l' => if String.eqb k k' then alist_del k l' else (k', a') :: alist_del k l'
  end.

(* m.SetMapIndex(k, v): the invalid Value deletes the key *)
Definition r_set_map (m : cval) (k : string) (v : option cval) : res cval :=
  match m with
  | CMap mt l => Ok (CMap mt (match v with Some x => alist_put k x l | None => alist_del k l end))
  | _ => Panic
  end.
Definition r_set_anys (m : list (string * list cval)) (k : string) (v : option (list cval)) : list (string * list cval) :=
  match v with Some x => alist_put k x m | None => alist_del k m end.

(* reflect.Append(s, v) *)
Definition r_append (s : option (list cval)) (v : option cval) : res (option (list cval)) :=
  match s, v with Some l, Some x => Ok (Some (l ++ [x])) | _, _ => Panic end.
(* s.Interface().([]any) *)
Definition r_anys (s : option (list cval)) : res (list cval) :=
  match s with Some l => Ok l | None => Panic end.

(* reflect.Zero(t.Elem()) for a map type t whose values can be nil: the nil value *)
Definition r_zero_elem (t : cty) : cval := CNil.

(* an element Value as the result of a function returning (reflect.Value, error) *)
Definition r_some (v : cval) : option cval := Some v.

(* *a < *b on two *int: a nil dereference panics (None) *)
Definition oz_cmp (f : Z -> Z -> bool) (a b : option Z) : option bool :=
  match a, b with Some x, Some y => Some (f x y) | _, _ => None end.

(* ---------------------------------------------------------------- streams (the drain loops) *)

(* for { ... break ... }: the body falls through to the next round (inl), leaves the loop (inr) or
   returns; [fuel] bounds the rounds (a loop that does not leave within it never ends: Panic) *)
Fixpoint c_loop {S R} (fuel : nat) (body : S -> ctl (S + S) R) (s : S) : ctl S R :=
  match fuel with
  | O => Return Panic
  | Datatypes.S n =>
      match body s with
      | Next (inl s') => c_loop n body s'
      | Next (inr s') => Next s'
      | Return r => Return r
      end
  end.

(* the error result of StreamReader.Recv *)
Inductive rerr : Type := ENone | EEof | EOther.
Definition rerr_is_nil (e : rerr) : bool := match e with ENone => true | _ => false end.
Definition rerr_is_eof (e : rerr) : bool := match e with EEof => true | _ => false end.

(* sr.Recv() on a reader that still has the items [s] to deliver (then io.EOF, for ever):
   the chunk (the zero value beside an error), the error, what remains *)
Definition r_recv {X} (zero : X) (s : list (sitem X)) : X * rerr * list (sitem X) :=
  match s with
  | [] => (zero, EEof, [])
  | SErr :: s' => (zero, EOther, s')
  | SVal a :: s' => (a, ENone, s')
  end.

(* return v, err  where err is (a wrapping of) the error of a Recv *)
Definition r_ret {X} (v : X) (e : rerr) : res X :=
  match e with ENone => Ok v | _ => Err E_READ end.

Definition g_nth {X} (l : list X) (i : nat) : res X :=
  match nth_error l i with Some x => Ok x | None => Panic end.
(* l[i] = x *)
Definition g_set {X} (l : list X) (i : nat) (x : X) : res (list X) :=
  match list_set l i x with Some r => Ok r | None => Panic end.

(* ---------------------------------------------------------------- tool calls (schema.concatToolCalls) *)

(* ToolCall{Index: &i} *)
Definition tc_new (i : option Z) : toolcall := mkTC i EmptyString EmptyString EmptyString EmptyString 0%N.
Definition tc_set_id (c : toolcall) (s : string) : toolcall := mkTC (tc_idx c) s (tc_type c) (tc_name c) (tc_args c) (tc_extra c).
Definition tc_set_type (c : toolcall) (s : string) : toolcall := mkTC (tc_idx c) (tc_id c) s (tc_name c) (tc_args c) (tc_extra c).
Definition tc_set_name (c : toolcall) (s : string) : toolcall := mkTC (tc_idx c) (tc_id c) (tc_type c) s (tc_args c) (tc_extra c).
Definition tc_set_args (c : toolcall) (s : string) : toolcall := mkTC (tc_idx c) (tc_id c) (tc_type c) (tc_name c) s (tc_extra c).

(* map[int][]int: index -> positions of its fragments; m[k] of a missing key is nil *)
Fixpoint zm_get (k : Z) (m : list (Z * list nat)) : list nat :=
  match m with
  | [] => []
  | (k', v) :: m' => if Z.eqb k k' then v else zm_get k m'
  end.
Fixpoint zm_put (k : Z) (v : list nat) (m : list (Z * list nat)) : list (Z * list nat) :=
  match m with
  | [] => [(k, v)]
  | (k', v') :: m' => if Z.eqb k k' then (k, v) :: m' else (k', v') :: zm_put k v m'
  end.

(* *p on a *int *)
Definition r_deref (o : option Z) : res Z := match o with Some z => Ok z | None => Panic end.

(* sort.SliceStable with a comparator that may panic: stable insertion sort (every stable sort
   computes this list); sort.Slice: SOME sort that is not stable (equal elements reversed) *)
Fixpoint sinsert_o (less : toolcall -> toolcall -> option bool) (x : toolcall) (l : list toolcall) : res (list toolcall) :=
  match l with
  | [] => Ok [x]
  | y :: l' =>
      match less y x with
      | None => Panic
      | Some true => res_map (cons y) (sinsert_o less x l')
      | Some false => Ok (x :: y :: l')
      end
  end.
Fixpoint ssort_o (less : toolcall -> toolcall -> option bool) (l : list toolcall) : res (list toolcall) :=
  match l with
  | [] => Ok []
  | x :: l' => res_bind (ssort_o less l') (sinsert_o less x)
  end.
Definition r_sort_stable := ssort_o.
Definition r_sort_unstable (less : toolcall -> toolcall -> option bool) (l : list toolcall) : res (list toolcall) :=
  ssort_o less (rev l).
