(* Model/BuilderWfGenLib.v — property C20: the vocabulary of the translation of compose/workflow.go
   (Workflow.compile and the three closures WorkflowNode.addDependencyRelation records) made by tools/go2v,
   extractor "c20workflow" -> Gen/C20Workflow.v: what the statements used there mean on the model's Workflow
   state [wstate] (Model/Builder.v).  The Workflow is threaded as [w]; the WorkflowNode [n] of a loop over
   wf.workflowNodes is addressed by its key.

     Go                                                          here
     wf.g.buildError / wf.g.compiled                             [g_err (w_g w)] / [g_compiled (w_g w)]
     _, ok := wf.workflowNodes[k]                                [wn_has]
     wf.g.buildError = err                                       [w_set_build_error]
     _ = wf.g.addBranch(from, branch, skip)                      [w_add_branch] (the error is dropped, as in the code)
     for _, addInput := range n.addInputs { err := addInput() }  [wfor_each (call_input k) (pending_of k w)]
     n.addInputs = nil                                           [inputs_clear]
     len(n.staticValues) > 0                                     [has_statics]
     n.checkAndAddMappedPath(paths of n.staticValues)            [check_static_paths]
     len(wf.g.fieldMappingRecords[n.key]) == 0                   [no_mapping_recorded]
     wf.g.handlerPreNode[n.key] = [pair] ++ …                    [prenode_push_front]
     wf.g.handlerPreNode[n.key] = append(…, converter)           [prenode_push_back]
     wf.g.getNodeGenericHelper(n.key) != nil                     [helper_known]
     n.staticValues = make(map[string]any)                       [statics_consume]
     return wf.g.compile(ctx, options)                           [w_graph_compile]
     n.checkAndAddMappedPath(paths of inputs)  (in a closure)    [check_mapped]
     n.g.addEdgeWithMappings(from, n.key, noControl, noData, …)  [add_edge_with_mappings]
     wf.workflowNodes[key] = fresh node / lookup                 [wn_put] / [wn_has]
     _ = wf.g.Add<Component>Node(key, …)                         [w_graph_addNode]
     wf.workflowBranches = append(…, wb)                         [w_branches_append]
     n.addInputs = append(n.addInputs, closure)                  [inputs_append]
     n.staticValues[path] = value                                [statics_put]
   Definitions only. *)
From Eino Require Import Base.Util Model.Builder Model.BuilderGenLib.
Local Open Scope string_scope.
Local Open Scope list_scope.

Definition wn_get (k : string) (w : wstate) : option wnode := alist_get k (w_nodes w).
Definition wn_has (k : string) (w : wstate) : bool := is_some (wn_get k w).
Definition wn_put (k : string) (n : wnode) (w : wstate) : wstate := w_set_nodes (alist_set k n (w_nodes w)) w.
Definition wn_update (k : string) (f : wnode -> wnode) (w : wstate) : wstate :=
  match wn_get k w with Some n => wn_put k (f n) w | None => w end.

Definition w_set_build_error (e : option ecls) (w : wstate) : wstate := w_set_g (set_err e (w_g w)) w.
Definition w_add_branch (from : string) (ends : list string) (skip : bool) (w : wstate) : wstate :=
  w_set_g (fst (g_add_branch (w_g w) from ends skip)) w.

Fixpoint wfor_each {A} (body : wstate -> A -> wstate * option ecls) (l : list A) (w : wstate) : wstate * option ecls :=
  match l with
  | [] => (w, None)
  | a :: r =>
    match body w a with
    | (w', Some e) => (w', Some e)
    | (w', None) => wfor_each body r w'
    end
  end.

(* the closures waiting on node k, as the loop `range n.addInputs` sees them when it starts *)
Definition pending_of (k : string) (w : wstate) : list winput :=
  match wn_get k w with Some n => wn_pending n | None => [] end.

(* addInput(): the closure addDependencyRelation made for declaration i of node k; [closure] is its translated
   body, working on the graph and on the node's mapped paths *)
Definition call_closure (closure : gstate -> string -> mapped -> winput -> gstate * mapped * option ecls)
           (k : string) (w : wstate) (i : winput) : wstate * option ecls :=
  match wn_get k w with
  | None => (w, None)
  | Some n =>
    let '(g', m', e) := closure (w_g w) k (wn_mapped n) i in
    (wn_put k (mkWN (wn_pending n) m' (wn_static n)) (w_set_g g' w), e)
  end.

Definition inputs_clear (k : string) (w : wstate) : wstate :=
  wn_update k (fun n => mkWN [] (wn_mapped n) (wn_static n)) w.

Definition has_statics (k : string) (w : wstate) : bool :=
  match wn_get k w with Some n => negb (is_nil (wn_static n)) | None => false end.

Definition check_static_paths (k : string) (w : wstate) : wstate * option ecls :=
  match wn_get k w with
  | None => (w, None)
  | Some n =>
    let '(m', e) := check_mapped (wn_mapped n) (wn_static n) in
    (wn_put k (mkWN (wn_pending n) m' (wn_static n)) w, e)
  end.

Definition no_mapping_recorded (k : string) (w : wstate) : bool :=
  match alist_get k (g_fm (w_g w)) with Some (_ :: _) => false | _ => true end.
Definition prenode_push_front (k : string) (w : wstate) : wstate :=
  w_set_g (set_h_prenode (k :: g_h_prenode (w_g w)) (w_g w)) w.
Definition prenode_push_back (k : string) (w : wstate) : wstate :=
  w_set_g (set_h_prenode (g_h_prenode (w_g w) ++ [k]) (w_g w)) w.
Definition helper_known (k : string) (w : wstate) : bool := in_typed (w_g w) k.
Definition statics_consume (k : string) (w : wstate) : wstate :=
  wn_update k (fun n => mkWN (wn_pending n) (wn_mapped n) []) w.

Definition w_graph_compile (w : wstate) (o : copt) : wstate * outcome :=
  let '(g', out) := g_compile fixed (w_g w) o in (w_set_g g' w, out).

(* inside a closure *)
Definition add_edge_with_mappings (g : gstate) (s e : string) (no_ctrl no_data : bool) (fs : list string) : gstate * option ecls :=
  let '(g', o) := g_add_edge g s e no_ctrl no_data fs in (g', err_of o).

(* ---------------------------------------------------------------- the declaring calls *)
(* _ = wf.g.Add<Component>Node(key, …): the graph's answer is dropped *)
Definition w_graph_addNode (key : string) (nk : nkind) (needState : bool) (w : wstate) : wstate :=
  w_set_g (fst (g_add_node (w_g w) key nk needState false false)) w.
(* wf.workflowBranches = append(wf.workflowBranches, wb) *)
Definition w_branches_append (from : string) (ends : list string) (w : wstate) : wstate :=
  mkW (w_g w) (w_nodes w) (w_branches w ++ [(from, ends)]).
(* n.addInputs = append(n.addInputs, closure) on the handle of node [key] *)
Definition inputs_append (key : string) (i : winput) (w : wstate) : wstate :=
  wn_update key (fun n => mkWN (wn_pending n ++ [i]) (wn_mapped n) (wn_static n)) w.
(* n.staticValues[path] = value *)
Definition statics_put (key f : string) (w : wstate) : wstate :=
  wn_update key (fun n => mkWN (wn_pending n) (wn_mapped n) (if smem f (wn_static n) then wn_static n else wn_static n ++ [f])) w.
(* which closure the options select: the kind of the recorded declaration *)
Definition kind_of_options (o : bool * bool) : wkind :=
  if fst o then WNoDirect else if snd o then WDepOnly else WNormal.
