(* Model/CheckpointStream.v — property C05, clause "in any calling paradigm": what happens to ONE checkpointed
   value (a pending input, a channel value) on its way into the checkpoint and out of it again, in a run with
   streams (Stream / Transform / Collect) and in a run without (Invoke).

   compose/checkpoint.go            convert / restore, per entry          m_convert_entry / m_restore_entry
   compose/generic_helper.go        defaultStreamConvertPair              m_concat_stream / m_restore_stream
   compose/stream_concat.go         concatStreamReader                    m_concat_reader
   (after the repairs 5464095 and fb04a24: the nil value of an interface type is written as nilChunk{} by both kinds
   of run; a plain nil stands for a stream without chunks.)

   Gen/CheckpointStream.v (re-read from the source on every run) is proved equal to these definitions in
   Proofs/GenAgreeC05Stream.v. Definitions only. *)
From Eino Require Import Base.Util Model.CheckpointStreamLib.
Open Scope N_scope.

Section M.
  Variable V : Type.
  Variable concat_items : list (option V) -> res (option V).    (* internal.ConcatItems, on two chunks or more *)

  Definition m_concat_reader (items : list (option V)) : cres V :=
    match items with
    | [] => CEmpty
    | [c] => COk c
    | _ => cres_of (concat_items items)
    end.

  Definition m_concat_stream (items : list (option V)) : res (dyn V) :=
    match m_concat_reader items with
    | CEmpty => Ok DNil
    | CErr e => Err e
    | COk None => Ok DNilChunk
    | COk (Some x) => Ok (DVal x)
    end.

  Definition m_restore_stream (a : dyn V) : res (list (option V)) :=
    match a with
    | DNilChunk => Ok [None]
    | DNil => Ok []
    | DVal x => Ok [Some x]
    | DStream _ => Err eDynType
    end.

  Definition m_convert_entry (isStream : bool) (v : dyn V) : res (dyn V) :=
    if isStream then match v with DStream items => m_concat_stream items | _ => Err eDynType end
    else match v with DNil => Ok DNilChunk | _ => Ok v end.

  Definition m_restore_entry (isStream : bool) (v : dyn V) : res (dyn V) :=
    if isStream then (do s <- m_restore_stream v; Ok (DStream s))
    else match v with DNilChunk => Ok DNil | _ => Ok v end.

  (* ---------- what an entry of a live run denotes: a sequence of chunks ---------- *)
  (* a run without streams holds values: a value is the one-chunk stream of itself *)
  Definition den (v : dyn V) : option (list (option V)) :=
    match v with
    | DNil => Some [None]
    | DVal x => Some [Some x]
    | DStream items => Some items
    | DNilChunk => None              (* the marker never is a live value *)
    end.
  (* live in a run with / without streams *)
  Definition live (isStream : bool) (v : dyn V) : Prop :=
    if isStream then exists items, v = DStream items else v = DNil \/ exists x, v = DVal x.
  (* what a chunk sequence concatenates to: nothing at all (no chunk), a chunk, or an error *)
  Definition cat (items : list (option V)) : cres V := m_concat_reader items.

  (* before fb04a24 a run without streams wrote a nil value as it was *)
  Definition m_convert_entry_v0 (isStream : bool) (v : dyn V) : res (dyn V) :=
    if isStream then match v with DStream items => m_concat_stream items | _ => Err eDynType end else Ok v.

  (* before 57995e9 (F-C05h) a run without streams did not pass the entries of a CHANNEL through restore at all
     (streamConverter.restoreOutputs returned early); pending inputs were passed through it *)
  Definition m_restore_channel_entry_v0 (isStream : bool) (v : dyn V) : res (dyn V) :=
    if isStream then m_restore_entry isStream v else Ok v.
End M.
