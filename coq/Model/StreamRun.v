(* Model/StreamRun.v — property C19, run level: the streaming run loop of compose/graph_run.go
   (runner.run without interrupts) over the handle store of Model/StreamAcct.v.

   A run is driven by a SCHEDULE recorded from the implementation: the batches of completed
   tasks in the order taskManager.wait returned them, each task with the outcome of its branch
   conditions.  Everything else is computed:

     calculateNextTasks  = resolveCompletedTasks (copyItem, calculateBranch -> reportBranch with
                           the skip cascade of channelManager.reportBranch / dagChannel.reportSkip,
                           the writes, the surplus closes)                      [phase 1]
                         ; channelManager.updateValues -> channel.reportValues  [phase 2]
                         ; channelManager.updateDependencies                    [phase 3]
                         ; getFromReadyChannels -> channel.get (mergeValues)    [phase 4]
                         ; END in the ready map => the run returns, every other ready value is dropped.

   Handles are linear: [consume] fails (Err 90) on a handle that is not live.  A Go "drop" (a map
   entry overwritten, a ready value not used) leaves the handle live: it is a leak of the model.
   A node is handed its input at the moment its task is created (the input leaves the engine's
   responsibility: the node reads it to EOF or closes it) and its output is a fresh handle when
   the task completes.  Only streaming mode (isStream = true) is modelled.
   Executable definitions only. *)
From Eino Require Import Base.Util Model.StreamAcct.
Open Scope N_scope.

Definition kSTART : key := 0.
Definition kEND : key := 1.

(* ------------------------------------------------------------------ the compiled graph *)
Record bdecl := { bd_nodata : bool; bd_ends : list key }.

(* chanCall: writeTo = data edges, controls = control edges, writeToBranches *)
Record call := { c_write_to : list key; c_controls : list key; c_branches : list bdecl }.

Record graph := {
  g_dag : bool;                   (* runTypeDAG: dagChannel, else pregelChannel *)
  g_eager : bool;                 (* taskManager.needAll = false (Workflow) *)
  g_calls : list (key * call);    (* START (inputChannels) and every node of chanSubscribeTo *)
}.

Definition all_keys (g : graph) : list key := map fst (g_calls g).
Definition call_of (g : graph) (k : key) : option call := nlist_get k (g_calls g).
Definition chan_keys (g : graph) : list key := kEND :: filter (fun k => negb (N.eqb k kSTART)) (all_keys g).

(* getSuccessors *)
Definition succs (c : call) : list key := c_write_to c ++ c_controls c ++ flat_map bd_ends (c_branches c).

(* graph.compile: controlPredecessors / dataPredecessors *)
Definition call_ctrl (c : call) (x : key) : bool :=
  memb x (c_controls c) || existsb (fun b => memb x (bd_ends b)) (c_branches c).
Definition call_data (c : call) (x : key) : bool :=
  memb x (c_write_to c) || existsb (fun b => negb (bd_nodata b) && memb x (bd_ends b)) (c_branches c).
Definition is_ctrl_pred (g : graph) (p x : key) : bool :=
  match call_of g p with Some c => call_ctrl c x | None => false end.
Definition is_data_pred_g (g : graph) (p x : key) : bool :=
  match call_of g p with Some c => call_data c x | None => false end.

(* ------------------------------------------------------------------ channels *)
Inductive dstate := DWait | DReady | DSkip.
Definition is_dskip (d : dstate) : bool := match d with DSkip => true | _ => false end.
Definition is_dwait (d : dstate) : bool := match d with DWait => true | _ => false end.

(* dagChannel (ControlPredecessors, DataPredecessors, Values, Skipped); a pregelChannel uses
   ch_vals only.  The maps are total functions; which keys are present is given by the graph. *)
Record chan := {
  ch_ctrl : key -> dstate;
  ch_data : key -> bool;
  ch_vals : key -> option handle;
  ch_skipped : bool;
}.

Definition upd {A} (f : key -> A) (k : key) (a : A) : key -> A := fun x => if N.eqb x k then a else f x.

Definition chan0 : chan :=
  {| ch_ctrl := fun _ => DWait; ch_data := fun _ => false; ch_vals := fun _ => None; ch_skipped := false |}.

(* what the run loop leaves behind for the comparison with the implementation *)
Record rlog := {
  l_resolve_closes : nat;     (* closes issued by resolveCompletedTasks *)
  l_update_closes : nat;      (* by channelManager.updateValues *)
  l_chan_closes : nat;        (* by dagChannel.reportValues on a skipped channel *)
  l_skip_closes : nat;        (* by dagChannel.reportSkip when the channel becomes skipped *)
  l_merges : list nat;        (* sizes of the mergeValues calls of channel.get *)
  l_empties : nat;            (* emptyStream() inputs *)
  l_fired : list key;         (* nodes for which a task was created, END included, in order *)
  l_cp_drains : nat;          (* streams concatenated (drained and closed) by checkPointer.convertCheckPoint *)
  l_input_closes : nat;       (* ignored inputs of resumed runs closed by runner.run *)
}.
Definition log0 : rlog :=
  {| l_resolve_closes := 0; l_update_closes := 0; l_chan_closes := 0; l_skip_closes := 0;
     l_merges := []; l_empties := 0; l_fired := []; l_cp_drains := 0; l_input_closes := 0 |}.

Inductive origin := OResolve | OUpdate | OChan | OSkip.
Definition log_close (o : origin) (n : nat) (l : rlog) : rlog :=
  match o with
  | OResolve => {| l_resolve_closes := l_resolve_closes l + n; l_update_closes := l_update_closes l;
                   l_chan_closes := l_chan_closes l; l_skip_closes := l_skip_closes l;
                   l_merges := l_merges l; l_empties := l_empties l; l_fired := l_fired l;
                   l_cp_drains := l_cp_drains l; l_input_closes := l_input_closes l |}
  | OUpdate => {| l_resolve_closes := l_resolve_closes l; l_update_closes := l_update_closes l + n;
                  l_chan_closes := l_chan_closes l; l_skip_closes := l_skip_closes l;
                  l_merges := l_merges l; l_empties := l_empties l; l_fired := l_fired l;
                   l_cp_drains := l_cp_drains l; l_input_closes := l_input_closes l |}
  | OChan => {| l_resolve_closes := l_resolve_closes l; l_update_closes := l_update_closes l;
                l_chan_closes := l_chan_closes l + n; l_skip_closes := l_skip_closes l;
                l_merges := l_merges l; l_empties := l_empties l; l_fired := l_fired l;
                   l_cp_drains := l_cp_drains l; l_input_closes := l_input_closes l |}
  | OSkip => {| l_resolve_closes := l_resolve_closes l; l_update_closes := l_update_closes l;
                l_chan_closes := l_chan_closes l; l_skip_closes := l_skip_closes l + n;
                l_merges := l_merges l; l_empties := l_empties l; l_fired := l_fired l;
                   l_cp_drains := l_cp_drains l; l_input_closes := l_input_closes l |}
  end.
Definition log_get (vals : nat) (k : key) (l : rlog) : rlog :=
  {| l_resolve_closes := l_resolve_closes l; l_update_closes := l_update_closes l;
     l_chan_closes := l_chan_closes l; l_skip_closes := l_skip_closes l;
     l_merges := if Nat.leb 2 vals then l_merges l ++ [vals] else l_merges l;
     l_empties := if Nat.eqb vals 0 then S (l_empties l) else l_empties l;
     l_fired := l_fired l ++ [k]; l_cp_drains := l_cp_drains l; l_input_closes := l_input_closes l |}.

(* ------------------------------------------------------------------ run state *)
Record rstate := {
  rs_store : store;
  rs_chans : key -> chan;
  rs_pending : list key;      (* tasks created and not yet collected *)
  rs_resolved : list key;     (* ghost: tasks resolved so far *)
  rs_log : rlog;
}.

Definition set_store (st : rstate) (s : store) : rstate :=
  {| rs_store := s; rs_chans := rs_chans st; rs_pending := rs_pending st; rs_resolved := rs_resolved st; rs_log := rs_log st |}.
Definition set_chan (st : rstate) (x : key) (c : chan) : rstate :=
  {| rs_store := rs_store st; rs_chans := upd (rs_chans st) x c; rs_pending := rs_pending st;
     rs_resolved := rs_resolved st; rs_log := rs_log st |}.
Definition set_log (st : rstate) (l : rlog) : rstate :=
  {| rs_store := rs_store st; rs_chans := rs_chans st; rs_pending := rs_pending st; rs_resolved := rs_resolved st; rs_log := l |}.

(* a task is created for the node: it is in flight until the run loop collects it *)
Definition add_pending (ks : list key) (st : rstate) : rstate :=
  {| rs_store := rs_store st; rs_chans := rs_chans st; rs_pending := rs_pending st ++ ks;
     rs_resolved := rs_resolved st; rs_log := rs_log st |}.

Fixpoint nodup_handles (l : list handle) : bool :=
  match l with
  | [] => true
  | k :: l' => negb (memb k l') && nodup_handles l'
  end.

Definition E_DOUBLE_USE : N := 90.     (* a handle closed / consumed twice, or not live *)
Definition E_BAD_SCHEDULE : N := 91.   (* the recorded schedule does not fit the model's pending set *)
Definition E_FUEL : N := 92.           (* the skip cascade ran out of fuel *)
Definition E_UNKNOWN_NODE : N := 93.   (* "unknown node" / "target channel doesn't existed" *)

(* a consumer takes a live handle *)
Definition consume (h : handle) (s : store) : res store :=
  if memb h (s_open s)
  then Ok {| s_next := s_next s; s_open := remove_one h (s_open s); s_log := s_log s; s_hist := HConsume h :: s_hist s |}
  else Err E_DOUBLE_USE.

Fixpoint consume_all (hs : list handle) (s : store) : res store :=
  match hs with
  | [] => Ok s
  | h :: hs' => do s' <- consume h s; consume_all hs' s'
  end.

Definition fresh (s : store) : handle * store :=
  (s_next s, {| s_next := s_next s + 1; s_open := s_open s ++ [s_next s]; s_log := s_log s; s_hist := HFresh (s_next s) :: s_hist s |}).

(* mergeValues over the live handles [vs] (two or more), or emptyStream() (none): the sources live on
   in the fresh merged stream *)
Fixpoint remove_all (hs : list handle) (l : list handle) : list handle :=
  match hs with
  | [] => l
  | h :: hs' => remove_all hs' (remove_one h l)
  end.

Definition merge (vs : list handle) (s : store) : res (handle * store) :=
  if forallb (fun v => memb v (s_open s)) vs && nodup_handles vs
  then Ok (s_next s, {| s_next := s_next s + 1; s_open := remove_all vs (s_open s) ++ [s_next s];
                        s_log := s_log s; s_hist := HMerge vs (s_next s) :: s_hist s |})
  else Err E_DOUBLE_USE.

(* sr.close() issued by the engine *)
Definition close_all (o : origin) (hs : list handle) (st : rstate) : res rstate :=
  do s <- consume_all hs (rs_store st);
  Ok (set_log (set_store st s) (log_close o (List.length hs) (rs_log st))).

Definition is_chan (g : graph) (x : key) : bool := memb x (chan_keys g).

(* ------------------------------------------------------------------ channel operations *)
Definition chan_values (g : graph) (c : chan) : list handle :=
  flat_map (fun p => match ch_vals c p with Some h => [h] | None => [] end) (all_keys g).

(* dagChannel.reportSkip([k]) on channel x; pregelChannel.reportSkip = false *)
Definition report_skip (g : graph) (x k : key) (st : rstate) : res (bool * rstate) :=
  if negb (g_dag g) then Ok (false, st) else
  if negb (is_chan g x) then Panic (* nil channel *) else
  let c := rs_chans st x in
  let ctrl := if is_ctrl_pred g k x then upd (ch_ctrl c) k DSkip else ch_ctrl c in
  let data := if is_data_pred_g g k x then upd (ch_data c) k true else ch_data c in
  let all := forallb (fun p => negb (is_ctrl_pred g p x) || is_dskip (ctrl p)) (all_keys g) in
  if all then
    do st1 <- close_all OSkip (chan_values g c) st;
    Ok (true, set_chan st1 x {| ch_ctrl := ctrl; ch_data := data; ch_vals := fun _ => None; ch_skipped := true |})
  else
    Ok (false, set_chan st x {| ch_ctrl := ctrl; ch_data := data; ch_vals := ch_vals c; ch_skipped := false |}).

(* one round of channelManager.reportBranch: reportSkip([from]) on each node of [xs]; a node that
   became (or is) skipped is put on the work list once ([queued], fa983c2) *)
Fixpoint skip_each (g : graph) (from : key) (xs : list key) (queued : list key) (st : rstate)
  : res (list key * list key * rstate) :=
  match xs with
  | [] => Ok ([], queued, st)
  | x :: xs' =>
      do r <- report_skip g x from st;
      let '(sk, st1) := r in
      let isnew := sk && negb (memb x queued) in
      do r2 <- skip_each g from xs' (if isnew then x :: queued else queued) st1;
      let '(ks, q2, st2) := r2 in
      Ok (if isnew then x :: ks else ks, q2, st2)
  end.

(* for i := 0; i < len(nKeys); i++ { for successor of nKeys[i] { reportSkip([nKeys[i]]) ... } } *)
Fixpoint cascade (g : graph) (fuel : nat) (work : list key) (queued : list key) (st : rstate) : res rstate :=
  match work with
  | [] => Ok st
  | k :: rest =>
      match fuel with
      | O => Err E_FUEL
      | S f =>
          match call_of g k with
          | None => Err E_UNKNOWN_NODE       (* successors[key] missing: END, or not a node *)
          | Some c =>
              do r <- skip_each g k (succs c) queued st;
              let '(ks, q1, st1) := r in
              cascade g f (rest ++ ks) q1 st1
          end
      end
  end.

Definition CASCADE_FUEL : nat := 20000.

(* channelManager.reportBranch(from, skippedNodes) *)
Definition report_branch (g : graph) (from : key) (skipped : list key) (st : rstate) : res rstate :=
  do r <- skip_each g from skipped [] st;
  let '(ks, q, st1) := r in
  cascade g CASCADE_FUEL ks q st1.

(* channel.reportValues({from: h}) on channel x *)
Definition report_value (g : graph) (x from : key) (h : handle) (st : rstate) : res rstate :=
  if negb (is_chan g x) then Err E_UNKNOWN_NODE else
  let c := rs_chans st x in
  if g_dag g then
    if ch_skipped c then close_all OChan [h] st
    else if is_data_pred_g g from x then
      Ok (set_chan st x {| ch_ctrl := ch_ctrl c; ch_data := upd (ch_data c) from true;
                           ch_vals := upd (ch_vals c) from (Some h); ch_skipped := false |})
    else Ok st   (* continue: the value is dropped *)
  else
    Ok (set_chan st x {| ch_ctrl := ch_ctrl c; ch_data := ch_data c;
                         ch_vals := upd (ch_vals c) from (Some h); ch_skipped := ch_skipped c |}).

(* channel.reportDependencies([from]) on channel x (the caller has checked from is a control predecessor) *)
Definition report_dep (g : graph) (x from : key) (st : rstate) : res rstate :=
  if negb (is_chan g x) then Err E_UNKNOWN_NODE else
  if negb (g_dag g) then Ok st else
  let c := rs_chans st x in
  if ch_skipped c then Ok st else
  if is_ctrl_pred g from x
  then Ok (set_chan st x {| ch_ctrl := upd (ch_ctrl c) from DReady; ch_data := ch_data c;
                            ch_vals := ch_vals c; ch_skipped := false |})
  else Ok st.

Definition chan_ready (g : graph) (x : key) (c : chan) : bool :=
  if g_dag g then
    negb (ch_skipped c)
    && forallb (fun p => negb (is_ctrl_pred g p x) || negb (is_dwait (ch_ctrl c p))) (all_keys g)
    && forallb (fun p => negb (is_data_pred_g g p x) || ch_data c p) (all_keys g)
  else
    negb (Nat.eqb (List.length (chan_values g c)) 0).

(* channel.get: the value handed to the node (mergeValues consumes the sources), the channel reset;
   the node (END included) is recorded as having a task: rs_pending *)
Definition chan_get (g : graph) (x : key) (st : rstate) : res (option handle * rstate) :=
  let c := rs_chans st x in
  if negb (chan_ready g x c) then Ok (None, st) else
  let vs := chan_values g c in
  let st1 := add_pending [x] (set_chan st x {| ch_ctrl := fun _ => DWait; ch_data := fun _ => false;
                                               ch_vals := fun _ => None; ch_skipped := ch_skipped c |}) in
  let st2 := set_log st1 (log_get (List.length vs) x (rs_log st1)) in
  match vs with
  | [h] => Ok (Some h, st2)
  | _ =>   (* [] : emptyStream() ; two or more : mergeValues *)
      do r <- merge vs (rs_store st2);
      let '(h, s') := r in
      Ok (Some h, set_store st2 s')
  end.

(* getFromReadyChannels *)
Fixpoint get_ready (g : graph) (xs : list key) (st : rstate) : res (list (key * handle) * rstate) :=
  match xs with
  | [] => Ok ([], st)
  | x :: xs' =>
      do r <- chan_get g x st;
      let '(oh, st1) := r in
      do r2 <- get_ready g xs' st1;
      let '(l, st2) := r2 in
      Ok (match oh with Some h => (x, h) :: l | None => l end, st2)
  end.

(* ------------------------------------------------------------------ resolveCompletedTasks *)
Definition mk_task (k : key) (c : call) (outs : list (list key)) : res task :=
  if negb (Nat.eqb (List.length outs) (List.length (c_branches c))) then Err E_BAD_SCHEDULE else
  Ok {| t_node := k; t_write_to := c_write_to c;
        t_branches := map (fun bo => {| b_nodata := bd_nodata (fst bo); b_ends := bd_ends (fst bo); b_sel := snd bo |})
                          (combine (c_branches c) outs) |}.

(* calculateBranch: the end nodes of the branches that no branch selected and that are not direct
   (control) successors of the node either (665541a) *)
Definition skipped_ends (c : call) (t : task) : list key :=
  unique_keys (filter (fun e => negb (memb e (selected t)) && negb (memb e (c_controls c)))
                      (flat_map b_ends (t_branches t))).

(* phase 1 for one completed task whose output is [out] *)
Definition resolve_one (g : graph) (c : call) (t : task) (out : handle) (st : rstate) : res (resolved * rstate) :=
  do r <- resolve_task t out (rs_store st);
  let st1 := set_store st (r_store r) in
  (* the branch conditions read or close their copies *)
  do s2 <- consume_all (r_branch_in r) (rs_store st1);
  let st2 := set_store st1 s2 in
  do st3 <- report_branch g (t_node t) (skipped_ends c t) st2;
  do st4 <- close_all OResolve (r_closed r) st3;
  Ok (r, st4).

Fixpoint report_values (g : graph) (from : key) (ws : list (key * handle)) (st : rstate) : res rstate :=
  match ws with
  | [] => Ok st
  | (x, h) :: ws' => do st1 <- report_value g x from h st; report_values g from ws' st1
  end.

(* phase 2 for one task: updateValues *)
Definition update_one (g : graph) (t : task) (r : resolved) (st : rstate) : res rstate :=
  let u := update_values t (r_writes r) in
  do st1 <- close_all OUpdate (u_closed u) st;
  report_values g (t_node t) (u_chan u) st1.

Fixpoint report_deps (g : graph) (from : key) (xs : list key) (st : rstate) : res rstate :=
  match xs with
  | [] => Ok st
  | x :: xs' => do st1 <- report_dep g x from st; report_deps g from xs' st1
  end.

(* phase 3 for one task: newDependencies = controls ++ the successors selected by the branches *)
Definition deps_one (g : graph) (c : call) (t : task) (st : rstate) : res rstate :=
  report_deps g (t_node t) (c_controls c ++ selected t) st.

(* ------------------------------------------------------------------ one pass of the run loop *)
Definition batch := list (key * list (list key)).   (* completed node, outcome of each of its branches *)

Fixpoint phase1 (g : graph) (b : batch) (st : rstate) : res (list (call * task * resolved) * rstate) :=
  match b with
  | [] => Ok ([], st)
  | (k, outs) :: b' =>
      match call_of g k with
      | None => Err E_BAD_SCHEDULE
      | Some c =>
          do t <- mk_task k c outs;
          (* the output of the task: a fresh handle *)
          let '(out, s1) := fresh (rs_store st) in
          do r <- resolve_one g c t out (set_store st s1);
          let '(rv, st1) := r in
          do r2 <- phase1 g b' st1;
          let '(l, st2) := r2 in
          Ok ((c, t, rv) :: l, st2)
      end
  end.

Fixpoint phase2 (g : graph) (l : list (call * task * resolved)) (st : rstate) : res rstate :=
  match l with
  | [] => Ok st
  | (c, t, r) :: l' => do st1 <- update_one g t r st; phase2 g l' st1
  end.

Fixpoint phase3 (g : graph) (l : list (call * task * resolved)) (st : rstate) : res rstate :=
  match l with
  | [] => Ok st
  | (c, t, r) :: l' => do st1 <- deps_one g c t st; phase3 g l' st1
  end.

Fixpoint remove_keys (ks : list key) (l : list key) : list key :=
  match ks with
  | [] => l
  | k :: ks' => remove_keys ks' (remove_one k l)
  end.

Fixpoint nodup_keys (l : list key) : bool :=
  match l with
  | [] => true
  | k :: l' => negb (memb k l') && nodup_keys l'
  end.

(* taskManager.wait: every pending task (needAll) or exactly one (eager) *)
Definition batch_fits (g : graph) (b : batch) (pending : list key) : bool :=
  let ks := map fst b in
  nodup_keys ks && forallb (fun k => memb k pending) ks &&
  (if g_eager g then Nat.eqb (List.length ks) 1 else Nat.eqb (List.length ks) (List.length pending)).

Inductive outcome :=
| Running (st : rstate)
| Done (out : handle) (dropped : list (key * handle)) (st : rstate).

Definition mark_resolved (ks : list key) (st : rstate) : rstate :=
  {| rs_store := rs_store st; rs_chans := rs_chans st; rs_pending := remove_keys ks (rs_pending st);
     rs_resolved := rs_resolved st ++ ks; rs_log := rs_log st |}.

(* resolveCompletedTasks, updateValues, updateDependencies for the completed tasks [b] *)
Definition resolve_phases (g : graph) (b : batch) (st : rstate) : res rstate :=
  do r1 <- phase1 g b st;
  let '(l, st1) := r1 in
  do st2 <- phase2 g l st1;
  do st3 <- phase3 g l st2;
  Ok (mark_resolved (map fst b) st3).

(* calculateNextTasks(completedTasks) up to the ready map: resolveCompletedTasks, updateAndGet *)
Definition calc_body (g : graph) (b : batch) (st : rstate) : res (list (key * handle) * rstate) :=
  do st3' <- resolve_phases g b st;
  get_ready g (chan_keys g) st3'.

(* the completed tasks are those taskManager.wait returned *)
Definition calc_next (g : graph) (b : batch) (st : rstate) : res (list (key * handle) * rstate) :=
  if negb (batch_fits g b (rs_pending st)) then Err E_BAD_SCHEDULE else calc_body g b st.

(* ... followed by the END test / createTasks *)
Definition superstep (g : graph) (b : batch) (st : rstate) : res outcome :=
  do r4 <- calc_next g b st;
  let '(ready, st4) := r4 in
  match nlist_get kEND ready with
  | Some out =>
      (* if v, ok := nodeMap[END]; ok { return v } : the other ready values are dropped *)
      Ok (Done out (filter (fun kh => negb (N.eqb (fst kh) kEND)) ready) st4)
  | None =>
      (* createTasks: every ready value is handed to its node *)
      do s <- consume_all (map snd ready) (rs_store st4);
      Ok (Running (set_store st4 s))
  end.

(* the stream handles stored in the channels *)
Definition held (g : graph) (st : rstate) : list handle :=
  flat_map (fun x => chan_values g (rs_chans st x)) (chan_keys g).

(* an interrupt exit after calculateNextTasks (handleInterrupt): checkPointer.convertCheckPoint
   concatenates — reads to EOF and closes — every stream stored in a channel (cp.Channels) and every
   input of the tasks that were about to start (cp.Inputs) *)
Definition checkpoint_drain (g : graph) (ready : list (key * handle)) (st : rstate) : res store :=
  consume_all (held g st ++ map snd ready) (rs_store st).

(* ------------------------------------------------------------------ the run *)
(* initChannelManager: in DAG mode the nodes that no edge or branch leads to are skipped up front *)
Definition unreachable (g : graph) : list key :=
  filter (fun x => forallb (fun p => negb (is_ctrl_pred g p x) && negb (is_data_pred_g g p x)) (all_keys g))
         (filter (fun k => negb (N.eqb k kSTART)) (all_keys g)).

(* every channel has a control predecessor, or no predecessor at all (then initChannelManager skips
   it up front): a node fed by data-only inputs without any control predecessor is excluded *)
Definition covered (g : graph) : bool :=
  forallb (fun x => existsb (fun p => is_ctrl_pred g p x) (all_keys g) || memb x (unreachable g)) (chan_keys g).

(* the nodes from which END is reachable along control edges and branches (a fixpoint iteration
   bounded by the number of keys); [all_reach]: every node reaches END *)
Fixpoint reach_iter (g : graph) (n : nat) (S : list key) : list key :=
  match n with
  | O => S
  | Datatypes.S n' =>
      reach_iter g n' (S ++ filter (fun x => existsb (fun y => is_ctrl_pred g x y && is_chan g y) S) (all_keys g))
  end.
Definition reach_set (g : graph) : list key :=
  reach_iter g (List.length (all_keys g)) (filter (fun x => is_ctrl_pred g x kEND) (all_keys g)).
Definition all_reach (g : graph) : bool :=
  forallb (fun x => N.eqb x kSTART || memb x (reach_set g)) (all_keys g).

Definition state0 : rstate :=
  {| rs_store := {| s_next := 0; s_open := []; s_log := []; s_hist := [] |};
     rs_chans := fun _ => chan0; rs_pending := [kSTART]; rs_resolved := []; rs_log := log0 |}.

Definition init_state (g : graph) : res rstate :=
  if g_dag g then report_branch g kSTART (unreachable g) state0 else Ok state0.

Fixpoint run_from (g : graph) (sched : list batch) (st : rstate) : res outcome :=
  match sched with
  | [] => Ok (Running st)
  | b :: rest =>
      do o <- superstep g b st;
      match o with
      | Running st' => run_from g rest st'
      | Done _ _ _ => match rest with [] => Ok o | _ :: _ => Err E_BAD_SCHEDULE end
      end
  end.

(* sched = START's pseudo task first (its "output" is the run's input stream) *)
Definition run (g : graph) (sched : list batch) : res outcome :=
  do st <- init_state g; run_from g sched st.

(* "every node ran or was skipped" (all-predecessor mode) *)
Definition all_finished (g : graph) (st : rstate) : bool :=
  forallb (fun k => N.eqb k kSTART || memb k (rs_resolved st) || ch_skipped (rs_chans st k)) (all_keys g).
