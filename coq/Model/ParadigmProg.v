(* Model/ParadigmProg.v — property C04, part 3: compiled graphs as compositions of nodes,
   run in value mode (runner.run with isStream = false: every node through its Invoke
   view, handlers in their invoke form) and in stream mode (isStream = true: every node
   through its Transform view, handlers in their transform form, fan-out = copy, fan-in =
   merge), and the four public entry points of the compiled object.

   Sources: compose/graph_run.go (run, resolveCompletedTasks/copyItem, calculateBranch:
   branch.invoke / branch.collect on an own copy), compose/graph_manager.go (submit:
   pre-processor through runWrapper; waitOne: post-processor through runWrapper),
   compose/graph_node.go 122-150 (output-key wrapper inside input-key wrapper),
   compose/runnable.go 443-475 (toGenericRunnable: the compiled graph is itself packed by
   newRunnablePacker(i, nil, nil, t)), compose/branch.go (conditions are packed from an
   Invoke or a Collect native).

   The graphs are the series-parallel ones the C04 harness generates: node, sequence,
   fan-out/fan-in, branch with re-join, nested graph; every node may carry an input key,
   an output key, a state pre-handler and a state post-handler; in a Workflow the data edges
   leaving a stage may carry field mappings ([PMap]).  The superstep scheduling
   itself (Pregel / DAG channels) is the subject of C01/C02 and is not repeated here: on
   these acyclic graphs it only decides *when* a node runs, not on what. *)
From Eino Require Import Base.Util Model.Paradigm Model.StreamOps.

Local Infix "+++" := String.append (at level 60, right associativity).

(* monadic maps whose function is a section variable, so that they can be used for the
   nested recursion over [PPar] / [PBranch] children *)
Section MapM.
  Context {X Y : Type}.
  Variable f : X -> res Y.
  Fixpoint mapM (l : list X) : res (list Y) :=
    match l with
    | [] => Ok []
    | a :: l' => do b <- f a; do bs <- mapM l'; Ok (b :: bs)
    end.
  Variable g : nat -> X -> res Y.
  Fixpoint mapMi (i : nat) (l : list X) : res (list Y) :=
    match l with
    | [] => Ok []
    | a :: l' => do b <- g i a; do bs <- mapMi (S i) l'; Ok (b :: bs)
    end.
End MapM.

Section NthApply.
  Context {X Y : Type}.
  Variable f : X -> Y.
  Variable d : Y.
  (* f (nth i l), d if there is no such element *)
  Fixpoint nth_apply (l : list X) (i : nat) : Y :=
    match l, i with
    | a :: _, O => f a
    | _ :: l', S i' => nth_apply l' i'
    | [], _ => d
    end.
End NthApply.

(* the sub-list a multi-branch selects: element i is kept iff bit i of the mask is set *)
Fixpoint select {X} (mask i : nat) (l : list X) : list X :=
  match l with
  | [] => []
  | a :: l' => if Nat.testbit mask i then a :: select mask (S i) l' else select mask (S i) l'
  end.

Section MapMask.
  Context {X Y : Type}.
  Variable f : X -> res Y.
  Fixpoint mapM_mask (mask i : nat) (l : list X) : res (list Y) :=
    match l with
    | [] => Ok []
    | a :: l' =>
        if Nat.testbit mask i
        then do b <- f a; do bs <- mapM_mask mask (S i) l'; Ok (b :: bs)
        else mapM_mask mask (S i) l'
    end.
  Variable g : nat -> X -> res Y.
  (* j counts the selected elements (the position of the source at the fan-in) *)
  Fixpoint mapMi_mask (mask i j : nat) (l : list X) : res (list Y) :=
    match l with
    | [] => Ok []
    | a :: l' =>
        if Nat.testbit mask i
        then do b <- g j a; do bs <- mapMi_mask mask (S i) (S j) l'; Ok (b :: bs)
        else mapMi_mask mask (S i) j l'
    end.
  Variable h : X -> bool.
  Fixpoint forallb_mask (mask i : nat) (l : list X) : bool :=
    match l with
    | [] => true
    | a :: l' => (if Nat.testbit mask i then h a else true) && forallb_mask mask (S i) l'
    end.
  Context {Z : Type}.
  Variable k : X -> list Z.
  Fixpoint flat_map_mask (mask i : nat) (l : list X) : list Z :=
    match l with
    | [] => []
    | a :: l' => (if Nat.testbit mask i then k a else []) ++ flat_map_mask mask (S i) l'
    end.
End MapMask.

(* ------------------------------------------------------------------ string helpers *)
Fixpoint stake (n : nat) (s : string) : string :=
  match n, s with
  | S n', String c s' => String c (stake n' s')
  | _, _ => EmptyString
  end.
Fixpoint sdrop (n : nat) (s : string) : string :=
  match n, s with
  | S n', String _ s' => sdrop n' s'
  | _, _ => s
  end.

(* output-splitting policies of the harness producers (shared with Go: split.go) *)
Definition split_str (pol : N) (s : string) : list string :=
  let n := String.length s in
  match pol with
  | 1%N => [stake (n / 2) s; sdrop (n / 2) s]
  | 2%N => [EmptyString; s; EmptyString]
  | 3%N => let r := sdrop 1 s in
           let k := (String.length r - 1)%nat in
           [stake 1 s; EmptyString; stake k r; sdrop k r]
  | _ => [s]
  end.

Definition split_map (pol : N) (m : amap) : list amap :=
  match pol with
  | 1%N => match m with [] => [[]] | _ => map (fun e => [e]) m end
  | 2%N => match m with
           | [] => [[]]
           | _ => flat_map (fun e => let h := (String.length (snd e) / 2)%nat in
                                     [[(fst e, stake h (snd e))]; [(fst e, sdrop h (snd e))]]) m
           end
  | 3%N => [[]; m; []]
  | _ => [m]
  end.

Definition split_val (pol : N) (v : val) : list val :=
  match v with
  | VS s => map VS (split_str pol s)
  | VM m => map VM (split_map pol m)
  end.

(* every entry of the map in the order of its keys: "path=value;" for a string, "path/;" for
   the marker of a nested map *)
Definition render_entry (e : tkey * string) : string :=
  if is_marker (snd (fst e)) then tkey_str (fst e) +++ "/;"%string
  else tkey_str (fst e) +++ "="%string +++ snd e +++ ";"%string.

Definition render (m : amap) : string := concat_strings (map render_entry (ins_all m [])).

(* ------------------------------------------------------------------ harness nodes *)
(* kind: 0 string->string, 1 map->string, 2 string->map, 3 map->map (a rendering of the input
         under one key), 4 map->map (the input map itself under one key: a nested map, emitted
         in one chunk or, by the chunk-by-chunk transformer, chunk by chunk)
   fail: 0 never, 1 at call time in every native, 2 as an error item in the middle of the
         output stream of the S / T natives (and at call time in the I / C natives, which
         have no output stream) *)
Record nspec : Type := {
  ns_kind : N; ns_tag : string; ns_k1 : N; ns_k2 : N;
  ns_I : bool; ns_S : bool; ns_C : bool; ns_T : bool;
  ns_pol : N; ns_fail : N; ns_live : bool   (* T native forwards chunk by chunk *)
}.

(* what the node computes, as a function of the whole input *)
Definition f_spec (sp : nspec) (x : val) : res val :=
  match ns_kind sp, x with
  | 0%N, VS s => Ok (VS (ns_tag sp +++ "("%string +++ s +++ ")"%string))
  | 1%N, VM m => Ok (VS (ns_tag sp +++ "{"%string +++ render m +++ "}"%string))
  | 2%N, VS s => Ok (VM (ins_all [(kstr (ns_k1 sp), ns_tag sp +++ "<"%string +++ s); (kstr (ns_k2 sp), s +++ ">"%string)] []))
  | 3%N, VM m => Ok (VM [(kstr (ns_k1 sp), ns_tag sp +++ "{"%string +++ render m +++ "}"%string)])
  | 4%N, VM m => Ok (VM (nest (ns_k1 sp) m))
  | _, _ => Err e_type
  end.

Definition emit (sp : nspec) (y : val) : stream val :=
  let cs := if N.eqb (ns_kind sp) 4 then [y] else split_val (ns_pol sp) y in
  if N.eqb (ns_fail sp) 2 then map Val (firstn ((List.length cs + 1) / 2) cs) ++ [Bad e_node]
  else map Val cs.

(* items up to and including the first error item; was there one *)
Fixpoint upto_bad (s : stream val) : stream val * bool :=
  match s with
  | [] => ([], false)
  | Val x :: s' => let (r, b) := upto_bad s' in (Val x :: r, b)
  | Bad e :: _ => ([Bad e], true)
  end.

Definition live_T (sp : nspec) (s : stream val) : stream val :=
  let pre := match ns_kind sp with
             | 0%N => VS (ns_tag sp +++ "("%string)
             | _ => VM [(kstr (ns_k1 sp), ns_tag sp +++ "<"%string)]
             end in
  let suf := match ns_kind sp with
             | 0%N => VS ")"%string
             | _ => VM [(kstr (ns_k2 sp), ">"%string)]
             end in
  let fw := fun it => match it with
                      | Val (VS c) => match ns_kind sp with
                                      | 0%N => Val (VS c)
                                      | _ => Val (VM (ins_all [(kstr (ns_k1 sp), c); (kstr (ns_k2 sp), c)] []))
                                      end
                      | Val (VM _) => Bad e_type
                      | Bad e => Bad e
                      end in
  if N.eqb (ns_fail sp) 2 then [Val pre; Bad e_node]
  else let (r, b) := upto_bad (map fw s) in
       Val pre :: r ++ (if b then [] else [Val suf]).

(* the chunk-by-chunk transformer of kind 4: every map chunk goes out under the key, up to
   the first error item *)
Definition fw4 (sp : nspec) (it : item val) : item val :=
  match it with
  | Val (VM m) => Val (VM (nest (ns_k1 sp) m))
  | Val (VS _) => Bad e_type
  | Bad e => Bad e
  end.

Definition live_T4 (sp : nspec) (s : stream val) : stream val :=
  if N.eqb (ns_fail sp) 2 then [Bad e_node] else fst (upto_bad (map (fw4 sp) s)).

Definition is_live (sp : nspec) : bool :=
  ns_live sp && (N.eqb (ns_kind sp) 0 || N.eqb (ns_kind sp) 2 || N.eqb (ns_kind sp) 4).

Definition node_of_spec (sp : nspec) : node val val :=
  let fl := ns_fail sp in
  {| nI := if ns_I sp then Some (fun x => if N.eqb fl 0 then f_spec sp x else Err e_node) else None;
     nS := if ns_S sp then Some (fun x => if N.eqb fl 1 then Err e_node
                                          else do y <- f_spec sp x; Ok (emit sp y)) else None;
     nC := if ns_C sp then Some (fun s => if N.eqb fl 0 then do x <- vsconcat s; f_spec sp x
                                          else Err e_node) else None;
     nT := if ns_T sp then Some (fun s =>
              if N.eqb fl 1 then Err e_node
              else if is_live sp then Ok (if N.eqb (ns_kind sp) 4 then live_T4 sp s else live_T sp s)
              else Ok (match vsconcat s with
                       | Ok x => match f_spec sp x with Ok y => emit sp y | Err e => [Bad e] | Panic => [Bad e_node] end
                       | Err e => [Bad e]
                       | Panic => [Bad e_node]
                       end)) else None |}.

(* branch conditions: an index into the alternatives, from the whole input *)
Record cspec : Type := { cs_collect : bool; cs_n : nat; cs_fail : bool }.

Definition size_val (x : val) : nat :=
  match x with
  | VS s => String.length s
  | VM m => fold_left (fun a e => a + String.length (snd e))%nat m (List.length m)
  end.

Definition choice (c : cspec) (x : val) : res nat :=
  if cs_fail c then Err e_node else Ok (Nat.modulo (size_val x) (cs_n c)).

Definition nat_concat (_ : list nat) : res nat := Err e_type.   (* []string results are never concatenated *)

(* multi-branch conditions: a non-empty set of alternatives, as a bit mask, from the whole input *)
Definition mchoice (c : cspec) (x : val) : res nat :=
  if cs_fail c then Err e_node else Ok (S (Nat.modulo (size_val x) (Nat.pow 2 (cs_n c) - 1))).

Definition mcond_of_spec (c : cspec) : node val nat :=
  {| nI := if cs_collect c then None else Some (mchoice c);
     nS := None;
     nC := if cs_collect c then Some (fun s => do x <- vsconcat s; mchoice c x) else None;
     nT := None |}.

Definition cond_of_spec (c : cspec) : node val nat :=
  {| nI := if cs_collect c then None else Some (choice c);
     nS := None;
     nC := if cs_collect c then Some (fun s => do x <- vsconcat s; choice c x) else None;
     nT := None |}.

(* loop conditions: run the body again while the value is smaller than a bound (every
   harness node makes its input longer, so the loop ends) *)
Record lspec : Type := { ls_collect : bool; ls_bound : nat; ls_fail : bool }.

Definition loop_choice (c : lspec) (x : val) : res nat :=
  if ls_fail c then Err e_node else Ok (if Nat.ltb (size_val x) (ls_bound c) then 0%nat else 1%nat).

Definition loop_cond_of_spec (c : lspec) : node val nat :=
  {| nI := if ls_collect c then None else Some (loop_choice c);
     nS := None;
     nC := if ls_collect c then Some (fun s => do x <- vsconcat s; loop_choice c x) else None;
     nT := None |}.

(* iteration with an explicit bound; running out of it is the distinguished error e_fuel
   (the implementation has no such bound: [dom_ok] excludes it) *)
Section LoopIter.
  Context {X C : Type}.
  Variable step : nat -> X -> res X.
  Variable again : X -> res bool.
  Fixpoint loop_res (fuel : nat) (x : X) : res X :=
    match fuel with
    | O => Err e_fuel
    | S f => do y <- step f x; do b <- again y; if b then loop_res f y else Ok y
    end.

  Variable callsf : X -> list C.
  Variable condcall : list C.
  Fixpoint loop_calls (fuel : nat) (x : X) : list C :=
    match fuel with
    | O => []
    | S f => callsf x ++
             match step f x with
             | Ok y => condcall ++ match again y with Ok true => loop_calls f y | _ => [] end
             | _ => []
             end
    end.

  Variable domf : X -> bool.
  Fixpoint loop_dom (fuel : nat) (x : X) : bool :=
    match fuel with
    | O => false
    | S f => domf x &&
             match step f x with
             | Ok y => match again y with Ok true => loop_dom f y | _ => true end
             | _ => true
             end
    end.
End LoopIter.

(* ------------------------------------------------------------------ graphs *)
Record wrap : Type := {
  w_pre : option (N * node val val);    (* StatePreHandler / StreamStatePreHandler *)
  w_in : option N;                      (* WithInputKey *)
  w_out : option N;                     (* WithOutputKey *)
  w_post : option (N * node val val)
}.

Inductive prog : Type :=
| PNode (w : wrap) (id : N) (n : node val val)
| PSeq (p q : prog)
| PPar (ps : list prog)                             (* fan-out to every p, fan-in of their outputs *)
| PBranch (id : N) (c : node val nat) (alts : list prog)   (* branch on the predecessor's output; alternatives re-join *)
| PSub (w : wrap) (p : prog)                        (* nested graph added as a node *)
| PMap (f : fmap)                                   (* Workflow: field mapping on the data edges that follow *)
| PCheck (want_map : bool)                          (* run-time type check on the edges leaving an any-typed node *)
| PId                                               (* nothing: a branch alternative that leads straight to the join / END *)
| PMulti (id : N) (c : node val nat) (alts : list prog)
    (* multi-branch: the condition selects a set of alternatives (bit mask); they run side by side and fan in *)
| PLoop (id : N) (c : node val nat) (body : prog) (fuel : nat).
    (* cycle: a branch on the body's last node leads back to its first node (choice 0) or on *)

Definition again_value (c : node val nat) (y : val) : res bool :=
  do i <- view_I nat_concat c y; Ok (Nat.eqb i 0).
Definition again_stream (c : node val nat) (o : stream val) : res bool :=
  do i <- view_C vconcat nat_concat c o; Ok (Nat.eqb i 0).

Definition vI (n : node val val) := view_I vconcat n.
Definition vT (n : node val val) := view_T vconcat n.

Definition wrap_value (w : wrap) (core : val -> res val) (x : val) : res val :=
  do x1 <- match w_pre w with Some (_, h) => vI h x | None => Ok x end;
  do x2 <- match w_in w with Some k => v_getKey k x1 | None => Ok x1 end;
  do y <- core x2;
  do y1 <- match w_out w with Some k => v_withKey k y | None => Ok y end;
  match w_post w with Some (_, h) => vI h y1 | None => Ok y1 end.

Definition wrap_stream (w : wrap) (core : stream val -> res (stream val)) (s : stream val) : res (stream val) :=
  do s1 <- match w_pre w with Some (_, h) => vT h s | None => Ok s end;
  let s2 := match w_in w with Some k => s_keyFilter k s1 | None => s1 end in
  do o <- core s2;
  let o1 := match w_out w with Some k => s_withKey k o | None => o end in
  match w_post w with Some (_, h) => vT h o1 | None => Ok o1 end.

(* value mode *)
Fixpoint run_value (p : prog) (x : val) : res val :=
  match p with
  | PNode w _ n => wrap_value w (vI n) x
  | PSeq p q => do y <- run_value p x; run_value q y
  | PPar ps => do ys <- mapM (fun p => run_value p x) ps; v_merge ys
  | PBranch _ c alts =>
      do i <- view_I nat_concat c x;
      nth_apply (fun a => run_value a x) (Err e_branch) alts i
  | PSub w p => wrap_value w (run_value p) x
  | PMap f => v_fmap f x
  | PCheck m => v_check m x
  | PId => Ok x
  | PMulti _ c alts =>
      do mask <- view_I nat_concat c x;
      do ys <- mapM_mask (fun p => run_value p x) mask 0 alts;
      match ys with [] => Err e_branch | _ => v_merge ys end
  | PLoop _ c body fuel => loop_res (fun _ => run_value body) (again_value c) fuel x
  end.

(* stream mode; [mrg pos] is the interleaving MergeStreamReaders happens to produce at the
   fan-in at position [pos] of the graph (any function: the theorems quantify over it) *)
Section StreamMode.
  Variable mrg : list nat -> list (stream val) -> stream val.

  Fixpoint run_stream (pos : list nat) (p : prog) (s : stream val) : res (stream val) :=
    match p with
    | PNode w _ n => wrap_stream w (vT n) s
    | PSeq p q => do o <- run_stream (0%nat :: pos) p s; run_stream (1%nat :: pos) q o
    | PPar ps =>
        do os <- mapMi (fun i p => run_stream (i :: pos) p s) 0%nat ps;
        Ok (s_merge (mrg pos) os)
    | PBranch _ c alts =>
        do i <- view_C vconcat nat_concat c s;
        nth_apply (fun a => run_stream (i :: pos) a s) (Err e_branch) alts i
    | PSub w p => wrap_stream w (run_stream (0%nat :: pos) p) s
    | PMap f => Ok (s_fmap f s)
    | PCheck m => Ok (s_check m s)
    | PId => Ok s
    | PMulti _ c alts =>
        do mask <- view_C vconcat nat_concat c s;
        do os <- mapMi_mask (fun j p => run_stream (j :: pos) p s) mask 0 0 alts;
        match os with [] => Err e_branch | _ => Ok (s_merge (mrg pos) os) end
    | PLoop _ c body fuel => loop_res (fun k => run_stream (k :: pos) body) (again_stream c) fuel s
    end.

  (* the four public entry points of the compiled object: Invoke runs value mode;
     Stream = streamByTransform, Collect = collectByTransform, Transform = stream mode *)
  Definition g_invoke (p : prog) (x : val) : res val := run_value p x.
  Definition g_stream (p : prog) (x : val) : res (stream val) := run_stream [] p (box x).
  Definition g_collect (p : prog) (s : stream val) : res val := vsconcatR (run_stream [] p s).
  Definition g_transform (p : prog) (s : stream val) : res (stream val) := run_stream [] p s.
End StreamMode.

(* ------------------------------------------------------------------ which native ran *)
(* the correspondence observable tying the derivation table to runnable.go: for every
   executed node / handler / condition the native implementation that was called.
   Only meaningful (and only compared) for runs that succeed. *)
Definition olist {X} (o : option X) : list X := match o with Some x => [x] | None => [] end.

Definition wrap_calls (target : par) (w : wrap) (core : list (N * par)) : list (N * par) :=
  flat_map (fun h => map (fun u => (fst h, u)) (olist (used (snd h) target))) (olist (w_pre w))
  ++ core ++
  flat_map (fun h => map (fun u => (fst h, u)) (olist (used (snd h) target))) (olist (w_post w)).

(* input of the core of a wrapped node in value mode *)
Definition wrap_inner_value (w : wrap) (x : val) : res val :=
  do x1 <- match w_pre w with Some (_, h) => vI h x | None => Ok x end;
  match w_in w with Some k => v_getKey k x1 | None => Ok x1 end.

Fixpoint calls_value (p : prog) (x : val) : list (N * par) :=
  match p with
  | PNode w id n => wrap_calls PI w (map (fun u => (id, u)) (olist (used n PI)))
  | PSeq p q => calls_value p x ++ match run_value p x with Ok y => calls_value q y | _ => [] end
  | PPar ps => flat_map (fun p => calls_value p x) ps
  | PBranch id c alts =>
      map (fun u => (id, u)) (olist (used c PI)) ++
      match view_I nat_concat c x with
      | Ok i => nth_apply (fun a => calls_value a x) [] alts i
      | _ => []
      end
  | PSub w p => wrap_calls PI w (match wrap_inner_value w x with Ok x2 => calls_value p x2 | _ => [] end)
  | PMap _ => []
  | PCheck _ => []
  | PId => []
  | PMulti id c alts =>
      map (fun u => (id, u)) (olist (used c PI)) ++
      match view_I nat_concat c x with
      | Ok mask => flat_map_mask (fun a => calls_value a x) mask 0 alts
      | _ => []
      end
  | PLoop id c body fuel =>
      loop_calls (fun _ => run_value body) (again_value c) (calls_value body)
                 (map (fun u => (id, u)) (olist (used c PI))) fuel x
  end.

(* in stream mode the same nodes run (the branch choices agree on successful runs), each
   through its Transform view, conditions through Collect *)
Fixpoint calls_stream (p : prog) (x : val) : list (N * par) :=
  match p with
  | PNode w id n => wrap_calls PT w (map (fun u => (id, u)) (olist (used n PT)))
  | PSeq p q => calls_stream p x ++ match run_value p x with Ok y => calls_stream q y | _ => [] end
  | PPar ps => flat_map (fun p => calls_stream p x) ps
  | PBranch id c alts =>
      map (fun u => (id, u)) (olist (used c PC)) ++
      match view_I nat_concat c x with
      | Ok i => nth_apply (fun a => calls_stream a x) [] alts i
      | _ => []
      end
  | PSub w p => wrap_calls PT w (match wrap_inner_value w x with Ok x2 => calls_stream p x2 | _ => [] end)
  | PMap _ => []
  | PCheck _ => []
  | PId => []
  | PMulti id c alts =>
      map (fun u => (id, u)) (olist (used c PC)) ++
      match view_I nat_concat c x with
      | Ok mask => flat_map_mask (fun a => calls_stream a x) mask 0 alts
      | _ => []
      end
  | PLoop id c body fuel =>
      loop_calls (fun _ => run_value body) (again_value c) (calls_stream body)
                 (map (fun u => (id, u)) (olist (used c PC))) fuel x
  end.

(* ------------------------------------------------------------------ domain of the property *)
(* The places where a stream cannot know what the value run knows (findings F-C04, F-C04b
   and F-C04c): a fan-in whose sources share a key, an input key that no chunk carries, a
   field mapping from a map key that no chunk carries.
   [dom_ok p x] follows the value run on input x and is false iff it meets one of them. *)
(* (every map value of a run is free of type conflicts — one Go map cannot hold a string
   and a map under the same key —; the condition is part of [fanin_ok] because the values
   of the model are lists of entries, which could) *)
Definition fanin_ok (ys : list val) : bool :=
  match ys with
  | [] | [_] => true
  | _ => match all_map ys with Some ms => disjoint_keys [] ms && forallb mcons ms | None => false end
  end.

Definition inkey_ok (w : wrap) (x : val) : bool :=
  match w_in w with
  | None => true
  | Some k =>
      match (match w_pre w with Some (_, h) => vI h x | None => Ok x end) with
      | Ok (VM m) => match m_get k m with Some _ => true | None => false end
      | Ok (VS _) => false
      | _ => true
      end
  end.

Fixpoint dom_ok (p : prog) (x : val) : bool :=
  match p with
  | PNode w _ _ => inkey_ok w x
  | PSeq p q => dom_ok p x && match run_value p x with Ok y => dom_ok q y | _ => true end
  | PPar ps =>
      forallb (fun p => dom_ok p x) ps &&
      match mapM (fun p => run_value p x) ps with Ok ys => fanin_ok ys | _ => true end
  | PBranch _ c alts =>
      match view_I nat_concat c x with
      | Ok i => nth_apply (fun a => dom_ok a x) true alts i
      | _ => true
      end
  | PSub w p => inkey_ok w x && match wrap_inner_value w x with Ok x2 => dom_ok p x2 | _ => true end
  | PMap f => fmap_dom f x
  | PCheck _ => true
  | PId => true
  | PMulti _ c alts =>
      match view_I nat_concat c x with
      | Ok mask =>
          forallb_mask (fun p => dom_ok p x) mask 0 alts &&
          match mapM_mask (fun p => run_value p x) mask 0 alts with Ok ys => fanin_ok ys | _ => true end
      | _ => true
      end
  | PLoop _ c body fuel => loop_dom (fun _ => run_value body) (again_value c) (dom_ok body) fuel x
  end.
