(* Model/ResolveSpec.v — property C01: uniqueKeys and runner.resolveCompletedTasks (compose/graph_run.go) as
   functions of their arguments and of the code they call (parameters: copyItem, runner.calculateBranch), written by
   hand from the source; tools/go2v regenerates them statement by statement on every run (Gen/ResolveTasks.v).
   Proofs/GenAgreeC01Resolve.v proves the generated functions equal to these, Proofs/ResolveModel.v proves these equal
   to [resolve_all] of Model/Graph.v (which successors receive the output of a completed task, which value each of
   them is handed, which control dependencies are reported).  Definitions only. *)
From Eino Require Import Base.Util Model.Graph Model.ImpGenLib Model.ResolveGenLib.

(* the keys in the order of their first occurrence *)
Definition unique_keys (keys : list key) : list key :=
  fold_left (fun ret k => if memb k ret then ret else ret ++ [k]) keys [].

(* copyItem in value mode: n copies of the value, one when n < 2 *)
Definition copy_item_spec {V : Type} (v : V) (n : nat) : list V := repeat v (Nat.max 1 n).

(* newDependencies[k] = append(newDependencies[k], s) *)
Definition dm_app (k s : key) (nd : dmap) : dmap := dm_set k (dm_get nd k ++ [s]) nd.

(* writeChannelValues[t][s] = v (the inner map is created on first use) *)
Definition wm_put {V : Type} (t s : key) (v : V) (w : wmap V) : wmap V := wm_set t (vm_set s v (wm_get w t)) w.

Section Spec.
  Variables V T CALL CM : Type.
  Variable zero_value : V.
  Variable task_key : T -> key.
  Variable task_output : T -> V.
  Variable task_call : T -> CALL.
  Variable task_controls : T -> list key.
  Variable task_writeTo : T -> list key.
  Variable task_nbranches : T -> nat.
  Variable copy_item : V -> nat -> list V.
  Variable calculate_branch : CM -> key -> CALL -> list V -> bool -> res (list key * CM).

  (* the copies of the output after the branches have consumed theirs, re-sized to the number of receivers *)
  Definition resized (vs1 : list V) (nkeys : nat) : list V :=
    if Nat.ltb 0 (nkeys - List.length vs1)
    then l_upto (List.length vs1 - 1) vs1
         ++ copy_item (l_get zero_value (List.length vs1 - 1) vs1) (nkeys - List.length vs1 + 1)
    else vs1.

  Definition task_step (isStream : bool) (st : CM * wmap V * dmap) (t : T) : res (CM * wmap V * dmap) :=
    let '(cm, w, nd) := st in
    let nd := fold_left (fun nd k => dm_app k (task_key t) nd) (task_controls t) nd in
    let nw := List.length (task_writeTo t) in
    let nb := task_nbranches t in
    let vs := copy_item (task_output t) (nw + nb * 2) in
    do r <- calculate_branch cm (task_key t) (task_call t) (l_from (nw + nb) vs) isStream;
    let '(sel, cm) := r in
    let nd := fold_left (fun nd k => dm_app k (task_key t) nd) sel nd in
    let keys := unique_keys (sel ++ task_writeTo t) in
    let vs2 := resized (l_upto (List.length vs - nb) vs) (List.length keys) in
    Ok (cm,
        fold_left (fun w ik => wm_put (snd ik) (task_key t) (l_get zero_value (fst ik) vs2) w) (indexed keys) w,
        nd).

  Definition resolve_completed_tasks (tasks : list T) (isStream : bool) (cm : CM) : res (wmap V * dmap * CM) :=
    do r <- fold_res (task_step isStream) tasks (cm, wm_empty, dm_empty);
    let '(cm, w, nd) := r in
    Ok (w, nd, cm).
End Spec.
