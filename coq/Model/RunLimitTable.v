(* Model/RunLimitTable.v — property C01: what runner.run (compose/graph_run.go) does about the step limit, as the
   model states it; tools/go2v regenerates the same definitions from the source on every run (Gen/RunLimit.v) and
   Proofs/GenAgreeRunLimit.v proves the two equal and ties them to [step_limit_hit], [init_state], [step] of
   Model/Graph.v and [rt_graph] of Model/PregelOpts.v.  Definitions only. *)
From Eino Require Import Base.Util Model.Graph Model.ImpGenLib.

(* for step := 0; ; step++ *)
Definition loop_init : nat := 0.
Definition loop_has_cond : bool := false.
Definition loop_post (step : nat) : nat := S step.

(* `if !r.dag && step >= maxSteps { return ErrExceedMaxSteps }`, first thing in the loop body *)
Definition limit_test_before_submit : bool := true.
Definition step_limit_hit (dag : bool) (step maxSteps : nat) : bool := negb dag && Nat.leb maxSteps step.

(* the limit of a run: the compile-time limit, replaced by the last positive WithRuntimeMaxSteps of the call
   options; in all-predecessor mode such an option is an error; a limit below 1 is an error *)
Definition last_positive (opts : list nat) (d : nat) : nat :=
  fold_left (fun m o => if Nat.ltb 0 o then o else m) opts d.

Definition run_max_steps (err_code : nat -> N) (dag : bool) (compiled : nat) (opts : list nat) : res nat :=
  if dag then (if existsb (Nat.ltb 0) opts then Err (err_code 1%nat) else Ok compiled)
  else let m := last_positive opts compiled in
       if Nat.ltb m 1 then Err (err_code 2%nat) else Ok m.
