(* Model/CallbacksGenLib.v — property C10: the vocabulary of the statement-by-statement
   translation of internal/callbacks/manager.go, internal/callbacks/inject.go and the callback
   part of compose/utils.go (tools/go2v, extractor "c10_callbacks" -> Gen/CallbacksCode.v).

   What a Go construct of that code means on the model's data (Base/GoSlice.v, Model/Callbacks.v):
     []Handler that is appended to / passed on    a slice header into the heap of arrays; every
                                                  make / append of the code is a [make] / [append]
                                                  here, the heap is threaded through as [h]
     manager.globalHandlers, GlobalHandlers       an immutable list (made by make+copy in
                                                  newManager and never the first argument of an
                                                  append: [g_copy])
     pointer to manager (may be nil)              [option manager];  the pair (pointer, ok) likewise
     context carrying a manager                   [ctx] = option manager; [ctxWithManager] puts it there
     RunInfo pointer                               the identity [info]
     compose.Option (handler, paths)              [copt]: the option's handler list is only ever
                                                  read by the code, hence a list
     for _, x := range s  over a slice            [range_slice]: element i is read from the heap
                                                  when iteration i starts (Go evaluates the range
                                                  expression once, reads the elements lazily)
     break                                        the loop body returns (true, state)
   Definitions only. *)
From Eino Require Import Base.Util Base.GoSlice Model.Callbacks.

(* a handler list that is iterated: a slice (read lazily from the heap) or an immutable list *)
Inductive hsrc := SrcSlice (s : slice) | SrcList (l : list handler).

Definition src_len (x : hsrc) : nat :=
  match x with SrcSlice s => len s | SrcList l => List.length l end.
Definition src_nth (h : heap) (x : hsrc) (i : nat) : handler :=
  match x with SrcSlice s => nth i (read h s) 0%N | SrcList l => nth i l 0%N end.
(* append(dst, x...) copies the elements as they are at the time of the call *)
Definition src_read (h : heap) (x : hsrc) : list handler :=
  match x with SrcSlice s => read h s | SrcList l => l end.

(* for … := range l { body }  with break: body returns (break?, state) *)
Fixpoint range_break {A St : Type} (l : list A) (body : St -> A -> bool * St) (st : St) : St :=
  match l with
  | [] => st
  | a :: l' => let r := body st a in if fst r then snd r else range_break l' body (snd r)
  end.

(* for _, x := range src { body }  over a handler source; the state carries the heap first *)
Definition range_src {St : Type} (src : hsrc) (body : heap * St -> handler -> bool * (heap * St))
           (st : heap * St) : heap * St :=
  range_break (seq 0 (src_len src)) (fun st i => body st (src_nth (fst st) src i)) st.

(* hs := make([]Handler, len(G)); copy(hs, G) *)
Definition g_copy (g : list handler) : list handler := g.

(* context.WithValue(ctx, CtxManagerKey{}, m) *)
Definition ctxWithManager (c : ctx) (m : option manager) : ctx := m.

(* compose.Option *)
Definition opt_handler (o : copt) : list handler := fst o.
Definition opt_paths (o : copt) : list (list N) := snd o.

(* handler.(TimingChecker) / timingChecker.Needed(ctx, info, timing): what the code cannot decide
(the run info and the context Needed is also handed are not arguments here: the model's handlers
   decide by timing alone, Model/Callbacks.v [w_needs]) *)
Record checkers := { is_checker : handler -> bool; needed : handler -> timing -> bool }.

(* ------------------------------------------------------------------ tables (extractor "c10_tables" -> Gen/CallbacksTables.v) *)

(* runWithCallbacks: the callbacks fired around the execution of a unit *)
Inductive cbrole := CbStart | CbEnd | CbError.
Inductive paykind := PayIn | PayOut | PayErr.       (* the closure's input / output / err *)
Inductive rcall := RCall (r : cbrole) (p : paykind) | RExec.

Local Open Scope string_scope.

(* what the Go identifiers of the tables mean in the model *)
Definition all_timings : list timing := [TStart; TEnd; TError; TStartStream; TEndStream].
Definition timing_const_name (t : timing) : string :=
  match t with
  | TStart => "TimingOnStart" | TEnd => "TimingOnEnd" | TError => "TimingOnError"
  | TStartStream => "TimingOnStartWithStreamInput" | TEndStream => "TimingOnEndWithStreamOutput"
  end.
(* the method of callbacks.Handler that belongs to a timing *)
Definition handler_method (t : timing) : string :=
  match t with
  | TStart => "OnStart" | TEnd => "OnEnd" | TError => "OnError"
  | TStartStream => "OnStartWithStreamInput" | TEndStream => "OnEndWithStreamOutput"
  end.
Definition is_stream_timing (t : timing) : bool :=
  match t with TStartStream | TEndStream => true | _ => false end.
(* newRunnablePacker's parameters: the native paradigms 0 Invoke, 1 Stream, 2 Collect, 3 Transform *)
Definition native_var (p : N) : string :=
  match p with 0%N => "i" | 1%N => "s" | 2%N => "c" | _ => "t" end.

Section Tables.
  Variable consts : list string.
  Variable handles : list (string * (string * bool * bool)).
  Variable ons : list (string * (string * string)).
  Variable wraps : list (string * (string * string * string)).
  Variable graphs : list (string * (string * string)).
  Variable packer : list (string * string).

  (* the timing whose value (position in the enumeration) carries the given name *)
  Definition timing_of_const (c : string) : option timing :=
    find (fun t => String.eqb (nth (N.to_nat (timing_code t)) consts "") c) all_timings.

  (* a caller of On: the timing it passes, and what its handle function does with the selected
     handlers (method invoked, reversed order, one stream copy per handler) *)
  Definition on_dispatch (name : string) : option (timing * string * bool * bool) :=
    match alist_get name ons with
    | Some (h, c) =>
        match timing_of_const c, alist_get h handles with
        | Some t, Some (m, rv, st) => Some (t, m, rv, st)
        | _, _ => None
        end
    | None => None
    end.
  Definition on_timing (name : string) : option timing :=
    match on_dispatch name with Some (t, _, _, _) => Some t | None => None end.

  (* the timing of the start / end / error callback of a component called in native paradigm p *)
  Definition role_timing (p : N) (r : cbrole) : option timing :=
    match alist_get (native_var p) packer with
    | Some w =>
        match alist_get w wraps with
        | Some (s, e, x) =>
            on_timing ("compose." ++ match r with CbStart => s | CbEnd => e | CbError => x end)
        | None => None
        end
    | None => None
    end.

  (* graph-level callbacks *)
  Definition graph_timing (name : string) (is_stream : bool) : option timing :=
    match alist_get name graphs with
    | Some (s, p) => on_timing ("compose." ++ if is_stream then s else p)
    | None => None
    end.

  (* the On operations (with the payload they are handed) a unit issues around its execution *)
  Definition pay_of_kind (u : ukey) (k : paykind) : N :=
    match k with PayIn => 3 * u | PayOut => 3 * u + 1 | PayErr => 3 * u + 2 end%N.
  Definition pops_of_calls (u : ukey) (p : N) (calls : list rcall) : list (op * N) :=
    flat_map (fun c => match c with
                       | RCall r k => match role_timing p r with
                                      | Some t => [(OOn u t, pay_of_kind u k)]
                                      | None => []
                                      end
                       | RExec => []
                       end) calls.
End Tables.
