(* Model/CallbacksGenLib.v — property C10: the vocabulary of the statement-by-statement
   translation of internal/callbacks/manager.go, internal/callbacks/inject.go and the callback
   part of compose/utils.go (tools/go2v, extractor "c10_callbacks" -> Gen/CallbacksCode.v).

   What a Go construct of that code means on the model's data (Base/GoSlice.v, Model/Callbacks.v):
     []Handler that is appended to / passed on    a slice header into the heap of arrays; every
                                                  make / append of the code is a [make] / [append]
                                                  here, the heap is threaded through as [h]
     manager.globalHandlers, GlobalHandlers       an immutable list (made by make+copy in
                                                  newManager and never the first argument of an
                                                  append: [g_copy])
     pointer to manager (may be nil)              [option manager];  the pair (pointer, ok) likewise
     context carrying a manager                   [ctx] = option manager; [ctxWithManager] puts it there
     RunInfo pointer                               the identity [info]
     compose.Option (handler, paths)              [copt]: the option's handler list is only ever
                                                  read by the code, hence a list
     for _, x := range s  over a slice            [range_slice]: element i is read from the heap
                                                  when iteration i starts (Go evaluates the range
                                                  expression once, reads the elements lazily)
     break                                        the loop body returns (true, state)
   Definitions only. *)
From Eino Require Import Base.Util Base.GoSlice Model.Callbacks.

(* a handler list that is iterated: a slice (read lazily from the heap) or an immutable list *)
Inductive hsrc := SrcSlice (s : slice) | SrcList (l : list handler).

Definition src_len (x : hsrc) : nat :=
  match x with SrcSlice s => len s | SrcList l => List.length l end.
Definition src_nth (h : heap) (x : hsrc) (i : nat) : handler :=
  match x with SrcSlice s => nth i (read h s) 0%N | SrcList l => nth i l 0%N end.
(* append(dst, x...) copies the elements as they are at the time of the call *)
Definition src_read (h : heap) (x : hsrc) : list handler :=
  match x with SrcSlice s => read h s | SrcList l => l end.

(* for … := range l { body }  with break: body returns (break?, state) *)
Fixpoint range_break {A St : Type} (l : list A) (body : St -> A -> bool * St) (st : St) : St :=
  match l with
  | [] => st
  | a :: l' => let r := body st a in if fst r then snd r else range_break l' body (snd r)
  end.

(* for _, x := range src { body }  over a handler source; the state carries the heap first *)
Definition range_src {St : Type} (src : hsrc) (body : heap * St -> handler -> bool * (heap * St))
           (st : heap * St) : heap * St :=
  range_break (seq 0 (src_len src)) (fun st i => body st (src_nth (fst st) src i)) st.

(* hs := make([]Handler, len(G)); copy(hs, G) *)
Definition g_copy (g : list handler) : list handler := g.

(* context.WithValue(ctx, CtxManagerKey{}, m) *)
Definition ctxWithManager (c : ctx) (m : option manager) : ctx := m.

(* compose.Option *)
Definition opt_handler (o : copt) : list handler := fst o.
Definition opt_paths (o : copt) : list (list N) := snd o.

(* handler.(TimingChecker) / timingChecker.Needed(ctx, info, timing): what the code cannot decide
(the run info and the context Needed is also handed are not arguments here: the model's handlers
   decide by timing alone, Model/Callbacks.v [w_needs]) *)
Record checkers := { is_checker : handler -> bool; needed : handler -> timing -> bool }.

(* ------------------------------------------------------------------ tables (extractor "c10_tables" -> Gen/CallbacksTables.v) *)

(* runWithCallbacks: the callbacks fired around the execution of a unit *)
Inductive cbrole := CbStart | CbEnd | CbError.
Inductive paykind := PayIn | PayOut | PayErr | PayPanic.   (* the closure's input / output / err; the error made of a panic value *)
Inductive rcall := RCall (r : cbrole) (p : paykind) | RExec.
(* how the execution of the unit ends: it returns a result, returns an error, panics (the panic is
   contained further up and becomes the error of the execution: in Model/Callbacks.v both are [fails]) *)
Inductive exec_outcome := ExOk | ExErr | ExPanic.
Definition fails_of (o : exec_outcome) : bool := match o with ExOk => false | _ => true end.

Local Open Scope string_scope.

(* what the Go identifiers of the tables mean in the model *)
Definition all_timings : list timing := [TStart; TEnd; TError; TStartStream; TEndStream].
Definition timing_const_name (t : timing) : string :=
  match t with
  | TStart => "TimingOnStart" | TEnd => "TimingOnEnd" | TError => "TimingOnError"
  | TStartStream => "TimingOnStartWithStreamInput" | TEndStream => "TimingOnEndWithStreamOutput"
  end.
(* the method of callbacks.Handler that belongs to a timing *)
Definition handler_method (t : timing) : string :=
  match t with
  | TStart => "OnStart" | TEnd => "OnEnd" | TError => "OnError"
  | TStartStream => "OnStartWithStreamInput" | TEndStream => "OnEndWithStreamOutput"
  end.
Definition is_stream_timing (t : timing) : bool :=
  match t with TStartStream | TEndStream => true | _ => false end.
(* newRunnablePacker's parameters: the native paradigms 0 Invoke, 1 Stream, 2 Collect, 3 Transform *)
Definition native_var (p : N) : string :=
  match p with 0%N => "i" | 1%N => "s" | 2%N => "c" | _ => "t" end.

Section Tables.
  Variable consts : list string.
  Variable handles : list (string * (string * bool * bool)).
  Variable ons : list (string * (string * string)).
  Variable wraps : list (string * (string * string * string)).
  Variable graphs : list (string * (string * string)).
  Variable packer : list (string * string).

  (* the timing whose value (position in the enumeration) carries the given name *)
  Definition timing_of_const (c : string) : option timing :=
    find (fun t => String.eqb (nth (N.to_nat (timing_code t)) consts "") c) all_timings.

  (* a caller of On: the timing it passes, and what its handle function does with the selected
     handlers (method invoked, reversed order, one stream copy per handler) *)
  Definition on_dispatch (name : string) : option (timing * string * bool * bool) :=
    match alist_get name ons with
    | Some (h, c) =>
        match timing_of_const c, alist_get h handles with
        | Some t, Some (m, rv, st) => Some (t, m, rv, st)
        | _, _ => None
        end
    | None => None
    end.
  Definition on_timing (name : string) : option timing :=
    match on_dispatch name with Some (t, _, _, _) => Some t | None => None end.

  (* the timing of the start / end / error callback of a component called in native paradigm p *)
  Definition role_timing (p : N) (r : cbrole) : option timing :=
    match alist_get (native_var p) packer with
    | Some w =>
        match alist_get w wraps with
        | Some (s, e, x) =>
            on_timing ("compose." ++ match r with CbStart => s | CbEnd => e | CbError => x end)
        | None => None
        end
    | None => None
    end.

  (* graph-level callbacks *)
  Definition graph_timing (name : string) (is_stream : bool) : option timing :=
    match alist_get name graphs with
    | Some (s, p) => on_timing ("compose." ++ if is_stream then s else p)
    | None => None
    end.

  (* the On operations (with the payload they are handed) a unit issues around its execution *)
  Definition pay_of_kind (u : ukey) (k : paykind) : N :=
    match k with PayIn => 3 * u | PayOut => 3 * u + 1 | PayErr | PayPanic => 3 * u + 2 end%N.
  Definition pops_of_calls (u : ukey) (p : N) (calls : list rcall) : list (op * N) :=
    flat_map (fun c => match c with
                       | RCall r k => match role_timing p r with
                                      | Some t => [(OOn u t, pay_of_kind u k)]
                                      | None => []
                                      end
                       | RExec => []
                       end) calls.
End Tables.

(* ------------------------------------------------------------------ the skeleton of runner.run (extractor "c10_tables") *)
Local Close Scope string_scope.

(* compose/graph_run.go, func (r *runner) run: everything that bears on the graph-level callbacks,
   every other statement dropped: the calls of onGraphStart / onGraphEnd / onGraphError, the flag
   haveOnStart, every return (with a nil or a non-nil error), and the control flow around them
   (conditions that are not tests of the flag or, in the deferred function, of the named result
   err are opaque: both branches are possible; switch / select become chains of opaque ifs) *)
Inductive gcond :=
| GcFlag                    (* haveOnStart *)
| GcErr                     (* err != nil (the deferred function: the named result) *)
| GcNot (c : gcond)
| GcAnd (a b : gcond)
| GcOr (a b : gcond)
| GcOpaque (what : string).

Inductive gstmt :=
| GsCall (r : cbrole)
| GsSetFlag (b : bool)
| GsReturn (err : bool)
| GsIf (c : gcond) (th el : list gstmt)
| GsLoop (exits : bool) (body : list gstmt)   (* exits: the loop has a condition / ranges: it may end without a break *)
| GsBreak
| GsContinue.

(* a state: the flag, the graph-level callbacks fired so far (latest first) *)
Definition gstate := (bool * list cbrole)%type.

Definition role_eqb (a b : cbrole) : bool :=
  match a, b with CbStart, CbStart | CbEnd, CbEnd | CbError, CbError => true | _, _ => false end.
Fixpoint roles_eqb (a b : list cbrole) : bool :=
  match a, b with
  | [], [] => true
  | x :: a', y :: b' => role_eqb x y && roles_eqb a' b'
  | _, _ => false
  end.
Definition gstate_eqb (a b : gstate) : bool := Bool.eqb (fst a) (fst b) && roles_eqb (snd a) (snd b).
Definition add_state (s : gstate) (l : list gstate) : list gstate :=
  if existsb (gstate_eqb s) l then l else l ++ [s].
Definition union_states (a b : list gstate) : list gstate := fold_left (fun acc s => add_state s acc) b a.
Definition rstate_eqb (a b : gstate * bool) : bool := gstate_eqb (fst a) (fst b) && Bool.eqb (snd a) (snd b).
Definition union_rets (a b : list (gstate * bool)) : list (gstate * bool) :=
  fold_left (fun acc s => if existsb (rstate_eqb s) acc then acc else acc ++ [s]) b a.

(* the values a condition can take in a state ([err]: the named result, None outside the deferred function) *)
Fixpoint cond_vals (err : option bool) (c : gcond) (s : gstate) : list bool :=
  match c with
  | GcFlag => [fst s]
  | GcErr => match err with Some e => [e] | None => [true; false] end
  | GcNot c' => map negb (cond_vals err c' s)
  | GcAnd a b => flat_map (fun x => map (andb x) (cond_vals err b s)) (cond_vals err a s)
  | GcOr a b => flat_map (fun x => map (orb x) (cond_vals err b s)) (cond_vals err a s)
  | GcOpaque _ => [true; false]
  end.

(* what the execution of a statement list can do from a set of states: fall through, return
   (with or without an error), leave the enclosing loop, start its next iteration; [bad]: a loop whose
   body fires a callback or sets the flag (the number of iterations would matter) *)
Record gout := { g_fall : list gstate; g_ret : list (gstate * bool); g_brk : list gstate; g_cont : list gstate; g_bad : bool }.
Definition gout0 (fall : list gstate) : gout := {| g_fall := fall; g_ret := []; g_brk := []; g_cont := []; g_bad := false |}.

Fixpoint stmt_quiet (s : gstmt) : bool :=
  match s with
  | GsCall _ | GsSetFlag _ => false
  | GsIf _ th el => forallb stmt_quiet th && forallb stmt_quiet el
  | GsLoop _ body => forallb stmt_quiet body
  | _ => true
  end.

Section Exec.
  Variable err : option bool.

  Fixpoint exec_stmt (s : gstmt) (ins : list gstate) {struct s} : gout :=
    let exec_list :=
      fix exec_list (l : list gstmt) (ins : list gstate) {struct l} : gout :=
        match l with
        | [] => gout0 ins
        | s :: l' =>
            let o1 := exec_stmt s ins in
            let o2 := exec_list l' (g_fall o1) in
            {| g_fall := g_fall o2; g_ret := union_rets (g_ret o1) (g_ret o2);
               g_brk := union_states (g_brk o1) (g_brk o2); g_cont := union_states (g_cont o1) (g_cont o2);
               g_bad := g_bad o1 || g_bad o2 |}
        end in
    match s with
    | GsCall r => gout0 (fold_left (fun acc st => add_state (fst st, r :: snd st) acc) ins [])
    | GsSetFlag b => gout0 (fold_left (fun acc st => add_state (b, snd st) acc) ins [])
    | GsReturn e => {| g_fall := []; g_ret := union_rets [] (map (fun st => (st, e)) ins); g_brk := []; g_cont := []; g_bad := false |}
    | GsBreak => {| g_fall := []; g_ret := []; g_brk := ins; g_cont := []; g_bad := false |}
    | GsContinue => {| g_fall := []; g_ret := []; g_brk := []; g_cont := ins; g_bad := false |}
    | GsIf c th el =>
        let t_in := filter (fun st => existsb (fun b => b) (cond_vals err c st)) ins in
        let e_in := filter (fun st => existsb negb (cond_vals err c st)) ins in
        let ot := exec_list th t_in in
        let oe := exec_list el e_in in
        {| g_fall := union_states (g_fall ot) (g_fall oe); g_ret := union_rets (g_ret ot) (g_ret oe);
           g_brk := union_states (g_brk ot) (g_brk oe); g_cont := union_states (g_cont ot) (g_cont oe);
           g_bad := g_bad ot || g_bad oe |}
    | GsLoop exits body =>
        (* a quiet body changes no state: whatever the number of iterations, the loop is left by a
           return of the body, by a break, or (if it can) by its condition, in the state it was entered *)
        let ob := exec_list body ins in
        {| g_fall := union_states (g_brk ob) (if exits then ins else []);
           g_ret := g_ret ob; g_brk := []; g_cont := [];
           g_bad := g_bad ob || negb (forallb stmt_quiet body) |}
    end.

  Fixpoint exec_list (l : list gstmt) (ins : list gstate) {struct l} : gout :=
    match l with
    | [] => gout0 ins
    | s :: l' =>
        let o1 := exec_stmt s ins in
        let o2 := exec_list l' (g_fall o1) in
        {| g_fall := g_fall o2; g_ret := union_rets (g_ret o1) (g_ret o2);
           g_brk := union_states (g_brk o1) (g_brk o2); g_cont := union_states (g_cont o1) (g_cont o2);
           g_bad := g_bad o1 || g_bad o2 |}
    end.
End Exec.

(* every way the function can end: the graph-level callbacks fired, in order, and whether it returns an
   error: the body up to a return, then the deferred function with the named result set.  A return
   whose error expression is not the literal nil may still yield nil at run time: both are followed. *)
Definition ret_errs (syntactic : bool) : list bool := if syntactic then [true; false] else [false].

Definition run_outcomes (flag0 : bool) (deferred body : list gstmt) : list (list cbrole * bool) * bool :=
  let ob := exec_list None body [(flag0, [])] in
  let rets := flat_map (fun r : gstate * bool => map (fun e => (fst r, e)) (ret_errs (snd r))) (g_ret ob) in
  let finals := flat_map (fun r : gstate * bool =>
                  let od := exec_list (Some (snd r)) deferred [fst r] in
                  map (fun st : gstate => (rev (snd st), snd r)) (g_fall od)) rets in
  (finals,
   (* nothing is lost: the body cannot end without a return, the deferred function neither returns
      nor loops over callbacks *)
   negb (g_bad ob) && match g_fall ob with [] => true | _ => false end
   && forallb (fun r : gstate * bool =>
        let od := exec_list (Some (snd r)) deferred [fst r] in
        negb (g_bad od) && match g_ret od, g_brk od, g_cont od with [], [], [] => true | _, _, _ => false end) rets).

(* the states in which the last statement of the body (the main loop of runner.run) is entered *)
Definition states_before_last (flag0 : bool) (body : list gstmt) : list gstate :=
  g_fall (exec_list None (removelast body) [(flag0, [])]).
