(* Proofs/ConcatMsg.v — lemmas about Model/ConcatMsg.v (chat-message concatenation):
   totality, re-chunking invariance, order of content / tool-call fragments. *)
From Eino Require Import Base.Util Model.Concat Model.ConcatMsg Proofs.Concat Proofs.ConcatRechunk.
From Coq Require Import Sorting.Sorted.

Section User.
Context {U : UserFn} {L : UserLaw}.

(* ------------------------------------------------------------------ small results *)

Lemma fails_bind_l {A B} (r : res A) (k : A -> res B) : fails r -> fails (res_bind r k).
Proof. unfold fails. destruct r; cbn; auto; discriminate. Qed.

Lemma fails_bind_r {A B} (r : res A) (k : A -> res B) : (forall a, fails (k a)) -> fails (res_bind r k).
Proof. unfold fails. destruct r; cbn; auto. Qed.

Lemma res_mapM_Forall2 {A B} (f : A -> res B) l r :
  res_mapM f l = Ok r -> Forall2 (fun a b => f a = Ok b) l r.
Proof.
  revert r. induction l as [|a l IH]; cbn; intros r H.
  - inversion H. constructor.
  - destruct (f a) as [b| |] eqn:Ea; cbn in H; try discriminate.
    destruct (res_mapM f l) as [bs| |]; cbn in H; try discriminate.
    inversion H; subst. constructor; auto.
Qed.

(* ------------------------------------------------------------------ pick *)

Lemma str_empty_true s : str_empty s = true -> s = EmptyString.
Proof. unfold str_empty. apply String.eqb_eq. Qed.

Lemma pick_from_app cur a b :
  pick_from cur (a ++ b) = res_bind (pick_from cur a) (fun r => pick_from r b).
Proof.
  revert cur. induction a as [|s a IH]; intros cur; cbn; [reflexivity|].
  destruct (str_empty s); [apply IH|].
  destruct (str_empty cur); [apply IH|].
  destruct (String.eqb cur s); [apply IH|reflexivity].
Qed.

Lemma pick_cons r b : pick (r :: b) = pick_from r b.
Proof.
  unfold pick. cbn. destruct (str_empty r) eqn:E; [|reflexivity].
  apply str_empty_true in E. subst. reflexivity.
Qed.

Lemma pick_rechunk a b :
  match pick a with
  | Ok r => pick (r :: b) = pick (a ++ b)
  | _ => fails (pick (a ++ b))
  end.
Proof.
  destruct (pick a) as [r|e|] eqn:E.
  - rewrite pick_cons. unfold pick in *. rewrite pick_from_app, E. reflexivity.
  - unfold pick in *. rewrite pick_from_app, E. reflexivity.
  - unfold pick in *. rewrite pick_from_app, E. reflexivity.
Qed.

Lemma pick_from_no_panic cur l : pick_from cur l <> Panic.
Proof.
  revert cur. induction l as [|s l IH]; intros cur; cbn; [discriminate|].
  destruct (str_empty s); [apply IH|]. destruct (str_empty cur); [apply IH|].
  destruct (String.eqb cur s); [apply IH|discriminate].
Qed.

(* ------------------------------------------------------------------ multi content, meta *)

Lemma multi_rechunk a b : concat_multi (concat_multi a :: b) = concat_multi (a ++ b).
Proof.
  unfold concat_multi. rewrite fold_left_app. cbn [fold_left].
  destruct (fold_left multi_step a []); reflexivity.
Qed.

Definition usage_nonneg (u : usage) : Prop := (0 <= u_prompt u /\ 0 <= u_compl u /\ 0 <= u_total u)%Z.
Definition meta_ok (m : option rmeta) : Prop :=
  match m with
  | Some a => match rm_usage a with Some u => usage_nonneg u | None => True end
  | None => True
  end.

Lemma meta_step_ok acc x : meta_ok acc -> meta_ok (meta_step acc x).
Proof.
  destruct x as [x|]; [|auto]. intros H. cbn.
  destruct (rm_usage x) as [u|].
  - unfold usage_nonneg. cbn. destruct acc as [a|]; cbn in *.
    + destruct (rm_usage a) as [au|]; unfold usage_nonneg in *; cbn; lia.
    + lia.
  - destruct acc as [a|]; cbn in *; auto.
Qed.

Lemma fold_meta_ok l acc : meta_ok acc -> meta_ok (fold_left meta_step l acc).
Proof. revert acc. induction l as [|x l IH]; cbn; intros acc H; [exact H|]. apply IH, meta_step_ok, H. Qed.

Lemma concat_meta_ok l : meta_ok (concat_meta l).
Proof. apply fold_meta_ok. exact I. Qed.

Lemma meta_step_None r : meta_ok r -> meta_step None r = r.
Proof.
  destruct r as [[f u lp]|]; cbn; [|reflexivity]. intros H. f_equal. f_equal.
  - unfold str_empty. destruct (String.eqb_spec f EmptyString); [subst; reflexivity|reflexivity].
  - destruct u as [[p c t]|]; [|reflexivity]. unfold usage_nonneg in H. cbn in H.
    f_equal. unfold umax. cbn. f_equal; lia.
  - destruct lp; reflexivity.
Qed.

Lemma meta_rechunk a b : concat_meta (concat_meta a :: b) = concat_meta (a ++ b).
Proof.
  unfold concat_meta. rewrite fold_left_app. cbn [fold_left].
  rewrite meta_step_None; [reflexivity|]. apply fold_meta_ok. exact I.
Qed.

(* ------------------------------------------------------------------ tool calls *)

Definition nilp : list toolcall -> list toolcall := filter is_nil_idx.
Definition grp (i : Z) : list toolcall -> list toolcall := filter (has_idx i).
Definition ins_step (acc : list Z) (c : toolcall) : list Z :=
  match tc_idx c with Some i => insert_idx i acc | None => acc end.

Lemma idxs_of_fold cs : idxs_of cs = fold_left ins_step cs [].
Proof. reflexivity. Qed.

Lemma has_idx_idx i c : has_idx i c = true -> tc_idx c = Some i.
Proof.
  unfold has_idx. destruct (tc_idx c); [|discriminate]. intros H. apply Z.eqb_eq in H. congruence.
Qed.

Lemma has_idx_of i c : tc_idx c = Some i -> has_idx i c = true.
Proof. unfold has_idx. intros ->. apply Z.eqb_refl. Qed.

Lemma insert_idx_In i j l : In j (insert_idx i l) <-> j = i \/ In j l.
Proof.
  induction l as [|a l IH]; cbn.
  - intuition.
  - destruct (Z.ltb_spec i a); [cbn; intuition|].
    destruct (Z.eqb_spec i a); [subst; cbn; intuition|].
    cbn. rewrite IH. intuition.
Qed.

Lemma insert_idx_sorted i l : StronglySorted Z.lt l -> StronglySorted Z.lt (insert_idx i l).
Proof.
  induction l as [|a l IH]; cbn; intros H.
  - constructor; constructor.
  - inversion H as [|? ? Hs Hf]; subst.
    destruct (Z.ltb_spec i a).
    + constructor; [exact H|]. constructor; [assumption|].
      rewrite Forall_forall in *. intros x Hx. specialize (Hf x Hx). lia.
    + destruct (Z.eqb_spec i a); [exact H|].
      constructor; [apply IH, Hs|].
      rewrite Forall_forall in *. intros x Hx. apply insert_idx_In in Hx.
      destruct Hx as [->|Hx]; [lia|apply Hf, Hx].
Qed.

Lemma insert_idx_last i l : Forall (fun j => (j < i)%Z) l -> insert_idx i l = l ++ [i].
Proof.
  induction l as [|a l IH]; cbn; intros H; [reflexivity|].
  inversion H; subst.
  destruct (Z.ltb_spec i a); [lia|]. destruct (Z.eqb_spec i a); [lia|].
  f_equal. apply IH. assumption.
Qed.

Lemma idxs_from_sorted cs acc :
  StronglySorted Z.lt acc -> StronglySorted Z.lt (fold_left ins_step cs acc).
Proof.
  revert acc. induction cs as [|c cs IH]; cbn; intros acc H; [exact H|].
  apply IH. unfold ins_step. destruct (tc_idx c); [apply insert_idx_sorted, H|exact H].
Qed.

Lemma idxs_of_sorted cs : StronglySorted Z.lt (idxs_of cs).
Proof. rewrite idxs_of_fold. apply idxs_from_sorted. constructor. Qed.

Lemma idxs_from_In cs acc j :
  In j (fold_left ins_step cs acc) <-> In j acc \/ exists c, In c cs /\ tc_idx c = Some j.
Proof.
  revert acc. induction cs as [|c cs IH]; cbn; intros acc.
  - split; [auto|]. intros [H|[c [[] _]]]. exact H.
  - rewrite IH. unfold ins_step. split.
    + intros [H|[c' [H1 H2]]]; [|eauto 6].
      destruct (tc_idx c) as [i|] eqn:E; [|auto].
      apply insert_idx_In in H. destruct H as [->|H]; [eauto 6|auto].
    + intros [H|[c' [[->|H1] H2]]]; [| |eauto 6].
      * left. destruct (tc_idx c); [apply insert_idx_In; auto|exact H].
      * left. rewrite H2. apply insert_idx_In. now left.
Qed.

Lemma idxs_of_In cs j : In j (idxs_of cs) <-> exists c, In c cs /\ tc_idx c = Some j.
Proof. rewrite idxs_of_fold, idxs_from_In. cbn. intuition. Qed.

Lemma idxs_of_app a b : idxs_of (a ++ b) = fold_left ins_step b (idxs_of a).
Proof. rewrite !idxs_of_fold. apply fold_left_app. Qed.

Lemma idxs_nilp a acc : fold_left ins_step (nilp a) acc = acc.
Proof.
  unfold nilp. induction a as [|c a IH]; cbn; [reflexivity|].
  destruct (is_nil_idx c) eqn:E; [|exact IH]. cbn. unfold ins_step at 2.
  unfold is_nil_idx in E. destruct (tc_idx c); [discriminate|exact IH].
Qed.

Lemma idxs_sorted_list merged : forall l acc,
  map tc_idx merged = map Some l -> StronglySorted Z.lt l ->
  Forall (fun a => Forall (Z.lt a) l) acc ->
  fold_left ins_step merged acc = acc ++ l.
Proof.
  induction merged as [|m merged IH]; intros l acc Hm Hs Hacc.
  - destruct l; [|discriminate]. cbn. now rewrite app_nil_r.
  - destruct l as [|i l]; [discriminate|]. cbn in Hm. inversion Hm as [[Hi Hrest]].
    cbn [fold_left]. unfold ins_step at 2. rewrite Hi.
    inversion Hs as [|? ? Hs' Hf]; subst.
    rewrite insert_idx_last.
    + rewrite (IH l (acc ++ [i]) Hrest Hs').
      * rewrite <- app_assoc. reflexivity.
      * apply Forall_app. split.
        -- eapply Forall_impl; [|exact Hacc]. intros a Ha. inversion Ha; assumption.
        -- constructor; [exact Hf|constructor].
    + eapply Forall_impl; [|exact Hacc]. intros a Ha. inversion Ha; subst. lia.
Qed.

Lemma sorted_NoDup l : StronglySorted Z.lt l -> NoDup l.
Proof.
  induction l as [|a l IH]; intros H; [constructor|].
  inversion H as [|? ? Hs Hf]; subst. constructor; [|auto].
  intros Hin. rewrite Forall_forall in Hf. specialize (Hf a Hin). lia.
Qed.

Lemma nilp_app a b : nilp (a ++ b) = nilp a ++ nilp b.
Proof. apply filter_app. Qed.
Lemma grp_app i a b : grp i (a ++ b) = grp i a ++ grp i b.
Proof. apply filter_app. Qed.

Lemma nilp_nilp a : nilp (nilp a) = nilp a.
Proof.
  unfold nilp. induction a as [|c a IH]; cbn; [reflexivity|].
  destruct (is_nil_idx c) eqn:E; cbn; [rewrite E, IH; reflexivity|exact IH].
Qed.

Lemma grp_nilp i a : grp i (nilp a) = [].
Proof.
  unfold grp, nilp. induction a as [|c a IH]; cbn; [reflexivity|].
  destruct (is_nil_idx c) eqn:E; cbn; [|exact IH].
  unfold has_idx. unfold is_nil_idx in E. destruct (tc_idx c); [discriminate|exact IH].
Qed.

Lemma nilp_indexed merged l : map tc_idx merged = map Some l -> nilp merged = [].
Proof.
  unfold nilp. revert l. induction merged as [|m merged IH]; intros l H; [reflexivity|].
  destruct l as [|i l]; [discriminate|]. cbn in H. inversion H as [[Hi Hr]].
  cbn. unfold is_nil_idx at 1. rewrite Hi. apply (IH l Hr).
Qed.

Lemma grp_nil_of i cs : ~ In i (idxs_of cs) -> grp i cs = [].
Proof.
  intros H. unfold grp. induction cs as [|c cs IH]; cbn; [reflexivity|].
  destruct (has_idx i c) eqn:E.
  - exfalso. apply H. apply idxs_of_In. exists c. split; [now left|apply has_idx_idx, E].
  - apply IH. intros Hin. apply H. apply idxs_of_In in Hin. destruct Hin as [c' [H1 H2]].
    apply idxs_of_In. exists c'. split; [now right|exact H2].
Qed.

Lemma grp_nonempty i cs : In i (idxs_of cs) -> grp i cs <> [].
Proof.
  intros H. apply idxs_of_In in H. destruct H as [c [H1 H2]].
  assert (In c (grp i cs)) by (apply filter_In; split; [exact H1|apply has_idx_of, H2]).
  intros E. rewrite E in H. contradiction.
Qed.

Lemma grp_head_idx i cs c0 g : grp i cs = c0 :: g -> tc_idx c0 = Some i.
Proof.
  intros E. assert (H : In c0 (grp i cs)) by (rewrite E; now left).
  apply filter_In in H. apply has_idx_idx, H.
Qed.

(* what a successfully merged group looks like *)
Lemma merge_group_inv i g m :
  merge_group i g = Ok m ->
  exists id ty nm, pick (map tc_id g) = Ok id /\ pick (map tc_type g) = Ok ty /\ pick (map tc_name g) = Ok nm /\
    m = mkTC (match g with c0 :: _ => tc_idx c0 | [] => Some i end) id ty nm
             (concat_strings (map tc_args g)) (match g with c0 :: _ => tc_extra c0 | [] => 0%N end).
Proof.
  unfold merge_group. intros H.
  destruct (pick (map tc_id g)) as [id| |]; cbn in H; try discriminate.
  destruct (pick (map tc_type g)) as [ty| |]; cbn in H; try discriminate.
  destruct (pick (map tc_name g)) as [nm| |]; cbn in H; try discriminate.
  inversion H. exists id, ty, nm. auto.
Qed.

Lemma merge_group_idx i cs m : In i (idxs_of cs) -> merge_group i (grp i cs) = Ok m -> tc_idx m = Some i.
Proof.
  intros Hin H. apply merge_group_inv in H. destruct H as [id [ty [nm [_ [_ [_ ->]]]]]]. cbn.
  destruct (grp i cs) as [|c0 g] eqn:E; [reflexivity|]. apply (grp_head_idx i cs c0 g E).
Qed.

(* re-absorbing a merged group: exact equality *)
Lemma merge_group_rechunk i gA gB :
  gA <> [] ->
  match merge_group i gA with
  | Ok m => merge_group i (m :: gB) = merge_group i (gA ++ gB)
  | _ => fails (merge_group i (gA ++ gB))
  end.
Proof.
  intros Hne. destruct gA as [|c0 gA']; [congruence|].
  unfold merge_group. rewrite !map_app.
  pose proof (pick_rechunk (map tc_id (c0 :: gA')) (map tc_id gB)) as H1.
  pose proof (pick_rechunk (map tc_type (c0 :: gA')) (map tc_type gB)) as H2.
  pose proof (pick_rechunk (map tc_name (c0 :: gA')) (map tc_name gB)) as H3.
  destruct (pick (map tc_id (c0 :: gA'))) as [id| |]; cbn [res_bind];
    [|apply fails_bind_l, H1|apply fails_bind_l, H1].
  destruct (pick (map tc_type (c0 :: gA'))) as [ty| |]; cbn [res_bind];
    [|apply fails_bind_r; intro; apply fails_bind_l, H2|apply fails_bind_r; intro; apply fails_bind_l, H2].
  destruct (pick (map tc_name (c0 :: gA'))) as [nm| |]; cbn [res_bind];
    [|apply fails_bind_r; intro; apply fails_bind_r; intro; apply fails_bind_l, H3
     |apply fails_bind_r; intro; apply fails_bind_r; intro; apply fails_bind_l, H3].
  cbn [map tc_id tc_type tc_name tc_args tc_idx tc_extra app].
  cbn [map] in H1, H2, H3. rewrite H1, H2, H3.
  replace (concat_strings (concat_strings (tc_args c0 :: map tc_args gA') :: map tc_args gB))
    with (concat_strings (tc_args c0 :: map tc_args gA' ++ map tc_args gB)); [reflexivity|].
  change (tc_args c0 :: map tc_args gA' ++ map tc_args gB) with ((tc_args c0 :: map tc_args gA') ++ map tc_args gB).
  rewrite concat_strings_app. reflexivity.
Qed.

Lemma grp_merged (R : Z -> toolcall -> Prop) l merged :
  Forall2 R l merged -> (forall j m, In j l -> R j m -> tc_idx m = Some j) -> NoDup l ->
  forall i, (In i l -> exists m, R i m /\ grp i merged = [m]) /\ (~ In i l -> grp i merged = []).
Proof.
  induction 1 as [|x y l merged Hxy HF IH]; intros HR Hnd i.
  - split; [intros []|reflexivity].
  - inversion Hnd as [|? ? Hx Hnd']; subst.
    assert (HR' : forall j m, In j l -> R j m -> tc_idx m = Some j) by (intros; apply HR; [now right|assumption]).
    destruct (IH HR' Hnd' i) as [IH1 IH2].
    pose proof (HR x y ltac:(now left) Hxy) as Hy.
    assert (Hh : has_idx i y = Z.eqb i x) by (unfold has_idx; rewrite Hy; reflexivity).
    unfold grp in *. cbn [filter]. rewrite !Hh.
    destruct (Z.eqb_spec i x) as [->|Hne].
    + split.
      * intros _. exists y. split; [exact Hxy|]. rewrite (IH2 Hx). reflexivity.
      * intros Hn. exfalso. apply Hn. now left.
    + split.
      * intros [->|Hin]; [congruence|]. apply IH1, Hin.
      * intros Hn. apply IH2. intros Hin. apply Hn. now right.
Qed.

Lemma concat_toolcalls_inv A r :
  concat_toolcalls A = Ok r ->
  exists merged,
    r = nilp A ++ merged /\
    Forall2 (fun i m => merge_group i (grp i A) = Ok m) (idxs_of A) merged /\
    map tc_idx merged = map Some (idxs_of A).
Proof.
  unfold concat_toolcalls. intros H.
  destruct (res_mapM _ (idxs_of A)) as [merged| |] eqn:E; cbn in H; try discriminate.
  inversion H. exists merged. split; [reflexivity|].
  apply res_mapM_Forall2 in E. split; [exact E|].
  assert (G : forall l, (forall i, In i l -> In i (idxs_of A)) ->
              forall mg, Forall2 (fun i m => merge_group i (filter (has_idx i) A) = Ok m) l mg ->
              map tc_idx mg = map Some l).
  { intros l Hl mg HF. induction HF as [|i m l mg Him HF IH]; [reflexivity|]. cbn. f_equal.
    - apply (merge_group_idx i A m); [apply Hl; now left|exact Him].
    - apply IH. intros j Hj. apply Hl. now right. }
  apply (G (idxs_of A)); auto.
Qed.

Lemma toolcalls_fail A B : fails (concat_toolcalls A) -> fails (concat_toolcalls (A ++ B)).
Proof.
  unfold concat_toolcalls. intros F. apply fails_bind_l.
  assert (F' : fails (res_mapM (fun i => merge_group i (filter (has_idx i) A)) (idxs_of A))).
  { unfold fails in *. destruct (res_mapM _ (idxs_of A)); cbn in *; auto. }
  apply res_mapM_fails_inv in F'. destruct F' as [i [Hin Hi]].
  apply (res_mapM_fails _ _ i).
  - apply idxs_of_In in Hin. destruct Hin as [c [H1 H2]]. apply idxs_of_In. exists c.
    split; [apply in_or_app; now left|exact H2].
  - fold (grp i A) in Hi. fold (grp i (A ++ B)). rewrite grp_app.
    pose proof (merge_group_rechunk i (grp i A) (grp i B) (grp_nonempty i A Hin)) as H.
    destruct (merge_group i (grp i A)); [cbn in Hi; discriminate|exact H|exact H].
Qed.

Lemma toolcalls_rechunk A B :
  match concat_toolcalls A with
  | Ok r => req (concat_toolcalls (r ++ B)) (concat_toolcalls (A ++ B))
  | _ => fails (concat_toolcalls (A ++ B))
  end.
Proof.
  destruct (concat_toolcalls A) as [r|e|] eqn:E.
  - apply concat_toolcalls_inv in E. destruct E as [merged [-> [HF Hidx]]].
    pose proof (idxs_of_sorted A) as Hs. pose proof (sorted_NoDup _ Hs) as Hnd.
    assert (Hix : idxs_of ((nilp A ++ merged) ++ B) = idxs_of (A ++ B)).
    { rewrite !idxs_of_app. f_equal. rewrite idxs_of_fold, idxs_nilp.
      rewrite (idxs_sorted_list merged (idxs_of A) [] Hidx Hs); [reflexivity|constructor]. }
    unfold concat_toolcalls. rewrite Hix.
    fold (nilp ((nilp A ++ merged) ++ B)). fold (nilp (A ++ B)).
    assert (Hnil : nilp ((nilp A ++ merged) ++ B) = nilp (A ++ B)).
    { rewrite !nilp_app, nilp_nilp, (nilp_indexed merged _ Hidx), app_nil_r. reflexivity. }
    rewrite Hnil.
    apply req_bind; [|intros a _; apply req_refl].
    apply res_mapM_req. intros i _. apply req_of_eq.
    fold (grp i ((nilp A ++ merged) ++ B)). fold (grp i (A ++ B)).
    rewrite !grp_app, grp_nilp. cbn [app].
    destruct (grp_merged _ _ _ HF
                (fun j m Hj Hm => merge_group_idx j A m Hj Hm) Hnd i) as [G1 G2].
    destruct (in_dec Z.eq_dec i (idxs_of A)) as [Hin|Hnin].
    + destruct (G1 Hin) as [m [Hm Hg]]. rewrite Hg. cbn [app].
      pose proof (merge_group_rechunk i (grp i A) (grp i B) (grp_nonempty i A Hin)) as H.
      rewrite Hm in H. exact H.
    + rewrite (G2 Hnin), (grp_nil_of i A Hnin). reflexivity.
  - apply toolcalls_fail. rewrite E. reflexivity.
  - apply toolcalls_fail. rewrite E. reflexivity.
Qed.

(* ------------------------------------------------------------------ extras *)

Lemma concat_maps_top_nil_cons ms : concat_maps_top ([] :: ms) = concat_maps_top ms.
Proof. rewrite (concat_maps_top_unfold ([] :: ms)), (concat_maps_top_unfold ms). reflexivity. Qed.

Definition extras (ms : list msg) : list (list (string * cval)) := filter nonempty_map (map m_extra ms).

Lemma extras_app a b : extras (a ++ b) = extras a ++ extras b.
Proof. unfold extras. rewrite map_app. apply filter_app. Qed.

Lemma extras_rechunk Ex Ey :
  match concat_maps_top Ex with
  | Ok ce => req (concat_maps_top ((if nonempty_map ce then [ce] else []) ++ Ey)) (concat_maps_top (Ex ++ Ey))
  | _ => fails (concat_maps_top (Ex ++ Ey))
  end.
Proof.
  pose proof (concat_maps_rechunk Ex Ey) as H. unfold rechunk_ok in H.
  destruct (concat_maps_top Ex) as [ce| |]; [|exact H|exact H].
  destruct ce as [|kv ce]; cbn [nonempty_map app]; [|exact H].
  rewrite concat_maps_top_nil_cons in H. exact H.
Qed.

(* ------------------------------------------------------------------ ConcatMessages *)

Lemma all_some_app {A} (a b : list (option A)) :
  all_some (a ++ b) =
  match all_some a, all_some b with Some x, Some y => Some (x ++ y) | _, _ => None end.
Proof.
  induction a as [|[x|] a IH]; cbn.
  - destruct (all_some b); reflexivity.
  - rewrite IH. destruct (all_some a), (all_some b); reflexivity.
  - reflexivity.
Qed.

Lemma all_some_map_Some {A} (l : list A) : all_some (map Some l) = Some l.
Proof. induction l as [|a l IH]; cbn; [reflexivity|]. rewrite IH. reflexivity. Qed.

Definition msgs_rechunk_stmt (xs ys : list (option msg)) : Prop :=
  match concat_msgs xs with
  | Ok c => req (concat_msgs (Some c :: ys)) (concat_msgs (xs ++ ys))
  | _ => fails (concat_msgs (xs ++ ys))
  end.

Ltac fail_with H :=
  repeat first [ apply fails_bind_l; exact H | apply fails_bind_r; intro ].

Theorem msgs_rechunk xs ys : msgs_rechunk_stmt xs ys.
Proof.
  unfold msgs_rechunk_stmt, concat_msgs. rewrite all_some_app. cbn [all_some].
  destruct (all_some xs) as [mx|]; [|reflexivity].
  destruct (all_some ys) as [my|].
  2:{ destruct (res_bind _ _); cbn; [exact I|reflexivity|reflexivity]. }
  fold (extras mx). fold (extras (mx ++ my)). rewrite extras_app.
  rewrite !map_app, flat_map_app.
  pose proof (pick_rechunk (map m_role mx) (map m_role my)) as H1.
  pose proof (pick_rechunk (map m_name mx) (map m_name my)) as H2.
  pose proof (pick_rechunk (map m_tcid mx) (map m_tcid my)) as H3.
  pose proof (toolcalls_rechunk (flat_map m_tcs mx) (flat_map m_tcs my)) as H4.
  pose proof (extras_rechunk (extras mx) (extras my)) as H5.
  destruct (pick (map m_role mx)) as [role| |]; cbn [res_bind]; [|fail_with H1|fail_with H1].
  destruct (pick (map m_name mx)) as [name| |]; cbn [res_bind]; [|fail_with H2|fail_with H2].
  destruct (pick (map m_tcid mx)) as [tcid| |]; cbn [res_bind]; [|fail_with H3|fail_with H3].
  destruct (concat_toolcalls (flat_map m_tcs mx)) as [tcs| |]; cbn [res_bind]; [|fail_with H4|fail_with H4].
  destruct (concat_maps_top (extras mx)) as [ce| |]; cbn [res_bind]; [|fail_with H5|fail_with H5].
  cbn [map flat_map m_role m_name m_tcid m_content m_multi m_tcs m_meta m_extra].
  rewrite H1, H2, H3.
  apply req_bind; [apply req_refl|intros role' _].
  apply req_bind; [apply req_refl|intros name' _].
  apply req_bind; [apply req_refl|intros tcid' _].
  apply req_bind; [exact H4|intros tcs' _].
  apply req_bind.
  - unfold extras at 1. cbn [map filter m_extra]. fold (extras my).
    destruct (nonempty_map ce); exact H5.
  - intros ce' _. cbn [req]. f_equal.
    + change (concat_strings (map m_content mx) :: map m_content my)
        with ([concat_strings (map m_content mx)] ++ map m_content my).
      rewrite !concat_strings_app. cbn. rewrite append_nil_r. reflexivity.
    + apply multi_rechunk.
    + apply meta_rechunk.
Qed.

(* stream level: ConcatMessageStream / concatStreamReader[*Message] *)
Theorem msg_stream_rechunk_weak xs ys : xs <> [] -> rechunk_ok msg_stream xs ys.
Proof.
  intros Hne. unfold rechunk_ok.
  destruct xs as [|x1 [|x2 l]]; [congruence| |].
  - cbn [msg_stream]. apply req_refl.
  - pose proof (msgs_rechunk (x1 :: x2 :: l) ys) as H. unfold msgs_rechunk_stmt in H.
    change (msg_stream (x1 :: x2 :: l)) with (res_map Some (concat_msgs (x1 :: x2 :: l))).
    destruct (concat_msgs (x1 :: x2 :: l)) as [c| |] eqn:E; cbn [res_map].
    + destruct ys as [|y ys'].
      * rewrite app_nil_r. cbn [msg_stream]. rewrite E. reflexivity.
      * change (msg_stream (Some c :: y :: ys')) with (res_map Some (concat_msgs (Some c :: y :: ys'))).
        change (msg_stream ((x1 :: x2 :: l) ++ y :: ys')) with (res_map Some (concat_msgs ((x1 :: x2 :: l) ++ y :: ys'))).
        apply req_res_map, H.
    + change (msg_stream ((x1 :: x2 :: l) ++ ys)) with (res_map Some (concat_msgs ((x1 :: x2 :: l) ++ ys))).
      apply fails_res_map, H.
    + change (msg_stream ((x1 :: x2 :: l) ++ ys)) with (res_map Some (concat_msgs ((x1 :: x2 :: l) ++ ys))).
      apply fails_res_map, H.
Qed.

(* ------------------------------------------------------------------ totality *)

Lemma pick_no_panic l : pick l <> Panic.
Proof. apply pick_from_no_panic. Qed.

Lemma merge_group_no_panic i g : merge_group i g <> Panic.
Proof.
  unfold merge_group.
  pose proof (pick_no_panic (map tc_id g)). pose proof (pick_no_panic (map tc_type g)).
  pose proof (pick_no_panic (map tc_name g)).
  destruct (pick (map tc_id g)); cbn; try congruence.
  destruct (pick (map tc_type g)); cbn; try congruence.
  destruct (pick (map tc_name g)); cbn; congruence.
Qed.

Lemma concat_toolcalls_no_panic cs : concat_toolcalls cs <> Panic.
Proof.
  unfold concat_toolcalls.
  pose proof (res_mapM_no_panic (fun i => merge_group i (filter (has_idx i) cs)) (idxs_of cs)
                (fun i _ => merge_group_no_panic i _)) as H.
  destruct (res_mapM _ (idxs_of cs)); cbn; congruence.
Qed.

Lemma concat_msgs_no_panic l : concat_msgs l <> Panic.
Proof.
  unfold concat_msgs. destruct (all_some l) as [ms|]; [|discriminate].
  pose proof (pick_no_panic (map m_role ms)). pose proof (pick_no_panic (map m_name ms)).
  pose proof (pick_no_panic (map m_tcid ms)).
  pose proof (concat_toolcalls_no_panic (flat_map m_tcs ms)).
  pose proof (concat_maps_no_panic (S (dmaps (filter nonempty_map (map m_extra ms))))
                (filter nonempty_map (map m_extra ms))) as H3.
  fold (concat_maps_top (filter nonempty_map (map m_extra ms))) in H3.
  destruct (pick (map m_role ms)); cbn [res_bind]; try congruence.
  destruct (pick (map m_name ms)); cbn [res_bind]; try congruence.
  destruct (pick (map m_tcid ms)); cbn [res_bind]; try congruence.
  destruct (concat_toolcalls (flat_map m_tcs ms)); cbn [res_bind]; try congruence.
  destruct (concat_maps_top _); cbn [res_bind]; congruence.
Qed.

Lemma msg_stream_no_panic l : msg_stream l <> Panic.
Proof.
  destruct l as [|x1 [|x2 l]]; cbn [msg_stream]; try discriminate.
  pose proof (concat_msgs_no_panic (x1 :: x2 :: l)) as H.
  destruct (concat_msgs (x1 :: x2 :: l)); cbn; congruence.
Qed.

Lemma concat_column_no_panic s : concat_column s <> Panic.
Proof.
  destruct s as [|m1 [|m2 s]]; cbn [concat_column]; try discriminate.
  pose proof (concat_msgs_no_panic (map Some (m1 :: m2 :: s))) as H.
  destruct (concat_msgs _); cbn; congruence.
Qed.

Lemma msglist_stream_no_panic l : msglist_stream l <> Panic.
Proof.
  destruct l as [|x1 [|x2 l]]; cbn [msglist_stream]; try discriminate.
  unfold concat_msg_arrays. destruct (forallb _ _); [|discriminate].
  apply res_mapM_no_panic. intros i _. apply concat_column_no_panic.
Qed.

Theorem msg_stream_rechunk xs ys : xs <> [] -> rechunk_strict msg_stream xs ys.
Proof.
  intros Hne. apply rechunk_strict_of; auto using msg_stream_no_panic, msg_stream_rechunk_weak.
Qed.

(* ConcatMessages itself (no single-chunk shortcut), any prefix, even the empty one *)
Definition msgs_rechunk_strict_stmt (xs ys : list (option msg)) : Prop :=
  match concat_msgs xs with
  | Ok c => req_strict (concat_msgs (Some c :: ys)) (concat_msgs (xs ++ ys))
  | Err _ => exists e, concat_msgs (xs ++ ys) = Err e
  | Panic => False
  end.

Theorem msgs_rechunk_strict xs ys : msgs_rechunk_strict_stmt xs ys.
Proof.
  pose proof (msgs_rechunk xs ys) as H. unfold msgs_rechunk_stmt, msgs_rechunk_strict_stmt in *.
  pose proof (concat_msgs_no_panic xs) as P1. pose proof (concat_msgs_no_panic (xs ++ ys)) as P2.
  destruct (concat_msgs xs) as [c|e|]; [| |congruence].
  - apply req_strict_of; auto using concat_msgs_no_panic.
  - unfold fails in H. destruct (concat_msgs (xs ++ ys)); cbn in H; try discriminate; eauto; congruence.
Qed.

(* ------------------------------------------------------------------ order *)

Definition order_kept_stmt (l : list (option msg)) (r : msg) : Prop :=
  exists ms, all_some l = Some ms /\
    m_content r = concat_strings (map m_content ms) /\
    let cs := flat_map m_tcs ms in
    exists il merged,
      m_tcs r = filter is_nil_idx cs ++ merged /\
      map tc_idx merged = map Some il /\
      StronglySorted Z.lt il /\
      (forall i, In i il <-> exists c, In c cs /\ tc_idx c = Some i) /\
      Forall2 (fun i m => tc_args m = concat_strings (map tc_args (filter (has_idx i) cs))) il merged.

Theorem order_kept_proof l r : concat_msgs l = Ok r -> order_kept_stmt l r.
Proof.
  unfold concat_msgs, order_kept_stmt. destruct (all_some l) as [ms|]; [|discriminate].
  intros H. exists ms. split; [reflexivity|].
  destruct (pick (map m_role ms)); cbn [res_bind] in H; try discriminate.
  destruct (pick (map m_name ms)); cbn [res_bind] in H; try discriminate.
  destruct (pick (map m_tcid ms)); cbn [res_bind] in H; try discriminate.
  destruct (concat_toolcalls (flat_map m_tcs ms)) as [tcs| |] eqn:Et; cbn [res_bind] in H; try discriminate.
  destruct (concat_maps_top _); cbn [res_bind] in H; try discriminate.
  inversion H; subst r; clear H. cbn [m_content m_tcs]. split; [reflexivity|].
  apply concat_toolcalls_inv in Et. destruct Et as [merged [-> [HF Hidx]]].
  exists (idxs_of (flat_map m_tcs ms)), merged.
  split; [reflexivity|]. split; [exact Hidx|]. split; [apply idxs_of_sorted|].
  split; [intros i; apply idxs_of_In|].
  clear Hidx. induction HF as [|i m il mg Hm HF IH]; constructor; [|apply IH].
  apply merge_group_inv in Hm. destruct Hm as [id [ty [nm [_ [_ [_ ->]]]]]]. reflexivity.
Qed.

End User.
