(* Proofs/DagLoop.v — C02, graph level, part 2: the invariant of Proofs/DagInv.v carried through
   calc_next, initChannelManager and the run loop (step / iterate / run_flat), for batch AND eager mode and
   every schedule; consequence: dag_at_most_once. *)
From Eino Require Import Base.Util Model.Graph Proofs.DagChan Proofs.DagInv.
From Coq Require Import Lia Permutation.
Open Scope N_scope.

Lemma alookup_fold_ainsert_f {A} (f : N -> A) (ks : list N) t :
  alookup t (fold_right (fun k m => ainsert k (f k) m) [] ks) = if memb t ks then Some (f t) else None.
Proof.
  induction ks as [|k0 ks IH]; simpl; [reflexivity|].
  rewrite alookup_ainsert. destruct (N.eqb t k0) eqn:E; [|exact IH].
  apply N.eqb_eq in E. now subst.
Qed.

Lemma ksorted_fold_ainsert_f {A} (f : N -> A) (ks : list N) :
  ksorted (fold_right (fun k m => ainsert k (f k) m) [] ks).
Proof. induction ks; simpl; [exact I|now apply ksorted_ainsert]. Qed.

(* ================= where log entries come from (any mode) ================= *)
Section LogShape.
  Variable V : Type.
  Variable St : Type.
  Variable ops : vops V.
  Variable g : graph.
  Variable exec : St -> path -> V -> res V * St.
  Variable sub : nat -> path -> V -> St -> outcome V * St.
  Variable sched : nat -> list key -> nat.
  Variable p : path.
  Variable Q : logentry V -> Prop.
  Hypothesis Hsub : forall i k v s, Forall Q (outcome_log V (fst (sub i (p ++ [k]) v s))).
  Hypothesis Hown : forall evs, Q (p, evs).

  Lemma run_task_log n v s r l s' :
    run_task V St ops exec sub p n v s = (r, l, s') -> Forall Q l.
  Proof.
    unfold run_task. destruct (n_kind n).
    - destruct (exec s (p ++ [n_key n]) v). intros [= _ <- _]. constructor.
    - intros [= _ <- _]. constructor.
    - pose proof (Hsub idx (n_key n) v s) as H. destruct (sub idx (p ++ [n_key n]) v s) as [o s1]. simpl in H.
      destruct o; intros [= _ <- _]; exact H.
  Qed.

  Lemma submit_spec tasks : forall s results sublog s',
    submit V St ops exec sub p g tasks s = (results, sublog, s') ->
    akeys results = akeys tasks /\ Forall Q sublog.
  Proof.
    induction tasks as [|[k v] tasks IH]; intros s results sublog s'; cbn [submit].
    - intros [= <- <- _]. split; [reflexivity|constructor].
    - destruct (find_node g k) as [n|].
      + destruct (run_task V St ops exec sub p n v s) as [[r l1] s1] eqn:Er.
        destruct (submit V St ops exec sub p g tasks s1) as [[rs l2] s2] eqn:Es.
        intros [= <- <- _]. destruct (IH _ _ _ _ Es) as [Hk Hl]. split.
        * unfold akeys in *. simpl. now rewrite Hk.
        * apply Forall_app. split; [eapply run_task_log; eassumption|assumption].
      + destruct (submit V St ops exec sub p g tasks s) as [[rs l2] s2] eqn:Es.
        intros [= <- <- _]. destruct (IH _ _ _ _ Es) as [Hk Hl]. split; [|assumption].
        unfold akeys in *. simpl. now rewrite Hk.
  Qed.

  Lemma submit_results tasks : forall s results sublog s',
    submit V St ops exec sub p g tasks s = (results, sublog, s') ->
    forall k r, In (k, r) results ->
      exists v, In (k, v) tasks
        /\ ((exists n s0, find_node g k = Some n /\ r = fst (fst (run_task V St ops exec sub p n v s0)))
            \/ (find_node g k = None /\ r = TErr [mkerr eUnknownNode])).
  Proof.
    induction tasks as [|[k0 v0] tasks IH]; intros s results sublog s'; cbn [submit].
    - intros [= <- _ _] k r [].
    - destruct (find_node g k0) as [n|] eqn:Ef.
      + destruct (run_task V St ops exec sub p n v0 s) as [[r0 l1] s1] eqn:Er.
        destruct (submit V St ops exec sub p g tasks s1) as [[rs l2] s2] eqn:Es.
        intros [= <- _ _] k r [[= <- <-]|Hin].
        * exists v0. split; [now left|]. left. exists n, s. split; [assumption|]. now rewrite Er.
        * destruct (IH _ _ _ _ Es k r Hin) as (v & Hv & H). exists v. split; [now right|assumption].
      + destruct (submit V St ops exec sub p g tasks s) as [[rs l2] s2] eqn:Es.
        intros [= <- _ _] k r [[= <- <-]|Hin].
        * exists v0. split; [now left|]. now right.
        * destruct (IH _ _ _ _ Es k r Hin) as (v & Hv & H). exists v. split; [now right|assumption].
  Qed.

  Lemma step_log ls :
    Forall Q (ls_log V St ls) ->
    match step V St ops exec sub sched p g ls with
    | Continue ls' => Forall Q (ls_log V St ls')
    | Finish o _ => Forall Q (outcome_log V o)
    end.
  Proof.
    intros HQ. unfold step. destruct (step_limit_hit g (ls_step V St ls)); [exact HQ|].
    destruct (submit V St ops exec sub p g (ls_next V St ls) (ls_st V St ls)) as [[results sublog] s'] eqn:Es.
    destruct (submit_spec _ _ _ _ _ Es) as [_ Hsl].
    assert (Hlg : Forall Q (ls_log V St ls ++ (match ls_next V St ls with [] => [] | _ => [step_entry V p (ls_next V St ls)] end) ++ sublog)).
    { apply Forall_app. split; [assumption|]. apply Forall_app. split; [|assumption].
      destruct (ls_next V St ls); [constructor|]. constructor; [apply Hown|constructor]. }
    destruct (wait_tasks V sched g (ls_step V St ls) (ls_running V St ls ++ results)) as [completed running'].
    destruct (task_errors V completed); [|exact Hlg].
    destruct completed; [exact Hlg|].
    destruct (calc_next V ops g (ls_chans V St ls) _) as [[cs' ready]|e|]; [|exact Hlg..].
    destruct (alookup kEND ready); exact Hlg.
  Qed.

  Lemma iterate_log fuel : forall ls,
    Forall Q (ls_log V St ls) -> Forall Q (outcome_log V (fst (iterate V St ops exec sub sched p g fuel ls))).
  Proof.
    induction fuel as [|fuel IH]; intros ls HQ; simpl; [exact HQ|].
    pose proof (step_log ls HQ) as H. destruct (step V St ops exec sub sched p g ls); [now apply IH|exact H].
  Qed.

  Lemma run_flat_log x s : Forall Q (outcome_log V (fst (run_flat V St ops exec sub sched p g x s))).
  Proof.
    assert (Hm : Forall Q [run_marker V p]) by (constructor; [apply Hown|constructor]).
    unfold run_flat. destruct (init_chans V g) as [cs0|e|]; [|exact Hm..].
    destruct (calc_next V ops g cs0 [(kSTART, x)]) as [[cs1 ready]|e|]; [|exact Hm..].
    destruct (alookup kEND ready); [exact Hm|]. apply iterate_log. exact Hm.
  Qed.
End LogShape.

Definition is_prefix (a b : path) : Prop := exists r, b = a ++ r.

Lemma is_prefix_refl a : is_prefix a a.
Proof. exists []. now rewrite app_nil_r. Qed.

Lemma is_prefix_snoc a k b : is_prefix (a ++ [k]) b -> is_prefix a b /\ b <> a.
Proof.
  intros (r & ->). split; [exists ([k] ++ r); now rewrite app_assoc|].
  intros E. apply (f_equal (@List.length key)) in E. rewrite !app_length in E. simpl in E. lia.
Qed.

(* every entry logged by a (nested) run at path p carries a path that extends p *)
Lemma run_nest_log_prefix V St (ops : vops V) exec sched F fuel : forall p g x s,
  Forall (fun e : logentry V => is_prefix p (fst e)) (outcome_log V (fst (run_nest V St ops exec sched fuel F p g x s))).
Proof.
  induction fuel as [|fuel IH]; intros p g x s; cbn [run_nest]; [constructor|].
  apply run_flat_log.
  - intros i k v s0. destruct (nth_error F i) as [g'|]; [|constructor].
    eapply Forall_impl; [|apply IH]. intros e He. simpl in He. now apply is_prefix_snoc in He.
  - intros evs. simpl. apply is_prefix_refl.
Qed.

Section DagLoop.
  Variable V : Type.
  Variable St : Type.
  Variable ops : vops V.
  Variable g : graph.
  Hypothesis Hdag : g_mode g = Dag.

  Notation chan := (chan V).
  Notation chans := (chans V).
  Notation Inv := (Inv V g).
  Notation orph := (orph V g).
  Notation skipped := (skipped V).
  Notation sk_mono := (sk_mono V).

  Lemma Inv_perm_G cs R G G' W : (forall x, In x G <-> In x G') -> Inv cs R G W -> Inv cs R G' W.
  Proof.
    intros Hi [H1 H2 H3 H4 H5 H6]. constructor; auto.
    - intros x Hx. apply Hi. now apply H2.
    - intros t Ht. apply H5. now apply Hi.
  Qed.

  (* ================= calculateNextTasks ================= *)
  Lemma calc_next_inv cs R G completed cs' ready :
    Inv cs R G [] -> orph cs -> NoDup G ->
    (forall k, In k (akeys completed) -> In k G /\ npred g G k) ->
    calc_next V ops g cs completed = Ok (cs', ready) ->
    ((alookup kEND ready = None \/ exists q, gpred g kEND q) -> Inv cs' (akeys completed ++ R) (G ++ akeys ready) [])
    /\ orph cs' /\ NoDup (G ++ akeys ready) /\ sk_mono cs cs'.
  Proof.
    intros HI Ho Hnd Hc. unfold calc_next.
    destruct (resolve_all V ops g completed cs) as [[[cs1 ws] ds]|e|] eqn:E1; simpl; [|discriminate..].
    destruct (update_chans V g ws ds cs1) as [cs2|e|] eqn:E2; simpl; [|discriminate..].
    intros E3.
    set (R' := akeys completed ++ R).
    assert (HR' : incl R' G).
    { intros x Hx. apply in_app_iff in Hx. destruct Hx as [Hx|Hx]; [exact (proj1 (Hc x Hx))|now apply (inv_RG _ _ _ _ _ _ HI)]. }
    assert (HI' : Inv cs R' G []).
    { apply Inv_grow_R with R; [|assumption..]. intros x Hx. apply in_app_iff. now right. }
    assert (Hnp : forall k, In k (akeys completed) -> In k R' /\ npred g G k).
    { intros k Hk. split; [apply in_app_iff; now left|]. exact (proj2 (Hc k Hk)). }
    destruct (resolve_all_inv V ops g Hdag completed cs R' G cs1 ws ds HI' Hnp E1) as (HI1 & Hm1 & Hws & Hds).
    destruct (update_chans_inv V g Hdag cs1 R' G ws ds cs2 HI1
                (fun w Hw => Hnp _ (Hws w Hw)) (fun d Hd => Hnp _ (Hds d Hd)) E2) as (HI2 & Hm2).
    assert (Ho2 : orph cs2).
    { eapply orph_mono; [exact Hm2|]. eapply orph_mono; [exact Hm1|assumption]. }
    destruct (get_all_inv V ops g Hdag cs2 R' G cs' ready HI2 Ho2 Hnd E3) as (HI3 & Hm3 & Hnd3 & _).
    split; [assumption|]. split; [eapply orph_mono; eassumption|]. split; [assumption|].
    eapply sk_mono_trans; [eassumption|]. eapply sk_mono_trans; eassumption.
  Qed.

  (* ================= initChannelManager ================= *)
  Lemma start_not_chan_key : ~ In kSTART (chan_keys g).
  Proof.
    unfold chan_keys. intros H. apply in_app_iff in H. destruct H as [H|[H|[]]]; [|discriminate].
    apply in_map_iff in H. destruct H as (n & E & Hn). unfold real_nodes in Hn. apply filter_In in Hn.
    destruct Hn as [_ Hn]. rewrite E in Hn. discriminate.
  Qed.

  Lemma init_v0_lookup t :
    alookup t (init_chans_v0 V g) = if memb t (chan_keys g) then Some (chan_init V g t) else None.
  Proof. unfold init_chans_v0. apply alookup_fold_ainsert_f. Qed.

  Lemma chan_init_wf t : chan_wf V g t (chan_init V g t).
  Proof.
    split; [apply chan_init_ok|]. split; intros p.
    - rewrite chan_init_dag_ctrl by assumption. rewrite <- memb_in. destruct (memb p (cpreds g t)); split; congruence.
    - rewrite chan_init_dag_data by assumption. rewrite <- memb_in. destruct (memb p (dpreds g t)); split; congruence.
  Qed.

  Lemma chan_init_fresh t : fresh V (chan_init V g t).
  Proof.
    split.
    - intros p d. rewrite chan_init_dag_ctrl by assumption. destruct (memb p (cpreds g t)); congruence.
    - intros p b. rewrite chan_init_dag_data by assumption. destruct (memb p (dpreds g t)); congruence.
  Qed.

  Lemma init_v0_inv : Inv (init_chans_v0 V g) [kSTART] [kSTART] [].
  Proof.
    constructor.
    - split; [apply ksorted_fold_ainsert_f|]. split.
      + rewrite init_v0_lookup. pose proof start_not_chan_key as H. apply memb_false in H. now rewrite H.
      + intros t c. rewrite init_v0_lookup. destruct (memb t (chan_keys g)); [|discriminate].
        intros [= <-]. apply chan_init_wf.
    - apply incl_refl.
    - intros t c. rewrite init_v0_lookup. destruct (memb t (chan_keys g)); [|discriminate].
      intros [= <-]. unfold chan_init. rewrite Hdag. simpl. discriminate.
    - intros t c p. rewrite init_v0_lookup. destruct (memb t (chan_keys g)); [|discriminate].
      intros [= <-] Hrep. exfalso. eapply fresh_not_reported; [apply chan_init_fresh|eassumption].
    - intros t [<-|[]] Hne. congruence.
    - intros k [].
  Qed.

  Lemma init_chans_inv cs : init_chans V g = Ok cs -> Inv cs [kSTART] [kSTART] [] /\ orph cs.
  Proof.
    unfold init_chans. rewrite Hdag. intros Hrb.
    assert (HtG : forall t c, In t (unreachable_nodes g) -> alookup t (init_chans_v0 V g) = Some c -> ~ In t [kSTART]).
    { intros t c _ E [<-|[]]. rewrite (start_no_chan V g _ _ _ _ init_v0_inv) in E. discriminate. }
    destruct (report_branch_inv V g Hdag _ [kSTART] [kSTART] kSTART _ cs init_v0_inv (or_introl eq_refl) HtG Hrb)
      as (HI & Hm & Hmk).
    split; [assumption|].
    intros t c Hne E Hnone.
    assert (Hc : cpreds g t = []).
    { destruct (cpreds g t) as [|p l] eqn:Ec; [reflexivity|]. exfalso. apply (Hnone p). left. rewrite Ec. now left. }
    assert (Hd : dpreds g t = []).
    { destruct (dpreds g t) as [|p l] eqn:Ed; [reflexivity|]. exfalso. apply (Hnone p). right. rewrite Ed. now left. }
    destruct (alookup t (init_chans_v0 V g)) as [c0|] eqn:E0.
    2:{ destruct Hm as [Ek _]. apply (alookup_same_keys _ _ t (eq_sym Ek)) in E0. congruence. }
    assert (Hin : In t (unreachable_nodes g)).
    { rewrite init_v0_lookup in E0. destruct (memb t (chan_keys g)) eqn:Em; [|discriminate].
      apply memb_in in Em. unfold chan_keys in Em. apply in_app_iff in Em. destruct Em as [Em|[Em|[]]]; [|congruence].
      apply in_map_iff in Em. destruct Em as (n & <- & Hn).
      unfold unreachable_nodes. apply in_map. apply filter_In. split; [assumption|]. now rewrite Hc, Hd. }
    assert (Hs : skipped cs t).
    { eapply Hmk; [exact Hin|exact E0|]. intros p Hp. rewrite Hc in Hp. destruct Hp. }
    destruct Hs as (c2 & E2 & S2). congruence.
  Qed.

  (* ================= the run loop ================= *)
  Section Run.
    Variable exec : St -> path -> V -> res V * St.
    Variable sub : nat -> path -> V -> St -> outcome V * St.
    Variable sched : nat -> list key -> nat.
    Variable p : path.
    (* sub-graph runs log under their own (longer) path *)
    Hypothesis Hsub : forall i k v s, Forall (fun e : logentry V => fst e <> p) (outcome_log V (fst (sub i (p ++ [k]) v s))).

    Definition own_paths (l : log V) : list path := map fst (List.concat (log_steps_at V p l)).

    Lemma own_paths_app l1 l2 : own_paths (l1 ++ l2) = own_paths l1 ++ own_paths l2.
    Proof. unfold own_paths, log_steps_at. now rewrite filter_app, map_app, concat_app, map_app. Qed.

    Lemma own_paths_foreign l : Forall (fun e : logentry V => fst e <> p) l -> own_paths l = [].
    Proof.
      unfold own_paths, log_steps_at. induction 1 as [|e l He _ IH]; simpl; [reflexivity|].
      match goal with |- context [list_eq_dec ?a ?b ?c] => destruct (list_eq_dec a b c) end; [contradiction|exact IH].
    Qed.

    Lemma own_paths_entry tasks : own_paths [step_entry V p tasks] = map (fun k => p ++ [k]) (akeys tasks).
    Proof.
      unfold own_paths, log_steps_at, step_entry. simpl.
      match goal with |- context [list_eq_dec ?a ?b ?c] => destruct (list_eq_dec a b c) end; [|contradiction]. simpl. rewrite app_nil_r.
      unfold akeys. rewrite !map_map. reflexivity.
    Qed.

    Lemma own_paths_marker : own_paths [run_marker V p] = [].
    Proof.
      unfold own_paths, log_steps_at, run_marker. simpl.
      match goal with |- context [list_eq_dec ?a ?b ?c] => destruct (list_eq_dec a b c) end; reflexivity.
    Qed.

    Lemma remove_nth_perm {A} (l : list A) : forall i t, nth_error l i = Some t -> Permutation (t :: remove_nth i l) l.
    Proof.
      induction l as [|a l IH]; intros [|i] t; simpl; try discriminate.
      - intros [= ->]. reflexivity.
      - intros H. apply IH in H. rewrite perm_swap. now constructor.
    Qed.

    Lemma wait_tasks_perm n (l c r : list (key * tres V)) :
      wait_tasks V sched g n l = (c, r) -> Permutation (c ++ r) l.
    Proof.
      unfold wait_tasks. destruct (g_eager g).
      - destruct l as [|a l]; [intros [= <- <-]; reflexivity|].
        set (i := (sched n (akeys (a :: l)) mod List.length (a :: l))%nat).
        assert (Hi : (i < List.length (a :: l))%nat) by (apply Nat.mod_upper_bound; simpl; lia).
        destruct (nth_error (a :: l) i) as [t|] eqn:E.
        + intros [= <- <-]. simpl. now apply remove_nth_perm.
        + apply nth_error_None in E. lia.
      - intros [= <- <-]. now rewrite app_nil_r.
    Qed.

    Lemma task_outputs_keys (c : list (key * tres V)) : incl (akeys (task_outputs V c)) (akeys c).
    Proof.
      unfold task_outputs, akeys. induction c as [|[k r] c IH]; simpl; [apply incl_refl|].
      destruct r as [v|es]; simpl.
      - intros x [<-|Hx]; [now left|right; now apply IH].
      - intros x Hx. right. now apply IH.
    Qed.

    (* the loop invariant: R resolved keys, G keys handed out by a successful get, X the keys executed so
       far (in log order); N = tasks about to be executed, Ru = executed, not yet collected (eager mode) *)
    Definition next_entry (ls : loopstate V St) : log V :=
      match ls_next V St ls with [] => [] | _ => [step_entry V p (ls_next V St ls)] end.

    Definition LInvR (ls : loopstate V St) (R X G : list key) : Prop :=
        Inv (ls_chans V St ls) R G []
        /\ orph (ls_chans V St ls)
        /\ NoDup G
        /\ Permutation G (kSTART :: X ++ akeys (ls_next V St ls))
        /\ NoDup (akeys (ls_running V St ls) ++ akeys (ls_next V St ls))
        /\ incl (akeys (ls_running V St ls)) X
        /\ (forall k, In k (akeys (ls_running V St ls) ++ akeys (ls_next V St ls)) -> ~ In k R)
        /\ own_paths (ls_log V St ls) = map (fun k => p ++ [k]) X.

    Definition LInv (ls : loopstate V St) : Prop := exists R X G, LInvR ls R X G.

    (* the tasks resolved by the current iteration of the loop (a function of the state) *)
    Definition step_outputs (ls : loopstate V St) : list (key * V) :=
      let '(results, _, _) := submit V St ops exec sub p g (ls_next V St ls) (ls_st V St ls) in
      let '(completed, _) := wait_tasks V sched g (ls_step V St ls) (ls_running V St ls ++ results) in
      task_outputs V completed.

    (* inversion of one iteration that continues *)
    Lemma step_continue_unfold ls ls' :
      step V St ops exec sub sched p g ls = Continue ls' ->
      exists results sublog s' completed running' cs' ready,
        submit V St ops exec sub p g (ls_next V St ls) (ls_st V St ls) = (results, sublog, s')
        /\ wait_tasks V sched g (ls_step V St ls) (ls_running V St ls ++ results) = (completed, running')
        /\ calc_next V ops g (ls_chans V St ls) (task_outputs V completed) = Ok (cs', ready)
        /\ alookup kEND ready = None
        /\ step_outputs ls = task_outputs V completed
        /\ ls' = {| ls_step := S (ls_step V St ls); ls_chans := cs'; ls_next := ready; ls_running := running';
                    ls_st := s'; ls_log := ls_log V St ls ++ next_entry ls ++ sublog |}.
    Proof.
      unfold step, step_outputs, step_limit_hit. rewrite Hdag.
      destruct (submit V St ops exec sub p g (ls_next V St ls) (ls_st V St ls)) as [[results sublog] s'] eqn:Es.
      destruct (wait_tasks V sched g (ls_step V St ls) (ls_running V St ls ++ results)) as [completed running'] eqn:Ew.
      destruct (task_errors V completed) eqn:Ete; [|discriminate].
      destruct completed as [|c0 completed0] eqn:Ec; [discriminate|]. rewrite <- Ec in *.
      destruct (calc_next V ops g (ls_chans V St ls) (task_outputs V completed)) as [[cs' ready]|e|] eqn:Ecn; [|discriminate..].
      destruct (alookup kEND ready) eqn:Eend; [discriminate|].
      intros [= <-]. exists results, sublog, s', completed, running', cs', ready. repeat split; auto.
    Qed.

    (* inversion of the iteration that finishes the run successfully *)
    Lemma step_done_unfold ls v lg s' :
      step V St ops exec sub sched p g ls = Finish (Done v lg) s' ->
      exists results sublog completed running' cs' ready,
        submit V St ops exec sub p g (ls_next V St ls) (ls_st V St ls) = (results, sublog, s')
        /\ wait_tasks V sched g (ls_step V St ls) (ls_running V St ls ++ results) = (completed, running')
        /\ calc_next V ops g (ls_chans V St ls) (task_outputs V completed) = Ok (cs', ready)
        /\ alookup kEND ready = Some v
        /\ step_outputs ls = task_outputs V completed
        /\ lg = ls_log V St ls ++ next_entry ls ++ sublog.
    Proof.
      unfold step, step_outputs, step_limit_hit. rewrite Hdag.
      destruct (submit V St ops exec sub p g (ls_next V St ls) (ls_st V St ls)) as [[results sublog] s1] eqn:Es.
      destruct (wait_tasks V sched g (ls_step V St ls) (ls_running V St ls ++ results)) as [completed running'] eqn:Ew.
      destruct (task_errors V completed) eqn:Ete; [|discriminate].
      destruct completed as [|c0 completed0] eqn:Ec; [discriminate|]. rewrite <- Ec in *.
      destruct (calc_next V ops g (ls_chans V St ls) (task_outputs V completed)) as [[cs' ready]|e|] eqn:Ecn; [|discriminate..].
      destruct (alookup kEND ready) eqn:Eend; [|discriminate].
      intros [= <- <- <-]. exists results, sublog, completed, running', cs', ready. repeat split; auto.
    Qed.

    Lemma task_outputs_nodup (c : list (key * tres V)) : NoDup (akeys c) -> NoDup (akeys (task_outputs V c)).
    Proof.
      unfold akeys. induction c as [|[k r] c IH]; simpl; [constructor|]. intros H.
      inversion H as [|? ? Hn Hnd]; subst. destruct r as [v|es]; simpl; [|now apply IH].
      constructor; [|now apply IH]. intros Hin. apply Hn. now apply (task_outputs_keys c).
    Qed.

    Definition inj_path (k : key) : path := p ++ [k].

    Lemma inj_path_inj a b : inj_path a = inj_path b -> a = b.
    Proof. unfold inj_path. intros H. apply app_inv_head in H. now injection H. Qed.

    Lemma NoDup_map_inj {A B} (f : A -> B) (l : list A) :
      (forall a b, f a = f b -> a = b) -> NoDup l -> NoDup (map f l).
    Proof.
      intros Hinj. induction 1 as [|a l Hn _ IH]; simpl; constructor; [|assumption].
      intros Hin. apply in_map_iff in Hin. destruct Hin as (b & E & Hb). apply Hinj in E. now subst.
    Qed.

    Lemma own_paths_next ls : own_paths (next_entry ls) = map (fun k => p ++ [k]) (akeys (ls_next V St ls)).
    Proof. unfold next_entry. destruct (ls_next V St ls) eqn:En; [reflexivity|]. apply own_paths_entry. Qed.

    (* what the log of the current step will contain, whatever happens in it *)
    Lemma LInv_log ls sublog :
      LInv ls -> Forall (fun e : logentry V => fst e <> p) sublog ->
      NoDup (own_paths (ls_log V St ls ++ next_entry ls ++ sublog)).
    Proof.
      intros (R & X & G & HI & Ho & Hnd & Hperm & _ & _ & _ & Hlog) Hsl.
      rewrite !own_paths_app, (own_paths_foreign sublog Hsl), app_nil_r, Hlog, own_paths_next.
      rewrite <- map_app. apply (NoDup_map_inj inj_path); [apply inj_path_inj|].
      pose proof (Permutation_NoDup Hperm Hnd) as H. now inversion H.
    Qed.

    (* the tasks collected by an iteration have been handed out, are not resolved yet, and are distinct *)
    Lemma step_completed_pre ls R X G results sublog s' completed running' :
      LInvR ls R X G ->
      submit V St ops exec sub p g (ls_next V St ls) (ls_st V St ls) = (results, sublog, s') ->
      wait_tasks V sched g (ls_step V St ls) (ls_running V St ls ++ results) = (completed, running') ->
      let Co := akeys (task_outputs V completed) in
      NoDup Co /\ (forall k, In k Co -> In k G /\ npred g G k /\ ~ In k R).
    Proof.
      intros HL Es Ew Co.
      destruct (submit_spec V St ops g exec sub p _ Hsub _ _ _ _ _ Es) as [Hkres Hsl].
      pose proof (wait_tasks_perm _ _ _ _ Ew) as Hwp.
      destruct HL as (HI & Ho & Hnd & Hperm & HndRN & HRuX & HnR & Hlog).
      set (N := akeys (ls_next V St ls)) in *. set (Ru := akeys (ls_running V St ls)) in *.
      set (C := akeys completed). set (Ru' := akeys running').
      assert (HpC : Permutation (C ++ Ru') (Ru ++ N)).
      { unfold C, Ru', Ru. rewrite <- Hkres. unfold akeys. rewrite <- !map_app. now apply Permutation_map. }
      assert (HndC : NoDup (C ++ Ru')) by (eapply Permutation_NoDup; [apply Permutation_sym; exact HpC|exact HndRN]).
      destruct (NoDup_app_inv _ _ HndC) as (HndCC & _ & _).
      assert (HCo : incl Co C) by apply task_outputs_keys.
      split; [now apply task_outputs_nodup|].
      intros k Hk. apply HCo in Hk.
      assert (Hk2 : In k (Ru ++ N)) by (eapply Permutation_in; [exact HpC|apply in_app_iff; now left]).
      assert (HkG : In k G).
      { eapply Permutation_in; [apply Permutation_sym; exact Hperm|]. right.
        apply in_app_iff. apply in_app_iff in Hk2. destruct Hk2 as [H|H]; [left; now apply HRuX|now right]. }
      assert (HkR : ~ In k R) by now apply HnR.
      split; [assumption|]. split; [|assumption]. eapply pending_npred with (R := R); eassumption.
    Qed.

    Lemma step_continue_R ls R X G results sublog s' completed running' cs' ready :
      LInvR ls R X G ->
      submit V St ops exec sub p g (ls_next V St ls) (ls_st V St ls) = (results, sublog, s') ->
      wait_tasks V sched g (ls_step V St ls) (ls_running V St ls ++ results) = (completed, running') ->
      calc_next V ops g (ls_chans V St ls) (task_outputs V completed) = Ok (cs', ready) ->
      (alookup kEND ready = None \/ exists q, gpred g kEND q) ->
      let Co := akeys (task_outputs V completed) in
      LInvR {| ls_step := S (ls_step V St ls); ls_chans := cs'; ls_next := ready; ls_running := running';
               ls_st := s'; ls_log := ls_log V St ls ++ next_entry ls ++ sublog |}
            (Co ++ R) (X ++ akeys (ls_next V St ls)) (G ++ akeys ready)
      /\ NoDup Co /\ (forall k, In k Co -> In k G /\ npred g G k /\ ~ In k R).
    Proof.
      intros HL Es Ew Ecn Eend Co.
      destruct (submit_spec V St ops g exec sub p _ Hsub _ _ _ _ _ Es) as [Hkres Hsl].
      pose proof (wait_tasks_perm _ _ _ _ Ew) as Hwp.
      destruct HL as (HI & Ho & Hnd & Hperm & HndRN & HRuX & HnR & Hlog).
      set (N := akeys (ls_next V St ls)) in *. set (Ru := akeys (ls_running V St ls)) in *.
      set (C := akeys completed). set (Ru' := akeys running').
      assert (HpC : Permutation (C ++ Ru') (Ru ++ N)).
      { unfold C, Ru', Ru. rewrite <- Hkres. unfold akeys. rewrite <- !map_app. now apply Permutation_map. }
      assert (HndC : NoDup (C ++ Ru')) by (eapply Permutation_NoDup; [apply Permutation_sym; exact HpC|exact HndRN]).
      destruct (NoDup_app_inv _ _ HndC) as (HndCC & HndRu' & HdisjC).
      assert (HCo : incl Co C) by apply task_outputs_keys.
      assert (HRNG : forall k, In k (Ru ++ N) -> In k G).
      { intros k Hk. eapply Permutation_in; [apply Permutation_sym; exact Hperm|]. right.
        apply in_app_iff. apply in_app_iff in Hk. destruct Hk as [Hk|Hk]; [left; now apply HRuX|now right]. }
      assert (HCRN : forall k, In k C -> In k (Ru ++ N)).
      { intros k Hk. eapply Permutation_in; [exact HpC|]. apply in_app_iff. now left. }
      assert (HRu'RN : forall k, In k Ru' -> In k (Ru ++ N)).
      { intros k Hk. eapply Permutation_in; [exact HpC|]. apply in_app_iff. now right. }
      assert (Hpre : forall k, In k Co -> In k G /\ ~ In k R).
      { intros k Hk. apply HCo in Hk. apply HCRN in Hk. split; [now apply HRNG|now apply HnR]. }
      assert (Hpre' : forall k, In k Co -> In k G /\ npred g G k).
      { intros k Hk. destruct (Hpre k Hk) as [H1 H2]. split; [assumption|]. eapply pending_npred with (R := R); eassumption. }
      destruct (calc_next_inv _ _ _ _ _ _ HI Ho Hnd Hpre' Ecn) as (HI' & Ho' & Hnd' & _).
      specialize (HI' Eend). fold Co in HI'.
      destruct (NoDup_app_inv _ _ Hnd') as (_ & Hndready & HdisjG).
      split; [|split; [now apply task_outputs_nodup|]].
      2:{ intros k Hk. destruct (Hpre k Hk). destruct (Hpre' k Hk). auto. }
      unfold LInvR. cbn [ls_chans ls_next ls_running ls_log].
      split; [assumption|]. split; [assumption|]. split; [assumption|].
      split; [|split; [|split; [|split]]].
      - rewrite Hperm. simpl. now rewrite <- app_assoc.
      - apply NoDup_app_intro; [assumption..|].
        intros k Hk Hk2. apply (HdisjG k); [|assumption]. apply HRNG. now apply HRu'RN.
      - intros k Hk. apply HRu'RN in Hk. apply in_app_iff. apply in_app_iff in Hk.
        destruct Hk as [Hk|Hk]; [left; now apply HRuX|now right].
      - intros k Hk HkR. apply in_app_iff in Hk. apply in_app_iff in HkR. destruct Hk as [Hk|Hk].
        + destruct HkR as [HkR|HkR].
          * apply (HdisjC k); [now apply HCo|assumption].
          * apply (HnR k); [now apply HRu'RN|assumption].
        + apply (HdisjG k); [|assumption].
          destruct HkR as [HkR|HkR]; [now apply Hpre|now apply (inv_RG _ _ _ _ _ _ HI)].
      - rewrite !own_paths_app, (own_paths_foreign sublog Hsl), app_nil_r, Hlog, own_paths_next, map_app. reflexivity.
    Qed.

    Lemma step_continue ls ls' : LInv ls -> step V St ops exec sub sched p g ls = Continue ls' -> LInv ls'.
    Proof.
      intros (R & X & G & HL) Hstep.
      destruct (step_continue_unfold ls ls' Hstep) as (results & sublog & s' & completed & running' & cs' & ready & Es & Ew & Ecn & Eend & _ & ->).
      destruct (step_continue_R ls R X G _ _ _ _ _ _ _ HL Es Ew Ecn (or_introl Eend)) as (HL' & _).
      eexists _, _, _. exact HL'.
    Qed.

    Lemma LInv_cur_log ls : LInv ls -> NoDup (own_paths (ls_log V St ls)).
    Proof.
      intros HL. pose proof (LInv_log ls [] HL (Forall_nil _)) as H.
      rewrite own_paths_app in H. now apply NoDup_app_inv in H.
    Qed.

    Lemma step_finish ls o s : LInv ls -> step V St ops exec sub sched p g ls = Finish o s -> NoDup (own_paths (outcome_log V o)).
    Proof.
      intros HL. unfold step. unfold step_limit_hit. rewrite Hdag.
      destruct (submit V St ops exec sub p g (ls_next V St ls) (ls_st V St ls)) as [[results sublog] s'] eqn:Es.
      destruct (submit_spec V St ops g exec sub p _ Hsub _ _ _ _ _ Es) as [_ Hsl].
      pose proof (LInv_log ls sublog HL Hsl) as Hlg. unfold next_entry in Hlg.
      destruct (wait_tasks V sched g (ls_step V St ls) (ls_running V St ls ++ results)) as [completed running'].
      destruct (task_errors V completed); [|intros [= <- _]; exact Hlg].
      destruct completed; [intros [= <- _]; exact Hlg|].
      destruct (calc_next V ops g (ls_chans V St ls) _) as [[cs' ready]|e|]; [|intros [= <- _]; exact Hlg..].
      destruct (alookup kEND ready); [intros [= <- _]; exact Hlg|discriminate].
    Qed.

    Lemma iterate_nodup fuel : forall ls,
      LInv ls -> NoDup (own_paths (outcome_log V (fst (iterate V St ops exec sub sched p g fuel ls)))).
    Proof.
      induction fuel as [|fuel IH]; intros ls HL; simpl; [now apply LInv_cur_log|].
      destruct (step V St ops exec sub sched p g ls) as [ls'|o s] eqn:E.
      - apply IH. eapply step_continue; eassumption.
      - simpl. eapply step_finish; eassumption.
    Qed.

    Lemma init_state_LInvR cs0 x cs1 ready s :
      init_chans V g = Ok cs0 -> calc_next V ops g cs0 [(kSTART, x)] = Ok (cs1, ready) ->
      alookup kEND ready = None -> LInvR (init_state V St p cs1 ready s) [kSTART] [] ([kSTART] ++ akeys ready).
    Proof.
      intros Hi Hc Hend. destruct (init_chans_inv cs0 Hi) as [HI Ho].
      assert (Hpre : forall k, In k (akeys [(kSTART, x)]) -> In k [kSTART] /\ npred g [kSTART] k).
      { intros k [<-|[]]. split; [now left|]. intros t [<-|[]] Hne. congruence. }
      assert (Hnd : NoDup [kSTART]) by (constructor; [intros []|constructor]).
      destruct (calc_next_inv _ _ _ _ _ _ HI Ho Hnd Hpre Hc) as (HI' & Ho' & Hnd' & _).
      specialize (HI' (or_introl Hend)). simpl in HI'.
      unfold LInvR. cbn [init_state ls_chans ls_next ls_running ls_log].
      split.
      { eapply Inv_grow_R; [| |exact HI'].
        - intros z [<-|[]]; now left.
        - intros z [<-|[]]; now left. }
      split; [assumption|]. split; [assumption|].
      split; [reflexivity|]. split; [|split; [|split]].
      - simpl. simpl in Hnd'. now inversion Hnd'.
      - intros z [].
      - simpl. intros k Hk [<-|[]]. simpl in Hnd'. inversion Hnd'. contradiction.
      - apply own_paths_marker.
    Qed.

    Lemma init_state_LInv cs0 x cs1 ready s :
      init_chans V g = Ok cs0 -> calc_next V ops g cs0 [(kSTART, x)] = Ok (cs1, ready) ->
      alookup kEND ready = None -> LInv (init_state V St p cs1 ready s).
    Proof. intros H1 H2 H3. eexists _, _, _. eapply init_state_LInvR; eassumption. Qed.

    Lemma run_flat_nodup x s :
      NoDup (own_paths (outcome_log V (fst (run_flat V St ops exec sub sched p g x s)))).
    Proof.
      assert (Hm : NoDup (own_paths [run_marker V p])) by (rewrite own_paths_marker; constructor).
      unfold run_flat. destruct (init_chans V g) as [cs0|e|] eqn:Ei; [|exact Hm..].
      destruct (calc_next V ops g cs0 [(kSTART, x)]) as [[cs1 ready]|e|] eqn:Ec; [|exact Hm..].
      destruct (alookup kEND ready) eqn:Eend; [exact Hm|].
      apply iterate_nodup. eapply init_state_LInv; eassumption.
    Qed.
  End Run.
End DagLoop.

(* ================= dag_at_most_once =================
   In any run of any graph in all-predecessor mode (plain Graph with AllPredecessor or Workflow, batch or
   eager, whatever the lambdas, the branch tables, the sub-graphs and the schedule do), at whatever depth it
   is nested, no node of that graph instance is executed twice: the node paths in the execution log of the
   instance are pairwise distinct. No acyclicity assumption is needed. *)
Definition executed_paths {V} (p : path) (l : log V) : list path := map fst (List.concat (log_steps_at V p l)).

Theorem dag_at_most_once_flat V St (ops : vops V) g exec sub sched p x s :
  g_mode g = Dag ->
  (forall i k v s', Forall (fun e : logentry V => fst e <> p) (outcome_log V (fst (sub i (p ++ [k]) v s')))) ->
  NoDup (executed_paths p (outcome_log V (fst (run_flat V St ops exec sub sched p g x s)))).
Proof. intros Hdag Hsub. exact (run_flat_nodup V St ops g Hdag exec sub sched p Hsub x s). Qed.

Theorem dag_at_most_once_nest V St (ops : vops V) exec sched F fuel p g x s :
  g_mode g = Dag ->
  NoDup (executed_paths p (outcome_log V (fst (run_nest V St ops exec sched fuel F p g x s)))).
Proof.
  intros Hdag. destruct fuel as [|fuel]; cbn [run_nest]; [constructor|].
  apply dag_at_most_once_flat; [assumption|].
  intros i k v s'. destruct (nth_error F i) as [g'|]; [|constructor].
  eapply Forall_impl; [|apply run_nest_log_prefix]. intros e He. simpl in He. now apply is_prefix_snoc in He.
Qed.

Theorem dag_at_most_once_run V St (ops : vops V) exec sched g F x s :
  g_mode g = Dag ->
  NoDup (executed_paths [] (outcome_log V (fst (run V St ops exec sched (g :: F) x s)))).
Proof. intros Hdag. unfold run. now apply dag_at_most_once_nest. Qed.
