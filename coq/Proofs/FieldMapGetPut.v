(* Proofs/FieldMapGetPut.v — target assignment (assignOne / convertTo) on VALID target
   paths and FITTING values: it never fails, the assigned path then reads back the value,
   every path read before still reads the same, and whatever is not below an assigned
   path still reads as the zero value of its static type.

   The invariant [clean t v W]: the value v of a slot of static type t differs from the
   zero value of t only along the paths W already assigned (containers are instantiated
   exactly on the prefixes of W, map entries exist exactly for the first elements of W). *)
From Coq Require Import Permutation.
From Eino Require Import Base.Util Base.FMUniverse Model.FieldMap Proofs.FieldMapOverlap
  Proofs.FieldMapAssign Proofs.FieldMapComm.

(* the paths of W that start with f, without that first element *)
Fixpoint sub (f : N) (W : list path) : list path :=
  match W with
  | [] => []
  | [] :: W' => sub f W'
  | (g :: r) :: W' => if N.eqb g f then r :: sub f W' else sub f W'
  end.

Lemma in_sub : forall f r W, In r (sub f W) <-> In (f :: r) W.
Proof.
  intros f r W. induction W as [|[|g r'] W IH]; simpl.
  - tauto.
  - rewrite IH. split; [auto | intros [H|H]; [discriminate | exact H]].
  - destruct (N.eqb_spec g f) as [->|Hne]; simpl; rewrite IH.
    + split; intros [H|H]; auto; [left; congruence | left; congruence].
    + split; [auto | intros [H|H]; [congruence | exact H]].
Qed.

Lemma sub_cons_same : forall f r W, sub f ((f :: r) :: W) = r :: sub f W.
Proof. intros. simpl. rewrite N.eqb_refl. reflexivity. Qed.

Lemma sub_cons_other : forall f g r W, g <> f -> sub f ((g :: r) :: W) = sub f W.
Proof. intros. simpl. destruct (N.eqb_spec g f); [contradiction | reflexivity]. Qed.

Lemma sub_nonempty : forall f W, sub f W <> [] <-> exists r, In (f :: r) W.
Proof.
  intros f W. split.
  - destruct (sub f W) as [|r l] eqn:E; [contradiction|]. intros _. exists r. apply in_sub. rewrite E. left; reflexivity.
  - intros [r H] E. apply in_sub in H. rewrite E in H. exact H.
Qed.

Lemma conflict_nil_r : forall p, conflict p [] = true.
Proof. intro p. rewrite conflict_sym. reflexivity. Qed.

Lemma check_value_any : forall x, check_value TAny x = true.
Proof. intro x. unfold check_value. destruct (dyn x) as [d|]; [|reflexivity]. unfold assignable. apply orb_true_r. Qed.

Lemma extract_ty_any : forall env rest, exists b, extract_ty env TAny rest = SOk TAny b.
Proof. intros env [|f [|g r]]; eexists; reflexivity. Qed.

Lemma take_path_inst : forall env v f r a, take_path env v (f :: r) = Ok a -> instantiate v = v.
Proof.
  intros env v f r a H. destruct v as [| | | |u [w|]|ks e [es|]]; try reflexivity; simpl in H.
  - discriminate.
  - destruct ks; discriminate.
Qed.

Section Clean.
  Variable env : senv.

  Inductive clean : ty -> val -> list path -> Prop :=
  | clean_nil : forall t, clean t (zero t) []
  | clean_written : forall t v W, In [] W -> clean t v W
  | clean_struct : forall m fs W, W <> [] -> ~ In [] W ->
      (forall f ft, lookup_field env m f = Some (true, ft) -> clean ft (field_of ft (aget f fs)) (sub f W)) ->
      clean (TStruct m) (VStruct m fs) W
  | clean_ptr : forall m fs W, W <> [] -> ~ In [] W ->
      (forall f ft, lookup_field env m f = Some (true, ft) -> clean ft (field_of ft (aget f fs)) (sub f W)) ->
      clean (TPtr (TStruct m)) (VPtr (TStruct m) (Some (VStruct m fs))) W
  | clean_map : forall t e es W, W <> [] -> ~ In [] W ->
      (t = TMap true e \/ (t = TAny /\ e = TAny)) ->
      (forall k x, aget k es = Some x -> sub k W <> []) ->
      (forall k x, aget k es = Some x -> clean e x (sub k W)) ->
      (forall k, sub k W <> [] -> aget k es <> None) ->
      clean t (VMap true e (Some es)) W.

  (* the value the walker works on: the slot's content, instantiated if nothing has been
     assigned below it yet *)
  Definition walked (t : ty) (u v : val) (W : list path) : Prop :=
    (W <> [] /\ v = u) \/ (W = [] /\ (v = instantiate (zero t) \/ v = new_instance t)).

  Lemma clean_empty : forall t v, clean t v [] -> v = zero t.
  Proof. intros t v H. inversion H; subst; try reflexivity; try contradiction. Qed.

  (* a slot with something assigned strictly below it holds an instantiated container *)
  Lemma clean_inst : forall t v W, clean t v W -> W <> [] -> ~ In [] W -> instantiate v = v.
  Proof. intros t v W H Hne Hn. inversion H; subst; try reflexivity; contradiction. Qed.

  Definition fresh_for (p : path) (W : list path) : Prop := forall p', In p' W -> conflict p p' = false.

  Lemma fresh_no_nil : forall p W, fresh_for p W -> ~ In [] W.
  Proof. intros p W H Hin. specialize (H _ Hin). rewrite conflict_nil_r in H. discriminate. Qed.

  Lemma fresh_sub : forall f rest W, fresh_for (f :: rest) W -> fresh_for rest (sub f W).
  Proof.
    intros f rest W H p' Hin. apply in_sub in Hin. specialize (H _ Hin).
    rewrite conflict_cons_same in H. exact H.
  Qed.

  Lemma fresh_last_sub : forall f W, fresh_for [f] W -> sub f W = [].
  Proof.
    intros f W H. destruct (sub f W) as [|r l] eqn:E; [reflexivity|].
    assert (Hin : In r (sub f W)) by (rewrite E; left; reflexivity).
    apply in_sub in Hin. specialize (H _ Hin). rewrite conflict_cons_same in H. discriminate.
  Qed.

  (* ---------------------------------------------------------------- the struct step *)

  Definition fields_clean (m : N) (fs : list (N * val)) (W : list path) : Prop :=
    forall f ft, lookup_field env m f = Some (true, ft) -> clean ft (field_of ft (aget f fs)) (sub f W).

  Definition assign_post (t : ty) (v : val) (p : path) (W : list path) (st : ty) (x : val) (v' : val) : Prop :=
    clean t v' (p :: W) /\ take_path env v' p = Ok (conv st x) /\
    (forall q a, conflict p q = false -> take_path env v q = Ok a -> take_path env v' q = Ok a).

  Definition assign_ih (rest : path) : Prop :=
    forall t u v W x st b,
      rest <> [] -> clean t u W -> walked t u v W -> fresh_for rest W ->
      extract_ty env t rest = SOk st b -> check_value st x = true ->
      exists v', assign env t v rest x = Some v' /\ assign_post t v rest W st x v'.

  Lemma store_field_conv : forall ft x, check_value ft x = true -> store_field ft (zero ft) x = Some (conv ft x).
  Proof.
    intros ft x H. unfold store_field, conv, check_value in *. destruct (dyn x); rewrite H; reflexivity.
  Qed.

  Lemma store_map_conv : forall e x, check_value e x = true -> store_map e x = Some (conv e x).
  Proof.
    intros e x H. unfold store_map, conv, check_value in *. destruct (dyn x); rewrite H; reflexivity.
  Qed.

  Lemma struct_step : forall m fs f rest W ft x st b,
    assign_ih rest ->
    fields_clean m fs W -> fresh_for (f :: rest) W ->
    lookup_field env m f = Some (true, ft) ->
    extract_ty env ft rest = SOk st b -> check_value st x = true ->
    exists a,
      assign_next env ft (instantiate (field_of ft (aget f fs))) rest x
                  (store_field ft (field_of ft (aget f fs)) x) = Some a /\
      fields_clean m (ains f a fs) ((f :: rest) :: W) /\
      take_path env a rest = Ok (conv st x) /\
      (forall q a0, q <> [] -> conflict rest q = false ->
                    take_path env (field_of ft (aget f fs)) q = Ok a0 -> take_path env a q = Ok a0).
  Proof.
    intros m fs f rest W ft x st b IH C Hf Hl He Hc.
    set (og := field_of ft (aget f fs)).
    assert (Cog : clean ft og (sub f W)) by (apply C; exact Hl).
    assert (K : forall a, clean ft a (rest :: sub f W) -> fields_clean m (ains f a fs) ((f :: rest) :: W)).
    { intros a Ca g gt Hg. destruct (N.eq_dec g f) as [->|Hne].
      - rewrite aget_ains_same, sub_cons_same. rewrite Hl in Hg. inversion Hg; subst gt. exact Ca.
      - rewrite aget_ains_other by exact Hne. rewrite sub_cons_other by congruence. apply C. exact Hg. }
    destruct rest as [|g rest'].
    - (* terminal *)
      assert (Es : sub f W = []) by (apply fresh_last_sub; exact Hf).
      rewrite Es in Cog. apply clean_empty in Cog.
      simpl in He. inversion He; subst st b. clear He.
      exists (conv ft x). unfold assign_next. fold og. rewrite Cog.
      split; [apply store_field_conv; exact Hc|].
      split; [apply K; apply clean_written; left; reflexivity|].
      split; [reflexivity|].
      intros q a0 Hq Hcq _. rewrite conflict_nil_l in Hcq. discriminate.
    - rewrite assign_next_cons.
      assert (Hw : walked ft og (instantiate og) (sub f W)).
      { destruct (sub f W) as [|r l] eqn:Es.
        - right. split; [reflexivity|]. apply clean_empty in Cog. rewrite Cog. left; reflexivity.
        - left. split; [discriminate|].
          apply (clean_inst ft og (r :: l) Cog); [discriminate|].
          rewrite <- Es. apply (fresh_no_nil (g :: rest')). apply fresh_sub. exact Hf. }
      destruct (IH ft og (instantiate og) (sub f W) x st b ltac:(discriminate) Cog Hw (fresh_sub _ _ _ Hf) He Hc)
        as [a [Ha [Ca [Ra Fa]]]].
      exists a. split; [exact Ha|]. split; [apply K; exact Ca|]. split; [exact Ra|].
      intros q a0 Hq Hcq Hr. apply Fa; [exact Hcq|].
      destruct q as [|h q']; [contradiction|].
      rewrite (take_path_inst env og h q' a0 Hr). exact Hr.
  Qed.

  (* ---------------------------------------------------------------- the map step *)

  Definition entries_clean (e : ty) (es : list (N * val)) (W : list path) : Prop :=
    (forall k x, aget k es = Some x -> sub k W <> []) /\
    (forall k x, aget k es = Some x -> clean e x (sub k W)) /\
    (forall k, sub k W <> [] -> aget k es <> None).

  Lemma map_step : forall e es f rest W x st b,
    assign_ih rest ->
    entries_clean e es W -> fresh_for (f :: rest) W ->
    extract_ty env e rest = SOk st b -> check_value st x = true ->
    exists a,
      assign_next env e (entry_of e (aget f es)) rest x (store_map e x) = Some a /\
      entries_clean e (ains f a es) ((f :: rest) :: W) /\
      take_path env a rest = Ok (conv st x) /\
      (forall q a0 x0, q <> [] -> conflict rest q = false -> aget f es = Some x0 ->
                       take_path env x0 q = Ok a0 -> take_path env a q = Ok a0).
  Proof.
    intros e es f rest W x st b IH [E1 [E2 E3]] Hf He Hc.
    assert (K : forall a, clean e a (rest :: sub f W) -> entries_clean e (ains f a es) ((f :: rest) :: W)).
    { intros a Ca. split; [|split].
      - intros k x0 Hk. destruct (N.eq_dec k f) as [->|Hne].
        + rewrite sub_cons_same. discriminate.
        + rewrite aget_ains_other in Hk by exact Hne. rewrite sub_cons_other by congruence. eapply E1; eauto.
      - intros k x0 Hk. destruct (N.eq_dec k f) as [->|Hne].
        + rewrite aget_ains_same in Hk. inversion Hk; subst x0. rewrite sub_cons_same. exact Ca.
        + rewrite aget_ains_other in Hk by exact Hne. rewrite sub_cons_other by congruence. eapply E2; eauto.
      - intros k Hk. destruct (N.eq_dec k f) as [->|Hne].
        + rewrite aget_ains_same. discriminate.
        + rewrite aget_ains_other by exact Hne. rewrite sub_cons_other in Hk by congruence. apply E3; exact Hk. }
    destruct rest as [|g rest'].
    - simpl in He. inversion He; subst st b. clear He.
      exists (conv e x). unfold assign_next.
      split; [apply store_map_conv; exact Hc|].
      split; [apply K; apply clean_written; left; reflexivity|].
      split; [reflexivity|].
      intros q a0 x0 Hq Hcq _ _. rewrite conflict_nil_l in Hcq. discriminate.
    - rewrite assign_next_cons.
      assert (Hex : exists u, clean e u (sub f W) /\ walked e u (entry_of e (aget f es)) (sub f W)).
      { destruct (aget f es) as [x0|] eqn:Ea.
        - exists x0. split; [eapply E2; eauto|]. left. split; [eapply E1; eauto | reflexivity].
        - exists (zero e).
          assert (Es : sub f W = []).
          { destruct (sub f W) as [|r l] eqn:Es; [reflexivity|].
            exfalso. apply (E3 f); [rewrite Es; discriminate | exact Ea]. }
          rewrite Es. split; [apply clean_nil|]. right. split; [reflexivity|]. right; reflexivity. }
      destruct Hex as [u [Cu Wu]].
      destruct (IH e u (entry_of e (aget f es)) (sub f W) x st b ltac:(discriminate) Cu Wu (fresh_sub _ _ _ Hf) He Hc)
        as [a [Ha [Ca [Ra Fa]]]].
      exists a. split; [exact Ha|]. split; [apply K; exact Ca|]. split; [exact Ra|].
      intros q a0 x0 Hq Hcq Hx0 Hr. apply Fa; [exact Hcq|]. rewrite Hx0. exact Hr.
  Qed.

  (* ---------------------------------------------------------------- one whole assignment *)

  Lemma take_one_rewrap : forall isptr u0 m fs g, is_any u0 = false ->
    take_one env (rewrap isptr u0 (VStruct m fs)) g = take_field env m fs g.
  Proof. intros [] u0 m fs g H; simpl; rewrite ?H; reflexivity. Qed.

  Lemma take_field_ok : forall m fs g a,
    take_field env m fs g = Ok a ->
    exists gt, lookup_field env m g = Some (true, gt) /\ a = field_of gt (aget g fs).
  Proof.
    intros m fs g a H. unfold take_field in H.
    destruct (lookup_field env m g) as [[[] gt]|]; try discriminate.
    inversion H. exists gt. split; reflexivity.
  Qed.

  Lemma struct_case : forall t isptr u0 m fs f rest W ft x st b,
    (forall v', any_enter t v' = v') -> (isptr = false -> u0 = TInt) -> is_any u0 = false ->
    (forall fs' W', W' <> [] -> ~ In [] W' -> fields_clean m fs' W' ->
                    clean t (rewrap isptr u0 (VStruct m fs')) W') ->
    assign_ih rest -> fields_clean m fs W -> fresh_for (f :: rest) W ->
    lookup_field env m f = Some (true, ft) ->
    extract_ty env ft rest = SOk st b -> check_value st x = true ->
    exists v', assign env t (rewrap isptr u0 (VStruct m fs)) (f :: rest) x = Some v' /\
               assign_post t (rewrap isptr u0 (VStruct m fs)) (f :: rest) W st x v'.
  Proof.
    intros t isptr u0 m fs f rest W ft x st b Hre Hu Hua Hcl IH C Hf Hl He Hc.
    destruct (struct_step m fs f rest W ft x st b IH C Hf Hl He Hc) as [a [Ha [Ca [Ra Fa]]]].
    exists (rewrap isptr u0 (VStruct m (ains f a fs))).
    split.
    { rewrite (assign_rewrap env t isptr u0 m Hre Hu Hua). unfold sstep. rewrite Hl, Ha. reflexivity. }
    split; [|split].
    - apply Hcl; [discriminate | | exact Ca].
      intros [H|H]; [discriminate | exact (fresh_no_nil _ _ Hf H)].
    - cbn [take_path]. rewrite take_one_rewrap by exact Hua. unfold take_field. rewrite Hl, aget_ains_same. simpl. exact Ra.
    - intros q a0 Hcq Hr. destruct q as [|g qr]; [rewrite conflict_nil_r in Hcq; discriminate|].
      cbn [take_path] in *. rewrite !take_one_rewrap in * by exact Hua.
      destruct (take_field env m fs g) as [og| |] eqn:Etf; try discriminate. simpl in Hr.
      destruct (take_field_ok _ _ _ _ Etf) as [gt [Hlg Hog]].
      unfold take_field. rewrite Hlg.
      destruct (N.eq_dec g f) as [->|Hne].
      + rewrite aget_ains_same. simpl. rewrite conflict_cons_same in Hcq.
        rewrite Hl in Hlg. inversion Hlg; subst gt.
        destruct qr as [|h qr']; [rewrite conflict_nil_r in Hcq; discriminate|].
        apply Fa; [discriminate | exact Hcq |]. rewrite <- Hog. exact Hr.
      + rewrite aget_ains_other by exact Hne. simpl. fold (field_of gt (aget g fs)). rewrite <- Hog. exact Hr.
  Qed.

  Lemma map_case : forall t e es f rest W x st b,
    (forall o, any_enter t (VMap true e o) = VMap true e o) ->
    (t = TMap true e \/ (t = TAny /\ e = TAny)) ->
    assign_ih rest -> entries_clean e es W -> fresh_for (f :: rest) W ->
    extract_ty env e rest = SOk st b -> check_value st x = true ->
    exists v', assign env t (VMap true e (Some es)) (f :: rest) x = Some v' /\
               assign_post t (VMap true e (Some es)) (f :: rest) W st x v'.
  Proof.
    intros t e es f rest W x st b Hre Ht IH E Hf He Hc.
    destruct (map_step e es f rest W x st b IH E Hf He Hc) as [a [Ha [[E1 [E2 E3]] [Ra Fa]]]].
    exists (VMap true e (Some (ains f a es))).
    split.
    { rewrite (assign_mstep env t e Hre). unfold mstep. rewrite Ha. reflexivity. }
    split; [|split].
    - apply clean_map; auto; [discriminate|].
      intros [H|H]; [discriminate | exact (fresh_no_nil _ _ Hf H)].
    - cbn [take_path take_one]. rewrite aget_ains_same. simpl. exact Ra.
    - intros q a0 Hcq Hr. destruct q as [|g qr]; [rewrite conflict_nil_r in Hcq; discriminate|].
      cbn [take_path take_one] in *.
      destruct (aget g es) as [x0|] eqn:Eg; [|discriminate]. simpl in Hr.
      destruct (N.eq_dec g f) as [->|Hne].
      + rewrite aget_ains_same. simpl. rewrite conflict_cons_same in Hcq.
        destruct qr as [|h qr']; [rewrite conflict_nil_r in Hcq; discriminate|].
        eapply Fa; eauto. discriminate.
      + rewrite aget_ains_other by exact Hne. rewrite Eg. simpl. exact Hr.
  Qed.

  Lemma entries_clean_nil : forall e, entries_clean e [] [].
  Proof.
    intro e. split; [|split].
    - intros k x H. discriminate.
    - intros k x H. discriminate.
    - intros k H. exfalso. apply H. reflexivity.
  Qed.

  Lemma fields_clean_nil : forall m, fields_clean m [] [].
  Proof. intros m f ft H. simpl. apply clean_nil. Qed.

  Ltac kill_map :=
    match goal with
    | H : _ = TMap true _ \/ (_ = TAny /\ _) |- _ => destruct H as [H|[H _]]; discriminate
    end.

  Theorem assign_clean : forall rest, assign_ih rest.
  Proof.
    induction rest as [|f rest IH]; intros t u v W x st b Hne Cu Wv Hf He Hc; [contradiction|].
    assert (Hn : ~ In [] W) by (eapply fresh_no_nil; eauto).
    destruct t as [| | |m|u0|ks e].
    - simpl in He. discriminate.
    - simpl in He. discriminate.
    - (* any *)
      assert (Hst : st = TAny) by (simpl in He; destruct rest; inversion He; reflexivity). subst st.
      destruct (extract_ty_any env rest) as [b' He'].
      assert (Hre : forall o, any_enter TAny (VMap true TAny o) = VMap true TAny o) by reflexivity.
      assert (Hx : exists es, any_enter TAny v = VMap true TAny (Some es) /\ entries_clean TAny es W /\
                              (v = VNil \/ v = VMap true TAny (Some es))).
      { inversion Cu; subst; try contradiction.
        - exists []. destruct Wv as [[Hw _]|[_ Hv]]; [contradiction|].
          assert (v = VNil) by (destruct Hv; assumption). subst v.
          split; [reflexivity|]. split; [apply entries_clean_nil | left; reflexivity].
        - match goal with H : _ = TMap true _ \/ _ |- _ => destruct H as [H|[_ H]]; [discriminate|subst] end.
          destruct Wv as [[_ Hv]|[Hw _]]; [subst v | contradiction].
          eexists. split; [reflexivity|]. split; [split; [|split]; eassumption | right; reflexivity]. }
      destruct Hx as [es [Hae [E Hv]]].
      destruct (map_case TAny TAny es f rest W x TAny b' Hre (or_intror (conj eq_refl eq_refl)) IH E Hf He' (check_value_any x))
        as [v' [Ha [P1 [P2 P3]]]].
      exists v'. split; [rewrite assign_enter, Hae; exact Ha|].
      split; [exact P1|]. split; [exact P2|].
      intros q a0 Hcq Hr. destruct Hv as [->| ->]; [|apply P3; assumption].
      destruct q; [rewrite conflict_nil_r in Hcq; discriminate | discriminate].
    - (* struct *)
      simpl in He. destruct (lookup_field env m f) as [[[] ft]|] eqn:Hl; try discriminate.
      assert (Hx : exists fs, v = VStruct m fs /\ fields_clean m fs W).
      { inversion Cu; subst; try contradiction; try kill_map.
        - exists []. destruct Wv as [[Hw _]|[_ Hv]]; [contradiction|].
          split; [destruct Hv; assumption | apply fields_clean_nil].
        - destruct Wv as [[_ Hv]|[Hw _]]; [subst v | contradiction]. eexists. split; [reflexivity | assumption]. }
      destruct Hx as [fs [-> C]].
      change (VStruct m fs) with (rewrap false TInt (VStruct m fs)).
      eapply (struct_case (TStruct m) false TInt m fs f rest W ft x st b); eauto.
      intros fs' W' H1 H2 H3. simpl. apply clean_struct; assumption.
    - (* pointer *)
      simpl in He. destruct u0 as [| | |m| |]; try discriminate.
      destruct (lookup_field env m f) as [[[] ft]|] eqn:Hl; try discriminate.
      assert (Hx : exists fs, v = VPtr (TStruct m) (Some (VStruct m fs)) /\ fields_clean m fs W).
      { inversion Cu; subst; try contradiction; try kill_map.
        - exists []. destruct Wv as [[Hw _]|[_ Hv]]; [contradiction|].
          split; [destruct Hv; assumption | apply fields_clean_nil].
        - destruct Wv as [[_ Hv]|[Hw _]]; [subst v | contradiction]. eexists. split; [reflexivity | assumption]. }
      destruct Hx as [fs [-> C]].
      change (VPtr (TStruct m) (Some (VStruct m fs))) with (rewrap true (TStruct m) (VStruct m fs)).
      eapply (struct_case (TPtr (TStruct m)) true (TStruct m) m fs f rest W ft x st b); eauto.
      + discriminate.
      + intros fs' W' H1 H2 H3. simpl. apply clean_ptr; assumption.
    - (* map *)
      simpl in He. destruct ks; [|discriminate].
      assert (Hre : forall o, any_enter (TMap true e) (VMap true e o) = VMap true e o) by reflexivity.
      assert (Hx : exists es, v = VMap true e (Some es) /\ entries_clean e es W).
      { inversion Cu; subst; try contradiction.
        - exists []. destruct Wv as [[Hw _]|[_ Hv]]; [contradiction|].
          split; [destruct Hv; assumption | apply entries_clean_nil].
        - match goal with H : _ = TMap true _ \/ _ |- _ => destruct H as [H|[H _]]; [inversion H; subst|discriminate] end.
          destruct Wv as [[_ Hv]|[Hw _]]; [subst v | contradiction].
          eexists. split; [reflexivity|]. split; [|split]; eassumption. }
      destruct Hx as [es [-> E]].
      eapply (map_case (TMap true e) e es f rest W x st b); eauto.
  Qed.
End Clean.

(* ---------------------------------------------------------------- what was not assigned reads as zero *)
Section ReadZero.
  Variable env : senv.

  Lemma zero_below : forall q t z, q <> [] -> take_path env (zero t) q = Ok z ->
    exists st b, extract_ty env t q = SOk st b /\ z = zero st.
  Proof.
    induction q as [|g r IH]; intros t z Hq H; [contradiction|].
    destruct t as [| | |m|u|ks e]; simpl in H; try discriminate.
    - unfold take_field in H. destruct (lookup_field env m g) as [[[] gt]|] eqn:Hl; try discriminate.
      simpl in H. simpl extract_ty. rewrite Hl.
      destruct r as [|h r'].
      + simpl in H. inversion H. exists gt, false. split; reflexivity.
      + apply IH; [discriminate | exact H].
    - destruct ks; discriminate.
  Qed.

  Lemma new_instance_below : forall q t z, q <> [] -> take_path env (new_instance t) q = Ok z ->
    exists st b, extract_ty env t q = SOk st b /\ z = zero st.
  Proof.
    intros q t z Hq H. destruct t as [| | |m|u|ks e]; try (apply zero_below; assumption).
    - destruct q as [|g r]; [contradiction|]. simpl in H.
      destruct u as [| | |m| |]; simpl in H; try discriminate.
      + unfold take_field in H. destruct (lookup_field env m g) as [[[] gt]|] eqn:Hl; try discriminate.
        simpl in H. simpl extract_ty. rewrite Hl.
        destruct r as [|h r'].
        * simpl in H. inversion H. exists gt, false. split; reflexivity.
        * apply zero_below; [discriminate | exact H].
    - destruct q as [|g r]; [contradiction|]. simpl in H. destruct ks; discriminate.
  Qed.

  Lemma clean_read_zero : forall q t v W z,
    clean env t v W -> fresh_for q W -> q <> [] -> take_path env v q = Ok z ->
    exists st b, extract_ty env t q = SOk st b /\ z = zero st.
  Proof.
    induction q as [|g r IH]; intros t v W z C Hf Hq H; [contradiction|].
    assert (S : forall m fs, fields_clean env m fs W ->
                take_path env (VStruct m fs) (g :: r) = Ok z \/
                take_path env (VPtr (TStruct m) (Some (VStruct m fs))) (g :: r) = Ok z ->
                exists st b, extract_ty env (TStruct m) (g :: r) = SOk st b /\ z = zero st).
    { intros m fs Cf Hr.
      assert (Hr' : (do x <- take_field env m fs g; take_path env x r) = Ok z) by (destruct Hr as [Hr|Hr]; exact Hr).
      destruct (take_field env m fs g) as [og| |] eqn:Etf; try discriminate. simpl in Hr'.
      destruct (take_field_ok env _ _ _ _ Etf) as [gt [Hl Hog]].
      simpl extract_ty. rewrite Hl.
      assert (Cog : clean env gt og (sub g W)) by (rewrite Hog; apply Cf; exact Hl).
      destruct r as [|h r'].
      - simpl in Hr'. inversion Hr'; subst z.
        rewrite (fresh_last_sub g W Hf) in Cog. apply clean_empty in Cog.
        exists gt, false. split; [reflexivity | exact Cog].
      - eapply IH; eauto; [apply fresh_sub; exact Hf | discriminate]. }
    inversion C; subst.
    - apply zero_below; assumption.
    - exfalso. eapply fresh_no_nil; eauto.
    - apply S with (fs := fs); [assumption | left; exact H].
    - destruct (S m fs ltac:(assumption) (or_intror H)) as [st [b [He Hz]]].
      exists st, b. split; [|exact Hz]. simpl in *. exact He.
    - cbn [take_path take_one] in H.
      destruct (aget g es) as [x0|] eqn:Eg; [|discriminate]. simpl in H.
      destruct r as [|h r'].
      + exfalso. match goal with E1 : forall k x, aget k es = Some x -> sub k W <> [] |- _ => apply (E1 g x0 Eg) end.
        apply fresh_last_sub. exact Hf.
      + assert (Cx : clean env e x0 (sub g W)) by eauto.
        destruct (IH e x0 (sub g W) z Cx (fresh_sub _ _ _ Hf) ltac:(discriminate) H) as [st [b [He Hz]]].
        match goal with Ht : _ = TMap true _ \/ _ |- _ => destruct Ht as [->|[-> ->]] end.
        * exists st, b. split; [exact He | exact Hz].
        * destruct (extract_ty_any env (h :: r')) as [b' He']. rewrite He' in He. inversion He; subst st b'.
          exists TAny, true. split; [reflexivity | exact Hz].
  Qed.
End ReadZero.

(* ---------------------------------------------------------------- convertTo as a whole *)
Section ConvertTo.
  Variable env : senv.
  Variable T : ty.

  (* every target path is valid for the type and its value fits the slot *)
  Definition fits (m : fmap) : Prop :=
    forall p x, In (p, x) m -> exists st b, extract_ty env T p = SOk st b /\ check_value st x = true.

  Lemma assign_all_clean : forall m u v W (R : list (path * val)),
    clean env T u W -> walked T u v W ->
    nonempty_keys m -> no_conflict (keys m) ->
    (forall p, In p (keys m) -> fresh_for p W) ->
    fits m ->
    (forall q a, In (q, a) R -> In q W /\ take_path env v q = Ok a) ->
    exists u' v', assign_all env T v m = Some v' /\
      clean env T u' (rev (keys m) ++ W) /\ walked T u' v' (rev (keys m) ++ W) /\
      (forall q a, In (q, a) R -> take_path env v' q = Ok a) /\
      (forall p x, In (p, x) m -> exists st b, extract_ty env T p = SOk st b /\ take_path env v' p = Ok (conv st x)).
  Proof.
    induction m as [|[p x] m IH]; intros u v W R Cu Wv Hne Hnc Hf Hfit HR.
    - exists u, v. simpl. split; [reflexivity|]. split; [exact Cu|]. split; [exact Wv|].
      split; [intros q a Hin; apply HR; exact Hin | intros p x []].
    - inversion Hne as [|? ? Hp Hne']; subst. simpl in Hp.
      simpl in Hnc. destruct Hnc as [Hc Hnc].
      destruct (Hfit p x (or_introl eq_refl)) as [st [b [He Hcv]]].
      destruct (assign_clean env p T u v W x st b Hp Cu Wv (Hf p (or_introl eq_refl)) He Hcv)
        as [v1 [Ha [C1 [R1 F1]]]].
      assert (Hf1 : forall p', In p' (keys m) -> fresh_for p' (p :: W)).
      { intros p' Hin q [<-|Hq].
        - rewrite conflict_sym. rewrite Forall_forall in Hc. apply Hc. exact Hin.
        - apply Hf; [right; exact Hin | exact Hq]. }
      assert (W1 : walked T v1 v1 (p :: W)) by (left; split; [discriminate | reflexivity]).
      assert (Hfit' : fits m) by (intros p' x' Hin; apply Hfit; right; exact Hin).
      assert (HR' : forall q a, In (q, a) ((p, conv st x) :: R) -> In q (p :: W) /\ take_path env v1 q = Ok a).
      { intros q a [Hin|Hin].
        - inversion Hin; subst. split; [left; reflexivity | exact R1].
        - destruct (HR q a Hin) as [HqW Hr]. split; [right; exact HqW|].
          apply F1; [|exact Hr]. apply Hf; [left; reflexivity | exact HqW]. }
      destruct (IH v1 v1 (p :: W) ((p, conv st x) :: R) C1 W1 Hne' Hnc Hf1 Hfit' HR')
        as [u' [v' [Hall [C' [W' [Rr Rm]]]]]].
      exists u', v'.
      split. { simpl. rewrite assign_one_nonempty by exact Hp. rewrite Ha. exact Hall. }
      assert (Eq : rev (keys ((p, x) :: m)) ++ W = rev (keys m) ++ p :: W).
      { simpl. rewrite <- app_assoc. reflexivity. }
      rewrite Eq. split; [exact C'|]. split; [exact W'|].
      split.
      + intros q a Hin. apply Rr. right. exact Hin.
      + intros p' x' [Hin|Hin].
        * inversion Hin; subst. exists st, b. split; [exact He|]. apply Rr. left. reflexivity.
        * apply Rm. exact Hin.
  Qed.

  Lemma check_value_conv : forall x, check_value T x = true ->
    match dyn x with
    | None => if nilable T then Some (zero T) else None
    | Some d => if assignable d T then Some x else None
    end = Some (conv T x).
  Proof. intros x H. unfold check_value, conv in *. destruct (dyn x); rewrite H; reflexivity. Qed.

  (* convertTo on an overlap-free, valid, fitting map: succeeds; every assigned path reads
     back its value; every non-overlapping path reads, if it can be read at all, as the
     zero value of its static type *)
  Theorem convert_to_spec : forall m,
    no_conflict (keys m) -> fits m ->
    exists v, convert_to env T m = Ok v /\
      (forall p x, In (p, x) m -> exists st b, extract_ty env T p = SOk st b /\ take_path env v p = Ok (conv st x)) /\
      (forall q z, q <> [] -> fresh_for q (keys m) -> take_path env v q = Ok z ->
                   exists st b, extract_ty env T q = SOk st b /\ z = zero st).
  Proof.
    intros m Hnc Hfit. unfold convert_to.
    destruct (nonempty_keys_dec m) as [Hne|Hne].
    - destruct (assign_all_clean m (zero T) (new_instance T) [] [] (clean_nil env T)
                  (or_intror (conj eq_refl (or_intror eq_refl))) Hne Hnc
                  (fun p _ q F => match F with end) Hfit (fun q a F => match F with end))
        as [u' [v' [Hall [C' [W' [_ Rm]]]]]].
      rewrite Hall. exists v'. split; [reflexivity|]. split; [exact Rm|].
      rewrite app_nil_r in *.
      intros q z Hq Hf Hr.
      assert (Hf' : fresh_for q (rev (keys m))).
      { intros p' Hin. apply Hf. apply in_rev. exact Hin. }
      destruct W' as [[Hw ->]|[Hw Hv]].
      + eapply clean_read_zero; eauto.
      + destruct Hv as [->| ->].
        * (* nothing was assigned: the instantiated zero value *)
          clear C'.
          destruct T as [| | |mm|uu|ks ee]; simpl instantiate in Hr; simpl zero in Hr;
            try (apply zero_below; assumption).
          -- destruct q as [|g r]; [contradiction|]. simpl in Hr.
             destruct uu as [| | |m0| |]; simpl in Hr; try discriminate.
             unfold take_field in Hr. destruct (lookup_field env m0 g) as [[[] gt]|] eqn:Hl; try discriminate.
             simpl in Hr. simpl extract_ty. rewrite Hl.
             destruct r as [|h r'].
             ++ simpl in Hr. inversion Hr. exists gt, false. split; reflexivity.
             ++ apply zero_below; [discriminate | exact Hr].
          -- destruct q as [|g r]; [contradiction|]. simpl in Hr. destruct ks; discriminate.
        * apply new_instance_below; assumption.
    - destruct (no_conflict_nil_single m Hnc Hne) as [x ->].
      destruct (Hfit [] x (or_introl eq_refl)) as [st [b [He Hcv]]].
      simpl in He. inversion He; subst st b.
      simpl. rewrite (check_value_conv x Hcv).
      exists (conv T x). split; [reflexivity|]. split.
      + intros p x' [Hin|[]]. inversion Hin; subst. exists T, false. split; reflexivity.
      + intros q z Hq Hf _. specialize (Hf [] (or_introl eq_refl)). rewrite conflict_nil_r in Hf. discriminate.
  Qed.
End ConvertTo.
