(* Proofs/ToolsOpts.v — the option list of a call (Model/ToolsOpts.v) and the tools node stated on
   the tools as they are DECLARED (the list given to NewToolNode / WithToolList), end to end:
   NewToolNode, option folding, convTools of the call's list, name resolution, execution. *)
From Coq Require Import Permutation.
From Eino Require Import Base.Util Model.Tools Model.ToolsOpts Proofs.Tools Proofs.ToolsMore.
Local Open Scope string_scope.

(* ---- getToolsNodeOptions ----------------------------------------------------------------- *)
Section Opts.
  Variable P : Type.
  Variable D : Type.
  Notation nodeopt := (nodeopt P D).

  Definition tool_options_of (o : nodeopt) : list (topt P) :=
    match o with WithToolOption os => os | WithToolList _ => [] end.
  Definition is_tool_option (o : nodeopt) : Prop := exists os, o = WithToolOption os.

  Lemma fold_opts_from : forall (l : list nodeopt) st,
    snd (fold_left apply_nodeopt l st) = (snd st ++ flat_map tool_options_of l)%list.
  Proof.
    induction l as [|o l IH]; intros st; simpl.
    - rewrite app_nil_r. reflexivity.
    - rewrite IH. destruct o; simpl; [rewrite <- app_assoc|]; reflexivity.
  Qed.

  (* every WithToolOption counts: the tool options handed to the tools are those of all the
     WithToolOption values, in the order given; WithToolList values do not disturb them *)
  Theorem node_opts_tool_options : forall l : list nodeopt,
    snd (get_node_opts l) = flat_map tool_options_of l.
  Proof. intros. unfold get_node_opts. rewrite fold_opts_from. reflexivity. Qed.

  Lemma fold_list_only_options : forall (l : list nodeopt) st,
    Forall is_tool_option l -> fst (fold_left apply_nodeopt l st) = fst st.
  Proof.
    induction l as [|o l IH]; intros st H; simpl; auto.
    inversion H as [|? ? [os ->] Hl]; subst. rewrite IH by auto. reflexivity.
  Qed.

  (* the last WithToolList decides, whatever precedes it *)
  Theorem node_opts_list_last : forall (l1 l2 : list nodeopt) x,
    Forall is_tool_option l2 ->
    fst (get_node_opts (l1 ++ WithToolList x :: l2)) = x.
  Proof.
    intros. unfold get_node_opts. rewrite fold_left_app. simpl.
    rewrite fold_list_only_options by auto. reflexivity.
  Qed.

  Theorem node_opts_no_list : forall l : list nodeopt,
    Forall is_tool_option l -> fst (get_node_opts l) = None.
  Proof. intros. unfold get_node_opts. rewrite fold_list_only_options by auto. reflexivity. Qed.
End Opts.
Arguments tool_options_of {P D} _.
Arguments is_tool_option {P D} _.

(* ---- GetImplSpecificOptions -------------------------------------------------------------- *)
Section ImplSpecific.
  Variable P : Type.

  (* order is kept *)
  Theorem impl_specific_app : forall ty (a b : list (topt P)),
    impl_specific ty (a ++ b) = (impl_specific ty a ++ impl_specific ty b)%list.
  Proof. intros. unfold impl_specific. rewrite filter_app, map_app. reflexivity. Qed.

  (* an option of another implementation's type is not seen at all *)
  Theorem impl_specific_foreign : forall ty (a b : list (topt P)) o,
    fst o <> ty -> impl_specific ty (a ++ o :: b) = impl_specific ty (a ++ b).
  Proof.
    intros ty a b o Hne. rewrite !impl_specific_app. f_equal.
    unfold impl_specific. simpl. destruct (N.eqb (fst o) ty) eqn:E; auto.
    apply N.eqb_eq in E. contradiction.
  Qed.

  (* an option of the implementation's own type is seen, at its place *)
  Theorem impl_specific_own : forall ty (a b : list (topt P)) p,
    impl_specific ty (a ++ (ty, p) :: b) = (impl_specific ty a ++ p :: impl_specific ty b)%list.
  Proof.
    intros. rewrite impl_specific_app. unfold impl_specific at 2. simpl. rewrite N.eqb_refl. reflexivity.
  Qed.
End ImplSpecific.

(* ---- the node on the declared tools -------------------------------------------------------- *)
Section Declared.
  Variable O : Type.
  Variable handler : option (string -> string -> tres).
  Notation tooldecl := (tooldecl O).

  (* "the tool named by that call": the last declared tool of that name *)
  Definition decl_lookup (l : list tooldecl) (name : string) : option tooldecl :=
    index_lookup (map (fun d => (td_name d, d)) l) name.

  (* the tool list in force for a call *)
  Definition eff_decls (cfg : list tooldecl) (cl : option (list tooldecl)) : list tooldecl :=
    match cl with Some l => l | None => cfg end.

  (* what the tool named by call [c] answers on [c]'s arguments and this call's options when it is
     invoked (a streamable-only tool: its stream concatenated); unknown name: the handler *)
  Definition decl_answer (decls : list tooldecl) (o : O) (c : call) : res tres :=
    match decl_lookup decls (c_name c) with
    | Some d => Ok (match td_kind d with
                    | Some KStr => invoke_by_stream (ti_str (td_impl d) o (c_args c))
                    | _ => ti_inv (td_impl d) o (c_args c)
                    end)
    | None => match handler with
              | Some h => Ok (h (c_name c) (c_args c))
              | None => Err E_UNKNOWN
              end
    end.

  (* ... and when it is streamed (an invokable-only tool, the handler: one chunk) *)
  Definition decl_s_answer (decls : list tooldecl) (o : O) (c : call) : res sres :=
    match decl_lookup decls (c_name c) with
    | Some d => Ok (match td_kind d with
                    | Some KInv => stream_by_invoke (ti_inv (td_impl d) o (c_args c))
                    | _ => ti_str (td_impl d) o (c_args c)
                    end)
    | None => match handler with
              | Some h => Ok (stream_by_invoke (h (c_name c) (c_args c)))
              | None => Err E_UNKNOWN
              end
    end.

  Lemma conv_lookup : forall (l : list tooldecl) tl name,
    conv_tools l = Ok tl ->
    index_lookup tl name =
    match decl_lookup l name with
    | Some d => option_map (fun k => (k, td_impl d)) (td_kind d)
    | None => None
    end
    /\ (forall d, decl_lookup l name = Some d -> td_kind d <> None).
  Proof.
    unfold decl_lookup.
    induction l as [|d l IH]; intros tl name H; simpl in *.
    - inversion H; subst. simpl. split; [reflexivity|discriminate].
    - destruct (td_info_ok d); simpl in H; [|discriminate].
      destruct (td_kind d) as [k|] eqn:Ek; [|discriminate].
      destruct (conv_tools l) as [rest| |] eqn:Ec; simpl in H; try discriminate.
      inversion H; subst. simpl.
      destruct (IH rest name eq_refl) as [IH1 IH2]. rewrite IH1.
      destruct (index_lookup (map (fun d0 => (td_name d0, d0)) l) name) as [d'|] eqn:El.
      + split.
        * destruct (td_kind d') eqn:Ek'; simpl; [reflexivity|].
          exfalso. apply (IH2 d' eq_refl). assumption.
        * intros d0 E. inversion E; subst. apply IH2. reflexivity.
      + destruct (String.eqb (td_name d) name); simpl.
        * rewrite Ek. simpl. split; [reflexivity|]. intros d0 E. inversion E; subst. congruence.
        * split; [reflexivity|discriminate].
  Qed.

  Lemma answer_conv : forall (l : list tooldecl) tl o c,
    conv_tools l = Ok tl ->
    answer (ts_kind (toolset_of_conv tl)) (ts_inv (toolset_of_conv tl) o) (ts_str (toolset_of_conv tl) o) handler c
    = decl_answer l o c
    /\ s_answer (ts_kind (toolset_of_conv tl)) (ts_inv (toolset_of_conv tl) o) (ts_str (toolset_of_conv tl) o) handler c
       = decl_s_answer l o c.
  Proof.
    intros l tl o c H. destruct (conv_lookup l tl (c_name c) H) as [E1 E2].
    unfold decl_answer, decl_s_answer.
    destruct (decl_lookup l (c_name c)) as [d|] eqn:El.
    - destruct (td_kind d) as [k|] eqn:Ek; [|exfalso; apply (E2 d eq_refl); assumption].
      simpl in E1. unfold answer, s_answer, gen_task. simpl. rewrite E1. simpl.
      destruct k; simpl; rewrite E1; split; reflexivity.
    - unfold answer, s_answer, gen_task. simpl. rewrite E1. simpl.
      destruct handler; split; reflexivity.
  Qed.

  Lemma decl_lookup_in : forall (l : list tooldecl) n d, decl_lookup l n = Some d -> In d l.
  Proof.
    unfold decl_lookup. induction l as [|x l IH]; simpl; intros n d H; [discriminate|].
    destruct (index_lookup (map (fun d0 => (td_name d0, d0)) l) n) eqn:E.
    - inversion H; subst. right. eapply IH; eauto.
    - destruct (String.eqb (td_name x) n); inversion H; subst. left; reflexivity.
  Qed.

  Lemma forall2_in_l : forall A B (P : A -> B -> Prop) l l' a,
    Forall2 P l l' -> In a l -> exists b, P a b.
  Proof.
    induction 1; simpl; intros Hin; [contradiction|].
    destruct Hin as [->|Hin]; eauto.
  Qed.

  Lemma forall2_impl : forall A B (P Q : A -> B -> Prop) l l',
    (forall a b, P a b -> Q a b) -> Forall2 P l l' -> Forall2 Q l l'.
  Proof. induction 2; constructor; auto. Qed.

  Section Good.
    Variable cfg : list tooldecl.
    Variable cl : option (list tooldecl).
    Variable opts : O.
    Hypothesis Hcfg : Forall (takeable O) cfg.
    Hypothesis Hcl : forall l, cl = Some l -> Forall (takeable O) l.

    (* the node is tools_invoke / tools_stream_open of some tool functions whose answers are the
       declared tools' *)
    Lemma node_is_tools :
      exists kind_of inv str,
        (forall pi role_ok calls,
            node_invoke handler cfg cl opts pi role_ok calls = tools_invoke kind_of inv str handler pi role_ok calls
            /\ node_stream_open handler cfg cl opts pi role_ok calls = tools_stream_open kind_of inv str handler pi role_ok calls
            /\ node_executed handler cfg cl opts role_ok calls = tools_executed kind_of handler role_ok calls)
        /\ (forall c, answer kind_of inv str handler c = decl_answer (eff_decls cfg cl) opts c
                      /\ s_answer kind_of inv str handler c = decl_s_answer (eff_decls cfg cl) opts c)
        /\ (forall n, kind_of n = match decl_lookup (eff_decls cfg cl) n with Some d => td_kind d | None => None end).
    Proof.
      destruct (proj2 (conv_tools_ok_iff O cfg) Hcfg) as [c Ec].
      destruct cl as [l|] eqn:Ecl.
      - destruct (proj2 (conv_tools_ok_iff O l) (Hcl l eq_refl)) as [tl El].
        exists (ts_kind (toolset_of_conv tl)), (ts_inv (toolset_of_conv tl) opts), (ts_str (toolset_of_conv tl) opts).
        split; [|split].
        + intros. unfold node_invoke, node_stream_open, node_executed. rewrite Ec. simpl. rewrite El. simpl.
          repeat split; reflexivity.
        + intros c0. simpl. apply answer_conv; auto.
        + intros n. simpl. destruct (conv_lookup l tl n El) as [E1 E2]. rewrite E1.
          destruct (decl_lookup l n) as [d|] eqn:Ed; auto.
          destruct (td_kind d); reflexivity.
      - exists (ts_kind (toolset_of_conv c)), (ts_inv (toolset_of_conv c) opts), (ts_str (toolset_of_conv c) opts).
        split; [|split].
        + intros. unfold node_invoke, node_stream_open, node_executed. rewrite Ec. simpl.
          repeat split; reflexivity.
        + intros c0. simpl. apply answer_conv; auto.
        + intros n. simpl. destruct (conv_lookup cfg c n Ec) as [E1 E2]. rewrite E1.
          destruct (decl_lookup cfg n) as [d|] eqn:Ed; auto.
          destruct (td_kind d); reflexivity.
    Qed.

    (* N calls => exactly N messages, the i-th = (answer of the tool declared under the i-th call's
       name in the list in force, on that call's arguments and this call's options; i-th call's id),
       for every completion order *)
    Theorem node_invoke_spec : forall pi calls outs,
      calls <> [] ->
      Permutation pi (seq 0 (List.length calls)) ->
      Forall2 (fun c o => decl_answer (eff_decls cfg cl) opts c = Ok (TOk o)) calls outs ->
      node_invoke handler cfg cl opts pi true calls = Ok (combine outs (map c_id calls))
      /\ List.length (combine outs (map c_id calls)) = List.length calls
      /\ node_executed handler cfg cl opts true calls = calls.
    Proof.
      intros pi calls outs Hne Hp Ha.
      destruct node_is_tools as [k [i [s [Hn [Hans Hk]]]]].
      assert (Ha' : Forall2 (fun c o => answer k i s handler c = Ok (TOk o)) calls outs).
      { eapply forall2_impl; [|exact Ha]. intros a b E. rewrite (proj1 (Hans a)). exact E. }
      destruct (Hn pi true calls) as [E1 [_ E3]]. rewrite E1, E3.
      split; [apply invoke_spec; auto|]. split; [eapply invoke_spec_length; eauto|].
      apply executed_once; auto.
      intros c Hin.
      destruct (forall2_in_l _ _ _ _ _ _ Ha Hin) as [o Eo].
      unfold decl_answer in Eo. rewrite Hk.
      destruct (decl_lookup (eff_decls cfg cl) (c_name c)) as [d|] eqn:Ed.
      - left. apply decl_lookup_in in Ed.
        assert (Ht : Forall (takeable O) (eff_decls cfg cl)).
        { destruct cl; simpl; auto. }
        rewrite Forall_forall in Ht. apply (Ht d Ed).
      - right. destruct handler; discriminate.
    Qed.
    (* the streamed form, every completion order, chunking and complete interleaving *)
    Theorem node_stream_concat : forall pi pi' calls css,
      calls <> [] ->
      Permutation pi (seq 0 (List.length calls)) ->
      Permutation pi' (seq 0 (List.length calls)) ->
      Forall2 (fun c cs => decl_s_answer (eff_decls cfg cl) opts c = Ok (SOk cs None) /\ cs <> []) calls css ->
      Forall2 (fun c cs => decl_answer (eff_decls cfg cl) opts c = Ok (TOk (concat_strings cs))) calls css ->
      exists ss msgs,
        node_stream_open handler cfg cl opts pi true calls = Ok ss
        /\ node_invoke handler cfg cl opts pi' true calls = Ok msgs
        /\ List.length msgs = List.length calls
        /\ forall sched,
             drained (merge_rest sched (stream_srcs ss)) = true ->
             concat_pos (stream_ids ss) (fst (merge_run sched (stream_srcs ss))) = Ok (map Some msgs).
    Proof.
      intros pi pi' calls css Hne Hp Hp' Hs Hi.
      destruct node_is_tools as [k [i [s [Hn [Hans Hk]]]]].
      destruct (stream_concat_eq_invoke k i s handler pi pi' calls css Hne Hp Hp') as [ss [msgs [A [B [C Dd]]]]].
      - eapply forall2_impl; [|exact Hs]. intros a b E. rewrite (proj2 (Hans a)). exact E.
      - eapply forall2_impl; [|exact Hi]. intros a b E. rewrite (proj1 (Hans a)). exact E.
      - exists ss, msgs. rewrite (proj1 (proj2 (Hn pi true calls))), (proj1 (Hn pi' true calls)). auto.
    Qed.

    (* the consistency hypothesis is automatic unless the declared tool implements both interfaces *)
    Theorem node_derived_consistent : forall c cs,
      decl_s_answer (eff_decls cfg cl) opts c = Ok (SOk cs None) -> cs <> [] ->
      (forall d, decl_lookup (eff_decls cfg cl) (c_name c) = Some d -> td_kind d <> Some KBoth) ->
      decl_answer (eff_decls cfg cl) opts c = Ok (TOk (concat_strings cs)).
    Proof.
      intros c cs Hs Hne Hb.
      destruct node_is_tools as [k [i [s [Hn [Hans Hk]]]]].
      rewrite <- (proj1 (Hans c)). apply derived_consistent; auto.
      - rewrite (proj2 (Hans c)). exact Hs.
      - rewrite Hk. destruct (decl_lookup (eff_decls cfg cl) (c_name c)) as [d|] eqn:Ed; [|discriminate].
        apply Hb. reflexivity.
    Qed.

    (* failure: the error of the lowest failing index, every completion order *)
    Theorem node_fail : forall pi calls pre c post outs r,
      Permutation pi (seq 0 (List.length calls)) ->
      calls = (pre ++ c :: post)%list ->
      (forall c', In c' calls -> exists r', decl_answer (eff_decls cfg cl) opts c' = Ok r') ->
      Forall2 (fun c o => decl_answer (eff_decls cfg cl) opts c = Ok (TOk o)) pre outs ->
      decl_answer (eff_decls cfg cl) opts c = Ok r ->
      (forall o, r <> TOk o) ->
      node_invoke handler cfg cl opts pi true calls =
      match r with
      | TErr e => Err e
      | _ => match pre with [] => Panic | _ => Err E_PANIC end
      end.
    Proof.
      intros pi calls pre c post outs r Hp E Hres Hpre Hc Hr.
      destruct node_is_tools as [k [i [s [Hn [Hans Hk]]]]].
      rewrite (proj1 (Hn pi true calls)).
      eapply invoke_first_failure; eauto.
      - intros c' Hin. rewrite (proj1 (Hans c')). auto.
      - eapply forall2_impl; [|exact Hpre]. intros a b E'. rewrite (proj1 (Hans a)). exact E'.
      - rewrite (proj1 (Hans c)). exact Hc.
    Qed.

    Theorem node_stream_fail : forall pi calls pre c post r,
      Permutation pi (seq 0 (List.length calls)) ->
      calls = (pre ++ c :: post)%list ->
      (forall c', In c' calls -> exists r', decl_s_answer (eff_decls cfg cl) opts c' = Ok r') ->
      Forall (fun c => exists cs tl, decl_s_answer (eff_decls cfg cl) opts c = Ok (SOk cs tl)) pre ->
      decl_s_answer (eff_decls cfg cl) opts c = Ok r ->
      (forall cs tl, r <> SOk cs tl) ->
      node_stream_open handler cfg cl opts pi true calls =
      match r with
      | SErr e => Err e
      | _ => match pre with [] => Panic | _ => Err E_PANIC end
      end.
    Proof.
      intros pi calls pre c post r Hp E Hres Hpre Hc Hr.
      destruct node_is_tools as [k [i [s [Hn [Hans Hk]]]]].
      rewrite (proj1 (proj2 (Hn pi true calls))).
      eapply stream_first_failure; eauto.
      - intros c' Hin. rewrite (proj2 (Hans c')). auto.
      - rewrite Forall_forall in *. intros x Hx. destruct (Hpre x Hx) as [cs [tl Ex]].
        exists cs, tl. rewrite (proj2 (Hans x)). exact Ex.
      - rewrite (proj2 (Hans c)). exact Hc.
    Qed.

    (* a name no declared tool of the list in force carries: an error unless a handler is
       configured (then the handler's answer is that call's: decl_answer) — and nothing runs *)
    Theorem node_unknown : forall pi calls c,
      In c calls -> decl_lookup (eff_decls cfg cl) (c_name c) = None -> handler = None ->
      node_invoke handler cfg cl opts pi true calls = Err E_UNKNOWN
      /\ node_stream_open handler cfg cl opts pi true calls = Err E_UNKNOWN
      /\ node_executed handler cfg cl opts true calls = [].
    Proof.
      intros pi calls c Hin Hl Hh.
      destruct node_is_tools as [k [i [s [Hn [Hans Hk]]]]].
      destruct (Hn pi true calls) as [E1 [E2 E3]]. rewrite E1, E2, E3.
      eapply unknown_without_handler; eauto. rewrite Hk, Hl. reflexivity.
    Qed.
  End Good.
End Declared.

(* ---- one call with its option list (what the correspondence check evaluates) ---------------- *)
Section CallLevel.
  Variable P : Type.
  Variable handler : option (string -> string -> tres).
  Notation decl := (tooldecl (list (topt P))).
  Notation TK := (takeable (list (topt P))).

  (* the list in force and the tool options of a call *)
  Definition call_decls (cfg : list decl) (nopts : list (nodeopt P decl)) : list decl :=
    eff_decls _ cfg (fst (get_node_opts nopts)).
  Definition call_topts (nopts : list (nodeopt P decl)) : list (topt P) := snd (get_node_opts nopts).
  Definition call_lists_ok (cfg : list decl) (nopts : list (nodeopt P decl)) : Prop :=
    Forall TK cfg /\ (forall l, fst (get_node_opts nopts) = Some l -> Forall TK l).

  Theorem call_invoke_spec : forall cfg nopts pi calls outs,
    call_lists_ok cfg nopts ->
    calls <> [] ->
    Permutation pi (seq 0 (List.length calls)) ->
    Forall2 (fun c o => decl_answer _ handler (call_decls cfg nopts) (call_topts nopts) c = Ok (TOk o)) calls outs ->
    call_invoke handler cfg nopts pi true calls = Ok (combine outs (map c_id calls))
    /\ List.length (combine outs (map c_id calls)) = List.length calls
    /\ call_executed handler cfg nopts true calls = calls.
  Proof. intros cfg nopts pi calls outs [H1 H2]. apply node_invoke_spec; auto. Qed.

  Theorem call_stream_concat : forall cfg nopts pi pi' calls css,
    call_lists_ok cfg nopts ->
    calls <> [] ->
    Permutation pi (seq 0 (List.length calls)) ->
    Permutation pi' (seq 0 (List.length calls)) ->
    Forall2 (fun c cs => decl_s_answer _ handler (call_decls cfg nopts) (call_topts nopts) c = Ok (SOk cs None) /\ cs <> []) calls css ->
    Forall2 (fun c cs => decl_answer _ handler (call_decls cfg nopts) (call_topts nopts) c = Ok (TOk (concat_strings cs))) calls css ->
    exists ss msgs,
      call_stream_open handler cfg nopts pi true calls = Ok ss
      /\ call_invoke handler cfg nopts pi' true calls = Ok msgs
      /\ List.length msgs = List.length calls
      /\ forall sched,
           drained (merge_rest sched (stream_srcs ss)) = true ->
           concat_pos (stream_ids ss) (fst (merge_run sched (stream_srcs ss))) = Ok (map Some msgs).
  Proof. intros cfg nopts pi pi' calls css [H1 H2]. apply node_stream_concat; auto. Qed.

  Theorem call_derived_consistent : forall cfg nopts c cs,
    call_lists_ok cfg nopts ->
    decl_s_answer _ handler (call_decls cfg nopts) (call_topts nopts) c = Ok (SOk cs None) -> cs <> [] ->
    (forall d, decl_lookup _ (call_decls cfg nopts) (c_name c) = Some d -> td_kind d <> Some KBoth) ->
    decl_answer _ handler (call_decls cfg nopts) (call_topts nopts) c = Ok (TOk (concat_strings cs)).
  Proof. intros cfg nopts c cs [H1 H2]. apply node_derived_consistent; auto. Qed.

  Theorem call_fail : forall cfg nopts pi calls pre c post outs r,
    call_lists_ok cfg nopts ->
    Permutation pi (seq 0 (List.length calls)) ->
    calls = (pre ++ c :: post)%list ->
    (forall c', In c' calls -> exists r', decl_answer _ handler (call_decls cfg nopts) (call_topts nopts) c' = Ok r') ->
    Forall2 (fun c o => decl_answer _ handler (call_decls cfg nopts) (call_topts nopts) c = Ok (TOk o)) pre outs ->
    decl_answer _ handler (call_decls cfg nopts) (call_topts nopts) c = Ok r ->
    (forall o, r <> TOk o) ->
    call_invoke handler cfg nopts pi true calls =
    match r with
    | TErr e => Err e
    | _ => match pre with [] => Panic | _ => Err E_PANIC end
    end.
  Proof. intros cfg nopts pi calls pre c post outs r [H1 H2]. apply node_fail; auto. Qed.

  Theorem call_stream_fail : forall cfg nopts pi calls pre c post r,
    call_lists_ok cfg nopts ->
    Permutation pi (seq 0 (List.length calls)) ->
    calls = (pre ++ c :: post)%list ->
    (forall c', In c' calls -> exists r', decl_s_answer _ handler (call_decls cfg nopts) (call_topts nopts) c' = Ok r') ->
    Forall (fun c => exists cs tl, decl_s_answer _ handler (call_decls cfg nopts) (call_topts nopts) c = Ok (SOk cs tl)) pre ->
    decl_s_answer _ handler (call_decls cfg nopts) (call_topts nopts) c = Ok r ->
    (forall cs tl, r <> SOk cs tl) ->
    call_stream_open handler cfg nopts pi true calls =
    match r with
    | SErr e => Err e
    | _ => match pre with [] => Panic | _ => Err E_PANIC end
    end.
  Proof. intros cfg nopts pi calls pre c post r [H1 H2]. apply node_stream_fail; auto. Qed.

  Theorem call_unknown : forall cfg nopts pi calls c,
    call_lists_ok cfg nopts ->
    In c calls -> decl_lookup _ (call_decls cfg nopts) (c_name c) = None -> handler = None ->
    call_invoke handler cfg nopts pi true calls = Err E_UNKNOWN
    /\ call_stream_open handler cfg nopts pi true calls = Err E_UNKNOWN
    /\ call_executed handler cfg nopts true calls = [].
  Proof. intros cfg nopts pi calls c [H1 H2]. apply node_unknown; auto. Qed.

  (* a list the call brings (the last WithToolList) that convTools cannot take, or such a
     configuration: an error and nothing runs, whatever the message *)
  Theorem call_bad_tool : forall cfg nopts pi role_ok calls,
    ~ call_lists_ok cfg nopts ->
    (exists e, call_invoke handler cfg nopts pi role_ok calls = Err e)
    /\ (exists e, call_stream_open handler cfg nopts pi role_ok calls = Err e)
    /\ call_executed handler cfg nopts role_ok calls = [].
  Proof.
    intros cfg nopts pi role_ok calls H. apply node_bad_tool.
    unfold call_lists_ok in H.
    destruct (fst (get_node_opts nopts)) as [l|] eqn:El.
    - destruct (Forall_dec TK) with (l := cfg) as [Hc|Hc].
      + intros d. unfold takeable. destruct (td_info_ok d); destruct (td_kind d);
          (left; split; congruence) || (right; intros [A B]; congruence).
      + right. exists l. split; auto. intros Hl. apply H. split; auto.
        intros l' E. inversion E; subst. assumption.
      + left. assumption.
    - left. intros Hc. apply H. split; auto. intros l' E. discriminate.
  Qed.

  (* withdrawing the list: after WithToolList() (no argument) and tool options only, the
     configured tools answer *)
  Theorem call_list_withdrawn : forall cfg (l1 l2 : list (nodeopt P decl)),
    Forall is_tool_option l2 ->
    call_decls cfg (l1 ++ WithToolList None :: l2) = cfg.
  Proof. intros. unfold call_decls. rewrite node_opts_list_last by auto. reflexivity. Qed.

  Theorem call_list_last_wins : forall cfg (l1 l2 : list (nodeopt P decl)) l,
    Forall is_tool_option l2 ->
    call_decls cfg (l1 ++ WithToolList (Some l) :: l2) = l.
  Proof. intros. unfold call_decls. rewrite node_opts_list_last by auto. reflexivity. Qed.
End CallLevel.
