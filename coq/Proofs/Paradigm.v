(* Proofs/Paradigm.v — the derivation table is total and the four derived views of a
   consistent node agree (property C04, node level). *)
From Eino Require Import Base.Util Model.Paradigm.

(* ------------------------------------------------------------------ agree *)
Lemma agree_refl {X} (a : res X) : agree a a.
Proof. destruct a; simpl; auto. Qed.

Lemma agree_sym {X} (a b : res X) : agree a b -> agree b a.
Proof. destruct a, b; simpl; auto. Qed.

Lemma agree_trans {X} (a b c : res X) : agree a b -> agree b c -> agree a c.
Proof. destruct a, b, c; simpl; intros; try congruence; auto; contradiction. Qed.

Lemma agree_ok_l {X} (a : res X) x : agree (Ok x) a -> a = Ok x.
Proof. destruct a; simpl; intros; try contradiction; congruence. Qed.

Lemma agree_ok_r {X} (a : res X) x : agree a (Ok x) -> a = Ok x.
Proof. destruct a; simpl; intros; try contradiction; congruence. Qed.

Definition failed {X} (a : res X) : Prop := forall x, a <> Ok x.

Lemma agree_failed {X} (a b : res X) : failed a -> failed b -> agree a b.
Proof.
  unfold failed; destruct a, b; simpl; intros Ha Hb; auto;
    try (exfalso; eapply Ha; reflexivity); try (exfalso; eapply Hb; reflexivity).
Qed.

Lemma agree_failed_l {X} (a b : res X) : agree a b -> failed a -> failed b.
Proof. intros H Ha x Hb. subst b. apply agree_ok_r in H. eapply Ha; eauto. Qed.

Lemma agree_failed_r {X} (a b : res X) : agree a b -> failed b -> failed a.
Proof. intros H; apply agree_failed_l, agree_sym, H. Qed.

Lemma failed_bind {X Y} (a : res X) (f : X -> res Y) : failed a -> failed (res_bind a f).
Proof. unfold failed; destruct a; simpl; intros H y; try congruence. exfalso; eapply H; reflexivity. Qed.

Lemma failed_Err {X} e : failed (@Err X e).
Proof. intros x; discriminate. Qed.

(* bind is a congruence for agree *)
Lemma agree_bind {X Y} (a b : res X) (f g : X -> res Y) :
  agree a b -> (forall x, a = Ok x -> agree (f x) (g x)) -> agree (res_bind a f) (res_bind b g).
Proof.
  destruct a, b; simpl; intros H Hf; try contradiction; auto.
  subst. apply Hf; reflexivity.
Qed.

Lemma bind_assoc {X Y Z} (a : res X) (f : X -> res Y) (g : Y -> res Z) :
  res_bind (res_bind a f) g = res_bind a (fun x => res_bind (f x) g).
Proof. destruct a; reflexivity. Qed.

Lemma bind_ok_inv {X Y} (a : res X) (f : X -> res Y) y :
  res_bind a f = Ok y -> exists x, a = Ok x /\ f x = Ok y.
Proof. destruct a; simpl; intros; try discriminate. eauto. Qed.

(* ------------------------------------------------------------------ sconcat *)
Lemma sconcat_box {X} (c : list X -> res X) (x : X) : sconcat c (box x) = Ok x.
Proof. reflexivity. Qed.

(* ------------------------------------------------------------------ derivation is total *)
Section Derive.
  Variables A B : Type.
  Variable concatA : list A -> res A.
  Variable concatB : list B -> res B.
  Notation node := (node A B).

  Lemma order_complete : forall target p, In p (order target).
  Proof. intros [] []; simpl; auto 6. Qed.

  Lemma used_some (n : node) target :
    has_any n = true -> exists p, used n target = Some p /\ has n p = true /\ In p (order target).
  Proof.
    intros H. unfold used.
    destruct (find (has n) (order target)) eqn:E.
    - apply find_some in E. destruct E; eauto.
    - exfalso. unfold has_any in H.
      assert (Hn : forall p, has n p = false).
      { intros p. apply (find_none _ _ E p), order_complete. }
      rewrite !Hn in H. discriminate.
  Qed.

  (* every non-empty native subset yields all four views *)
  Lemma derive_total_lem (n : node) :
    has_any n = true -> exists v, derive concatA concatB n = Some v.
  Proof.
    intros H. unfold derive.
    destruct (used_some n PI H) as (a & -> & _).
    destruct (used_some n PS H) as (b & -> & _).
    destruct (used_some n PC H) as (c & -> & _).
    destruct (used_some n PT H) as (d & -> & _).
    eauto.
  Qed.

  (* and only those: with no native implementation nothing can be derived *)
  Lemma derive_none (n : node) : has_any n = false -> derive concatA concatB n = None.
  Proof.
    intros H. unfold has_any in H.
    apply Bool.orb_false_iff in H as [H HT]. apply Bool.orb_false_iff in H as [H HC].
    apply Bool.orb_false_iff in H as [HI HS].
    assert (Hn : forall p, has n p = false) by (intros []; assumption).
    assert (E : used n PI = None).
    { unfold used. cbn [find order]. rewrite !Hn. reflexivity. }
    unfold derive. rewrite E. reflexivity.
  Qed.

  (* the native a view uses is the first implemented one of its row *)
  Lemma used_first (n : node) target p :
    used n target = Some p ->
    has n p = true /\
    exists pre post, order target = pre ++ p :: post /\ forall q, In q pre -> has n q = false.
  Proof.
    unfold used. generalize (order target) as l.
    induction l as [|q l IH]; simpl; intros H; [discriminate|].
    destruct (has n q) eqn:E.
    - inversion H; subst. split; auto. exists [], l. split; auto. intros ? [].
    - destruct (IH H) as (Hp & pre & post & -> & Hpre). split; auto.
      exists (q :: pre), post. split; auto. intros r [<-|Hr]; auto.
  Qed.

  (* ---------------------------------------------------------------- consistency *)
  (* The native implementations of a node are mutually consistent when each of them
     computes, up to concatenation, one and the same function f of the whole input — and
     propagates a failure of its input stream.  Streams are non-empty: an empty stream has
     no value (concatStreamReader fails on it), so it is the input of no Invoke call. *)
  Record node_consistent (n : node) (f : A -> res B) : Prop := {
    nc_I : forall i, nI n = Some i -> forall x, agree (i x) (f x);
    nc_S : forall s, nS n = Some s -> forall x, agree (sconcatR concatB (s x)) (f x);
    nc_C : forall c, nC n = Some c -> forall st, st <> [] ->
             agree (c st) (res_bind (sconcat concatA st) f);
    nc_T : forall t, nT n = Some t -> forall st, st <> [] ->
             agree (sconcatR concatB (t st)) (res_bind (sconcat concatA st) f)
  }.

  Lemma has_callI (n : node) : has n PI = true -> exists i, nI n = Some i /\ forall x, callI n x = i x.
  Proof. unfold has, callI. destruct (nI n); simpl; intros; try discriminate; eauto. Qed.
  Lemma has_callS (n : node) : has n PS = true -> exists i, nS n = Some i /\ forall x, callS n x = i x.
  Proof. unfold has, callS. destruct (nS n); simpl; intros; try discriminate; eauto. Qed.
  Lemma has_callC (n : node) : has n PC = true -> exists i, nC n = Some i /\ forall x, callC n x = i x.
  Proof. unfold has, callC. destruct (nC n); simpl; intros; try discriminate; eauto. Qed.
  Lemma has_callT (n : node) : has n PT = true -> exists i, nT n = Some i /\ forall x, callT n x = i x.
  Proof. unfold has, callT. destruct (nT n); simpl; intros; try discriminate; eauto. Qed.

  Hint Resolve agree_refl : core.

  Lemma box_nonnil {X} (x : X) : box x <> [].
  Proof. discriminate. Qed.

  Section WithNode.
    Variable n : node.
    Variable f : A -> res B.
    Hypothesis Hc : node_consistent n f.
    Hypothesis Hany : has_any n = true.

    Lemma callI_ok : has n PI = true -> forall x, agree (callI n x) (f x).
    Proof. intros H x. destruct (has_callI n H) as (i & E & ->). eapply nc_I; eauto. Qed.
    Lemma callS_ok : has n PS = true -> forall x, agree (sconcatR concatB (callS n x)) (f x).
    Proof. intros H x. destruct (has_callS n H) as (i & E & ->). eapply nc_S; eauto. Qed.
    Lemma callC_ok : has n PC = true -> forall st, st <> [] ->
      agree (callC n st) (res_bind (sconcat concatA st) f).
    Proof. intros H st Hst. destruct (has_callC n H) as (i & E & ->). eapply nc_C; eauto. Qed.
    Lemma callT_ok : has n PT = true -> forall st, st <> [] ->
      agree (sconcatR concatB (callT n st)) (res_bind (sconcat concatA st) f).
    Proof. intros H st Hst. destruct (has_callT n H) as (i & E & ->). eapply nc_T; eauto. Qed.

    Lemma sconcatR_box_bind {X} (c : list X -> res X) (r : res X) :
      sconcatR c (res_bind r (fun y => Ok (box y))) = r.
    Proof. destruct r; reflexivity. Qed.

    Lemma view_I_spec : forall x, agree (view_I concatB n x) (f x).
    Proof.
      intros x. unfold view_I.
      destruct (used_some n PI Hany) as (p & E & Hp & _). rewrite E.
      destruct p.
      - apply callI_ok; auto.
      - apply (callS_ok Hp x).
      - pose proof (callC_ok Hp (box x) (box_nonnil x)) as H. rewrite sconcat_box in H. exact H.
      - pose proof (callT_ok Hp (box x) (box_nonnil x)) as H. rewrite sconcat_box in H. exact H.
    Qed.

    Lemma view_S_spec : forall x, agree (sconcatR concatB (view_S n x)) (f x).
    Proof.
      intros x. unfold view_S.
      destruct (used_some n PS Hany) as (p & E & Hp & _). rewrite E.
      destruct p.
      - rewrite sconcatR_box_bind. apply callI_ok; auto.
      - apply (callS_ok Hp x).
      - rewrite sconcatR_box_bind.
        pose proof (callC_ok Hp (box x) (box_nonnil x)) as H. rewrite sconcat_box in H. exact H.
      - pose proof (callT_ok Hp (box x) (box_nonnil x)) as H. rewrite sconcat_box in H. exact H.
    Qed.

    Lemma view_C_spec : forall st, st <> [] ->
      agree (view_C concatA concatB n st) (res_bind (sconcat concatA st) f).
    Proof.
      intros st Hst. unfold view_C.
      destruct (used_some n PC Hany) as (p & E & Hp & _). rewrite E.
      destruct p.
      - apply agree_bind; auto. intros x _. apply callI_ok; auto.
      - apply agree_bind; auto. intros x _. apply (callS_ok Hp x).
      - apply callC_ok; auto.
      - apply (callT_ok Hp st Hst).
    Qed.

    Lemma view_T_spec : forall st, st <> [] ->
      agree (sconcatR concatB (view_T concatA n st)) (res_bind (sconcat concatA st) f).
    Proof.
      intros st Hst. unfold view_T.
      destruct (used_some n PT Hany) as (p & E & Hp & _). rewrite E.
      destruct p.
      - destruct (sconcat concatA st) as [x| |]; simpl; auto.
        rewrite sconcatR_box_bind. apply callI_ok; auto.
      - destruct (sconcat concatA st) as [x| |]; simpl; auto. apply (callS_ok Hp x).
      - rewrite sconcatR_box_bind. apply callC_ok; auto.
      - apply (callT_ok Hp st Hst).
    Qed.

    (* the statement of the property at one node: concatenating what the streaming views
       deliver is what Invoke returns on the concatenated input *)
    Theorem views_agree_lem : forall st, st <> [] ->
      agree (sconcatR concatB (view_T concatA n st)) (res_bind (sconcat concatA st) (view_I concatB n))
      /\ agree (view_C concatA concatB n st) (res_bind (sconcat concatA st) (view_I concatB n))
      /\ forall x, agree (sconcatR concatB (view_S n x)) (view_I concatB n x).
    Proof.
      intros st Hst. repeat split.
      - eapply agree_trans; [apply view_T_spec; auto|].
        apply agree_bind; auto. intros x _. apply agree_sym, view_I_spec.
      - eapply agree_trans; [apply view_C_spec; auto|].
        apply agree_bind; auto. intros x _. apply agree_sym, view_I_spec.
      - intros x. eapply agree_trans; [apply view_S_spec|]. apply agree_sym, view_I_spec.
    Qed.
  End WithNode.
End Derive.
