(* Proofs/GenAgreeDagSkip.v — property C02, translator tie for the skip work list.

   Gen/DagSkipCode.v is regenerated on every run by tools/go2v (extractor "dagskip") from the Go text of
   channelManager.reportBranch (compose/graph_manager.go), statement by statement: the `queued` set, the slice nKeys
   used as a queue through the index i of a C-style loop (the translation gives that loop explicit fuel), the two
   loops that report a skip to a list of targets and queue the targets that became completely skipped.
   The model (Model/Graph.v) is [report_skip_to] + [propagate]: a recursive work list that queues a target when THIS
   report made it skipped.  The Go code queues a target when it is completely skipped and has not been queued IN THIS
   CALL.  This file proves

     gen_reportBranch_agrees / gen_reportBranch_is_report_branch :
        on every channel table in which no channel is skipped yet ([fresh_table]: the table of initChannelManager
        and of a run up to its first skip), for every graph, source and list of reported nodes, the translated
        function returns what the model's report_branch returns — the same table, or the same error
        ("unknown node": END became skipped) — whenever the model does not run out of ITS fuel (it never does:
        dag_fuel_never_exhausted), with one unit of fuel more than the model's.

   Proof: (1) the index-based loop over the growing slice is the list-based work list [wl] on the not yet visited
   suffix (loop_is_wl); (2) invariant J between the table and `queued`: exactly the skipped channels are queued, every
   skipped channel has all control entries Skipped — under J the two queueing tests coincide (step_agree), so the two
   work lists hold the same keys in the same order (wl_propagate).
   NOT proved (open): tables with channels skipped by an EARLIER call. There the Go code re-queues such a channel
   once per call and repeats its (idempotent) reports, the model does not; the results agree when every earlier skip
   has been propagated. *)
From Eino Require Import Base.Util Model.Graph Model.DagGenLib Proofs.DagChan Proofs.DagInv.
From Eino Require Gen.DagSkipCode.
From Coq Require Import Lia.
Open Scope N_scope.

Module GS := Gen.DagSkipCode.

Section Agree.
  Variable V : Type.
  Variable g : graph.

  (* r.successors: getSuccessors of every node, START included (Proofs/GenAgreeDagBranch.v: getSuccessors = succs) *)
  Definition succ_table : list (key * list key) := map (fun n => (n_key n, succs n)) (g_nodes g).

  Lemma succ_table_lookup : forall k,
    alookup k succ_table = option_map succs (find_node g k).
  Proof.
    intros k. unfold succ_table, find_node. induction (g_nodes g) as [|n l IH]; simpl; [reflexivity|].
    rewrite (N.eqb_sym k (n_key n)). destruct (N.eqb (n_key n) k); [reflexivity|exact IH].
  Qed.

  (* one report, in the shape the translator emits it *)
  Definition rq_step (src : key) := fun (st_ : (chans V * list key * list key)) (x_ : key) =>
    let '(channels, queued, nKeys) := st_ in let node := x_ in
    let '(channels, skipped) := chans_reportSkip channels node [src] in
    let ok := ks_has node queued in
    let '(queued, nKeys) := (if (skipped && (negb ok)) then (let queued := ks_add node queued in
        let nKeys := (nKeys ++ [node]) in (queued, nKeys)) else (queued, nKeys)) in
    (channels, queued, nKeys).

  (* what the queue remembers, against the table: exactly the skipped channels are queued *)
  Definition J (cs : chans V) (q : list key) : Prop :=
    forall t c, alookup t cs = Some c ->
      chan_ok V c /\ (c_skipped V c = true -> all_skipped (c_ctrl V c) = true) /\ ks_has t q = c_skipped V c.

  Lemma ks_has_add : forall t x q, ks_has t (ks_add x q) = N.eqb t x || ks_has t q.
  Proof.
    intros t x q. unfold ks_has, ks_add. destruct (memb x q) eqn:E.
    - destruct (N.eqb_spec t x) as [->|_]; [rewrite E; reflexivity|reflexivity].
    - unfold memb in *. rewrite existsb_app. simpl. rewrite orb_false_r, orb_comm. reflexivity.
  Qed.

  Lemma step_agree : forall src t cs q nw,
    J cs q ->
    exists cs' q' nw',
      rq_step src (cs, q, nw) t = (cs', q', nw') /\ rst_body V src (cs, nw) t = (cs', nw') /\ J cs' q'.
  Proof.
    intros src t cs q nw HJ. unfold rq_step, rst_body, chans_reportSkip.
    destruct (alookup t cs) as [c|] eqn:Ec.
    - destruct (HJ t c Ec) as [Hok [Hskc Hq]].
      destruct (dag_report_skip V c [src]) as [c' sk] eqn:Er.
      destruct (dag_skip_iff_all_skipped V c [src] c' sk Hok Er) as [Hb _].
      assert (Hok' : chan_ok V c') by (change c' with (fst (c', sk)); rewrite <- Er; apply dag_report_skip_ok, Hok).
      assert (Hall' : c_skipped V c' = all_skipped (c_ctrl V c')).
      { unfold dag_report_skip in Er. inversion Er; subst. reflexivity. }
      rewrite Hq.
      assert (HJ' : forall q', ks_has t q' = sk -> (forall t', t' <> t -> ks_has t' q' = ks_has t' q) ->
                    J (upd_chan V cs t (fun _ => c')) q').
      { intros q' Ht Ho t' c0 E0. rewrite alookup_upd_chan in E0. destruct (N.eqb_spec t' t) as [->|Hne].
        - rewrite Ec in E0. simpl in E0. inversion E0; subst c0. split; [exact Hok'|]. split; [intros Hs; rewrite <- Hall'; exact Hs|].
          rewrite Ht. symmetry. exact Hb.
        - destruct (HJ t' c0 E0) as [H1 [H2 H3]]. split; [exact H1|]. split; [exact H2|]. rewrite (Ho t' Hne). exact H3. }
      destruct (sk && negb (c_skipped V c))%bool eqn:Ecnd.
      + eexists _, _, _. split; [reflexivity|]. split; [reflexivity|]. apply HJ'.
        * rewrite ks_has_add, N.eqb_refl. apply andb_true_iff in Ecnd. destruct Ecnd as [-> _]. reflexivity.
        * intros t' Hne. rewrite ks_has_add. apply N.eqb_neq in Hne. rewrite Hne. reflexivity.
      + eexists _, _, _. split; [reflexivity|]. split; [reflexivity|]. apply HJ'; [|reflexivity].
        rewrite Hq. destruct (c_skipped V c) eqn:Esk.
        * (* already skipped: stays skipped *)
          pose proof (skip_keeps_skipped V c [src] Hok Esk (Hskc eq_refl)) as Hk. rewrite Er in Hk. simpl in Hk. congruence.
        * destruct sk; [discriminate|reflexivity].
    - exists cs, q, nw. split; [reflexivity|]. split; [reflexivity|exact HJ].
  Qed.

  Lemma steps_agree : forall src ts cs q nw,
    J cs q ->
    exists cs' q' nw',
      fold_left (rq_step src) ts (cs, q, nw) = (cs', q', nw') /\ fold_left (rst_body V src) ts (cs, nw) = (cs', nw') /\ J cs' q'.
  Proof.
    intros src ts. induction ts as [|t ts IH]; intros cs q nw HJ; cbn [fold_left].
    - exists cs, q, nw. split; [reflexivity|]. split; [reflexivity|exact HJ].
    - destruct (step_agree src t cs q nw HJ) as [cs1 [q1 [nw1 [E1 [E2 HJ1]]]]]. rewrite E1, E2. apply IH, HJ1.
  Qed.

  (* the model's accumulator only grows: report_skip_to from an accumulator nw = nw ++ report_skip_to from [] *)
  Lemma rst_acc : forall src ts cs nw,
    fold_left (rst_body V src) ts (cs, nw)
    = (fst (fold_left (rst_body V src) ts (cs, [])), nw ++ snd (fold_left (rst_body V src) ts (cs, []))).
  Proof.
    intros src ts. induction ts as [|t ts IH]; intros cs nw; cbn [fold_left]; [rewrite app_nil_r; reflexivity|].
    unfold rst_body at 2 4 6. destruct (alookup t cs) as [c|]; [|apply IH].
    destruct (dag_report_skip V c [src]) as [c' sk]. destruct (sk && negb (c_skipped V c))%bool.
    - rewrite (IH _ (nw ++ [t])), (IH _ ([] ++ [t])). simpl. rewrite <- app_assoc. reflexivity.
    - apply IH.
  Qed.

  (* ---------------------------------------------------------------- the work list as a list *)
  Fixpoint wl (fuel : nat) (work : list key) (q : list key) (cs : chans V) : res (chans V) :=
    match fuel with
    | O => Err eLoopFuel
    | S f =>
      match work with
      | [] => Ok cs
      | k :: work' =>
        if negb (km_has k succ_table) then Err eSkipEnd else
        let '(cs', q', nk) := fold_left (rq_step k) (km_at k succ_table) (cs, q, []) in
        wl f (work' ++ nk) q' cs'
      end
    end.

  Definition loop_cond := fun (st_ : (chans V * list key * list key * nat)) =>
    let '(channels, queued, nKeys, i) := st_ in (Nat.ltb i (List.length nKeys)).
  Definition loop_body := fun (st_ : (chans V * list key * list key * nat)) =>
    let '(channels, queued, nKeys, i) := st_ in
    let key_ := (l_get 0%N i nKeys) in
    let ok := km_has key_ succ_table in
    if (negb ok) then (Err eSkipEnd)
    else (let '(channels, queued, nKeys) := fold_left (rq_step key_) (km_at key_ succ_table) (channels, queued, nKeys) in
          let i := (Nat.add i 1%nat) in
          Ok (channels, queued, nKeys, i)).

  Lemma rq_acc : forall src ts cs q nk0,
    fold_left (rq_step src) ts (cs, q, nk0)
    = let '(cs', q', nk) := fold_left (rq_step src) ts (cs, q, []) in (cs', q', nk0 ++ nk).
  Proof.
    intros src ts. induction ts as [|t ts IH]; intros cs q nk0; cbn [fold_left]; [rewrite app_nil_r; reflexivity|].
    unfold rq_step at 2 4. destruct (chans_reportSkip cs t [src]) as [cs1 sk]. cbv zeta.
    destruct (sk && negb (ks_has t q))%bool.
    - rewrite (IH _ _ (nk0 ++ [t])), (IH _ _ ([] ++ [t])).
      destruct (fold_left (rq_step src) ts (cs1, ks_add t q, [])) as [[cs' q'] nk]. simpl. rewrite <- app_assoc. reflexivity.
    - apply IH.
  Qed.

  Lemma skipn_cons : forall (l : list key) i, (i < List.length l)%nat -> skipn i l = l_get 0%N i l :: skipn (S i) l.
  Proof.
    intros l. induction l as [|a l IH]; intros i Hi; simpl in Hi; [lia|].
    destruct i; [reflexivity|]. simpl. apply IH. lia.
  Qed.

  Lemma loop_is_wl : forall fuel cs q nKeys i,
    (i <= List.length nKeys)%nat ->
    res_map (fun st : chans V * list key * list key * nat => fst (fst (fst st))) (loop_fuel fuel loop_cond loop_body (cs, q, nKeys, i))
    = wl fuel (skipn i nKeys) q cs.
  Proof.
    intros fuel. induction fuel as [|fuel IH]; intros cs q nKeys i Hi; [reflexivity|].
    cbn [loop_fuel wl]. unfold loop_cond at 1. destruct (Nat.ltb_spec i (List.length nKeys)) as [Hlt|Hge].
    - rewrite (skipn_cons nKeys i Hlt). unfold loop_body at 1. cbv zeta.
      destruct (negb (km_has (l_get 0%N i nKeys) succ_table)); [reflexivity|].
      rewrite rq_acc. destruct (fold_left (rq_step (l_get 0%N i nKeys)) (km_at (l_get 0%N i nKeys) succ_table) (cs, q, [])) as [[cs' q'] nk].
      cbn [res_bind]. rewrite IH by (rewrite app_length; lia).
      rewrite Nat.add_1_r, skipn_app. replace (S i - List.length nKeys)%nat with O by lia. reflexivity.
    - rewrite skipn_all2 by lia. reflexivity.
  Qed.

  (* ---------------------------------------------------------------- the list work list against the model's propagate *)
  Lemma wl_propagate : forall fuel work q cs r,
    J cs q -> propagate V g fuel work cs = r -> r <> Err eLoopFuel -> wl (S fuel) work q cs = r.
  Proof.
    intros fuel. induction fuel as [|fuel IH]; intros work q cs r HJ Hp Hne.
    - destruct work as [|k w]; simpl in Hp; [subst; reflexivity|congruence].
    - destruct work as [|k w]; [simpl in Hp; subst; reflexivity|].
      cbn [propagate] in Hp. cbn [wl]. unfold km_has, km_at. rewrite succ_table_lookup.
      destruct (find_node g k) as [n|]; simpl; [|exact Hp].
      rewrite report_skip_to_eq in Hp.
      destruct (steps_agree k (succs n) cs q [] HJ) as [cs1 [q1 [nw1 [E1 [E2 HJ1]]]]].
      rewrite E1. rewrite E2 in Hp. apply (IH _ _ _ _ HJ1 Hp Hne).
  Qed.

  (* ---------------------------------------------------------------- reportBranch *)
  Definition fresh_table (cs : chans V) : Prop :=
    forall t c, alookup t cs = Some c -> chan_ok V c /\ c_skipped V c = false.

  Theorem gen_reportBranch_agrees : forall fuel cs from skipped r,
    g_mode g = Dag -> fresh_table cs ->
    (let '(cs', newly) := report_skip_to V cs from skipped in propagate V g fuel newly cs') = r ->
    r <> Err eLoopFuel ->
    GS.reportBranch V (S fuel) cs succ_table from skipped = r.
  Proof.
    intros fuel cs from skipped r Hdag Hfresh Hm Hne. unfold GS.reportBranch.
    change (fold_left _ skipped (cs, ks_empty, @nil key)) with (fold_left (rq_step from) skipped (cs, ks_empty, @nil key)).
    assert (HJ0 : J cs ks_empty).
    { intros t c E. destruct (Hfresh t c E) as [H1 H2]. split; [exact H1|]. split; [congruence|]. rewrite H2. reflexivity. }
    destruct (steps_agree from skipped cs ks_empty [] HJ0) as [cs1 [q1 [nw1 [E1 [E2 HJ1]]]]].
    rewrite E1. rewrite report_skip_to_eq, E2 in Hm.
    change (loop_fuel (S fuel) _ _ (cs1, q1, nw1, 0%nat)) with (loop_fuel (S fuel) loop_cond loop_body (cs1, q1, nw1, 0%nat)).
    pose proof (loop_is_wl (S fuel) cs1 q1 nw1 0%nat ltac:(lia)) as HL. simpl skipn in HL.
    rewrite (wl_propagate fuel nw1 q1 cs1 r HJ1 Hm Hne) in HL.
    destruct (loop_fuel (S fuel) loop_cond loop_body (cs1, q1, nw1, 0%nat)) as [[[[c2 q2] n2] i2]|e|]; simpl in HL |- *; exact HL.
  Qed.
  Corollary gen_reportBranch_is_report_branch : forall cs from skipped r,
    g_mode g = Dag -> fresh_table cs ->
    report_branch V g from skipped cs = r -> r <> Err eLoopFuel ->
    GS.reportBranch V (S (S (List.length (g_nodes g)))) cs succ_table from skipped = r.
  Proof.
    intros cs from skipped r Hdag Hfresh Hm Hne. apply gen_reportBranch_agrees; try assumption.
    unfold report_branch in Hm. rewrite Hdag in Hm. exact Hm.
  Qed.
End Agree.

Print Assumptions gen_reportBranch_agrees.
Print Assumptions gen_reportBranch_is_report_branch.

(* non-vacuity: node 2 branches to 3 or 4, 3 -> 5 -> END, 4 -> END; reporting "3 not selected" skips 3 and 5, not END;
   with a second graph where END's only predecessor chain is skipped both sides answer "unknown node" (eSkipEnd) *)
Definition sk_node (k : key) (ds cs : list key) (bs : list branch) : node :=
  {| n_key := k; n_kind := KLambda; n_outkey := None; n_dsucc := ds; n_csucc := cs; n_dmap := []; n_branches := bs |}.
Definition sk_g : graph :=
  {| g_nodes := [sk_node kSTART [2] [2] []; sk_node 2 [] [] [{| b_ends := [3; 4]; b_nodata := false; b_table := [[3]; [4]] |}];
                 sk_node 3 [5] [5] []; sk_node 4 [kEND] [kEND] []; sk_node 5 [kEND] [kEND] []];
     g_mode := Dag; g_eager := false; g_max := O |}.
Definition sk_g2 : graph :=
  {| g_nodes := [sk_node kSTART [2] [2] []; sk_node 2 [] [] [{| b_ends := [3; 4]; b_nodata := false; b_table := [[3]; [4]] |}];
                 sk_node 3 [5] [5] []; sk_node 4 [] [] []; sk_node 5 [kEND] [kEND] []];
     g_mode := Dag; g_eager := false; g_max := O |}.
Example gen_reportBranch_nonvacuous :
  GS.reportBranch value 7 (init_chans_v0 value sk_g) (succ_table sk_g) 2 [3] = report_branch value sk_g 2 [3] (init_chans_v0 value sk_g)
  /\ is_ok (report_branch value sk_g 2 [3] (init_chans_v0 value sk_g)) = true
  /\ option_map (c_skipped value) (alookup 5 (match report_branch value sk_g 2 [3] (init_chans_v0 value sk_g) with Ok cs => cs | _ => [] end)) = Some true
  /\ GS.reportBranch value 7 (init_chans_v0 value sk_g2) (succ_table sk_g2) 2 [3] = Err eSkipEnd
  /\ report_branch value sk_g2 2 [3] (init_chans_v0 value sk_g2) = Err eSkipEnd.
Proof. vm_compute. repeat split; reflexivity. Qed.
