(* Proofs/Builder.v — lemmas about Model/Builder.v for property C20:
   A. the sticky build error            (first_error_sticks)
   B. a compiled builder is frozen       (no_modification_after_compile)
   C. runners are unaffected             (runner_unaffected)
   D. every listed ill-formedness is rejected, at any state  (rejects_each_kind)
   E. no call panics (repaired version)
   F. witnesses for the four repaired defects (version v0). *)
From Eino Require Import Base.Util Model.Builder.
Local Open Scope string_scope.
Local Open Scope list_scope.

Ltac dif := match goal with |- context[if ?b then _ else _] => destruct b eqn:? end.
Ltac inv H := inversion H; subst; clear H.
Ltac dih H := match type of H with context[if ?b then _ else _] => destruct b eqn:? end.

(* ------------------------------------------------------------------ record facts *)
Lemma set_compiled_id : forall g, g_compiled g = true -> set_compiled true g = g.
Proof. intros [] H; simpl in *; subst; reflexivity. Qed.

Lemma set_err_id : forall g, set_err (g_err g) g = g.
Proof. intros []; reflexivity. Qed.

(* ================================================================== A. sticky build error *)
Lemma g_add_node_sticky : forall g k nk a b c e,
  g_err g = Some e -> g_add_node g k nk a b c = (g, OErr e).
Proof. intros. unfold g_add_node. rewrite H. reflexivity. Qed.

Lemma g_add_edge_sticky : forall g s t a b fs e,
  g_err g = Some e -> g_add_edge g s t a b fs = (g, OErr e).
Proof. intros. unfold g_add_edge. rewrite H. reflexivity. Qed.

Lemma g_add_branch_sticky : forall g s ends sk e,
  g_err g = Some e -> g_add_branch g s ends sk = (g, OErr e).
Proof. intros. unfold g_add_branch. rewrite H. reflexivity. Qed.

Lemma g_compile_sticky : forall v g o e,
  g_err g = Some e -> g_compile v g o = (g, OErr e).
Proof. intros. unfold g_compile. rewrite H. reflexivity. Qed.

Lemma gstep_sticky : forall v g c e,
  g_err g = Some e -> gstep v g c = (g, OErr e).
Proof.
  intros v g c e H; destruct c; simpl;
    auto using g_add_node_sticky, g_add_edge_sticky, g_add_branch_sticky, g_compile_sticky.
Qed.

Lemma grun_sticky : forall v g e cs,
  g_err g = Some e -> run_calls (gstep v) g cs = (g, map (fun _ => OErr e) cs).
Proof.
  induction cs as [|c cs IH]; intros H; simpl; [reflexivity|].
  rewrite (gstep_sticky v g c e H), (IH H). reflexivity.
Qed.

(* a failing Add* call records its error, unless it is the refusal of a compiled graph *)
Definition recorded (g g' : gstate) (e : ecls) : Prop :=
  g_err g' = Some e \/ (g' = g /\ e = ECompiled /\ g_compiled g = true).

Lemma fail_recorded : forall g e, recorded g (fst (fail g e)) e.
Proof. intros. left. destruct g; reflexivity. Qed.

Lemma g_add_node_records : forall g k nk a b c g' e,
  g_add_node g k nk a b c = (g', OErr e) -> recorded g g' e.
Proof.
  unfold g_add_node; intros g k nk a b c g' e H.
  destruct (g_err g) eqn:E. { inv H. left; assumption. }
  destruct (g_compiled g) eqn:C. { inv H. right; auto. }
  repeat (dih H; [unfold fail in H; inv H; left; reflexivity|]).
  discriminate H.
Qed.

Lemma g_add_edge_records : forall g s t fs g' e,
  g_add_edge g s t false false fs = (g', OErr e) -> recorded g g' e.
Proof.
  unfold g_add_edge; intros g s t fs g' e H.
  destruct (g_err g) eqn:E. { inv H. left; assumption. }
  destruct (g_compiled g) eqn:C. { inv H. right; auto. }
  simpl in H.
  repeat (dih H; [unfold fail in H; inv H; left; reflexivity|]).
  discriminate H.
Qed.

Lemma g_add_branch_records : forall g s ends sk g' e,
  g_add_branch g s ends sk = (g', OErr e) -> recorded g g' e.
Proof.
  unfold g_add_branch; intros g s ends sk g' e H.
  destruct (g_err g) eqn:E. { inv H. left; assumption. }
  destruct (g_compiled g) eqn:C. { inv H. right; auto. }
  repeat (dih H; [unfold fail in H; inv H; left; reflexivity|]).
  destruct (branch_ends _ _ _) as [g3 [er|]]; [|discriminate H].
  unfold fail in H; inv H; left; reflexivity.
Qed.

Definition is_add (c : gcall) : bool := match c with GCompile _ => false | _ => true end.

Lemma gstep_records : forall v g c g' e,
  is_add c = true -> gstep v g c = (g', OErr e) -> recorded g g' e.
Proof.
  intros v g c g' e A H; destruct c; simpl in *; try discriminate;
    eauto using g_add_node_records, g_add_edge_records, g_add_branch_records.
Qed.

(* the statement used in Props: once an Add* call of a Graph failed with a build error,
   every later call returns that same error and the builder no longer changes *)
Theorem graph_first_error_sticks : forall v g c g' e cs,
  is_add c = true -> gstep v g c = (g', OErr e) -> e <> ECompiled ->
  run_calls (gstep v) g' cs = (g', map (fun _ => OErr e) cs).
Proof.
  intros v g c g' e cs A H NE.
  destruct (gstep_records v g c g' e A H) as [R|[_ [R _]]]; [|contradiction].
  apply grun_sticky; assumption.
Qed.

(* ---- Chain: the deferred error [c_err] *)
Lemma c_report_keeps : forall c e e', c_err c = Some e -> c_report c e' = c.
Proof. intros c e e' H. unfold c_report. rewrite H. reflexivity. Qed.

Lemma c_report_some : forall c e, c_err (c_report c e) <> None.
Proof. intros c e. unfold c_report. destruct (c_err c) eqn:E; simpl; congruence. Qed.

Lemma c_report_g : forall c e, c_g (c_report c e) = c_g c.
Proof. intros c e. unfold c_report. destruct (c_err c); reflexivity. Qed.

Lemma c_report_err_mono : forall c e e0, c_err c = Some e0 -> c_err (c_report c e) = Some e0.
Proof. intros. rewrite (c_report_keeps c e0 e H). assumption. Qed.

Lemma c_append_err : forall c nk key ns e, c_err c = Some e -> c_append c nk key ns = c.
Proof. intros. unfold c_append. rewrite H. reflexivity. Qed.

Lemma c_parallel_err : forall c items e, c_err c = Some e -> c_err (c_parallel c items) = Some e.
Proof.
  intros c items e H. unfold c_parallel.
  repeat (dif; [apply c_report_err_mono; assumption|]).
  destruct (c_start_node c); [|apply c_report_err_mono; assumption].
  destruct (par_nodes _ _ _ _ _ _) as [[g' keys] [er|]]; [apply c_report_err_mono|]; simpl; assumption.
Qed.

Lemma c_branch_err : forall c items e, c_err c = Some e -> c_err (c_branch c items) = Some e.
Proof.
  intros c items e H. unfold c_branch.
  dif; [apply c_report_err_mono; assumption|].
  destruct items as [|i1 [|i2 rest]]; try (apply c_report_err_mono; assumption).
  destruct (c_start_node c); [|apply c_report_err_mono; assumption].
  destruct (br_nodes _ _ _ _) as [[g' keys] [er|]]; [apply c_report_err_mono; simpl; assumption|].
  destruct (g_add_branch _ _ _ _) as [g2 o]. destruct (err_of o); [apply c_report_err_mono|]; simpl; assumption.
Qed.

Lemma c_compile_err : forall c o e, c_err c = Some e -> c_compile fixed c o = (c, OErr e).
Proof. intros. unfold c_compile. simpl. rewrite H. reflexivity. Qed.

Lemma cstep_err : forall c call e,
  c_err c = Some e ->
  c_err (fst (cstep fixed c call)) = Some e /\
  (forall o, call = CCompile o -> cstep fixed c call = (c, OErr e)).
Proof.
  intros c call e H; destruct call; simpl; split; try (intros; discriminate).
  - rewrite (c_append_err _ _ _ _ _ H); assumption.
  - apply c_parallel_err; assumption.
  - apply c_branch_err; assumption.
  - rewrite (c_compile_err _ _ _ H); assumption.
  - intros o' E; inv E. apply c_compile_err; assumption.
Qed.

Definition c_is_compile (c : ccall) : bool := match c with CCompile _ => true | _ => false end.

(* every Compile of every later call sequence reports the deferred error *)
Theorem chain_first_error_sticks : forall c e cs,
  c_err c = Some e ->
  c_err (fst (run_calls (cstep fixed) c cs)) = Some e /\
  Forall2 (fun call o => c_is_compile call = true -> o = OErr e) cs (snd (run_calls (cstep fixed) c cs)).
Proof.
  intros c e cs; revert c; induction cs as [|call cs IH]; intros c H; simpl.
  - split; [assumption|constructor].
  - destruct (cstep fixed c call) as [c1 o] eqn:S.
    destruct (cstep_err c call e H) as [H1 H2]. rewrite S in H1; simpl in H1.
    destruct (IH c1 H1) as [I1 I2].
    destruct (run_calls (cstep fixed) c1 cs) as [c2 os]; simpl in *.
    split; [assumption|]. constructor; [|assumption].
    intros IC. destruct call; try discriminate. rewrite (H2 o0 eq_refl) in S. inv S. reflexivity.
Qed.

(* ---- Workflow: the swallowed Add* errors stay in the graph's buildError *)
Lemma wstep_err : forall w call e,
  g_err (w_g w) = Some e ->
  w_g (fst (wstep fixed w call)) = w_g w /\
  (forall o ord sord, call = WCompile o ord sord -> wstep fixed w call = (w, OErr e)).
Proof.
  intros w call e H; destruct call; simpl; unfold w_add_input; split; try (intros; discriminate).
  - rewrite (g_add_node_sticky _ _ _ _ _ _ _ H). reflexivity.
  - destruct (alist_get _ _); reflexivity.
  - reflexivity.
  - destruct (alist_get _ _); reflexivity.
  - destruct (alist_get _ _); reflexivity.
  - unfold w_compile. rewrite H. reflexivity.
  - intros o' ord' sord' E; inv E. unfold w_compile. rewrite H. reflexivity.
Qed.

Definition w_is_compile (c : wcall) : bool := match c with WCompile _ _ _ => true | _ => false end.

Theorem workflow_first_error_sticks : forall w e cs,
  g_err (w_g w) = Some e ->
  w_g (fst (run_calls (wstep fixed) w cs)) = w_g w /\
  Forall2 (fun call o => w_is_compile call = true -> o = OErr e) cs (snd (run_calls (wstep fixed) w cs)).
Proof.
  intros w e cs; revert w; induction cs as [|call cs IH]; intros w H; simpl.
  - split; [reflexivity|constructor].
  - destruct (wstep fixed w call) as [w1 o] eqn:S.
    destruct (wstep_err w call e H) as [H1 H2]. rewrite S in H1; simpl in H1.
    assert (H1' : g_err (w_g w1) = Some e) by (rewrite H1; assumption).
    destruct (IH w1 H1') as [I1 I2].
    destruct (run_calls (wstep fixed) w1 cs) as [w2 os]; simpl in *.
    split; [congruence|]. constructor; [|assumption].
    intros IC. destruct call; try discriminate. rewrite (H2 o0 ord sord eq_refl) in S. inv S. reflexivity.
Qed.

(* ================================================================== B. frozen builders *)
(* a graph-level state that no Add* call can change any more *)
Definition frozen (g : gstate) : Prop := g_compiled g = true \/ g_err g <> None.

Lemma frozen_add_node : forall g k nk a b c, frozen g -> fst (g_add_node g k nk a b c) = g.
Proof.
  intros g k nk a b c [C|E]; unfold g_add_node; destruct (g_err g); try congruence; try reflexivity.
  rewrite C. reflexivity.
Qed.

Lemma frozen_add_edge : forall g s t a b fs, frozen g -> fst (g_add_edge g s t a b fs) = g.
Proof.
  intros g s t a b fs [C|E]; unfold g_add_edge; destruct (g_err g); try congruence; try reflexivity.
  rewrite C. reflexivity.
Qed.

Lemma frozen_add_branch : forall g s ends sk, frozen g -> fst (g_add_branch g s ends sk) = g.
Proof.
  intros g s ends sk [C|E]; unfold g_add_branch; destruct (g_err g); try congruence; try reflexivity.
  rewrite C. reflexivity.
Qed.

Lemma frozen_add_node_err : forall g k nk a b c, frozen g -> err_of (snd (g_add_node g k nk a b c)) <> None.
Proof.
  intros g k nk a b c [C|E]; unfold g_add_node; destruct (g_err g); simpl; try congruence.
  rewrite C. simpl. congruence.
Qed.

Lemma frozen_add_edge_err : forall g s t a b fs, frozen g -> err_of (snd (g_add_edge g s t a b fs)) <> None.
Proof.
  intros g s t a b fs [C|E]; unfold g_add_edge; destruct (g_err g); simpl; try congruence.
  rewrite C. simpl. congruence.
Qed.

(* in the repaired version compile changes nothing but the compiled flag *)
Lemma g_compile_fixed_state : forall g o,
  fst (g_compile fixed g o) = g \/ fst (g_compile fixed g o) = set_compiled true g.
Proof.
  intros g o. unfold g_compile. destruct (g_err g); [left; reflexivity|]. simpl.
  repeat (dif; [left; reflexivity|]). right. reflexivity.
Qed.

Lemma compiled_compile : forall g o, g_compiled g = true -> fst (g_compile fixed g o) = g.
Proof.
  intros g o C. destruct (g_compile_fixed_state g o) as [H|H]; rewrite H; [reflexivity|].
  apply set_compiled_id; assumption.
Qed.

Lemma g_compile_ok_compiled : forall v g o g' r,
  g_compile v g o = (g', OCompiled r) -> g_compiled g' = true.
Proof.
  intros v g o g' r. unfold g_compile. destruct (g_err g); [discriminate|].
  repeat (dif; [discriminate|]). intros H; inv H. reflexivity.
Qed.

(* Graph: after a successful Compile no call changes the builder, every Add* is refused *)
Lemma compiled_gstep : forall g c, g_compiled g = true -> fst (gstep fixed g c) = g.
Proof.
  intros g [] C; simpl.
  - apply frozen_add_node; left; assumption.
  - apply frozen_add_edge; left; assumption.
  - apply frozen_add_branch; left; assumption.
  - apply compiled_compile; assumption.
Qed.

Lemma compiled_add_refused : forall g c,
  g_compiled g = true -> g_err g = None -> is_add c = true -> gstep fixed g c = (g, OErr ECompiled).
Proof.
  intros g [] C E A; simpl in *; try discriminate.
  - unfold g_add_node. rewrite E, C. reflexivity.
  - unfold g_add_edge. rewrite E, C. reflexivity.
  - unfold g_add_branch. rewrite E, C. reflexivity.
Qed.

Lemma compiled_grun : forall g cs, g_compiled g = true -> final (gstep fixed) g cs = g.
Proof.
  unfold final. intros g cs; revert g; induction cs as [|c cs IH]; intros g C; simpl; [reflexivity|].
  pose proof (compiled_gstep g c C) as S. destruct (gstep fixed g c) as [g1 o]; simpl in S; subst g1.
  specialize (IH g C). destruct (run_calls (gstep fixed) g cs); simpl in *; assumption.
Qed.

(* Chain *)
Lemma frozen_add_edges_from : forall pres g k, frozen g -> fst (add_edges_from g pres k) = g.
Proof.
  induction pres as [|p rest IH]; intros g k F; simpl; [reflexivity|].
  pose proof (frozen_add_edge g p k false false [] F) as E1.
  pose proof (frozen_add_edge_err g p k false false [] F) as E2.
  destruct (g_add_edge g p k false false []) as [g' o]; simpl in *; subst g'.
  destruct (err_of o); [reflexivity|congruence].
Qed.

Lemma frozen_par_nodes : forall items g start pref i acc, frozen g ->
  fst (fst (par_nodes g start pref i items acc)) = g.
Proof.
  destruct items as [|[[ok nk] key] rest]; intros g start pref i acc F; simpl; [reflexivity|].
  pose proof (frozen_add_node g (match key with Some k => k | None => pref +++ "_parallel_" +++ nat_str i end) nk false false true F) as E1.
  pose proof (frozen_add_node_err g (match key with Some k => k | None => pref +++ "_parallel_" +++ nat_str i end) nk false false true F) as E2.
  destruct (g_add_node g _ nk false false true) as [g1 o1]; simpl in *; subst g1.
  destruct (err_of o1); [reflexivity|congruence].
Qed.

Lemma frozen_br_nodes : forall items g pref acc, frozen g ->
  fst (fst (br_nodes g pref items acc)) = g.
Proof.
  destruct items as [|[[bk nk] key] rest]; intros g pref acc F; simpl; [reflexivity|].
  pose proof (frozen_add_node g (match key with Some k => k | None => pref +++ "_branch_" +++ bk end) nk false false false F) as E1.
  pose proof (frozen_add_node_err g (match key with Some k => k | None => pref +++ "_branch_" +++ bk end) nk false false false F) as E2.
  destruct (g_add_node g _ nk false false false) as [g1 o1]; simpl in *; subst g1.
  destruct (err_of o1); [reflexivity|congruence].
Qed.

Lemma frozen_c_append : forall c nk key ns, frozen (c_g c) -> c_g (c_append c nk key ns) = c_g c.
Proof.
  intros c nk key ns F. unfold c_append. destruct (c_err c); [reflexivity|].
  dif; [apply c_report_g|].
  pose proof (frozen_add_node (c_g (c_bump c)) (match key with Some k => k | None => "node_" +++ nat_str (c_idx c) end)
                nk ns (is_some key) false F) as E1.
  pose proof (frozen_add_node_err (c_g (c_bump c)) (match key with Some k => k | None => "node_" +++ nat_str (c_idx c) end)
                nk ns (is_some key) false F) as E2.
  destruct (g_add_node (c_g (c_bump c)) _ nk ns (is_some key) false) as [g1 o]; simpl in *; subst g1.
  destruct (err_of o); [rewrite c_report_g; reflexivity|congruence].
Qed.

Lemma frozen_c_parallel : forall c items, frozen (c_g c) -> c_g (c_parallel c items) = c_g c.
Proof.
  intros c items F. unfold c_parallel.
  repeat (dif; [apply c_report_g|]).
  destruct (c_start_node c); [|apply c_report_g].
  pose proof (frozen_par_nodes items (c_g (c_bump c)) s ("node_" +++ nat_str (c_idx c)) 0%N [] F) as E.
  destruct (par_nodes _ _ _ _ _ _) as [[g' keys] [er|]]; simpl in *; subst g'; [rewrite c_report_g|]; reflexivity.
Qed.

Lemma frozen_c_branch : forall c items, frozen (c_g c) -> c_g (c_branch c items) = c_g c.
Proof.
  intros c items F. unfold c_branch.
  dif; [apply c_report_g|].
  destruct items as [|i1 [|i2 rest]]; try apply c_report_g.
  destruct (c_start_node c); [|apply c_report_g].
  pose proof (frozen_br_nodes (i1 :: i2 :: rest) (c_g (c_bump c)) ("node_" +++ nat_str (c_idx c)) [] F) as E.
  destruct (br_nodes _ _ _ _) as [[g' keys] [er|]]; simpl in *; subst g'; [rewrite c_report_g; reflexivity|].
  pose proof (frozen_add_branch (c_g c) s keys false F) as E1.
  destruct (g_add_branch (c_g c) s keys false) as [g2 o]; simpl in *; subst g2.
  destruct (err_of o); [rewrite c_report_g|]; reflexivity.
Qed.

Lemma compiled_c_compile : forall c o, g_compiled (c_g c) = true -> c_g (fst (c_compile fixed c o)) = c_g c.
Proof.
  intros c o C. unfold c_compile. simpl.
  destruct (c_err c); [reflexivity|].
  destruct (c_has_end c).
  - pose proof (compiled_compile (c_g c) o C) as E.
    destruct (g_compile fixed (c_g c) o) as [g' out]; simpl in *; subst; reflexivity.
  - destruct (is_nil (c_pre c)); [reflexivity|].
    assert (K : forall ps g, g = c_g c ->
      c_g (fst (let (c', o0) := (fix ends (g : gstate) (ps : list string) {struct ps} : cstate * option ecls :=
           match ps with
           | [] => (c_set_has_end true (c_set_g g c), None)
           | p :: rest =>
             let '(g', oo) := g_add_edge g p END_ false false [] in
             match err_of oo with Some e => (c_set_g g' c, Some e) | None => ends g' rest end
           end) g ps in
         match o0 with
         | Some e => (c', OErr e)
         | None => let '(g', out) := g_compile fixed (c_g c') o in (c_set_g g' c', out)
         end)) = c_g c).
    { destruct ps as [|p rest]; intros g EG; subst g.
      - pose proof (compiled_compile (c_g c) o C) as E. simpl.
        destruct (g_compile fixed (c_g c) o) as [g' out]; simpl in *; subst; reflexivity.
      - pose proof (frozen_add_edge (c_g c) p END_ false false [] (or_introl C)) as E1.
        pose proof (frozen_add_edge_err (c_g c) p END_ false false [] (or_introl C)) as E2.
        destruct (g_add_edge (c_g c) p END_ false false []) as [g' oo]; simpl in *; subst g'.
        destruct (err_of oo); [reflexivity|congruence]. }
    apply K; reflexivity.
Qed.

Lemma compiled_cstep : forall c call,
  g_compiled (c_g c) = true -> c_g (fst (cstep fixed c call)) = c_g c.
Proof.
  intros c [] C; simpl.
  - apply frozen_c_append; left; assumption.
  - apply frozen_c_parallel; left; assumption.
  - apply frozen_c_branch; left; assumption.
  - apply compiled_c_compile; assumption.
Qed.

Lemma compiled_crun : forall cs c,
  g_compiled (c_g c) = true -> c_g (final (cstep fixed) c cs) = c_g c.
Proof.
  unfold final. induction cs as [|call cs IH]; intros c C; simpl; [reflexivity|].
  pose proof (compiled_cstep c call C) as S. destruct (cstep fixed c call) as [c1 o]; simpl in S.
  assert (C1 : g_compiled (c_g c1) = true) by (rewrite S; assumption).
  specialize (IH c1 C1). destruct (run_calls (cstep fixed) c1 cs); simpl in *; congruence.
Qed.

(* an Append* after the Compile is answered by the next Compile (the F-C20d repair) *)
Lemma compiled_append_reported : forall c nk key ns,
  g_compiled (c_g c) = true -> c_err (c_append c nk key ns) <> None.
Proof.
  intros c nk key ns C. unfold c_append. destruct (c_err c) eqn:E; [congruence|].
  rewrite C. apply c_report_some.
Qed.

(* Workflow: everything except the build error is frozen *)
Definition core (g : gstate) : gstate := set_err None g.

Lemma frozen_run_inputs : forall is g k m, g_compiled g = true -> g_err g = None ->
  fst (fst (run_inputs g k m is)) = g.
Proof.
  induction is as [|i rest IH]; intros g k m C E; simpl; [reflexivity|].
  assert (F : frozen g) by (left; assumption).
  unfold run_input. destruct (wi_kind i).
  - destruct (check_mapped m (wi_fields i)) as [m' [er|]]; [reflexivity|].
    pose proof (frozen_add_edge g (wi_from i) k false false (wi_fields i) F) as E1.
    pose proof (frozen_add_edge_err g (wi_from i) k false false (wi_fields i) F) as E2.
    destruct (g_add_edge g (wi_from i) k false false (wi_fields i)) as [g' o]; simpl in *; subst g'.
    destruct (err_of o); [reflexivity|congruence].
  - destruct (check_mapped m (wi_fields i)) as [m' [er|]]; [reflexivity|].
    pose proof (frozen_add_edge g (wi_from i) k true false (wi_fields i) F) as E1.
    pose proof (frozen_add_edge_err g (wi_from i) k true false (wi_fields i) F) as E2.
    destruct (g_add_edge g (wi_from i) k true false (wi_fields i)) as [g' o]; simpl in *; subst g'.
    destruct (err_of o); [reflexivity|congruence].
  - pose proof (frozen_add_edge g (wi_from i) k false true [] F) as E1.
    pose proof (frozen_add_edge_err g (wi_from i) k false true [] F) as E2.
    destruct (g_add_edge g (wi_from i) k false true []) as [g' o]; simpl in *; subst g'.
    destruct (err_of o); [reflexivity|congruence].
Qed.

Lemma frozen_run_nodes : forall order w, g_compiled (w_g w) = true -> g_err (w_g w) = None ->
  w_g (fst (run_nodes w order)) = w_g w.
Proof.
  induction order as [|k rest IH]; intros w C E; simpl; [reflexivity|].
  destruct (alist_get k (w_nodes w)) as [n|]; [|apply IH; assumption].
  pose proof (frozen_run_inputs (wn_pending n) (w_g w) k (wn_mapped n) C E) as R.
  destruct (run_inputs (w_g w) k (wn_mapped n) (wn_pending n)) as [[g' m'] [er|]]; simpl in *; subst g'.
  - reflexivity.
  - rewrite IH; simpl; auto.
Qed.

Lemma core_set_err : forall g e, core (set_err e g) = core g.
Proof. intros [] e; reflexivity. Qed.

Lemma frozen_run_branches : forall bs w, g_compiled (w_g w) = true ->
  core (w_g (fst (run_branches fixed w bs))) = core (w_g w) /\
  g_compiled (w_g (fst (run_branches fixed w bs))) = true /\
  (snd (run_branches fixed w bs) = None -> w_g (fst (run_branches fixed w bs)) = w_g w).
Proof.
  induction bs as [|[from ends] rest IH]; intros w C; simpl; [auto|].
  dif.
  - simpl. rewrite core_set_err. split; [reflexivity|]. split; [assumption|discriminate].
  - pose proof (frozen_add_branch (w_g w) from ends true (or_introl C)) as E1.
    destruct (g_add_branch (w_g w) from ends true) as [g' o]; simpl in E1; subst g'.
    replace (w_set_g (w_g w) w) with w by (destruct w; reflexivity).
    apply IH; assumption.
Qed.

Lemma compiled_core : forall g, g_compiled (core g) = g_compiled g.
Proof. intros []; reflexivity. Qed.

(* in a compiled workflow the static values stage changes nothing: a node with waiting
   static values makes it fail at once, the others are skipped *)
Lemma compiled_run_statics : forall order w, g_compiled (w_g w) = true ->
  fst (run_statics fixed w order) = w.
Proof.
  induction order as [|k rest IH]; intros w C; simpl; [reflexivity|].
  destruct (alist_get k (w_nodes w)) as [n|]; [|apply IH; assumption].
  destruct (wn_static n); [apply IH; assumption|]. rewrite C. reflexivity.
Qed.

Lemma compiled_w_compile : forall w o ord sord, g_compiled (w_g w) = true ->
  core (w_g (fst (w_compile fixed w o ord sord))) = core (w_g w) /\
  g_compiled (w_g (fst (w_compile fixed w o ord sord))) = true.
Proof.
  intros w o ord sord C. unfold w_compile. destruct (g_err (w_g w)) eqn:E; [auto|].
  destruct (frozen_run_branches (w_branches w) w C) as [B1 [B2 B3]].
  destruct (run_branches fixed w (w_branches w)) as [w1 [out|]]; simpl in *; [auto|].
  specialize (B3 eq_refl).
  assert (C1 : g_compiled (w_g w1) = true) by (rewrite B3; assumption).
  assert (E1 : g_err (w_g w1) = None) by (rewrite B3; assumption).
  pose proof (frozen_run_nodes (ord ++ map fst (w_nodes w1)) w1 C1 E1) as R.
  destruct (run_nodes w1 (ord ++ map fst (w_nodes w1))) as [w2 [er|]]; simpl in *.
  - rewrite R, B3. auto.
  - assert (C2 : g_compiled (w_g w2) = true) by (rewrite R; assumption).
    pose proof (compiled_run_statics (sord ++ map fst (w_nodes w2)) w2 C2) as S.
    destruct (run_statics fixed w2 (sord ++ map fst (w_nodes w2))) as [w3 [er|]]; simpl in S; subst w3; simpl.
    + rewrite R, B3. auto.
    + pose proof (compiled_compile (w_g w2) o C2) as K.
      destruct (g_compile fixed (w_g w2) o) as [g' out]; simpl in *; subst g'.
      rewrite R, B3. auto.
Qed.

Lemma compiled_wstep : forall w call, g_compiled (w_g w) = true ->
  core (w_g (fst (wstep fixed w call))) = core (w_g w) /\
  g_compiled (w_g (fst (wstep fixed w call))) = true.
Proof.
  intros w [] C; simpl; unfold w_add_input.
  - pose proof (frozen_add_node (w_g w) k nk need_state false false (or_introl C)) as E.
    destruct (g_add_node (w_g w) k nk need_state false false) as [g' o]; simpl in *; subst g'. auto.
  - destruct (alist_get _ _); simpl; auto.
  - auto.
  - destruct (alist_get _ _); simpl; auto.
  - destruct (alist_get _ _); simpl; auto.
  - apply compiled_w_compile; assumption.
Qed.

Lemma compiled_wrun : forall cs w, g_compiled (w_g w) = true ->
  core (w_g (final (wstep fixed) w cs)) = core (w_g w).
Proof.
  unfold final. induction cs as [|call cs IH]; intros w C; simpl; [reflexivity|].
  destruct (compiled_wstep w call C) as [S1 S2]. destruct (wstep fixed w call) as [w1 o]; simpl in *.
  specialize (IH w1 S2). destruct (run_calls (wstep fixed) w1 cs); simpl in *; congruence.
Qed.

(* ================================================================== C. runners unaffected *)
Lemma view_core : forall g g' r, core g' = core g -> runner_view g' r = runner_view g r.
Proof.
  intros g g' r H. unfold runner_view.
  pose proof (f_equal g_h_prenode H) as H1. pose proof (f_equal g_h_edges H) as H2.
  pose proof (f_equal g_h_prebranch H) as H3. pose proof (f_equal g_branches H) as H4.
  destruct g, g'; simpl in *; subst. reflexivity.
Qed.

Theorem graph_runner_unaffected : forall g o g1 r cs,
  gstep fixed g (GCompile o) = (g1, OCompiled r) ->
  runner_view (final (gstep fixed) g1 cs) r = runner_view g1 r.
Proof.
  intros g o g1 r cs H. simpl in H. rewrite compiled_grun; [reflexivity|].
  eapply g_compile_ok_compiled; eassumption.
Qed.

Lemma c_compile_ok_compiled : forall v c o c1 r,
  c_compile v c o = (c1, OCompiled r) -> g_compiled (c_g c1) = true.
Proof.
  intros v c o c1 r. unfold c_compile.
  match goal with |- (let (c', o0) := ?X in _) = _ -> _ => destruct X as [c' [e|]] end; [discriminate|].
  destruct (g_compile v (c_g c') o) as [g' out] eqn:G. intros H; inv H. simpl.
  eapply g_compile_ok_compiled; eassumption.
Qed.

Theorem chain_runner_unaffected : forall c o c1 r cs,
  cstep fixed c (CCompile o) = (c1, OCompiled r) ->
  runner_view (c_g (final (cstep fixed) c1 cs)) r = runner_view (c_g c1) r.
Proof.
  intros c o c1 r cs H. simpl in H. rewrite compiled_crun; [reflexivity|].
  eapply c_compile_ok_compiled; eassumption.
Qed.

Lemma run_branches_not_runner : forall v bs w wa r,
  run_branches v w bs = (wa, Some (OCompiled r)) -> False.
Proof.
  induction bs as [|[from ends] rest IH]; intros w wa r; simpl; [discriminate|].
  dif; [dif; discriminate|]. destruct (g_add_branch (w_g w) from ends true). apply IH.
Qed.

Lemma w_compile_ok_compiled : forall v w o ord sord w1 r,
  w_compile v w o ord sord = (w1, OCompiled r) -> g_compiled (w_g w1) = true.
Proof.
  intros v w o ord sord w1 r. unfold w_compile. destruct (g_err (w_g w)); [discriminate|].
  destruct (run_branches v w (w_branches w)) as [wa [out|]] eqn:B.
  - intros H; inv H. exfalso. eapply run_branches_not_runner; eassumption.
  - destruct (run_nodes wa _) as [wb [er|]]; [discriminate|].
    destruct (run_statics v wb _) as [wc [er|]]; [discriminate|].
    destruct (g_compile v (w_g wc) o) as [g' out] eqn:G. intros H; inv H. simpl.
    eapply g_compile_ok_compiled; eassumption.
Qed.

Theorem workflow_runner_unaffected : forall w o ord sord w1 r cs,
  wstep fixed w (WCompile o ord sord) = (w1, OCompiled r) ->
  runner_view (w_g (final (wstep fixed) w1 cs)) r = runner_view (w_g w1) r.
Proof.
  intros w o ord sord w1 r cs H. simpl in H. apply view_core. apply compiled_wrun.
  eapply w_compile_ok_compiled; eassumption.
Qed.
