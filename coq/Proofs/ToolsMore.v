(* Proofs/ToolsMore.v — further lemmas about Model/Tools.v (property C17): failures of the
   streamed form (at call time and as error items of the merged stream), rejection of the
   message, "every call runs exactly once", call options. *)
From Coq Require Import Permutation.
From Eino Require Import Base.Util Model.Tools Proofs.Tools.
Local Open Scope string_scope.

Section StreamFailure.
  Variable kind_of : string -> option tkind.
  Variable inv : string -> string -> tres.
  Variable str : string -> string -> sres.
  Variable handler : option (string -> string -> tres).

  Notation gen_task := (gen_task kind_of handler).
  Notation gen_tasks := (gen_tasks kind_of handler).
  Notation exec_stream := (exec_stream inv str).
  Notation answer := (answer kind_of inv str handler).
  Notation s_answer := (s_answer kind_of inv str handler).
  Notation tools_invoke := (tools_invoke kind_of inv str handler).
  Notation tools_stream_open := (tools_stream_open kind_of inv str handler).
  Notation scan_stream := (scan_stream inv str).

  Lemma recover_s_ok : forall i cs tl, recover_s i (SOk cs tl) = SOk cs tl.
  Proof. destruct i; reflexivity. Qed.

  Lemma scan_stream_first_failure : forall pre t post i,
    Forall (fun t => exists cs tl, exec_stream t = SOk cs tl) pre ->
    (forall cs tl, exec_stream t <> SOk cs tl) ->
    scan_stream i ((pre ++ t :: post)%list) =
    match recover_s (i + List.length pre) (exec_stream t) with
    | SErr e => Err e
    | _ => Panic
    end.
  Proof.
    induction pre as [|p pre IH]; intros t post i Hpre Ht; simpl.
    - rewrite Nat.add_0_r. destruct (exec_stream t) as [cs tl|e|] eqn:E.
      + exfalso. eapply Ht; eauto.
      + destruct i; reflexivity.
      + destruct i; reflexivity.
    - inversion Hpre as [|? ? [cs [tl Hp]] Hrest]; subst.
      rewrite Hp, recover_s_ok. rewrite (IH t post (S i) Hrest Ht).
      replace (S i + List.length pre) with (i + S (List.length pre)) by (rewrite Nat.add_succ_r; reflexivity).
      destruct (recover_s (i + S (List.length pre)) (exec_stream t)); reflexivity.
  Qed.

  Lemma s_resolves_tasks : forall calls,
    (forall c, In c calls -> exists r, s_answer c = Ok r) ->
    exists tasks, Forall2 (fun c t => gen_task c = Ok t) calls tasks.
  Proof.
    induction calls; intros H.
    - exists []. constructor.
    - destruct IHcalls as [ts A]. { intros c Hc. apply H. right; auto. }
      destruct (H a (or_introl eq_refl)) as [r Hr]. unfold Proofs.Tools.s_answer in Hr.
      destruct (gen_task a) as [t| |] eqn:Et; simpl in Hr; try discriminate.
      exists (t :: ts). constructor; auto.
  Qed.

  Lemma s_pre_ok_tasks : forall pre tpre,
    Forall2 (fun c t => gen_task c = Ok t) pre tpre ->
    Forall (fun c => exists cs tl, s_answer c = Ok (SOk cs tl)) pre ->
    Forall (fun t => exists cs tl, exec_stream t = SOk cs tl) tpre.
  Proof.
    intros pre tpre A. induction A; intros B; inversion B; subst; constructor; auto.
    destruct H2 as [cs [tl H2]]. unfold Proofs.Tools.s_answer in H2. rewrite H in H2. simpl in H2.
    exists cs, tl. congruence.
  Qed.

  (* C17, failures, streamed form: a call that fails when its tool is called (every earlier
     call opened its stream) makes Stream fail with that tool's error, for every completion
     order; panics as in Invoke *)
  Theorem stream_first_failure : forall pi calls pre c post r,
    Permutation pi (seq 0 (List.length calls)) ->
    calls = (pre ++ c :: post)%list ->
    (forall c', In c' calls -> exists r', s_answer c' = Ok r') ->
    Forall (fun c => exists cs tl, s_answer c = Ok (SOk cs tl)) pre ->
    s_answer c = Ok r ->
    (forall cs tl, r <> SOk cs tl) ->
    tools_stream_open pi true calls =
    match r with
    | SErr e => Err e
    | _ => match pre with [] => Panic | _ => Err E_PANIC end
    end.
  Proof.
    intros pi calls pre c post r P E Hres Hpre Hc Hr.
    rewrite tools_stream_any_order by (apply perm_covers; auto).
    destruct (s_resolves_tasks _ Hres) as [tasks A].
    assert (Hne : calls <> []) by (subst; destruct pre; discriminate).
    rewrite (gen_tasks_ok _ _ _ _ Hne A). simpl.
    destruct (forall2_app_inv _ _ _ _ _ _ _ E A) as [tpre [t [tpost [Et [Apre [At Hl]]]]]].
    subst tasks.
    assert (Hex : exec_stream t = r).
    { unfold Proofs.Tools.s_answer in Hc. rewrite At in Hc. simpl in Hc. congruence. }
    rewrite (scan_stream_first_failure tpre t tpost 0 (s_pre_ok_tasks _ _ Apre Hpre))
      by (rewrite Hex; exact Hr).
    simpl. rewrite Hl, Hex. destruct r.
    - exfalso. eapply Hr; eauto.
    - destruct (List.length pre); reflexivity.
    - destruct pre; simpl; reflexivity.
  Qed.

  (* what Stream opens when no call fails at call time: one stream per call, in call order,
     tagged with the call's id, carrying that tool's chunks and error item *)
  Definition opened (calls : list call) (sts : list (list string * option N)) : list tstream :=
    map (fun p => (c_id (fst p), fst (snd p), snd (snd p))) (combine calls sts).

  Lemma scan_stream_all_open : forall tasks sts i,
    Forall2 (fun t s => exec_stream t = SOk (fst s) (snd s)) tasks sts ->
    scan_stream i tasks =
    Ok (map (fun p => (c_id (task_call (fst p)), fst (snd p), snd (snd p))) (combine tasks sts)).
  Proof.
    induction tasks; intros sts i H; inversion H; subst; simpl; auto.
    rewrite H2, recover_s_ok. rewrite (IHtasks _ (S i) H4). reflexivity.
  Qed.

  Theorem stream_open_spec : forall pi calls sts,
    calls <> [] ->
    Permutation pi (seq 0 (List.length calls)) ->
    Forall2 (fun c s => s_answer c = Ok (SOk (fst s) (snd s))) calls sts ->
    tools_stream_open pi true calls = Ok (opened calls sts)
    /\ stream_srcs (opened calls sts) = sts
    /\ stream_ids (opened calls sts) = map c_id calls.
  Proof.
    intros pi calls sts Hne P H.
    assert (exists tasks, Forall2 (fun c t => gen_task c = Ok t) calls tasks
                          /\ Forall2 (fun t s => exec_stream t = SOk (fst s) (snd s)) tasks sts) as [tasks [A B]].
    { clear Hne P. induction H.
      - exists []. split; constructor.
      - destruct IHForall2 as [ts [A B]]. unfold Proofs.Tools.s_answer in H.
        destruct (gen_task x) as [t| |] eqn:Et; simpl in H; try discriminate.
        exists (t :: ts). split; constructor; auto. congruence. }
    split; [|split].
    - rewrite tools_stream_any_order by (apply perm_covers; auto).
      rewrite (gen_tasks_ok _ _ _ _ Hne A). simpl.
      rewrite (scan_stream_all_open _ _ 0 B).
      assert (E : forall sts', map (fun p : task * (list string * option N) => (c_id (task_call (fst p)), fst (snd p), snd (snd p))) (combine tasks sts')
                  = opened calls sts').
      { clear - A. unfold opened. induction A; intros sts'; simpl; auto.
        destruct sts'; simpl; auto. rewrite (gen_task_call _ _ _ _ H). f_equal. apply IHA. }
      rewrite E. reflexivity.
    - unfold stream_srcs, opened. clear - H. induction H; simpl; auto.
      f_equal; auto. destruct y; reflexivity.
    - unfold stream_ids, opened. clear - H. induction H; simpl; auto. f_equal; auto.
  Qed.

  (* rejection before anything runs *)
  Theorem reject_role : forall pi calls,
    tools_invoke pi false calls = Err E_ROLE
    /\ tools_stream_open pi false calls = Err E_ROLE
    /\ tools_executed kind_of handler false calls = [].
  Proof. intros. repeat split. Qed.

  Theorem reject_nocall : forall pi role_ok,
    (exists e, tools_invoke pi role_ok [] = Err e)
    /\ (exists e, tools_stream_open pi role_ok [] = Err e)
    /\ tools_executed kind_of handler role_ok [] = [].
  Proof. intros. destruct role_ok; repeat split; eexists; reflexivity. Qed.

  (* every call runs exactly once, whatever fails afterwards: the executed calls are the
     call list itself as soon as every name resolves *)
  Theorem executed_once : forall calls,
    calls <> [] ->
    (forall c, In c calls -> kind_of (c_name c) <> None \/ handler <> None) ->
    tools_executed kind_of handler true calls = calls.
  Proof.
    intros calls Hne H.
    assert (exists tasks, Forall2 (fun c t => gen_task c = Ok t) calls tasks) as [tasks A].
    { clear Hne. induction calls.
      - exists []. constructor.
      - destruct IHcalls as [ts A]. { intros c Hc. apply H. right; auto. }
        assert (exists t, gen_task a = Ok t) as [t Ht].
        { unfold Tools.gen_task. destruct (H a (or_introl eq_refl)) as [Hk|Hh].
          - destruct (kind_of (c_name a)); [eexists; reflexivity|congruence].
          - destruct (kind_of (c_name a)); [eexists; reflexivity|].
            destruct handler; [eexists; reflexivity|congruence]. }
        exists (t :: ts). constructor; auto. }
    eapply executed_all. apply gen_tasks_ok; eauto.
  Qed.
End StreamFailure.

(* ---- the merged stream with error items ------------------------------------------------ *)
Definition list_prefix {A} (a b : list A) : Prop := exists r, b = (a ++ r)%list.

Lemma nth_error_set_nth_same : forall A i (a : A) l s,
  nth_error l i = Some s -> nth_error (set_nth i a l) i = Some a.
Proof.
  intros. rewrite nth_error_set_nth. rewrite Nat.eqb_refl.
  assert (i < List.length l) by (apply nth_error_Some; congruence).
  replace (Nat.ltb i (List.length l)) with true by (symmetry; apply Nat.ltb_lt; auto).
  reflexivity.
Qed.

Lemma nth_error_set_nth_other : forall A i (a : A) l j,
  i <> j -> nth_error (set_nth i a l) j = nth_error l j.
Proof.
  intros. rewrite nth_error_set_nth.
  replace (Nat.eqb i j) with false by (symmetry; apply Nat.eqb_neq; auto). reflexivity.
Qed.

(* whatever the schedule, what has been delivered for position j is an in-order prefix of
   tool j's chunks *)
Theorem merge_prefix : forall sched srcs j,
  list_prefix (proj j (fst (merge_run sched srcs))) (chunks_at j srcs).
Proof.
  induction sched as [|i sched IH]; intros srcs j; simpl.
  - exists (chunks_at j srcs). reflexivity.
  - destruct (nth_error srcs i) as [[[|c rest] tl]|] eqn:Ei.
    + destruct tl as [e|]; [|apply IH]. exists (chunks_at j srcs). reflexivity.
    + specialize (IH (set_nth i (rest, tl) srcs) j).
      destruct (merge_run sched (set_nth i (rest, tl) srcs)) as [em fin] eqn:Em. simpl in *.
      rewrite proj_cons. rewrite (chunks_at_set_nth _ _ _ _ _ _ Ei) in IH.
      destruct (Nat.eqb i j) eqn:Eij.
      * apply Nat.eqb_eq in Eij. subst j. destruct IH as [r Hr].
        exists r. unfold chunks_at. rewrite Ei. simpl. rewrite Hr. reflexivity.
      * exact IH.
    + apply IH.
Qed.

(* if the merged stream ends with an error item, it is the error item of some tool's stream,
   delivered after all of that tool's chunks *)
Theorem merge_error_item : forall sched srcs e,
  snd (merge_run sched srcs) = Some e ->
  exists i cs, nth_error srcs i = Some (cs, Some e) /\ proj i (fst (merge_run sched srcs)) = cs.
Proof.
  induction sched as [|i sched IH]; intros srcs e; simpl.
  - discriminate.
  - destruct (nth_error srcs i) as [[[|c rest] tl]|] eqn:Ei.
    + destruct tl as [e0|]; [|apply IH].
      simpl. intros H. inversion H; subst. exists i, []. split; auto.
    + specialize (IH (set_nth i (rest, tl) srcs) e).
      destruct (merge_run sched (set_nth i (rest, tl) srcs)) as [em fin] eqn:Em. simpl in *.
      intros H. destruct (IH H) as [i' [cs [Hn Hp]]].
      destruct (Nat.eq_dec i i') as [<-|Hne].
      * rewrite (nth_error_set_nth_same _ _ _ _ _ Ei) in Hn.
        assert (rest = cs /\ tl = Some e) as [-> ->] by (inversion Hn; auto).
        exists i, (c :: cs). split; auto. rewrite proj_cons, Nat.eqb_refl. rewrite Hp. reflexivity.
      * rewrite nth_error_set_nth_other in Hn by auto.
        exists i', cs. split; auto. rewrite proj_cons.
        replace (Nat.eqb i i') with false by (symmetry; apply Nat.eqb_neq; auto). exact Hp.
    + apply IH.
Qed.

(* a tool stream that carries an error item keeps the merged stream from ending normally:
   it ends with an error item or has not ended *)
Lemma merge_rest_tail : forall sched srcs i cs e,
  nth_error srcs i = Some (cs, Some e) ->
  exists cs', nth_error (merge_rest sched srcs) i = Some (cs', Some e).
Proof.
  induction sched as [|k sched IH]; intros srcs i cs e Hi; simpl.
  - eauto.
  - destruct (nth_error srcs k) as [[[|c rest] tl]|] eqn:Ek.
    + destruct tl; eauto.
    + destruct (Nat.eq_dec k i) as [->|Hne].
      * rewrite Hi in Ek. inversion Ek; subst.
        eapply IH. eapply nth_error_set_nth_same; eauto.
      * eapply IH. rewrite nth_error_set_nth_other by auto. eauto.
    + eauto.
Qed.

Theorem merge_no_eof_with_error_item : forall sched srcs i cs e,
  nth_error srcs i = Some (cs, Some e) ->
  drained (merge_rest sched srcs) = false.
Proof.
  intros sched srcs i cs e Hi.
  destruct (merge_rest_tail sched srcs i cs e Hi) as [cs' H].
  destruct (drained (merge_rest sched srcs)) eqn:D; auto.
  unfold drained in D. rewrite forallb_forall in D.
  specialize (D _ (nth_error_In _ _ H)). destruct cs'; discriminate.
Qed.

(* ---- call options ---------------------------------------------------------------------- *)
Section CallOpts.
  Variable O : Type.
  Variable cfg : toolset O.
  Variable handler : option (string -> string -> tres).

  (* the answer of a call under the call's options: computed by the tool set in force, on the
     option values of this call *)
  Definition answer_with (o : callopts O) (c : call) : res tres :=
    answer (ts_kind (eff_tools cfg o)) (ts_inv (eff_tools cfg o) (co_opts o))
           (ts_str (eff_tools cfg o) (co_opts o)) handler c.

  Theorem invoke_with_spec : forall o pi calls outs,
    calls <> [] ->
    Permutation pi (seq 0 (List.length calls)) ->
    Forall2 (fun c out => answer_with o c = Ok (TOk out)) calls outs ->
    tools_invoke_with cfg handler o pi true calls = Ok (combine outs (map c_id calls)).
  Proof. intros. unfold tools_invoke_with. apply invoke_spec; auto. Qed.

  (* a tool list given with the call replaces the configured one: the configured tools are not
     consulted at all (two nodes that differ only in their configured tools answer alike) *)
  Theorem call_list_replaces : forall (cfg' : toolset O) ts x pi role_ok calls,
    tools_invoke_with cfg handler (mkCO (Some ts) x) pi role_ok calls
    = tools_invoke_with cfg' handler (mkCO (Some ts) x) pi role_ok calls
    /\ tools_stream_open_with cfg handler (mkCO (Some ts) x) pi role_ok calls
       = tools_stream_open_with cfg' handler (mkCO (Some ts) x) pi role_ok calls.
  Proof. intros. split; reflexivity. Qed.

  (* a name that only the configured set knows is unknown once the call brings its own list *)
  Theorem call_list_unknown : forall ts x pi calls c,
    In c calls -> ts_kind ts (c_name c) = None -> handler = None ->
    tools_invoke_with cfg handler (mkCO (Some ts) x) pi true calls = Err E_UNKNOWN
    /\ tools_stream_open_with cfg handler (mkCO (Some ts) x) pi true calls = Err E_UNKNOWN
    /\ tools_executed_with cfg handler (mkCO (Some ts) x) true calls = [].
  Proof.
    intros. unfold tools_invoke_with, tools_stream_open_with, tools_executed_with. simpl.
    eapply unknown_without_handler; eauto.
  Qed.

  (* without a list option the configured tools answer, on this call's option values *)
  Theorem no_call_list : forall x pi role_ok calls,
    tools_invoke_with cfg handler (mkCO None x) pi role_ok calls
    = tools_invoke (ts_kind cfg) (ts_inv cfg x) (ts_str cfg x) handler pi role_ok calls.
  Proof. reflexivity. Qed.
End CallOpts.

(* ---- convTools / NewToolNode ----------------------------------------------------------- *)
Section Conv.
  Variable O : Type.
  Variable handler : option (string -> string -> tres).

  Definition takeable (d : tooldecl O) : Prop := td_info_ok d = true /\ td_kind d <> None.

  (* convTools succeeds exactly when every tool of the list can be taken *)
  Theorem conv_tools_ok_iff : forall l : list (tooldecl O),
    (exists tl, conv_tools l = Ok tl) <-> Forall takeable l.
  Proof.
    induction l as [|d l IH]; simpl.
    - split; [constructor|eauto].
    - destruct (td_info_ok d) eqn:Ei; simpl.
      + destruct (td_kind d) as [k|] eqn:Ek.
        * split.
          -- intros [tl H]. destruct (conv_tools l) eqn:Ec; simpl in H; try discriminate.
             constructor; [split; congruence|]. apply IH. eauto.
          -- intros H. inversion H; subst. apply IH in H3. destruct H3 as [tl ->]. simpl. eauto.
        * split; [intros [tl H]; discriminate|]. intros H. inversion H; subst.
          destruct H2 as [_ H2]. congruence.
      + split; [intros [tl H]; discriminate|]. intros H. inversion H; subst.
        destruct H2 as [H2 _]. congruence.
  Qed.

  Lemma conv_tools_never_panics : forall l : list (tooldecl O), conv_tools l <> Panic.
  Proof.
    induction l as [|d l IH]; simpl; [discriminate|].
    destruct (td_info_ok d); simpl; [|discriminate].
    destruct (td_kind d); [|discriminate].
    destruct (conv_tools l); simpl; try discriminate. congruence.
  Qed.

  (* a configuration NewToolNode cannot take: no node, every use is an error and runs nothing;
     a call list Invoke / Stream cannot take: the call is an error and runs nothing, whatever
     the message *)
  Theorem node_bad_tool : forall (cfg : list (tooldecl O)) cl opts pi role_ok calls,
    ~ Forall takeable cfg \/ (exists l, cl = Some l /\ ~ Forall takeable l) ->
    (exists e, node_invoke handler cfg cl opts pi role_ok calls = Err e)
    /\ (exists e, node_stream_open handler cfg cl opts pi role_ok calls = Err e)
    /\ node_executed handler cfg cl opts role_ok calls = [].
  Proof.
    intros cfg cl opts pi role_ok calls H.
    unfold node_invoke, node_stream_open, node_executed.
    destruct (conv_tools cfg) as [c|e|] eqn:Ec.
    - destruct H as [H|[l [-> H]]].
      + exfalso. apply H. apply conv_tools_ok_iff. eauto.
      + simpl. destruct (conv_tools l) as [tl|e|] eqn:El; simpl.
        * exfalso. apply H. apply conv_tools_ok_iff. eauto.
        * repeat split; eexists; reflexivity.
        * exfalso. eapply conv_tools_never_panics; eauto.
    - simpl. repeat split; eexists; reflexivity.
    - exfalso. eapply conv_tools_never_panics; eauto.
  Qed.

  (* every tool takeable: the node is the tools node of the converted lists *)
  Theorem node_good_tools : forall (cfg : list (tooldecl O)) cl opts pi role_ok calls,
    Forall takeable cfg -> (forall l, cl = Some l -> Forall takeable l) ->
    exists c l,
      conv_tools cfg = Ok c /\ conv_call_list cl = Ok l
      /\ node_invoke handler cfg cl opts pi role_ok calls
         = tools_invoke_with (toolset_of_conv c) handler (mkCO l opts) pi role_ok calls
      /\ node_stream_open handler cfg cl opts pi role_ok calls
         = tools_stream_open_with (toolset_of_conv c) handler (mkCO l opts) pi role_ok calls.
  Proof.
    intros cfg cl opts pi role_ok calls Hc Hl.
    apply conv_tools_ok_iff in Hc. destruct Hc as [c Hc].
    assert (exists l, conv_call_list cl = Ok l) as [l El].
    { destruct cl as [l0|]; simpl; [|eauto].
      specialize (Hl l0 eq_refl). apply conv_tools_ok_iff in Hl. destruct Hl as [tl ->]. simpl. eauto. }
    exists c, l. unfold node_invoke, node_stream_open. rewrite Hc, El. simpl. auto.
  Qed.

  (* the name index: the last tool of a name is the one a call finds *)
  Theorem index_last_wins : forall A (l1 l2 : list (string * A)) n a,
    (forall a', ~ In (n, a') l2) ->
    index_lookup (l1 ++ (n, a) :: l2) n = Some a.
  Proof.
    intros A l1 l2 n a Hn.
    assert (E2 : index_lookup l2 n = None).
    { induction l2 as [|[m b] l2 IH]; simpl; auto.
      rewrite IH by (intros a' Hin; apply (Hn a'); right; auto).
      destruct (String.eqb m n) eqn:E; auto. apply String.eqb_eq in E. subst m.
      exfalso. apply (Hn b). left; auto. }
    induction l1 as [|[m b] l1 IH]; simpl.
    - rewrite E2, String.eqb_refl. reflexivity.
    - rewrite IH. reflexivity.
  Qed.

  Theorem index_unknown : forall A (l : list (string * A)) n,
    (forall a, ~ In (n, a) l) -> index_lookup l n = None.
  Proof.
    induction l as [|[m b] l IH]; intros n Hn; simpl; auto.
    rewrite IH by (intros a Hin; apply (Hn a); right; auto).
    destruct (String.eqb m n) eqn:E; auto. apply String.eqb_eq in E. subst m.
    exfalso. apply (Hn b). left; auto.
  Qed.
End Conv.

(* ---- a complete interleaving always exists (non-vacuity of "for every complete sched") ---- *)
Lemma set_nth_set_nth : forall A i (a b : A) l, set_nth i a (set_nth i b l) = set_nth i a l.
Proof. induction i; destruct l; simpl; auto. rewrite IHi. reflexivity. Qed.

Lemma set_nth_same : forall A i (a : A) l, nth_error l i = Some a -> set_nth i a l = l.
Proof.
  induction i; destruct l; simpl; intros H; auto.
  - inversion H. reflexivity.
  - rewrite IHi; auto.
Qed.

Lemma set_nth_app_len : forall A (p : list A) a b r,
  set_nth (List.length p) a (p ++ b :: r) = (p ++ a :: r)%list.
Proof. induction p; simpl; intros; auto. rewrite IHp. reflexivity. Qed.

Lemma merge_rest_cons_chunk : forall i sched srcs c rest tl,
  nth_error srcs i = Some (c :: rest, tl) ->
  merge_rest (i :: sched) srcs = merge_rest sched (set_nth i (rest, tl) srcs).
Proof. intros. simpl. rewrite H. reflexivity. Qed.

Lemma merge_rest_repeat : forall cs i sched srcs,
  nth_error srcs i = Some (cs, None) ->
  merge_rest (repeat i (S (List.length cs)) ++ sched) srcs
  = merge_rest sched (set_nth i ([], None) srcs).
Proof.
  induction cs as [|c rest IH]; intros i sched srcs Hi.
  - simpl. rewrite Hi. rewrite (set_nth_same _ _ _ _ Hi). reflexivity.
  - change (repeat i (S (List.length (c :: rest))) ++ sched)%list
      with (i :: (repeat i (S (List.length rest)) ++ sched))%list.
    rewrite (merge_rest_cons_chunk _ _ _ _ _ _ Hi).
    rewrite (IH i sched (set_nth i (rest, None) srcs)).
    + rewrite set_nth_set_nth. reflexivity.
    + eapply nth_error_set_nth_same; eauto.
Qed.

Lemma drain_suffix : forall (suffix prefix : list (list string * option N)),
  tails_none suffix ->
  merge_rest (flat_map (fun p => repeat (fst p) (S (List.length (fst (snd p)))))
                       (combine (seq (List.length prefix) (List.length suffix)) suffix))
             (prefix ++ suffix)
  = (prefix ++ map (fun _ => ([], None)) suffix)%list.
Proof.
  induction suffix as [|[cs tl] rest IH]; intros prefix Ht.
  - reflexivity.
  - assert (tl = None) by (apply (Ht (cs, tl)); left; auto). subst tl.
    set (F := fun p : nat * (list string * option N) => repeat (fst p) (S (List.length (fst (snd p))))) in *.
    change (flat_map F (combine (seq (List.length prefix) (List.length ((cs, None) :: rest))) ((cs, @None N) :: rest)))
      with (repeat (List.length prefix) (S (List.length cs))
            ++ flat_map F (combine (seq (S (List.length prefix)) (List.length rest)) rest))%list.
    rewrite merge_rest_repeat with (cs := cs).
    + rewrite set_nth_app_len.
      replace (prefix ++ ([], None) :: rest)%list with ((prefix ++ [([], None)]) ++ rest)%list
        by (rewrite <- app_assoc; reflexivity).
      replace (S (List.length prefix)) with (List.length (prefix ++ [([]:list string, @None N)]))
        by (rewrite app_length; simpl; rewrite Nat.add_1_r; reflexivity).
      rewrite IH.
      * rewrite <- app_assoc. reflexivity.
      * intros s Hs. apply Ht. right; auto.
    + rewrite nth_error_app2 by apply Nat.le_refl. rewrite Nat.sub_diag. reflexivity.
Qed.

(* the canonical schedule (tool 0's stream to its end, then tool 1's, ...) is complete *)
Theorem seq_sched_complete : forall srcs,
  tails_none srcs -> drained (merge_rest (seq_sched srcs) srcs) = true.
Proof.
  intros srcs Ht. unfold seq_sched.
  assert (H : merge_rest (flat_map (fun p => repeat (fst p) (S (List.length (fst (snd p)))))
                                   (combine (seq 0 (List.length srcs)) srcs)) srcs
              = map (fun _ => ([], None)) srcs) by exact (drain_suffix srcs [] Ht).
  rewrite H.
  unfold drained. apply forallb_forall. intros s Hs. apply in_map_iff in Hs.
  destruct Hs as [x [<- _]]. reflexivity.
Qed.
