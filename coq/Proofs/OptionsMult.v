(* Proofs/OptionsMult.v — property C16: closed form of the handler MULTISET of a node: how often a
   handler sits in the callback manager of the node at a path is a sum over the call's options
   (Model/OptionsSpec.v fired_mult). *)
From Eino Require Import Base.Util Model.Options Model.OptionsSpec Proofs.Options Proofs.OptionsFired.
From Coq Require Import Lia.
Local Open Scope N_scope.

Lemma cnt_app h a b : cnt h (a ++ b) = (cnt h a + cnt h b)%nat.
Proof. apply count_occ_app. Qed.

Lemma list_sum_flat_map {A B} (f : A -> list B) (g : B -> nat) l :
  list_sum (map g (flat_map f l)) = list_sum (map (fun a => list_sum (map g (f a))) l).
Proof.
  induction l as [|a l IH]; simpl; [reflexivity|].
  rewrite map_app, list_sum_app, IH. reflexivity.
Qed.

Lemma list_sum_map_ext {A} (f g : A -> nat) l :
  (forall a, In a l -> f a = g a) -> list_sum (map f l) = list_sum (map g l).
Proof.
  induction l as [|a l IH]; simpl; intros H; [reflexivity|].
  rewrite (H a (or_introl eq_refl)), IH; auto.
Qed.

Lemma list_sum_map_add {A} (f g : A -> nat) l :
  list_sum (map (fun a => (f a + g a)%nat) l) = (list_sum (map f l) + list_sum (map g l))%nat.
Proof. induction l as [|a l IH]; simpl; [reflexivity|]. rewrite IH. lia. Qed.

Lemma cnt_flat_map {A} h (f : A -> list N) l :
  cnt h (flat_map f l) = list_sum (map (fun a => cnt h (f a)) l).
Proof. induction l as [|a l IH]; simpl; [reflexivity|]. rewrite cnt_app, IH. reflexivity. Qed.

Lemma cnt_node_handlers h k opts :
  cnt h (node_handlers k opts) =
  list_sum (map (fun o => (cnt h (o_handlers o) * (if designates_key k (o_paths o) then 1 else 0))%nat) opts).
Proof.
  unfold node_handlers. rewrite cnt_flat_map. apply list_sum_map_ext. intros o _.
  destruct (designates_key k (o_paths o)); simpl; [lia|unfold cnt; simpl; lia].
Qed.

Lemma cnt_graph_handlers h opts :
  cnt h (graph_handlers opts) =
  list_sum (map (fun o => (cnt h (o_handlers o) * (match o_paths o with [] => 1 | _ :: _ => 0 end))%nat) opts).
Proof.
  unfold graph_handlers. rewrite cnt_flat_map. apply list_sum_map_ext. intros o _.
  destruct (o_paths o); simpl; [lia|unfold cnt; simpl; lia].
Qed.

(* one designated path of o, as it contributes below node k *)
Lemma sub_path_contrib h k o q rest :
  list_sum (map (fun o' => (cnt h (o_handlers o') * dmult o' rest)%nat) (sub_path_opts k o q)) =
  (cnt h (o_handlers o) * (if (2 <=? List.length q)%nat && prefixb q (k :: rest) then 1 else 0))%nat.
Proof.
  destruct q as [|k' [|k2 r]]; simpl.
  - lia.
  - destruct (N.eqb k' k); simpl; [|lia].
    destruct (o_items o); simpl; [lia|].
    unfold dmult. destruct rest; simpl; lia.
  - destruct (N.eqb k' k) eqn:E; simpl; [|lia].
    unfold dmult. simpl. destruct rest as [|k3 rest3]; simpl; [lia|].
    destruct r as [|k4 r4]; simpl.
    + destruct (N.eqb k2 k3); simpl; lia.
    + destruct (N.eqb k2 k3); simpl; [|lia].
      destruct rest3 as [|k5 rest5]; simpl; [lia|].
      destruct (N.eqb k4 k5 && prefixb r4 rest5); simpl; lia.
Qed.

Lemma list_sum_indicator {A} (c : nat) (f : A -> bool) l :
  list_sum (map (fun a => (c * (if f a then 1 else 0))%nat) l) = (c * List.length (filter f l))%nat.
Proof.
  induction l as [|a l IH]; simpl; [lia|]. rewrite IH. destruct (f a); simpl; lia.
Qed.

Lemma sub_opts_contrib h k o rest :
  list_sum (map (fun o' => (cnt h (o_handlers o') * dmult o' rest)%nat) (sub_opts k o)) =
  (cnt h (o_handlers o) *
   List.length (filter (fun q => (2 <=? List.length q)%nat && prefixb q (k :: rest)) (o_paths o)))%nat.
Proof.
  unfold sub_opts. destruct (o_paths o) as [|q0 qs] eqn:Hp.
  - simpl. destruct (o_items o); simpl; [lia|].
    unfold dmult. rewrite Hp. destruct rest; simpl; lia.
  - rewrite list_sum_flat_map.
    rewrite (list_sum_map_ext _ (fun q => (cnt h (o_handlers o) *
               (if (2 <=? List.length q)%nat && prefixb q (k :: rest) then 1 else 0))%nat)).
    + apply list_sum_indicator.
    + intros q _. apply sub_path_contrib.
Qed.

Lemma spec_fired_cnt h : forall p inh opts,
  cnt h (spec_fired inh opts p) =
  (cnt h inh + list_sum (map (fun o => (cnt h (o_handlers o) * dmult o p)%nat) opts))%nat.
Proof.
  induction p as [|k rest IH]; intros inh opts.
  - simpl. rewrite (list_sum_map_ext _ (fun _ => O)); [|intros; lia].
    assert (H0 : list_sum (map (fun _ : copt => O) opts) = O) by (induction opts; simpl; auto).
    rewrite H0. lia.
  - simpl spec_fired. rewrite IH, cnt_app, cnt_node_handlers, list_sum_flat_map.
    rewrite (list_sum_map_ext _ _ opts (fun o _ => sub_opts_contrib h k o rest)).
    rewrite <- Nat.add_assoc. f_equal. rewrite <- list_sum_map_add.
    apply list_sum_map_ext. intros o _. unfold dmult. lia.
Qed.

(* the closed form: how often handler h sits in the callback manager of the node at path p *)
Lemma run_call_fired_count F opts rs r hs h :
  keys_unique F -> run_call F opts = Ok rs -> In r rs -> r_fired r = Some hs ->
  cnt h hs = spec_fired_count opts (r_path r) h.
Proof.
  intros HU H Hr Hhs.
  rewrite (run_call_fired_exact F opts rs r hs HU H Hr Hhs). unfold spec_fired_count.
  rewrite spec_fired_cnt, cnt_graph_handlers, <- list_sum_map_add.
  apply list_sum_map_ext. intros o _. unfold fired_mult. lia.
Qed.
