(* Proofs/IsolationEngineRec.v — property C09: at every moment of every interleaving (complete or
   not) each call of the engine is in a state it reaches alone, and the compiled record — as the
   hook compose/verif_c09.go projects it from the implementation's *runner — is the one before. *)
From Eino Require Import Base.Util Model.Isolation Model.IsolationEngine Proofs.Isolation.

Theorem engine_runs_own_their_state : forall (c : cobj) (ks : list call) sched c' rs',
  grun (lift estep) sched (c, map (einit c) ks) = Some (c', rs') ->
  c' = c /\ crec_proj c' = crec_proj c /\
  forall i k, nth_error ks i = Some k ->
    exists r', nth_error rs' i = Some r' /\
               iter estep c (count i sched) (einit c k) = Some r' /\
               gproj (lift estep) i sched (c, map (einit c) ks) = trace _ _ estep c (count i sched) (einit c k).
Proof.
  intros c ks sched c' rs' G.
  destruct (runs_non_interfering_pure _ _ estep _ _ _ _ _ G) as (Ec & _ & P). subst c'.
  split; [reflexivity|]. split; [reflexivity|].
  intros i k Hk.
  assert (Hi : nth_error (map (einit c) ks) i = Some (einit c k)) by (rewrite nth_error_map, Hk; reflexivity).
  destruct (P i _ Hi) as (r' & A & B & T). exists r'. auto.
Qed.
