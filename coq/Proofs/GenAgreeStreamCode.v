(* Proofs/GenAgreeStreamCode.v — property C08: the functions tools/go2v translated statement by
   statement from schema/stream.go (Gen/StreamCode.v, extractor "streamcode") are the operations
   of Model/Stream.v that the C08 theorems are about. *)
From Eino Require Import Base.Util Model.Stream Model.StreamGenLib.
From Eino Require Gen.StreamCode.
From Coq Require Import Lia.
Module G := Gen.StreamCode.

(* ------------------------------------------------------------------ list facts *)

Lemma firstn_S_upd : forall A (l : list A) a v, a < List.length l -> firstn (S a) (upd l a v) = firstn a l ++ [v].
Proof.
  induction l as [|x l IH]; intros [|a] v H; simpl in *; try lia; auto.
  f_equal. apply IH. lia.
Qed.

Lemma upd_length : forall A (l : list A) i v, List.length (upd l i v) = List.length l.
Proof. induction l as [|x l IH]; intros [|i] v; simpl; auto. Qed.

Lemma fold_upd_seq : forall A (f : nat -> A) n a (l : list A), List.length l = a + n ->
  fold_left (fun l i => upd l i (f i)) (seq a n) l = firstn a l ++ map f (seq a n).
Proof.
  induction n as [|n IH]; intros a l Hl; simpl.
  - rewrite app_nil_r. symmetry. apply firstn_all2. lia.
  - rewrite IH by (rewrite upd_length; lia). rewrite firstn_S_upd by lia. rewrite <- app_assoc. reflexivity.
Qed.

Lemma fold_upd_seq_repeat : forall A (f : nat -> A) d n,
  fold_left (fun l i => upd l i (f i)) (seq 0 n) (repeat d n) = map f (seq 0 n).
Proof. intros. rewrite fold_upd_seq by (rewrite repeat_length; lia). reflexivity. Qed.

Lemma map_const_seq : forall A (c : A) n a, map (fun _ => c) (seq a n) = repeat c n.
Proof. induction n as [|n IH]; intros a; simpl; auto. f_equal. apply IH. Qed.

Lemma map_id_seq : forall n a, map (fun i => i) (seq a n) = seq a n.
Proof. intros. apply map_id. Qed.

Lemma skipn_nth_cons : forall A (d : A) l i, i < List.length l -> skipn i l = nth i l d :: skipn (S i) l.
Proof.
  induction l as [|x l IH]; intros [|i] H; simpl in *; try lia; auto. apply IH. lia.
Qed.

(* comparisons of the generated code are decided from the hypotheses, whichever way round the
   source writes them (a test and its inverse with the branches swapped translate to different
   but equal terms) *)
Ltac decide_cmp := repeat match goal with
  | |- context[Nat.ltb ?a ?b] => first [rewrite (proj2 (Nat.ltb_lt a b)) by lia | rewrite (proj2 (Nat.ltb_ge a b)) by lia]
  | |- context[Nat.leb ?a ?b] => first [rewrite (proj2 (Nat.leb_le a b)) by lia | rewrite (proj2 (Nat.leb_gt a b)) by lia]
  | |- context[Nat.eqb ?a ?b] => first [rewrite (proj2 (Nat.eqb_eq a b)) by lia | rewrite (proj2 (Nat.eqb_neq a b)) by lia]
  end.

(* ------------------------------------------------------------------ arrayReader *)

(* the reader [RArr done rest] of the model is the Go object (arr, index) with rest = arr[index:] *)
Theorem gen_array_recv_agrees : forall fuel st done arr idx ch, idx <= List.length arr ->
  recv (S fuel) st (RArr done (skipn idx arr)) ch =
  match G.array_recv (mkArrd arr idx) with
  | ((v, ENil), ar') => (PItem (IVal v), st, RArr (done ++ [v]) (skipn (ar_index ar') (ar_arr ar')), ch)
  | ((_, EEOF), ar') => (PEOF, st, RArr done (skipn (ar_index ar') (ar_arr ar')), ch)
  | _ => (PBad, st, RArr done [], ch)
  end.
Proof.
  intros fuel st done arr idx ch Hle. unfold G.array_recv. cbn [ar_index ar_arr set_ar_index]. cbv zeta.
  destruct (Nat.lt_ge_cases idx (List.length arr)) as [E|E].
  - decide_cmp. cbn [recv ar_index ar_arr set_ar_index]. rewrite (skipn_nth_cons _ 0%N arr idx E). unfold go_index.
    replace (idx + 1) with (S idx) by lia. reflexivity.
  - decide_cmp. cbn [recv ar_index ar_arr set_ar_index]. rewrite skipn_all2 by lia. reflexivity.
Qed.

Theorem gen_array_copy_agrees : forall arr idx n,
  G.array_copy (mkArrd arr idx) n = repeat (mkArrd arr idx) n.
Proof.
  intros. unfold G.array_copy. simpl.
  rewrite (fold_upd_seq_repeat arrd (fun _ => mkArrd arr idx)). apply map_const_seq.
Qed.

(* OCopy on an array reader hands out n readers over the same remainder *)
Corollary gen_array_copy_readers : forall arr idx n,
  map (fun a => RArr [] (skipn (ar_index a) (ar_arr a))) (G.array_copy (mkArrd arr idx) n) = repeat (RArr [] (skipn idx arr)) n.
Proof. intros. rewrite gen_array_copy_agrees. induction n as [|n IH]; simpl; [reflexivity | f_equal; exact IH]. Qed.

(* ------------------------------------------------------------------ parentStreamReader.close *)

Lemma nth_nth_error_none : forall A (l : list (option A)) i, nth_error l i = Some None -> nth i l None = None.
Proof. intros A l i H. apply nth_error_nth with (d := @None A) in H. exact H. Qed.

Theorem gen_parent_close_agrees : forall P i ev,
  G.parent_close P i ev =
  match nth_error (p_cur P) i with
  | Some (Some _) =>
      let P1 := close_child P i in
      (P1, if Nat.eqb (p_closed P1) (List.length (p_cur P1)) then ev ++ [EvCloseSrc] else ev)
  | _ => (P, ev)         (* the nil of a closed child; an index out of range is a panic in Go *)
  end.
Proof.
  intros P i ev. unfold G.parent_close, go_index.
  destruct (nth_error (p_cur P) i) as [[c|]|] eqn:E.
  - rewrite (nth_error_nth _ _ None E). simpl go_isnil. cbv iota.
    unfold close_child, set_p_closed, set_p_cur. cbn [p_src p_items p_eof p_cur p_closed p_srcclosed p_pulls p_got p_sawEOF].
    replace (p_closed P + 1) with (S (p_closed P)) by lia.
    destruct (Nat.eq_dec (S (p_closed P)) (List.length (upd (p_cur P) i None))) as [Q|Q]; decide_cmp; reflexivity.
  - rewrite (nth_error_nth _ _ None E). reflexivity.
  - rewrite nth_overflow by (apply nth_error_None; exact E). reflexivity.
Qed.

(* Close of a copy in the model is: the generated close on the parent record, then — iff it
   logged the call — Close of the parent's source *)
Theorem close_child_is_gen : forall fuel st p i P, nth_error (parents st) p = Some P ->
  i < List.length (p_cur P) ->
  close_rd (S fuel) st (RChild p i) =
  let '(P1, ev) := G.parent_close P i [] in
  match ev with
  | [] => (ClOk, set_parent st p P1)
  | _ => close_rd fuel (set_parent st p (src_closed P1)) (p_src P)
  end.
Proof.
  intros fuel st p i P HP Hi. rewrite gen_parent_close_agrees. cbn [close_rd]. rewrite HP.
  destruct (nth_error (p_cur P) i) as [[c|]|] eqn:E.
  - cbv zeta. destruct (Nat.eqb (p_closed (close_child P i)) (List.length (p_cur (close_child P i)))); reflexivity.
  - unfold set_parent. destruct st as [ss ps]. simpl in *. f_equal. f_equal.
    clear -HP. revert p HP. induction ps as [|q ps IH]; intros [|p] H; simpl in *; try discriminate; [congruence|].
    f_equal. apply IH. exact H.
  - apply nth_error_None in E. lia.
Qed.

(* ------------------------------------------------------------------ multiStreamReader *)

Theorem gen_msr_new_agrees : forall sts, G.msr_new sts = mkMsrd sts (seq 0 (List.length sts)).
Proof.
  intros. unfold G.msr_new. f_equal.
  rewrite (fold_upd_seq_repeat nat (fun i => i)). apply map_id_seq.
Qed.

(* the loop that retires a finished source *)
Definition retire_body (chosen : nat) : msrd -> nat -> msrd * bool :=
  fun msr i =>
    if Nat.eqb (go_index 0 (msr_chosenList msr) i) chosen
    then (set_msr_chosenList msr (go_slice_to (msr_chosenList msr) i ++ go_slice_from (msr_chosenList msr) (i + 1)), true)
    else (msr, false).

Lemma range_brk_retire : forall chosen post pre sts,
  range_brk (seq (List.length pre) (List.length post)) (retire_body chosen) (mkMsrd sts (pre ++ post))
  = mkMsrd sts (pre ++ remove_nat chosen post).
Proof.
  intros chosen. induction post as [|y post IH]; intros pre sts.
  - reflexivity.
  - cbn [List.length seq range_brk remove_nat].
    unfold retire_body at 1. cbn [msr_chosenList]. unfold go_index. rewrite app_nth2 by lia. rewrite Nat.sub_diag. cbn [nth].
    rewrite (Nat.eqb_sym y chosen). destruct (Nat.eqb chosen y) eqn:E.
    + unfold set_msr_chosenList, go_slice_to, go_slice_from. cbn [msr_sts msr_chosenList]. f_equal.
      rewrite firstn_app, firstn_all, Nat.sub_diag. cbn [firstn]. rewrite app_nil_r. f_equal.
      rewrite skipn_app. rewrite skipn_all2 by lia. replace (List.length pre + 1 - List.length pre) with 1 by lia. reflexivity.
    + specialize (IH (pre ++ [y]) sts). rewrite app_length in IH. cbn [List.length] in IH.
      replace (List.length pre + 1) with (S (List.length pre)) in IH by lia.
      rewrite <- !app_assoc in IH. cbn [app] in IH. exact IH.
Qed.

Lemma range_brk_ext : forall S (f g : S -> nat -> S * bool) is s,
  (forall s i, f s i = g s i) -> range_brk is f s = range_brk is g s.
Proof.
  intros S f g is. induction is as [|i r IH]; intros s H; [reflexivity|].
  cbn [range_brk]. rewrite H. destruct (g s i) as [s' b]. destruct b; [reflexivity | apply IH; exact H].
Qed.

Theorem gen_msr_retire_agrees : forall sts chosenList chosen,
  G.msr_retire (mkMsrd sts chosenList) chosen = mkMsrd sts (remove_nat chosen chosenList).
Proof.
  intros sts cl chosen.
  transitivity (range_brk (seq 0 (List.length cl)) (retire_body chosen) (mkMsrd sts cl));
    [| exact (range_brk_retire chosen cl [] sts)].
  (* the generated loop body is [retire_body] whichever way round its test is written (`==` with the
     removal first, `!=` with an early continue, operands swapped) *)
  unfold G.msr_retire. cbv zeta. apply range_brk_ext. intros m i. unfold retire_body.
  try rewrite (Nat.eqb_sym chosen (go_index 0 (msr_chosenList m) i)).
  destruct (Nat.eqb (go_index 0 (msr_chosenList m) i) chosen); reflexivity.
Qed.

Definition closed_sids (ev : list event) : list nat :=
  flat_map (fun e => match e with EvCloseRecv s => [s] | _ => [] end) ev.

Theorem gen_msr_close_agrees : forall m ev, G.msr_close m ev = (m, ev ++ map EvCloseRecv (msr_sts m)).
Proof.
  intros [sts cl] ev. unfold G.msr_close. simpl. f_equal. revert ev.
  induction sts as [|s sts IH]; intros ev; simpl; [rewrite app_nil_r; reflexivity|].
  rewrite IH. rewrite <- app_assoc. reflexivity.
Qed.

(* Close of a merged reader in the model closes the receive side of exactly the streams the
   generated loop calls closeRecv on, in that order: all of [sts], whatever [chosenList] is *)
Theorem close_multi_is_gen : forall fuel st sts chosen,
  close_rd (S fuel) st (RMul sts chosen) = close_streams st (closed_sids (snd (G.msr_close (mkMsrd sts chosen) []))).
Proof.
  intros. rewrite gen_msr_close_agrees. simpl. f_equal.
  induction sts as [|s sts IH]; simpl; auto. f_equal. exact IH.
Qed.

(* ------------------------------------------------------------------ streamReaderWithConvert.recv *)

(* one iteration of the loop: [None] = the loop goes on (ErrNoValue) *)
Theorem gen_conv_recv_iter_agrees : forall g x, conv_ok g ->
  match G.conv_recv_iter g (pair_of_item x) with
  | Some p => Some (see p)
  | None => None
  end = option_map SeenItem (conv_item (cfun_of_go g) x).
Proof.
  intros g [v|e] Hg; unfold G.conv_recv_iter, pair_of_item, cfun_of_go; simpl; auto.
  specialize (Hg v). destruct (g v) as [t [| |w|e]]; simpl in *; auto; try congruence.
  destruct w; reflexivity.
Qed.

Theorem gen_conv_recv_iter_eof : forall g, G.conv_recv_iter g eof_pair = Some eof_pair.
Proof. reflexivity. Qed.

(* ------------------------------------------------------------------ toStream goroutines *)

Theorem gen_fwd_body_agrees : forall x cl ev,
  G.conv_fwd_body (pair_of_item x) cl ev = (ev ++ [EvSend (pair_of_item x)], cl)
  /\ G.child_fwd_body (pair_of_item x) cl ev = (ev ++ [EvSend (pair_of_item x)], cl).
Proof. intros [v|e] [|] ev; split; reflexivity. Qed.

Theorem gen_fwd_body_eof : forall cl ev,
  G.conv_fwd_body eof_pair cl ev = (ev, true) /\ G.child_fwd_body eof_pair cl ev = (ev, true).
Proof. intros; split; reflexivity. Qed.

Theorem gen_fwd_deferred_agrees : forall ev,
  G.conv_fwd_deferred ev = ev ++ [EvCloseSend; EvCloseSrc] /\ G.child_fwd_deferred ev = ev ++ [EvCloseSend; EvCloseSrc].
Proof. intros; unfold G.conv_fwd_deferred, G.child_fwd_deferred; rewrite <- !app_assoc; split; reflexivity. Qed.

Theorem gen_fwd_cap_agrees : G.conv_fwd_cap = 5 /\ G.child_fwd_cap = 5.
Proof. split; reflexivity. Qed.

(* The forwarder step of the model ([OFwd] of [do_op]) re-expressed with every decision taken by
   the generated loop body and deferred block: which events one iteration performs for a given
   result of recv (a send of what, or none), whether the loop is left, what the deferred block
   does first (closeSend) and then (close of the source).  [fwd_step_is_gen]: this IS the
   model's step — if the loop of toStream changes what it forwards or when it stops, the
   equality fails. *)
Definition body_of (t : rd) : gopair -> bool -> list event -> list event * bool :=
  match t with RChild _ _ => G.child_fwd_body | _ => G.conv_fwd_body end.
Definition deferred_of (t : rd) : list event -> list event :=
  match t with RChild _ _ => G.child_fwd_deferred | _ => G.conv_fwd_deferred end.
Definition pair_of_pres (r : pres) : option gopair :=
  match r with PItem x => Some (pair_of_item x) | PEOF => Some eof_pair | _ => None end.

Definition with_fwd (G : state) (st1 : store) (k : nat) (F : fwd) : state :=
  mkState st1 (upd (st_fwds G) k F) (st_handles G).

Definition do_close_send (G : state) (st1 : store) (k : nat) (F : fwd) (src1 : rd) (eof : bool) : obs * state :=
  match nth_error (streams st1) (f_dst F) with
  | None => (BIllegal, G)
  | Some d => let '(_, d') := stream_close_send d in
              (BStep, with_fwd G (set_stream st1 (f_dst F) d') k (mkF src1 (f_dst F) FClosing eof))
  end.

Definition fwd_step_gen (fuel : nat) (G : state) (k : nat) (ch : list nat) : obs * state :=
  match nth_error (st_fwds G) k with
  | None => (BIllegal, G)
  | Some F =>
    let body := body_of (f_src F) in
    let deferred := deferred_of (f_src F) [] in
    match f_st F with
    | FDone => (BStep, G)
    | FRecv =>
        let '(r, st1, src1, _) := recv fuel (st_store G) (f_src F) ch in
        match pair_of_pres r with
        | None => (BStep, with_fwd G st1 k (mkF src1 (f_dst F) FRecv (f_eof F)))
        | Some p =>
          match body p false [] with
          | ([EvSend q], _) =>
              match see q with
              | SeenItem y => (BStep, with_fwd G st1 k (mkF src1 (f_dst F) (FSend y) (f_eof F)))
              | _ => (BIllegal, G)
              end
          | ([], true) =>
              match deferred with
              | EvCloseSend :: _ => do_close_send G st1 k F src1 true
              | _ => (BIllegal, G)
              end
          | _ => (BIllegal, G)
          end
        end
    | FSend x =>
        match nth_error (streams (st_store G)) (f_dst F) with
        | None => (BIllegal, G)
        | Some d =>
          match stream_send d x with
          | (SOk, d') =>
              if snd (body (pair_of_item x) false [])
              then (BIllegal, G)
              else (BStep, with_fwd G (set_stream (st_store G) (f_dst F) d') k (mkF (f_src F) (f_dst F) FRecv (f_eof F)))
          | (SClosed, _) =>
              if snd (body (pair_of_item x) true [])
              then match deferred with
                   | EvCloseSend :: _ => do_close_send G (st_store G) k F (f_src F) (f_eof F)
                   | _ => (BIllegal, G)
                   end
              else (BIllegal, G)
          | (_, _) => (BStep, G)
          end
        end
    | FClosing =>
        match deferred with
        | [EvCloseSend; EvCloseSrc] =>
            let '(_, st1) := close_rd fuel (st_store G) (f_src F) in
            (BStep, with_fwd G st1 k (mkF (f_src F) (f_dst F) FDone (f_eof F)))
        | _ => (BIllegal, G)
        end
    end
  end.

Theorem fwd_step_is_gen : forall fuel G k ch, do_op fuel G (OFwd k ch) = fwd_step_gen fuel G k ch.
Proof.
  intros fuel G k ch. unfold fwd_step_gen, do_op, do_close_send, with_fwd.
  destruct (nth_error (st_fwds G) k) as [F|]; [|reflexivity].
  destruct (f_st F) as [|x| |].
  - destruct (recv fuel (st_store G) (f_src F) ch) as [[[r st1] src1] ch1].
    destruct r as [x| | | |]; cbn [pair_of_pres]; try reflexivity.
    + destruct x as [v|e]; destruct (f_src F); reflexivity.
    + destruct (f_src F); reflexivity.
  - destruct (nth_error (streams (st_store G)) (f_dst F)) as [d|]; [|reflexivity].
    destruct (stream_send d x) as [[| | |] d']; try reflexivity.
    + destruct x as [v|e]; destruct (f_src F); reflexivity.
    + destruct x as [v|e]; destruct (f_src F); reflexivity.
  - destruct (f_src F); reflexivity.
  - reflexivity.
Qed.

(* Recv on a converted reader in the model is the generated loop iteration applied to what the
   source returned: return what it returns, or go round again *)
Theorem conv_recv_is_gen : forall fuel st g src cin cout ch, conv_ok g ->
  recv (S fuel) st (RConv (cfun_of_go g) src cin cout) ch =
  let '(r, st1, src1, ch1) := recv fuel st src ch in
  match pair_of_pres r with
  | None => (r, st1, RConv (cfun_of_go g) src1 cin cout, ch1)          (* the source blocks *)
  | Some p =>
    match G.conv_recv_iter g p, r with
    | Some q, PItem x =>
        match see q with
        | SeenItem y => (PItem y, st1, RConv (cfun_of_go g) src1 (cin ++ [x]) (cout ++ [y]), ch1)
        | _ => (PBad, st1, RConv (cfun_of_go g) src1 cin cout, ch1)
        end
    | None, PItem x => recv fuel st1 (RConv (cfun_of_go g) src1 (cin ++ [x]) cout) ch1
    | Some q, _ =>
        match see q with
        | SeenEOF => (PEOF, st1, RConv (cfun_of_go g) src1 cin cout, ch1)
        | _ => (PBad, st1, RConv (cfun_of_go g) src1 cin cout, ch1)
        end
    | None, _ => (PBad, st1, RConv (cfun_of_go g) src1 cin cout, ch1)
    end
  end.
Proof.
  intros fuel st g src cin cout ch Hg. cbn [recv].
  destruct (recv fuel st src ch) as [[[r st1] src1] ch1].
  destruct r as [x| | | |]; cbn [pair_of_pres]; try reflexivity.
  pose proof (gen_conv_recv_iter_agrees g x Hg) as H.
  destruct (G.conv_recv_iter g (pair_of_item x)) as [q|]; destruct (conv_item (cfun_of_go g) x) as [y|]; simpl in H; try discriminate.
  - inversion H as [H1]. rewrite H1. reflexivity.
  - reflexivity.
Qed.

(* ------------------------------------------------------------------ dispatch of the public methods *)

Theorem gen_recv_dispatch_agrees : G.recv_dispatch = recv_dispatch_model.
Proof. reflexivity. Qed.
Theorem gen_close_dispatch_agrees : G.close_dispatch = close_dispatch_model.
Proof. reflexivity. Qed.
Theorem gen_copy_self_cond_agrees : G.copy_self_cond = copy_self_cond_model.
Proof. reflexivity. Qed.

(* ------------------------------------------------------------------ stream.send *)

(* the select statements of stream.send, with Go's meaning ([run_selects]: any ready case may be
   chosen), are [stream_send] — whatever the choices.  Without the non-blocking first select the
   result would depend on the choice when the receive side is closed and the buffer has room. *)
Theorem gen_send_agrees : forall s x chs, run_selects s x G.send_selects chs = stream_send s x.
Proof.
  intros s x chs. unfold G.send_selects, stream_send. cbn [run_selects]. unfold run_select.
  cbn [filter case_ready existsb is_default orb].
  destruct (Nat.ltb 0 (s_rclosed s)) eqn:E1.
  - cbn [List.length nth]. rewrite Nat.mod_1_r. reflexivity.
  - cbn [List.length nth hd tl]. destruct (s_sclosed s) eqn:E2; cbn [orb].
    + cbn [List.length nth]. rewrite Nat.mod_1_r. reflexivity.
    + destruct (Nat.ltb (List.length (s_buf s)) (eff_cap (s_cap s))) eqn:E3.
      * cbn [List.length nth]. rewrite Nat.mod_1_r. reflexivity.
      * reflexivity.
Qed.

Theorem gen_stream_prims_agree :
  G.recv_shape = recv_shape_model /\ G.close_send = close_send_model /\ G.close_recv = close_recv_model.
Proof. repeat split; reflexivity. Qed.

(* ------------------------------------------------------------------ parentStreamReader.peek *)

Lemma abs_from_length : forall items k eof, List.length (abs_from k items eof) = S (List.length items).
Proof. induction items as [|x r IH]; intros k eof; simpl; auto. Qed.

Lemma abs_from_nth_item : forall items k eof c x, nth_error items c = Some x ->
  nth c (abs_from k items eof) ge_empty = mkGe true (pair_of_item x) (Some (S (k + c))).
Proof.
  induction items as [|y r IH]; intros k eof [|c] x H; simpl in *; try discriminate.
  - inversion H; subst. rewrite Nat.add_0_r. reflexivity.
  - rewrite (IH (S k) eof c x H). do 3 f_equal. lia.
Qed.

Lemma abs_from_nth_tail : forall items k eof,
  nth (List.length items) (abs_from k items eof) ge_empty = if eof then mkGe true eof_pair None else ge_empty.
Proof. induction items as [|y r IH]; intros k eof; simpl; auto. Qed.

Lemma abs_from_snoc : forall items k x,
  abs_from k (items ++ [x]) false =
  upd (abs_from k items false ++ [ge_empty]) (List.length items) (mkGe true (pair_of_item x) (Some (S (k + List.length items)))).
Proof.
  induction items as [|y r IH]; intros k x; simpl.
  - rewrite Nat.add_0_r. reflexivity.
  - f_equal. rewrite IH. do 4 f_equal. lia.
Qed.

Lemma abs_from_eof : forall items k,
  upd (abs_from k items false) (List.length items) (mkGe true eof_pair None) = abs_from k items true.
Proof. induction items as [|y r IH]; intros k; simpl; auto. f_equal. apply IH. Qed.

Lemma upd_upd_same : forall A (l : list A) i a b, upd (upd l i a) i b = upd l i b.
Proof. induction l as [|x l IH]; intros [|i] a b; simpl; auto. f_equal. apply IH. Qed.

Lemma nth_upd_same : forall A (l : list A) i a d, i < List.length l -> nth i (upd l i a) d = a.
Proof. induction l as [|x l IH]; intros [|i] a d H; simpl in *; try lia; auto. apply IH. lia. Qed.

Lemma upd_app_l : forall A (l r : list A) i a, i < List.length l -> upd (l ++ r) i a = upd l i a ++ r.
Proof. induction l as [|x l IH]; intros r [|i] a H; simpl in *; try lia; auto. f_equal. apply IH. lia. Qed.

Lemma item_not_eof : forall x, goerr_eqb (snd (pair_of_item x)) EEOF = false.
Proof. intros [v|e]; reflexivity. Qed.

Lemma pair_eta : forall x : gopair, (fst x, snd x) = x.
Proof. intros [a b]; reflexivity. Qed.

Ltac len := repeat (rewrite upd_length || rewrite app_length || rewrite abs_from_length); cbn [List.length]; lia.
Ltac heap := repeat (first [ rewrite upd_app_l by len | rewrite upd_upd_same | rewrite app_nth1 by len | rewrite nth_upd_same by len ]).

(* peek on the heap picture of the model's parent is the copy branch of [recv] *)
Theorem gen_parent_peek_agrees : forall P i srcp,
  match nth_error (p_cur P) i with
  | Some None => G.parent_peek (abs_parent P) i srcp = ((0%N, ERecvAfterClosed), abs_parent P, false)
  | Some (Some c) => c <= List.length (p_items P) ->
      match nth_error (p_items P) c with
      | Some x => G.parent_peek (abs_parent P) i srcp = (pair_of_item x, abs_parent (deliver P i c x), false)
      | None =>
          if p_eof P then G.parent_peek (abs_parent P) i srcp = (eof_pair, abs_parent P, false)
          else (forall x, srcp = pair_of_item x ->
                  G.parent_peek (abs_parent P) i srcp = (pair_of_item x, abs_parent (deliver (pulled_item P x) i c x), true))
               /\ (srcp = eof_pair -> G.parent_peek (abs_parent P) i srcp = (eof_pair, abs_parent (pulled_eof P), true))
      end
  | None => True
  end.
Proof.
  intros P i srcp. destruct (nth_error (p_cur P) i) as [[c|]|] eqn:Ec; auto.
  - intros Hc. unfold G.parent_peek. cbv zeta.
    assert (Hidx : go_index None (gp_sub (abs_parent P)) i = Some c).
    { unfold go_index. simpl. apply nth_error_nth. exact Ec. }
    rewrite Hidx. cbn [go_isnil].
    destruct (nth_error (p_items P) c) as [x|] eqn:Ex.
    + (* the element is filled *)
      assert (Hd : deref (abs_parent P) (Some c) = mkGe true (pair_of_item x) (Some (S c))).
      { unfold deref, abs_parent. cbn [gp_elems]. rewrite (abs_from_nth_item _ 0 _ c x Ex). reflexivity. }
      rewrite Hd. cbn [ge_done ge_item ge_next]. rewrite item_not_eof. cbn [negb]. rewrite pair_eta. reflexivity.
    + apply nth_error_None in Ex. assert (c = List.length (p_items P)) by lia. subst c.
      destruct (p_eof P) eqn:Ee.
      * assert (Hd : deref (abs_parent P) (Some (List.length (p_items P))) = mkGe true eof_pair None).
        { unfold deref, abs_parent. cbn [gp_elems]. rewrite abs_from_nth_tail, Ee. reflexivity. }
        rewrite Hd. reflexivity.
      * assert (Hd : deref (abs_parent P) (Some (List.length (p_items P))) = ge_empty).
        { unfold deref, abs_parent. cbn [gp_elems]. rewrite abs_from_nth_tail, Ee. reflexivity. }
        rewrite Hd. cbn [ge_done ge_empty].
        assert (Hlen : List.length (p_items P) < List.length (abs_from 0 (p_items P) false)) by (rewrite abs_from_length; lia).
        split.
        -- intros x ->. destruct (pair_of_item x) as [t e] eqn:Ep.
           assert (He : goerr_eqb e EEOF = false) by (pose proof (item_not_eof x) as Q; rewrite Ep in Q; exact Q).
           rewrite He. cbn [negb].
           unfold ge_set_item, ge_set_next_new, ge_mark_done, set_ge, set_gp_sub, deref, abs_parent.
           cbn [gp_elems gp_sub]. rewrite Ee. rewrite abs_from_nth_tail.
           repeat (heap; cbn [ge_done ge_item ge_next ge_empty fst snd gp_elems gp_sub]).
           rewrite He. cbn [negb].
           repeat (heap; cbn [ge_done ge_item ge_next ge_empty fst snd gp_elems gp_sub]).
           unfold deliver, pulled_item. cbn [p_items p_eof p_cur]. rewrite Ee.
           rewrite abs_from_snoc. heap. rewrite upd_length, abs_from_length. rewrite <- Ep.
           replace (0 + List.length (p_items P)) with (List.length (p_items P)) by lia. reflexivity.
        -- intros ->. unfold eof_pair. cbn [goerr_eqb negb].
           unfold ge_set_item, ge_mark_done, set_ge, deref, abs_parent.
           cbn [gp_elems gp_sub]. rewrite Ee. rewrite abs_from_nth_tail.
           repeat (heap; cbn [ge_done ge_item ge_next ge_empty fst snd gp_elems gp_sub goerr_eqb negb]).
           unfold pulled_eof. cbn [p_items p_eof p_cur].
           rewrite abs_from_eof. reflexivity.
  - unfold G.parent_peek. cbv zeta. unfold go_index. simpl gp_sub.
    rewrite (nth_error_nth _ _ None Ec). reflexivity.
Qed.

(* what a reader that is handed the pair sees, as a result of the model's recv *)
Definition pres_of_pair (p : gopair) : pres :=
  match see p with SeenItem x => PItem x | SeenEOF => PEOF | SeenOther => PBad end.

Lemma pres_of_pair_item : forall x, pres_of_pair (pair_of_item x) = PItem x.
Proof. intros [v|e]; reflexivity. Qed.

(* Recv on a copy in the model is the generated peek on the heap picture of its parent: the
   source is consulted exactly when the generated code calls it ([pulled]), the result is what
   the generated code returns, and the heap picture of the model's new parent record is the
   heap the generated code leaves *)
Theorem child_recv_is_gen : forall fuel st p i P c ch,
  nth_error (parents st) p = Some P -> nth_error (p_cur P) i = Some (Some c) -> c <= List.length (p_items P) ->
  let '(r0, gp0, pulled0) := G.parent_peek (abs_parent P) i eof_pair in
  if pulled0 then
    let '(r, st1, src1, ch1) := recv fuel st (p_src P) ch in
    match pair_of_pres r with
    | Some sp =>
        let '(res, gp1, _) := G.parent_peek (abs_parent P) i sp in
        exists P1, recv (S fuel) st (RChild p i) ch = (pres_of_pair res, set_parent st1 p P1, RChild p i, ch1)
                   /\ abs_parent P1 = gp1 /\ p_src P1 = src1
    | None => recv (S fuel) st (RChild p i) ch = (r, set_parent st1 p (with_src P src1), RChild p i, ch1)
    end
  else
    exists P1, recv (S fuel) st (RChild p i) ch = (pres_of_pair r0, set_parent st p P1, RChild p i, ch)
               /\ abs_parent P1 = gp0.
Proof.
  intros fuel st p i P c ch HP Hc Hle.
  pose proof (gen_parent_peek_agrees P i eof_pair) as A0. rewrite Hc in A0. specialize (A0 Hle).
  cbn [recv]. rewrite HP, Hc.
  destruct (nth_error (p_items P) c) as [x|] eqn:Ex.
  - rewrite A0. exists (deliver P i c x). rewrite pres_of_pair_item. auto.
  - destruct (p_eof P) eqn:Ee.
    + rewrite A0. exists (mark_eof P i). split; [reflexivity|]. unfold abs_parent, mark_eof. reflexivity.
    + destruct A0 as [_ A0]. rewrite (A0 eq_refl).
      destruct (recv fuel st (p_src P) ch) as [[[r st1] src1] ch1].
      pose proof (gen_parent_peek_agrees P i) as A. 
      destruct r as [x| | | |]; cbn [pair_of_pres]; try reflexivity.
      * specialize (A (pair_of_item x)). rewrite Hc in A. specialize (A Hle). rewrite Ex, Ee in A.
        destruct A as [A _]. rewrite (A x eq_refl).
        exists (deliver (pulled_item (with_src P src1) x) i c x). rewrite pres_of_pair_item.
        split; [reflexivity|]. split; reflexivity.
      * specialize (A eof_pair). rewrite Hc in A. specialize (A Hle). rewrite Ex, Ee in A.
        destruct A as [_ A]. rewrite (A eq_refl).
        exists (mark_eof (pulled_eof (with_src P src1)) i). split; [reflexivity|]. split; reflexivity.
Qed.

(* ------------------------------------------------------------------ MergeStreamReaders *)

Definition merge_step (acc : macc) (sr : rd) : macc :=
  match rd_typ sr with
  | TStream => set_m_ss acc ((m_ss acc) ++ [(rd_st sr)])
  | TArray => set_m_arr acc ((m_arr acc) ++ (go_slice_from (rd_arr sr) (rd_index sr)))
  | TMulti => set_m_ss acc ((m_ss acc) ++ (rd_sts sr))
  | TConv => let '(acc, s) := to_stream G.conv_fwd_cap acc sr in set_m_ss acc ((m_ss acc) ++ [s])
  | TChild => let '(acc, s) := to_stream G.child_fwd_cap acc sr in set_m_ss acc ((m_ss acc) ++ [s])
  end.

Lemma merge_fold_collect : forall ts st fw ss arr,
  fold_left merge_step ts (mkMacc st fw ss arr) =
  let '(st1, fw1, ss1, arr1) := merge_collect st fw ts ss arr in mkMacc st1 fw1 ss1 arr1.
Proof.
  induction ts as [|t ts IH]; intros st fw ss arr; [reflexivity|].
  cbn [fold_left merge_collect].
  destruct t as [d rest | s | sts ch | f src cin cout | p i]; unfold merge_step; cbn [rd_typ];
    unfold set_m_ss, set_m_arr, to_stream, rd_st, rd_arr, rd_index, rd_sts, go_slice_from;
    cbn [m_st m_fw m_ss m_arr skipn]; apply IH.
Qed.

Lemma nth_error_app_last : forall A (l : list A) a, nth_error (l ++ [a]) (List.length l) = Some a.
Proof. induction l as [|x l IH]; intros a; simpl; auto. Qed.

Lemma upd_app_last : forall A (l : list A) a b, upd (l ++ [a]) (List.length l) b = l ++ [b].
Proof. induction l as [|x l IH]; intros a b; simpl; auto. f_equal. apply IH. Qed.

Lemma upd_same_nth : forall A (l : list A) i a, nth_error l i = Some a -> upd l i a = l.
Proof. induction l as [|x l IH]; intros [|i] a H; simpl in *; try discriminate; [congruence | f_equal; auto]. Qed.

Lemma upd_upd_eq : forall A (l : list A) i a b, upd (upd l i a) i b = upd l i b.
Proof. induction l as [|x l IH]; intros [|i] a b; simpl; auto. f_equal. apply IH. Qed.

Lemma nth_error_upd_same : forall A (l : list A) i a, i < List.length l -> nth_error (upd l i a) i = Some a.
Proof. induction l as [|x l IH]; intros [|i] a H; simpl in *; try lia; auto. apply IH. lia. Qed.

(* filling the stream that Merge builds from its array arguments, item by item *)
Lemma fill_array_stream : forall rest pre st fw ss arr0 sid cap,
  arr0 = pre ++ rest -> List.length arr0 <= eff_cap cap ->
  nth_error (streams st) sid = Some (mkS cap (map IVal pre) false 0 false (map IVal pre) []) ->
  fold_left (fun acc i => stream_send_in acc sid ((go_index 0%N (m_arr acc) i), ENil))
            (seq (List.length pre) (List.length rest)) (mkMacc st fw ss arr0)
  = mkMacc (set_stream st sid (mkS cap (map IVal arr0) false 0 false (map IVal arr0) [])) fw ss arr0.
Proof.
  induction rest as [|x r IH]; intros pre st fw ss arr0 sid cap Harr Hcap Hs.
  - rewrite app_nil_r in Harr. subst arr0. simpl. f_equal. unfold set_stream. destruct st as [sl pl]. simpl in *.
    rewrite (upd_same_nth _ _ _ _ Hs). reflexivity.
  - cbn [List.length seq fold_left]. unfold stream_send_in at 2. cbn [m_st m_fw m_ss m_arr]. rewrite Hs.
    assert (Hx : go_index 0%N arr0 (List.length pre) = x).
    { unfold go_index. subst arr0. rewrite app_nth2 by lia. rewrite Nat.sub_diag. reflexivity. }
    rewrite Hx. cbn [see].
    assert (Hlt : List.length pre < eff_cap cap).
    { subst arr0. rewrite app_length in Hcap. simpl in Hcap. lia. }
    unfold stream_send. cbn [s_rclosed s_sclosed s_buf s_cap s_user s_sent s_deliv].
    change (Nat.ltb 0 0) with false. cbv iota. rewrite map_length. rewrite (proj2 (Nat.ltb_lt _ _) Hlt). cbn [snd].
    specialize (IH (pre ++ [x]) (set_stream st sid (mkS cap (map IVal pre ++ [IVal x]) false 0 false (map IVal pre ++ [IVal x]) [])) fw ss arr0 sid cap).
    rewrite app_length in IH. cbn [List.length] in IH. replace (List.length pre + 1) with (S (List.length pre)) in IH by lia.
    rewrite IH.
    + f_equal. unfold set_stream. cbn [streams parents]. rewrite upd_upd_eq. reflexivity.
    + rewrite <- app_assoc. exact Harr.
    + exact Hcap.
    + unfold set_stream. cbn [streams]. rewrite map_app. cbn [map].
      apply nth_error_upd_same. apply nth_error_Some. congruence.
Qed.

Lemma close_send_in_set : forall st sid s fw ss arr, sid < List.length (streams st) ->
  close_send_in (mkMacc (set_stream st sid s) fw ss arr) sid
  = mkMacc (set_stream st sid (snd (stream_close_send s))) fw ss arr.
Proof.
  intros st sid s fw ss arr H. unfold close_send_in. cbn [m_st m_fw m_ss m_arr].
  unfold set_stream at 1. cbn [streams]. rewrite nth_error_upd_same by exact H.
  f_equal. unfold set_stream. cbn [streams parents]. rewrite upd_upd_eq. reflexivity.
Qed.

(* MergeStreamReaders on at least two readers is the model's OMerge: the loop is [merge_collect],
   then an array reader, or a merged reader over the collected streams (plus, if there were
   array arguments, a stream filled with their items and send-closed: [array_stream]) *)
Theorem gen_merge_agrees : forall ts st fw, 2 <= List.length ts ->
  G.merge_readers ts (mkMacc st fw [] []) =
  let '(st1, fw1, ss, arr) := merge_collect st fw ts [] [] in
  match ss, arr with
  | [], _ :: _ => (Some (RArr [] arr), mkMacc st1 fw1 ss arr)
  | _, _ :: _ =>
      let sid := List.length (streams st1) in
      (Some (RMul (ss ++ [sid]) (seq 0 (List.length (ss ++ [sid])))),
       mkMacc (add_stream st1 (array_stream arr)) fw1 (ss ++ [sid]) arr)
  | _, [] => (Some (RMul ss (seq 0 (List.length ss))), mkMacc st1 fw1 ss arr)
  end.
Proof.
  intros ts st fw Hlen. unfold G.merge_readers.
  rewrite (proj2 (Nat.ltb_ge _ _)) by lia. rewrite (proj2 (Nat.ltb_ge _ _)) by lia.
  change (fold_left _ ts (mkMacc st fw [] [])) with (fold_left merge_step ts (mkMacc st fw [] [])).
  rewrite merge_fold_collect. destruct (merge_collect st fw ts [] []) as [[[st1 fw1] ss] arr].
  cbv zeta. cbn [m_ss m_arr m_st m_fw].
  destruct ss as [|s0 ss]; destruct arr as [|x0 arr];
    repeat (change (Nat.eqb (@List.length nat []) 0) with true || change (Nat.eqb (@List.length N []) 0) with true
            || change (Nat.eqb (List.length (s0 :: ss)) 0) with false || change (Nat.eqb (List.length (x0 :: arr)) 0) with false);
    cbn [negb andb].
  - rewrite gen_msr_new_agrees. reflexivity.
  - reflexivity.
  - rewrite gen_msr_new_agrees. reflexivity.
  - unfold new_stream_in. cbn [m_ss m_arr m_st m_fw].
    set (arr0 := x0 :: arr).
    pose proof (fill_array_stream arr0 [] (add_stream st1 (new_stream (List.length arr0) false)) fw1 (s0 :: ss) arr0
                  (List.length (streams st1)) (List.length arr0) eq_refl) as HF.
    change (List.length (@nil N)) with 0 in HF. cbn [map app] in HF.
    rewrite HF.
    + rewrite close_send_in_set by (unfold add_stream; cbn [streams]; rewrite app_length; simpl; lia).
      unfold stream_close_send. cbn [s_sclosed snd s_cap s_buf s_rclosed s_user s_sent s_deliv].
      unfold set_m_ss. cbn [m_ss m_arr m_st m_fw]. rewrite gen_msr_new_agrees. unfold mk_multi_reader. cbn [msr_sts msr_chosenList].
      f_equal. f_equal. unfold set_stream, add_stream. cbn [streams parents]. rewrite upd_app_last.
      reflexivity.
    + unfold eff_cap. lia.
    + unfold add_stream. cbn [streams]. apply nth_error_app_last.
Qed.

Theorem gen_merge_small : forall acc t,
  G.merge_readers [] acc = (None, acc) /\ G.merge_readers [t] acc = (Some t, acc).
Proof. intros; split; reflexivity. Qed.

Lemma live_rds_length : forall G hs ts, live_rds G hs = Some ts -> List.length ts = List.length hs.
Proof.
  intros G. induction hs as [|h r IH]; intros ts H; simpl in H.
  - inversion H. reflexivity.
  - destruct (live_rd G h); [|discriminate]. destruct (live_rds G r) as [ts'|]; [|discriminate].
    inversion H; subst. simpl. f_equal. apply IH. reflexivity.
Qed.

(* OMerge of the model on at least two distinct live handles is the generated function applied to
   their readers: the new handle holds the reader it returns, the store and the forwarders are the
   ones it leaves *)
Theorem omerge_is_gen : forall fuel G hs ts, 2 <= List.length hs -> nodupb hs = true -> live_rds G hs = Some ts ->
  do_op fuel G (OMerge hs) =
  let S1 := consume_all G hs in
  let '(r, acc) := G.merge_readers ts (mkMacc (st_store S1) (st_fwds S1) [] []) in
  match r with
  | Some t => (BNew [List.length (st_handles S1)],
               mkState (m_st acc) (m_fw acc) (st_handles S1 ++ [mkH t true false [] false]))
  | None => (BIllegal, G)
  end.
Proof.
  intros fuel G hs ts Hlen Hnd Hlive.
  assert (Hts : 2 <= List.length ts) by (rewrite (live_rds_length _ _ _ Hlive); exact Hlen).
  destruct hs as [|h0 [|h1 hs']]; [simpl in Hlen; lia | simpl in Hlen; lia |].
  cbv zeta. rewrite (gen_merge_agrees ts _ _ Hts).
  unfold do_op. rewrite Hnd. cbn [negb]. rewrite Hlive.
  destruct (merge_collect (st_store (consume_all G (h0 :: h1 :: hs'))) (st_fwds (consume_all G (h0 :: h1 :: hs'))) ts [] []) as [[[st1 fw1] ss] arr].
  destruct ss as [|s0 ss]; destruct arr as [|x0 arr]; reflexivity.
Qed.
