(* Proofs/GenAgreeStreamCode.v — property C08: the functions tools/go2v translated statement by
   statement from schema/stream.go (Gen/StreamCode.v, extractor "streamcode") are the operations
   of Model/Stream.v that the C08 theorems are about. *)
From Eino Require Import Base.Util Model.Stream Model.StreamGenLib.
From Eino Require Gen.StreamCode.
From Coq Require Import Lia.
Module G := Gen.StreamCode.

(* ------------------------------------------------------------------ list facts *)

Lemma firstn_S_upd : forall A (l : list A) a v, a < List.length l -> firstn (S a) (upd l a v) = firstn a l ++ [v].
Proof.
  induction l as [|x l IH]; intros [|a] v H; simpl in *; try lia; auto.
  f_equal. apply IH. lia.
Qed.

Lemma upd_length : forall A (l : list A) i v, List.length (upd l i v) = List.length l.
Proof. induction l as [|x l IH]; intros [|i] v; simpl; auto. Qed.

Lemma fold_upd_seq : forall A (f : nat -> A) n a (l : list A), List.length l = a + n ->
  fold_left (fun l i => upd l i (f i)) (seq a n) l = firstn a l ++ map f (seq a n).
Proof.
  induction n as [|n IH]; intros a l Hl; simpl.
  - rewrite app_nil_r. symmetry. apply firstn_all2. lia.
  - rewrite IH by (rewrite upd_length; lia). rewrite firstn_S_upd by lia. rewrite <- app_assoc. reflexivity.
Qed.

Lemma fold_upd_seq_repeat : forall A (f : nat -> A) d n,
  fold_left (fun l i => upd l i (f i)) (seq 0 n) (repeat d n) = map f (seq 0 n).
Proof. intros. rewrite fold_upd_seq by (rewrite repeat_length; lia). reflexivity. Qed.

Lemma map_const_seq : forall A (c : A) n a, map (fun _ => c) (seq a n) = repeat c n.
Proof. induction n as [|n IH]; intros a; simpl; auto. f_equal. apply IH. Qed.

Lemma map_id_seq : forall n a, map (fun i => i) (seq a n) = seq a n.
Proof. intros. apply map_id. Qed.

Lemma skipn_nth_cons : forall A (d : A) l i, i < List.length l -> skipn i l = nth i l d :: skipn (S i) l.
Proof.
  induction l as [|x l IH]; intros [|i] H; simpl in *; try lia; auto. apply IH. lia.
Qed.

(* comparisons of the generated code are decided from the hypotheses, whichever way round the
   source writes them (a test and its inverse with the branches swapped translate to different
   but equal terms) *)
Ltac decide_cmp := repeat match goal with
  | |- context[Nat.ltb ?a ?b] => first [rewrite (proj2 (Nat.ltb_lt a b)) by lia | rewrite (proj2 (Nat.ltb_ge a b)) by lia]
  | |- context[Nat.leb ?a ?b] => first [rewrite (proj2 (Nat.leb_le a b)) by lia | rewrite (proj2 (Nat.leb_gt a b)) by lia]
  | |- context[Nat.eqb ?a ?b] => first [rewrite (proj2 (Nat.eqb_eq a b)) by lia | rewrite (proj2 (Nat.eqb_neq a b)) by lia]
  end.

(* ------------------------------------------------------------------ arrayReader *)

(* the reader [RArr done rest] of the model is the Go object (arr, index) with rest = arr[index:] *)
Theorem gen_array_recv_agrees : forall fuel st done arr idx ch, idx <= List.length arr ->
  recv (S fuel) st (RArr done (skipn idx arr)) ch =
  match G.array_recv (mkArrd arr idx) with
  | ((v, ENil), ar') => (PItem (IVal v), st, RArr (done ++ [v]) (skipn (ar_index ar') (ar_arr ar')), ch)
  | ((_, EEOF), ar') => (PEOF, st, RArr done (skipn (ar_index ar') (ar_arr ar')), ch)
  | _ => (PBad, st, RArr done [], ch)
  end.
Proof.
  intros fuel st done arr idx ch Hle. unfold G.array_recv. cbn [ar_index ar_arr set_ar_index]. cbv zeta.
  destruct (Nat.lt_ge_cases idx (List.length arr)) as [E|E].
  - decide_cmp. cbn [recv ar_index ar_arr set_ar_index]. rewrite (skipn_nth_cons _ 0%N arr idx E). unfold go_index.
    replace (idx + 1) with (S idx) by lia. reflexivity.
  - decide_cmp. cbn [recv ar_index ar_arr set_ar_index]. rewrite skipn_all2 by lia. reflexivity.
Qed.

Theorem gen_array_copy_agrees : forall arr idx n,
  G.array_copy (mkArrd arr idx) n = repeat (mkArrd arr idx) n.
Proof.
  intros. unfold G.array_copy. simpl.
  rewrite (fold_upd_seq_repeat arrd (fun _ => mkArrd arr idx)). apply map_const_seq.
Qed.

(* OCopy on an array reader hands out n readers over the same remainder *)
Corollary gen_array_copy_readers : forall arr idx n,
  map (fun a => RArr [] (skipn (ar_index a) (ar_arr a))) (G.array_copy (mkArrd arr idx) n) = repeat (RArr [] (skipn idx arr)) n.
Proof. intros. rewrite gen_array_copy_agrees. induction n as [|n IH]; simpl; [reflexivity | f_equal; exact IH]. Qed.

(* ------------------------------------------------------------------ parentStreamReader.close *)

Lemma nth_nth_error_none : forall A (l : list (option A)) i, nth_error l i = Some None -> nth i l None = None.
Proof. intros A l i H. apply nth_error_nth with (d := @None A) in H. exact H. Qed.

Theorem gen_parent_close_agrees : forall P i ev,
  G.parent_close P i ev =
  match nth_error (p_cur P) i with
  | Some (Some _) =>
      let P1 := close_child P i in
      (P1, if Nat.eqb (p_closed P1) (List.length (p_cur P1)) then ev ++ [EvCloseSrc] else ev)
  | _ => (P, ev)         (* the nil of a closed child; an index out of range is a panic in Go *)
  end.
Proof.
  intros P i ev. unfold G.parent_close, go_index.
  destruct (nth_error (p_cur P) i) as [[c|]|] eqn:E.
  - rewrite (nth_error_nth _ _ None E). simpl go_isnil. cbv iota.
    unfold close_child, set_p_closed, set_p_cur. cbn [p_src p_items p_eof p_cur p_closed p_srcclosed p_pulls p_got p_sawEOF].
    replace (p_closed P + 1) with (S (p_closed P)) by lia.
    destruct (Nat.eq_dec (S (p_closed P)) (List.length (upd (p_cur P) i None))) as [Q|Q]; decide_cmp; reflexivity.
  - rewrite (nth_error_nth _ _ None E). reflexivity.
  - rewrite nth_overflow by (apply nth_error_None; exact E). reflexivity.
Qed.

(* Close of a copy in the model is: the generated close on the parent record, then — iff it
   logged the call — Close of the parent's source *)
Theorem close_child_is_gen : forall fuel st p i P, nth_error (parents st) p = Some P ->
  i < List.length (p_cur P) ->
  close_rd (S fuel) st (RChild p i) =
  let '(P1, ev) := G.parent_close P i [] in
  match ev with
  | [] => (ClOk, set_parent st p P1)
  | _ => close_rd fuel (set_parent st p (src_closed P1)) (p_src P)
  end.
Proof.
  intros fuel st p i P HP Hi. rewrite gen_parent_close_agrees. cbn [close_rd]. rewrite HP.
  destruct (nth_error (p_cur P) i) as [[c|]|] eqn:E.
  - cbv zeta. destruct (Nat.eqb (p_closed (close_child P i)) (List.length (p_cur (close_child P i)))); reflexivity.
  - unfold set_parent. destruct st as [ss ps]. simpl in *. f_equal. f_equal.
    clear -HP. revert p HP. induction ps as [|q ps IH]; intros [|p] H; simpl in *; try discriminate; [congruence|].
    f_equal. apply IH. exact H.
  - apply nth_error_None in E. lia.
Qed.

(* ------------------------------------------------------------------ multiStreamReader *)

Theorem gen_msr_new_agrees : forall sts, G.msr_new sts = mkMsrd sts (seq 0 (List.length sts)).
Proof.
  intros. unfold G.msr_new. f_equal.
  rewrite (fold_upd_seq_repeat nat (fun i => i)). apply map_id_seq.
Qed.

(* the loop that retires a finished source *)
Definition retire_body (chosen : nat) : msrd -> nat -> msrd * bool :=
  fun msr i =>
    if Nat.eqb (go_index 0 (msr_chosenList msr) i) chosen
    then (set_msr_chosenList msr (go_slice_to (msr_chosenList msr) i ++ go_slice_from (msr_chosenList msr) (i + 1)), true)
    else (msr, false).

Lemma range_brk_retire : forall chosen post pre sts,
  range_brk (seq (List.length pre) (List.length post)) (retire_body chosen) (mkMsrd sts (pre ++ post))
  = mkMsrd sts (pre ++ remove_nat chosen post).
Proof.
  intros chosen. induction post as [|y post IH]; intros pre sts.
  - reflexivity.
  - cbn [List.length seq range_brk remove_nat].
    unfold retire_body at 1. cbn [msr_chosenList]. unfold go_index. rewrite app_nth2 by lia. rewrite Nat.sub_diag. cbn [nth].
    rewrite (Nat.eqb_sym y chosen). destruct (Nat.eqb chosen y) eqn:E.
    + unfold set_msr_chosenList, go_slice_to, go_slice_from. cbn [msr_sts msr_chosenList]. f_equal.
      rewrite firstn_app, firstn_all, Nat.sub_diag. cbn [firstn]. rewrite app_nil_r. f_equal.
      rewrite skipn_app. rewrite skipn_all2 by lia. replace (List.length pre + 1 - List.length pre) with 1 by lia. reflexivity.
    + specialize (IH (pre ++ [y]) sts). rewrite app_length in IH. cbn [List.length] in IH.
      replace (List.length pre + 1) with (S (List.length pre)) in IH by lia.
      rewrite <- !app_assoc in IH. cbn [app] in IH. exact IH.
Qed.

Theorem gen_msr_retire_agrees : forall sts chosenList chosen,
  G.msr_retire (mkMsrd sts chosenList) chosen = mkMsrd sts (remove_nat chosen chosenList).
Proof.
  intros sts cl chosen. exact (range_brk_retire chosen cl [] sts).
Qed.

Definition closed_sids (ev : list event) : list nat :=
  flat_map (fun e => match e with EvCloseRecv s => [s] | _ => [] end) ev.

Theorem gen_msr_close_agrees : forall m ev, G.msr_close m ev = (m, ev ++ map EvCloseRecv (msr_sts m)).
Proof.
  intros [sts cl] ev. unfold G.msr_close. simpl. f_equal. revert ev.
  induction sts as [|s sts IH]; intros ev; simpl; [rewrite app_nil_r; reflexivity|].
  rewrite IH. rewrite <- app_assoc. reflexivity.
Qed.

(* Close of a merged reader in the model closes the receive side of exactly the streams the
   generated loop calls closeRecv on, in that order: all of [sts], whatever [chosenList] is *)
Theorem close_multi_is_gen : forall fuel st sts chosen,
  close_rd (S fuel) st (RMul sts chosen) = close_streams st (closed_sids (snd (G.msr_close (mkMsrd sts chosen) []))).
Proof.
  intros. rewrite gen_msr_close_agrees. simpl. f_equal.
  induction sts as [|s sts IH]; simpl; auto. f_equal. exact IH.
Qed.

(* ------------------------------------------------------------------ streamReaderWithConvert.recv *)

(* one iteration of the loop: [None] = the loop goes on (ErrNoValue) *)
Theorem gen_conv_recv_iter_agrees : forall g x, conv_ok g ->
  match G.conv_recv_iter g (pair_of_item x) with
  | Some p => Some (see p)
  | None => None
  end = option_map SeenItem (conv_item (cfun_of_go g) x).
Proof.
  intros g [v|e] Hg; unfold G.conv_recv_iter, pair_of_item, cfun_of_go; simpl; auto.
  specialize (Hg v). destruct (g v) as [t [| |w|e]]; simpl in *; auto; try congruence.
  destruct w; reflexivity.
Qed.

Theorem gen_conv_recv_iter_eof : forall g, G.conv_recv_iter g eof_pair = Some eof_pair.
Proof. reflexivity. Qed.

(* ------------------------------------------------------------------ toStream goroutines *)

Theorem gen_fwd_body_agrees : forall x cl ev,
  G.conv_fwd_body (pair_of_item x) cl ev = (ev ++ [EvSend (pair_of_item x)], cl)
  /\ G.child_fwd_body (pair_of_item x) cl ev = (ev ++ [EvSend (pair_of_item x)], cl).
Proof. intros [v|e] [|] ev; split; reflexivity. Qed.

Theorem gen_fwd_body_eof : forall cl ev,
  G.conv_fwd_body eof_pair cl ev = (ev, true) /\ G.child_fwd_body eof_pair cl ev = (ev, true).
Proof. intros; split; reflexivity. Qed.

Theorem gen_fwd_deferred_agrees : forall ev,
  G.conv_fwd_deferred ev = ev ++ [EvCloseSend; EvCloseSrc] /\ G.child_fwd_deferred ev = ev ++ [EvCloseSend; EvCloseSrc].
Proof. intros; unfold G.conv_fwd_deferred, G.child_fwd_deferred; rewrite <- !app_assoc; split; reflexivity. Qed.

Theorem gen_fwd_cap_agrees : G.conv_fwd_cap = 5 /\ G.child_fwd_cap = 5.
Proof. split; reflexivity. Qed.

(* The forwarder step of the model ([OFwd] of [do_op]) re-expressed with every decision taken by
   the generated loop body and deferred block: which events one iteration performs for a given
   result of recv (a send of what, or none), whether the loop is left, what the deferred block
   does first (closeSend) and then (close of the source).  [fwd_step_is_gen]: this IS the
   model's step — if the loop of toStream changes what it forwards or when it stops, the
   equality fails. *)
Definition body_of (t : rd) : gopair -> bool -> list event -> list event * bool :=
  match t with RChild _ _ => G.child_fwd_body | _ => G.conv_fwd_body end.
Definition deferred_of (t : rd) : list event -> list event :=
  match t with RChild _ _ => G.child_fwd_deferred | _ => G.conv_fwd_deferred end.
Definition pair_of_pres (r : pres) : option gopair :=
  match r with PItem x => Some (pair_of_item x) | PEOF => Some eof_pair | _ => None end.

Definition with_fwd (G : state) (st1 : store) (k : nat) (F : fwd) : state :=
  mkState st1 (upd (st_fwds G) k F) (st_handles G).

Definition do_close_send (G : state) (st1 : store) (k : nat) (F : fwd) (src1 : rd) (eof : bool) : obs * state :=
  match nth_error (streams st1) (f_dst F) with
  | None => (BIllegal, G)
  | Some d => let '(_, d') := stream_close_send d in
              (BStep, with_fwd G (set_stream st1 (f_dst F) d') k (mkF src1 (f_dst F) FClosing eof))
  end.

Definition fwd_step_gen (fuel : nat) (G : state) (k : nat) (ch : list nat) : obs * state :=
  match nth_error (st_fwds G) k with
  | None => (BIllegal, G)
  | Some F =>
    let body := body_of (f_src F) in
    let deferred := deferred_of (f_src F) [] in
    match f_st F with
    | FDone => (BStep, G)
    | FRecv =>
        let '(r, st1, src1, _) := recv fuel (st_store G) (f_src F) ch in
        match pair_of_pres r with
        | None => (BStep, with_fwd G st1 k (mkF src1 (f_dst F) FRecv (f_eof F)))
        | Some p =>
          match body p false [] with
          | ([EvSend q], _) =>
              match see q with
              | SeenItem y => (BStep, with_fwd G st1 k (mkF src1 (f_dst F) (FSend y) (f_eof F)))
              | _ => (BIllegal, G)
              end
          | ([], true) =>
              match deferred with
              | EvCloseSend :: _ => do_close_send G st1 k F src1 true
              | _ => (BIllegal, G)
              end
          | _ => (BIllegal, G)
          end
        end
    | FSend x =>
        match nth_error (streams (st_store G)) (f_dst F) with
        | None => (BIllegal, G)
        | Some d =>
          match stream_send d x with
          | (SOk, d') =>
              if snd (body (pair_of_item x) false [])
              then (BIllegal, G)
              else (BStep, with_fwd G (set_stream (st_store G) (f_dst F) d') k (mkF (f_src F) (f_dst F) FRecv (f_eof F)))
          | (SClosed, _) =>
              if snd (body (pair_of_item x) true [])
              then match deferred with
                   | EvCloseSend :: _ => do_close_send G (st_store G) k F (f_src F) (f_eof F)
                   | _ => (BIllegal, G)
                   end
              else (BIllegal, G)
          | (_, _) => (BStep, G)
          end
        end
    | FClosing =>
        match deferred with
        | [EvCloseSend; EvCloseSrc] =>
            let '(_, st1) := close_rd fuel (st_store G) (f_src F) in
            (BStep, with_fwd G st1 k (mkF (f_src F) (f_dst F) FDone (f_eof F)))
        | _ => (BIllegal, G)
        end
    end
  end.

Theorem fwd_step_is_gen : forall fuel G k ch, do_op fuel G (OFwd k ch) = fwd_step_gen fuel G k ch.
Proof.
  intros fuel G k ch. unfold fwd_step_gen, do_op, do_close_send, with_fwd.
  destruct (nth_error (st_fwds G) k) as [F|]; [|reflexivity].
  destruct (f_st F) as [|x| |].
  - destruct (recv fuel (st_store G) (f_src F) ch) as [[[r st1] src1] ch1].
    destruct r as [x| | | |]; cbn [pair_of_pres]; try reflexivity.
    + destruct x as [v|e]; destruct (f_src F); reflexivity.
    + destruct (f_src F); reflexivity.
  - destruct (nth_error (streams (st_store G)) (f_dst F)) as [d|]; [|reflexivity].
    destruct (stream_send d x) as [[| | |] d']; try reflexivity.
    + destruct x as [v|e]; destruct (f_src F); reflexivity.
    + destruct x as [v|e]; destruct (f_src F); reflexivity.
  - destruct (f_src F); reflexivity.
  - reflexivity.
Qed.

(* Recv on a converted reader in the model is the generated loop iteration applied to what the
   source returned: return what it returns, or go round again *)
Theorem conv_recv_is_gen : forall fuel st g src cin cout ch, conv_ok g ->
  recv (S fuel) st (RConv (cfun_of_go g) src cin cout) ch =
  let '(r, st1, src1, ch1) := recv fuel st src ch in
  match pair_of_pres r with
  | None => (r, st1, RConv (cfun_of_go g) src1 cin cout, ch1)          (* the source blocks *)
  | Some p =>
    match G.conv_recv_iter g p, r with
    | Some q, PItem x =>
        match see q with
        | SeenItem y => (PItem y, st1, RConv (cfun_of_go g) src1 (cin ++ [x]) (cout ++ [y]), ch1)
        | _ => (PBad, st1, RConv (cfun_of_go g) src1 cin cout, ch1)
        end
    | None, PItem x => recv fuel st1 (RConv (cfun_of_go g) src1 (cin ++ [x]) cout) ch1
    | Some q, _ =>
        match see q with
        | SeenEOF => (PEOF, st1, RConv (cfun_of_go g) src1 cin cout, ch1)
        | _ => (PBad, st1, RConv (cfun_of_go g) src1 cin cout, ch1)
        end
    | None, _ => (PBad, st1, RConv (cfun_of_go g) src1 cin cout, ch1)
    end
  end.
Proof.
  intros fuel st g src cin cout ch Hg. cbn [recv].
  destruct (recv fuel st src ch) as [[[r st1] src1] ch1].
  destruct r as [x| | | |]; cbn [pair_of_pres]; try reflexivity.
  pose proof (gen_conv_recv_iter_agrees g x Hg) as H.
  destruct (G.conv_recv_iter g (pair_of_item x)) as [q|]; destruct (conv_item (cfun_of_go g) x) as [y|]; simpl in H; try discriminate.
  - inversion H as [H1]. rewrite H1. reflexivity.
  - reflexivity.
Qed.

(* ------------------------------------------------------------------ dispatch of the public methods *)

Theorem gen_recv_dispatch_agrees : G.recv_dispatch = recv_dispatch_model.
Proof. reflexivity. Qed.
Theorem gen_close_dispatch_agrees : G.close_dispatch = close_dispatch_model.
Proof. reflexivity. Qed.
Theorem gen_copy_self_cond_agrees : G.copy_self_cond = copy_self_cond_model.
Proof. reflexivity. Qed.

(* ------------------------------------------------------------------ stream.send *)

(* the select statements of stream.send, with Go's meaning ([run_selects]: any ready case may be
   chosen), are [stream_send] — whatever the choices.  Without the non-blocking first select the
   result would depend on the choice when the receive side is closed and the buffer has room. *)
Theorem gen_send_agrees : forall s x chs, run_selects s x G.send_selects chs = stream_send s x.
Proof.
  intros s x chs. unfold G.send_selects, stream_send. cbn [run_selects]. unfold run_select.
  cbn [filter case_ready existsb is_default orb].
  destruct (Nat.ltb 0 (s_rclosed s)) eqn:E1.
  - cbn [List.length nth]. rewrite Nat.mod_1_r. reflexivity.
  - cbn [List.length nth hd tl]. destruct (s_sclosed s) eqn:E2; cbn [orb].
    + cbn [List.length nth]. rewrite Nat.mod_1_r. reflexivity.
    + destruct (Nat.ltb (List.length (s_buf s)) (eff_cap (s_cap s))) eqn:E3.
      * cbn [List.length nth]. rewrite Nat.mod_1_r. reflexivity.
      * reflexivity.
Qed.

Theorem gen_stream_prims_agree :
  G.recv_shape = recv_shape_model /\ G.close_send = close_send_model /\ G.close_recv = close_recv_model.
Proof. repeat split; reflexivity. Qed.
