(* Proofs/GenAgreeC07Run.v — property C07: the translated pieces of compose/graph.go put together.

   [xrun u] is the builder of Model/TypeBuilderGenLib.v (Section XBuilder) instantiated with the
   Gallina code tools/go2v translated from the source -- addNode, addEdgeWithMappings and addBranch as
   whole functions, the work-list loop of updateToValidateMap, the type-related checks of compile: the entry-loop body of updateToValidateMap
   (Gen/ValidateCode.v), the type handling and the end-node loop body of addBranch
   (Gen/BranchCode.v) and the option / state-handler checks of addNode (Gen/AddNodeCode.v); it runs
   on the builder state extended by the genericHelper of every node.  For every universe, every
   sequence of AddLambdaNode / AddPassthroughNode / AddEdge / AddBranch / Compile calls (valid or
   not) and every iteration order of the Go maps:
     - call by call it returns what the model's [run_ops] returns and leaves the model's builder
       state ([gen_run_ops_agrees]): the theorems of Props/C07.v, stated about [run_ops], are
       statements about the translated code;
     - in every reachable state the helper of every node is (its input type, its output type)
       ([helpers_follow_types]): whenever the code installs "the input converter of node e" on a
       may-assignable connection, or converts the result of an any-typed state handler of a
       passthrough node back with "the node's converter", that converter checks exactly the type
       the node has at that moment -- also for nodes whose type was inferred through any chain
       of passthrough nodes, forwards, backwards or from a branch. *)
From Eino Require Import Base.Util Model.Types Model.TypesGenLib Model.TypeBuilder Model.TypeBuilderGenLib.
From Eino Require Import Proofs.TypesBuilder Proofs.GenAgreeC07Validate Proofs.GenAgreeC07Branch Proofs.GenAgreeC07AddNode Proofs.GenAgreeC07Compile Proofs.GenAgreeC07AddEdge.
From Eino Require Gen.ValidateCode Gen.BranchCode Gen.AddNodeCode Gen.CompileCode Gen.AddEdgeCode.
Module V := Gen.ValidateCode.
Module B := Gen.BranchCode.
Module A := Gen.AddNodeCode.
Module C := Gen.CompileCode.
Module E := Gen.AddEdgeCode.
Arguments check_assignable : simpl never.

(* a node's input type is known iff its output type is: a lambda is declared with both, a
   passthrough node gets both at once *)
Definition known_together (st : gstate) : Prop :=
  forall p, In p (g_nodes st) -> (n_in (snd p) = None <-> n_out (snd p) = None).

Lemma known_together_nodes : forall st st', g_nodes st' = g_nodes st -> known_together st -> known_together st'.
Proof. intros st st' E K p Hp. rewrite E in Hp. exact (K p Hp). Qed.

Lemma In_map_node : forall k f l p, In p (map_node k f l) -> In p l \/ exists n, In (fst p, n) l /\ snd p = f n.
Proof.
  intros k f l; induction l as [|[k0 n0] l IH]; intros p H; simpl in H; [destruct H|].
  destruct (N.eqb k k0).
  - destruct H as [H|H]; [subst p; right; exists n0; split; [left; reflexivity | reflexivity] | left; right; exact H].
  - destruct H as [H|H]; [left; left; exact H|].
    destruct (IH p H) as [A|[n [A B]]]; [left; right; exact A | right; exists n; split; [right; exact A | exact B]].
Qed.

Lemma known_together_set_pass_ty : forall st k t, known_together st -> known_together (set_pass_ty st k t).
Proof.
  intros st k t K p Hp. unfold set_pass_ty in Hp. simpl in Hp.
  destruct (In_map_node _ _ _ _ Hp) as [A|[n [A B]]]; [exact (K p A)|].
  rewrite B. simpl. split; discriminate.
Qed.

Section KT.
  Variable u : univ.

  Lemma kt_process_entry : forall st s e st', known_together st -> process_entry u st s e = PDone st' -> known_together st'.
  Proof.
    intros st s e st' K. unfold process_entry, process_types.
    destruct (out_ty st s) as [a|]; destruct (in_ty st e) as [b|]; try discriminate.
    - destruct (check_assignable u (Some a) (Some b)); intro H; inversion H; subst; [exact K|].
      eapply known_together_nodes; [|exact K]. reflexivity.
    - intro H; inversion H; subst. apply known_together_set_pass_ty, K.
    - intro H; inversion H; subst. apply known_together_set_pass_ty, K.
  Qed.

  Lemma kt_pass : forall todo st st' kept ch, known_together st -> pass u st todo = Some (st', kept, ch) -> known_together st'.
  Proof.
    induction todo as [|[s e] rest IH]; intros st st' kept ch K H; simpl in H.
    - inversion H; subst; exact K.
    - destruct (process_entry u st s e) as [|st1|] eqn:P; [| |discriminate].
      + destruct (pass u st rest) as [[[a b] c]|] eqn:Q; [|discriminate]. inversion H; subst. eapply IH; eauto.
      + destruct (pass u st1 rest) as [[[a b] c]|] eqn:Q; [|discriminate]. inversion H; subst.
        eapply IH; [|exact Q]. eapply kt_process_entry; eauto.
  Qed.

  Lemma kt_update : forall fuel orc n st st', known_together st -> update u fuel orc n st = UOk st' -> known_together st'.
  Proof.
    induction fuel as [|f IH]; intros orc n st st' K H; simpl in H; [discriminate|].
    destruct (pass u st (group_order (orc n) (g_tvm st))) as [[[a b] c]|] eqn:P; [|discriminate].
    pose proof (kt_pass _ _ _ _ _ K P) as K1.
    assert (K2 : known_together (set_tvm a b)) by (eapply known_together_nodes; [|exact K1]; reflexivity).
    destruct c; [eapply IH; eauto | inversion H; subst; exact K2].
  Qed.

  Lemma kt_branch_ends : forall ends orc j st s st', known_together st ->
    branch_ends u false orc j st s ends = Some st' -> known_together st'.
  Proof.
    induction ends as [|e rest IH]; intros orc j st s st' K H; simpl in H.
    - inversion H; subst; exact K.
    - destruct (negb (has_node st e) && negb (N.eqb e kEND)); [discriminate|].
      unfold update_sel, update_tvm in H.
      destruct (update u _ (orc (S j)) 0 (set_tvm st (g_tvm st ++ [(s, e)]))) as [st1| |] eqn:U; try discriminate.
      eapply IH; [|exact H]. eapply known_together_nodes; [|eapply kt_update; [|exact U]]; [reflexivity|].
      eapply known_together_nodes; [|exact K]. reflexivity.
  Qed.

  Lemma kt_step : forall orc st o, known_together st -> known_together (fst (step u orc st o)).
  Proof.
    intros orc st o K. destruct o as [k i ot pre post | k pre post | s e | s t ends choice |]; unfold step, step_sel.
    - unfold add_node. repeat match goal with |- context [if ?c then _ else _] => destruct c end; simpl; auto;
        try (eapply known_together_nodes; [|exact K]; reflexivity).
      intros p Hp. simpl in Hp. apply in_app_or in Hp. destruct Hp as [Hp|[Hp|[]]]; [exact (K p Hp)|].
      subst p; simpl; split; discriminate.
    - unfold add_node. repeat match goal with |- context [if ?c then _ else _] => destruct c end; simpl; auto;
        try (eapply known_together_nodes; [|exact K]; reflexivity).
      intros p Hp. simpl in Hp. apply in_app_or in Hp. destruct Hp as [Hp|[Hp|[]]]; [exact (K p Hp)|].
      subst p; simpl; split; reflexivity.
    - unfold add_edge. repeat match goal with |- context [if ?c then _ else _] => destruct c end; simpl; auto;
        try (eapply known_together_nodes; [|exact K]; reflexivity).
      unfold update_sel, update_tvm.
      match goal with |- context [update u ?f ?o ?n ?x] => destruct (update u f o n x) as [st2| |] eqn:U end; simpl;
        try (eapply known_together_nodes; [|exact K]; reflexivity).
      eapply known_together_nodes; [|eapply kt_update; [|exact U]]; [reflexivity|].
      eapply known_together_nodes; [|exact K]. reflexivity.
    - unfold add_branch. repeat match goal with |- context [if ?c then _ else _] => destruct c end; simpl; auto;
        try (eapply known_together_nodes; [|exact K]; reflexivity).
      destruct (branch_pre u false false false (fun n => orc 0%nat (S n)) st s t) as [st1| |] eqn:BP; simpl;
        try (eapply known_together_nodes; [|exact K]; reflexivity).
      assert (K1 : known_together st1).
      { unfold branch_pre in BP. destruct (negb (N.eqb s kSTART) && is_pass st s && _) in BP.
        - unfold update_sel, update_tvm in BP. eapply kt_update; [|exact BP]. apply known_together_set_pass_ty, K.
        - inversion BP; subst; exact K. }
      destruct (check_assignable u (out_ty st1 s) (Some t)); simpl;
        try (eapply known_together_nodes; [|exact K]; reflexivity);
        (destruct (branch_ends u false orc 0 st1 s (order_keys (orc 0%nat 0%nat) ends)) as [st2|] eqn:BE; simpl;
         [eapply known_together_nodes; [|eapply kt_branch_ends; [exact K1 | exact BE]]; reflexivity
         | eapply known_together_nodes; [|exact K]; reflexivity]).
    - eapply known_together_nodes; [|exact K]. unfold compile.
      repeat match goal with
             | |- context [if ?c then _ else _] => destruct c
             | |- context [match ?l with [] => _ | _ :: _ => _ end] => destruct l
             end; reflexivity.
  Qed.
End KT.

Section Run.
  Variable u : univ.

  Definition xupd := x_upd (V.validate_entry u).
  Definition xstep := x_step (V.validate_entry u) (A.add_node u) E.add_edge (B.add_branch u) C.compile_checks.
  Definition xrun := x_run_ops (V.validate_entry u) (A.add_node u) E.add_edge (B.add_branch u) C.compile_checks.

  Lemma xupd_ok : forall orc, upd_ok u orc (xupd orc).
  Proof. intro orc. exact (upd_of_ok u orc). Qed.

  Lemma gh_inv_with : forall xs st, gh_inv xs ->
    g_in st = g_in (x_st xs) -> g_out st = g_out (x_st xs) -> g_nodes st = g_nodes (x_st xs) ->
    gh_inv (x_with xs st).
  Proof. intros xs st I A1 A2 A3. apply (gh_inv_frame xs); auto. Qed.

  Lemma gh_inv_err : forall xs, gh_inv xs -> gh_inv (x_err xs).
  Proof. intros xs I. apply gh_inv_with; auto. Qed.

  (* a new node with its declared types and the helper of its runnable *)
  Lemma gh_inv_push_node : forall xs k isp i o pre post,
    gh_inv xs -> has_node (x_st xs) k = false ->
    match i, o with Some _, Some _ | None, None => True | _, _ => False end ->
    gh_inv (x_push_node xs k isp i o pre post).
  Proof.
    intros xs k isp i o pre post I Hn Sh k'. destruct (I k') as [I1 I2].
    unfold V.get_node_generic_helper, x_graph_gh, x_node_gh, in_ty, out_ty, get_node, x_push_node in *. simpl.
    destruct (N.eqb k' kSTART); [split; assumption|]. destruct (N.eqb k' kEND); [split; assumption|].
    rewrite get_app_new, nlist_get_set.
    unfold has_node, get_node in Hn.
    destruct (N.eqb_spec k' k) as [E|E].
    - subst k'. destruct (nlist_get k (g_nodes (x_st xs))); [discriminate|].
      destruct i as [a|], o as [b|]; try destruct Sh; split; intros t H; inversion H; subst; reflexivity.
    - destruct (nlist_get k' (g_nodes (x_st xs))); split; auto; intros t H; discriminate.
  Qed.

  Lemma branch_upd_ok : forall (orc : nat -> nat -> list key),
    upd_ok u (fun n => orc 0%nat (S n)) (x_branch_upd (V.validate_entry u) orc 0%nat) /\
    forall j, upd_ok u (orc (S j)) (x_branch_upd (V.validate_entry u) orc (S j)).
  Proof. intro orc. split; [exact (xupd_ok _) | intro j; exact (xupd_ok _)]. Qed.

  Lemma xstep_agrees : forall orc xs o, gh_inv xs -> known_together (x_st xs) ->
    step u orc (x_st xs) o = (x_st (fst (xstep orc xs o)), snd (xstep orc xs o)) /\ gh_inv (fst (xstep orc xs o)).
  Proof.
    intros orc xs o I KT. destruct o as [k i ot pre post | k pre post | s e | s t ends choice |]; unfold xstep, step, step_sel, x_step.
    - (* AddLambdaNode *)
      unfold x_add_node. pose proof (gen_add_node_agrees u xs k false (Some i) (Some ot) pre post) as H.
      destruct (A.add_node u xs k false (Some i) (Some ot) pre post) as [xs'| | |]; simpl.
      + destruct H as [H1 [H2 H3]]. split; [exact H1|]. subst xs'. apply gh_inv_push_node; auto.
      + split; [exact H | exact I].
      + split; [exact H | apply gh_inv_err, I].
      + destruct H.
    - (* AddPassthroughNode *)
      unfold x_add_node. pose proof (gen_add_node_agrees u xs k true None None pre post) as H.
      destruct (A.add_node u xs k true None None pre post) as [xs'| | |]; simpl.
      + destruct H as [H1 [H2 H3]]. split; [exact H1|]. subst xs'. apply gh_inv_push_node; auto.
      + split; [exact H | exact I].
      + split; [exact H | apply gh_inv_err, I].
      + destruct H.
    - (* AddEdge *)
      unfold x_add_edge. fold (xupd (orc 0%nat)).
      pose proof (gen_add_edge_agrees u orc (xupd (orc 0%nat)) xs s e I (xupd_ok (orc 0%nat))) as H.
      destruct (E.add_edge (xupd (orc 0%nat)) xs s e false false) as [xs'| | |]; simpl.
      + destruct H as [H1 H2]. split; [exact H1 | exact H2].
      + split; [exact H | exact I].
      + split; [exact H | apply gh_inv_err, I].
      + destruct H.
    - (* AddBranch *)
      unfold x_add_branch. destruct (branch_upd_ok orc) as [U0 Uj].
      pose proof (gen_add_branch_agrees u orc (x_branch_upd (V.validate_entry u) orc) xs s t ends choice I U0 Uj) as H.
      destruct (B.add_branch u (x_branch_upd (V.validate_entry u) orc) xs s t ends (order_keys (orc 0%nat 0%nat) ends) choice false) as [xs'| | |]; simpl.
      + destruct H as [H1 H2]. split; [exact H1 | exact H2].
      + split; [exact H | exact I].
      + split; [exact H | apply gh_inv_err, I].
      + destruct H.
    - (* Compile *)
      unfold x_compile. destruct (g_err (x_st xs)) eqn:Er.
      + unfold compile. rewrite Er. split; [reflexivity | exact I].
      + rewrite (gen_compile_checks_agrees xs KT I Er). destruct (C.compile_checks xs); simpl.
        * split; [reflexivity | apply gh_inv_with; auto].
        * split; [reflexivity | exact I].
  Qed.

  (* the builder assembled from the translated code is the model's [run_ops], call by call, and the
     helpers stay in step with the types *)
  Theorem gen_run_ops_agrees : forall ops orcs i xs, gh_inv xs -> known_together (x_st xs) ->
    run_ops u orcs i (x_st xs) ops = (x_st (fst (xrun orcs i xs ops)), snd (xrun orcs i xs ops)) /\
    gh_inv (fst (xrun orcs i xs ops)).
  Proof.
    induction ops as [|o rest IH]; intros orcs i xs I KT; simpl.
    - split; [reflexivity | exact I].
    - destruct (xstep_agrees (orcs i) xs o I KT) as [S1 I1].
      pose proof (kt_step u (orcs i) (x_st xs) o KT) as KT1. rewrite S1 in KT1. simpl in KT1.
      unfold run_ops in *. simpl. fold (step u). rewrite S1.
      unfold xrun in *. simpl. fold xstep.
      destruct (xstep (orcs i) xs o) as [xs1 ok] eqn:X. simpl in *.
      destruct (IH orcs (S i) xs1 I1 KT1) as [R1 I2]. rewrite R1.
      destruct (x_run_ops (V.validate_entry u) (A.add_node u) E.add_edge (B.add_branch u) C.compile_checks orcs (S i) xs1 rest) as [xs2 oks].
      simpl. split; [reflexivity | exact I2].
  Qed.

  Definition x_init (i o : ty) (s : option N) : xstate := {| x_st := init_graph i o s; x_gh := [] |}.

  Lemma gh_inv_init : forall i o s, gh_inv (x_init i o s).
  Proof.
    intros i o s k. unfold V.get_node_generic_helper, x_graph_gh, x_node_gh, in_ty, out_ty, get_node. simpl.
    destruct (N.eqb k kSTART); [split; intros t H; inversion H; reflexivity|].
    destruct (N.eqb k kEND); [split; intros t H; inversion H; reflexivity|].
    split; intros t H; discriminate.
  Qed.

  (* from a new graph: the state the theorems of Props/C07.v speak about is the state the
     translated code computes, and in it every helper matches its node's types *)
  Theorem helpers_follow_types : forall orcs i o s ops st oks,
    run_ops u orcs 0 (init_graph i o s) ops = (st, oks) ->
    let xs := fst (xrun orcs 0 (x_init i o s) ops) in
    x_st xs = st /\ snd (xrun orcs 0 (x_init i o s) ops) = oks /\
    forall k,
      (forall t, in_ty st k = Some t -> gh_conv_in (V.get_node_generic_helper xs k) = Some t) /\
      (forall t, out_ty st k = Some t -> gh_conv_out (V.get_node_generic_helper xs k) = Some t).
  Proof.
    intros orcs i o s ops st oks R.
    assert (K0 : known_together (x_st (x_init i o s))) by (intros p []).
    destruct (gen_run_ops_agrees ops orcs 0%nat (x_init i o s) (gh_inv_init i o s) K0) as [A1 A2].
    change (x_st (x_init i o s)) with (init_graph i o s) in A1. rewrite R in A1. inversion A1; subst.
    split; [reflexivity|]. split; [reflexivity|]. exact A2.
  Qed.
End Run.

(* non-vacuity: START:T1 -> P -> n3 (I2 -> T1) -> Q, a T1 branch on Q to END / n3, P -> n5 (T2 -> T1) -> END.
   P is typed backwards from n3 (helper (I2, I2)), Q forwards (helper (T1, T1)); the may-assignable
   connection P:I2 -> n5:T2 gets the converter for T2, taken from n5's helper (T2, T1) *)
Example helpers_follow_types_example :
  let ops := [OpPass 2 None None; OpNode 3 (TIface 1) (TConc 0) None None; OpPass 4 None None;
              OpNode 5 (TConc 1) (TConc 0) None None;
              OpEdge 2 3; OpEdge 0 2; OpEdge 3 4; OpBranch 4 (TConc 0) [1; 3] [1]; OpEdge 2 5; OpEdge 5 1; OpCompile]%N in
  let r := xrun ex_u (fun _ _ _ => []) 0 (x_init (TConc 0) (TConc 0) None) ops in
  snd r = [true; true; true; true; true; true; true; true; true; true; true] /\
  x_node_gh (fst r) 2%N = gh_new (TIface 1) (TIface 1) /\
  x_node_gh (fst r) 4%N = gh_new (TConc 0) (TConc 0) /\
  x_node_gh (fst r) 5%N = gh_new (TConc 1) (TConc 0) /\
  g_hedge (x_st (fst r)) = [(2, 5, TConc 1)]%N /\ g_compiled (x_st (fst r)) = true.
Proof. vm_compute. repeat split. Qed.
