(* Proofs/ErrorsE2E.v — property C13, part 6: end to end, for every nesting depth.
   If, going down from the top graph through sub-graph nodes, every graph on the way reaches the
   stage of the next node (the stages before it are nodes that succeed, the step limit is not hit
   before), and the last node is a leaf whose task ends with a non-interrupt error r, then the
   public call (any paradigm) has, among its legal answers, an error that is r wrapped along
   exactly that path: its node path — read off the wrapper and printed in the message — is the
   path of the failing node.  Whatever the sibling nodes at every level do.
   Also: a well-nested forest never runs out of nesting fuel. *)
From Eino Require Import Base.Util Model.Errors Proofs.Errors Proofs.ErrorsRun Proofs.ErrorsMsg Proofs.ErrorsHandlers.

(* sub-graph indices point forward in the forest (how the harness flattens a nested case) *)
Definition forward (F : forest) : Prop :=
  forall i g st k gi, nth_error F i = Some g -> In st (g_stages g) -> In (NSub k gi) st ->
    (i < gi)%nat /\ (gi < List.length F)%nat.

(* the one combination of state handler and node the model leaves out (answer NFuel): a post-handler
   on a lazily transforming lambda, which makes the run loop itself read the node's input stream *)
Definition post_ok_node (n : node) : bool :=
  match n with NLam _ FT (BPostFail _) => false | _ => true end.
Definition post_ok (F : forest) : Prop :=
  forall i g st n, nth_error F i = Some g -> In st (g_stages g) -> In n st -> post_ok_node n = true.
Definition post_okb (F : forest) : bool :=
  forallb (fun g => forallb (forallb post_ok_node) (g_stages g)) F.

Lemma post_okb_sound : forall F, post_okb F = true -> post_ok F.
Proof.
  intros F H i g st n Hg Hst Hn. unfold post_okb in H. rewrite forallb_forall in H.
  specialize (H g (nth_error_In _ _ Hg)). rewrite forallb_forall in H. specialize (H st Hst).
  rewrite forallb_forall in H. apply H. exact Hn.
Qed.

Lemma with_post_not_fuel : forall stream items k f b, post_ok_node (NLam k f b) = true ->
  exec_lambda stream items f b <> NFuel ->
  with_post stream b (exec_lambda stream items f b) <> NFuel.
Proof.
  intros stream items k f b Hp Hnf. destruct b; cbn [with_post]; auto.
  destruct (exec_lambda stream items f (BPostFail e)) as [[|[e0|i] its] c|es|] eqn:Ex; try discriminate.
  - exfalso. unfold exec_lambda in Ex.
    destruct stream, f; cbn in Ex; try discriminate; try (destruct items; cbn in Ex; discriminate).
  - contradiction.
Qed.

Lemma exec_lambda_not_fuel : forall stream items f b, exec_lambda stream items f b <> NFuel.
Proof.
  intros stream items f b. unfold exec_lambda.
  destruct stream, f, b; cbn; try discriminate; destruct items; discriminate.
Qed.

Lemma exec_tools_not_fuel : forall stream items ts, exec_tools stream items ts <> NFuel.
Proof.
  intros stream items ts. unfold exec_tools. destruct ts as [|t0 ts']; [discriminate|].
  destruct (if stream then items else []); [|discriminate].
  destruct (tool0_panics stream t0); [discriminate|].
  destruct (negb stream); destruct (first_tool_error _ _ _); discriminate.
Qed.

Lemma is_leaf_exec : forall F stream rec items canc n, is_leaf n = true ->
  exec_node F stream rec items canc n = exec_leaf stream items n.
Proof. intros F stream rec items canc n H. destruct n; try discriminate; reflexivity. Qed.

Section Fuel.
  Variable F : forest.
  Variable stream : bool.

  Definition rec_no_fuel (rec : graph -> list item -> bool -> gres) (g : graph) : Prop :=
    forall st k gi g', In st (g_stages g) -> In (NSub k gi) st -> nth_error F gi = Some g' ->
      forall items canc, rec g' items canc <> GFuel.
  Definition subs_exist (g : graph) : Prop :=
    forall st k gi, In st (g_stages g) -> In (NSub k gi) st -> nth_error F gi <> None.

  Definition posts_ok (g : graph) : Prop :=
    forall st n, In st (g_stages g) -> In n st -> post_ok_node n = true.

  Lemma exec_node_no_fuel : forall rec g st n items canc,
    rec_no_fuel rec g -> subs_exist g -> posts_ok g -> In st (g_stages g) -> In n st ->
    exec_node F stream rec items canc n <> NFuel.
  Proof.
    intros rec g st n items canc Hrec Hsub Hpo Hst Hn. destruct n as [k f b|k gi|k ts]; cbn [exec_node].
    - apply (with_post_not_fuel stream items k); [exact (Hpo st _ Hst Hn)|apply exec_lambda_not_fuel].
    - destruct (nth_error F gi) as [g'|] eqn:Eg.
      + pose proof (Hrec st k gi g' Hst Hn Eg items canc) as Hr.
        destruct (rec g' items canc); try discriminate. contradiction.
      + exfalso. exact (Hsub st k gi Hst Hn Eg).
    - apply exec_tools_not_fuel.
  Qed.

  Lemma any_fuel_false : forall rec items canc st,
    (forall n, In n st -> exec_node F stream rec items canc n <> NFuel) ->
    any_fuel (map (fun n => (node_key n, exec_node F stream rec items canc n)) st) = false.
  Proof.
    intros rec items canc st. induction st as [|n st IH]; intros H; [reflexivity|].
    cbn [map any_fuel existsb snd]. fold (any_fuel (map (fun n => (node_key n, exec_node F stream rec items canc n)) st)).
    rewrite IH by (intros n' Hn'; apply H; right; exact Hn').
    specialize (H n (or_introl eq_refl)). destruct (exec_node F stream rec items canc n); try reflexivity. contradiction.
  Qed.

  Lemma stage_no_fuel : forall rec g st items canc,
    rec_no_fuel rec g -> subs_exist g -> posts_ok g -> In st (g_stages g) ->
    any_fuel (map (fun n => (node_key n, exec_node F stream rec items canc n)) st) = false.
  Proof.
    intros rec g st items canc Hrec Hsub Hpo Hst. apply any_fuel_false.
    intros n Hn. eapply exec_node_no_fuel; eauto.
  Qed.

  Lemma steps_no_fuel : forall rec g, rec_no_fuel rec g -> subs_exist g -> posts_ok g ->
    forall k cur items canc, incl cur (g_stages g) ->
      steps F stream rec (g_stages g) (g_loop g) (g_br g) k cur items canc <> GFuel.
  Proof.
    intros rec g Hrec Hsub Hpo. induction k as [|k IH]; intros cur items canc Hincl.
    - destruct cur; cbn; [discriminate|]. destruct canc; discriminate.
    - destruct cur as [|st rest]; cbn [steps]; [discriminate|].
      destruct canc; [discriminate|].
      destruct (pre_fails stream items st) as [|pf0 pfs];
        [|cbv beta iota; destruct (pre_panic stream items); discriminate].
      rewrite stage_fold_spec. cbn [orb app].
      rewrite (stage_no_fuel rec g st items false Hrec Hsub Hpo) by (apply Hincl; left; reflexivity).
      destruct (all_fails _); [|discriminate].
      destruct (any_int _).
      + destruct (first_lazy _); [discriminate|]. destruct (item_errors _); discriminate.
      + destruct rest as [|st' rest'].
        * destruct (branch_eval stream (g_br g) _); [|discriminate|discriminate].
          destruct (g_loop g); [|discriminate]. apply IH. apply incl_refl.
        * apply IH. intros x Hx. apply Hincl. right. exact Hx.
  Qed.
End Fuel.

Lemma run_graph_no_fuel : forall F stream, forward F -> post_ok F ->
  forall d i g items canc, nth_error F i = Some g -> (List.length F - i <= d)%nat ->
    run_graph F stream d g items canc <> GFuel.
Proof.
  intros F stream HF HP. induction d as [|d IH]; intros i g items canc Hg Hd.
  - exfalso. assert (i < List.length F)%nat by (apply nth_error_Some; congruence). lia.
  - cbn [run_graph]. apply steps_no_fuel; [| |intros st n Hst Hn; exact (HP i g st n Hg Hst Hn)|apply incl_refl].
    + intros st k gi g' Hst Hn Hg' items' canc'.
      destruct (HF i g st k gi Hg Hst Hn) as [H1 H2].
      apply (IH gi g' items' canc' Hg'). lia.
    + intros st k gi Hst Hn. destruct (HF i g st k gi Hg Hst Hn) as [_ H2].
      apply nth_error_Some. exact H2.
Qed.

(* ------------------------------------------------------------------ reaching the failing node *)

(* a stage that is passed quietly: every task of it ends without error, leaves nothing on its
   output stream and does not cancel the context *)
Definition quiet_stages (F : forest) (stream : bool) (rec : graph -> list item -> bool -> gres)
                        (pre : list (list node)) : Prop :=
  forall st n, In st pre -> In n st ->
    exec_node F stream rec [] false n = NOk [] false /\ pre_fail_of stream [] n = [].

Lemma ok_quiet : forall F stream rec pre, forallb (forallb ok_node) pre = true -> quiet_stages F stream rec pre.
Proof.
  intros F stream rec pre H st n Hst Hn.
  rewrite forallb_forall in H. specialize (H st Hst). rewrite forallb_forall in H. specialize (H n Hn).
  split; [apply exec_ok_node; exact H|].
  destruct n as [k f b| |]; try discriminate. destruct b; try discriminate. reflexivity.
Qed.

Lemma quiet_pre_fails : forall stream st, (forall n, In n st -> pre_fail_of stream [] n = []) ->
  pre_fails stream [] st = [].
Proof.
  intros stream st H. unfold pre_fails. induction st as [|n st IH]; [reflexivity|].
  cbn [flat_map]. rewrite (H n (or_introl eq_refl)). apply IH. intros n' Hn'. apply H. right. exact Hn'.
Qed.

(* [fails_at F stream d g p r] (d = nesting fuel of the run of g): p leads from g through
   sub-graph nodes to a leaf whose task ends with r; at every level the stages before the next
   node of p are passed quietly (whatever their nodes are: lambdas, tools, sub-graphs) and the
   step limit leaves a step for it. *)
Inductive fails_at (F : forest) (stream : bool) : nat -> graph -> list string -> err -> Prop :=
| fa_leaf : forall d g pre st post n es r,
    g_stages g = pre ++ st :: post -> quiet_stages F stream (run_graph F stream d) pre ->
    (List.length pre < effective_max g)%nat -> pre_fails stream [] st = [] ->
    In n st -> is_leaf n = true -> exec_leaf stream [] n = NErr es -> In r es ->
    is_interrupt_task r = false ->
    fails_at F stream (S d) g [node_key n] r
| fa_pre : forall d g pre st post k f u,
    (* the node's state pre-handler fails: the node "fails" before its task starts, whatever the
       other nodes of its stage are *)
    g_stages g = pre ++ st :: post -> quiet_stages F stream (run_graph F stream d) pre ->
    (List.length pre < effective_max g)%nat ->
    In (NLam k f (BPreFail u)) st -> is_interrupt_task u = false ->
    fails_at F stream (S d) g [k] (Wrapf (pre_error stream [] u))
| fa_limit : forall d g,
    (* the graph's own loop runs into its step limit (e.g. a cyclic graph of succeeding nodes,
       [cyclic_run_hits_limit]) *)
    run_graph F stream (S d) g [] false = GFail [new_graph_run_error (Leaf id_exceed)] ->
    fails_at F stream (S d) g [] (new_graph_run_error (Leaf id_exceed))
| fa_sub : forall d g pre st post k gi g' p r,
    g_stages g = pre ++ st :: post -> quiet_stages F stream (run_graph F stream d) pre ->
    (List.length pre < effective_max g)%nat -> pre_fails stream [] st = [] ->
    In (NSub k gi) st -> nth_error F gi = Some g' -> fails_at F stream d g' p r ->
    fails_at F stream (S d) g (k :: p) r.

Lemma pre_error_interrupt_task : forall stream u, is_interrupt_task (Wrapf (pre_error stream [] u)) = is_interrupt_task u.
Proof.
  intros stream u. destruct (pre_error_shape stream u) as [ws [-> _]]. apply interrupt_task_through_wrappers.
Qed.

Lemma fails_at_not_interrupt : forall F stream d g p r, fails_at F stream d g p r -> is_interrupt_task r = false.
Proof.
  intros F stream d g p r H. induction H; try assumption; try reflexivity.
  rewrite pre_error_interrupt_task. assumption.
Qed.

Lemma fails_at_nonempty : forall F stream d g p r, fails_at F stream d g p r ->
  p <> [] \/ (p = [] /\ r = new_graph_run_error (Leaf id_exceed)).
Proof. intros F stream d g p r H. destruct H; try (left; discriminate). right. split; reflexivity. Qed.

Lemma wrap_path_interrupt_task : forall p r, is_interrupt_task (wrap_path p r) = is_interrupt_task r.
Proof. intros p r. rewrite wrap_path_is_apply_ws. apply interrupt_task_through_wrappers. Qed.

Lemma quiet_stage_fold : forall F stream rec st,
  (forall n, In n st -> exec_node F stream rec [] false n = NOk [] false) ->
  stage_fold (map (fun n => (node_key n, exec_node F stream rec [] false n)) st) [] false [] false false = SOk [] false.
Proof.
  intros F stream rec st H.
  assert (G : forall items, stage_fold (map (fun n => (node_key n, exec_node F stream rec [] false n)) st) items false [] false false = SOk items false).
  { induction st as [|n st IH]; intros items; [reflexivity|].
    cbn [map stage_fold]. rewrite (H n (or_introl eq_refl)). rewrite app_nil_r. cbn [orb].
    apply IH. intros n' Hn'. apply H. right. exact Hn'. }
  apply G.
Qed.

Lemma steps_skip_quiet : forall F stream rec all loop br pre cur k,
  quiet_stages F stream rec pre -> cur <> [] ->
  steps F stream rec all loop br (List.length pre + k) (pre ++ cur) [] false
  = steps F stream rec all loop br k cur [] false.
Proof.
  intros F stream rec all loop br pre cur k. induction pre as [|st pre IH]; intros Hq Hne; [reflexivity|].
  cbn [List.length plus app steps].
  rewrite (quiet_pre_fails stream st) by (intros n Hn; apply (Hq st n); [left; reflexivity|exact Hn]).
  rewrite (quiet_stage_fold F stream rec st) by (intros n Hn; apply (Hq st n); [left; reflexivity|exact Hn]).
  destruct (pre ++ cur) as [|x rest] eqn:E.
  - exfalso. apply app_eq_nil in E. destruct E as [_ E]. contradiction.
  - rewrite fan_nil. apply IH; [|exact Hne]. intros st' n Hst' Hn. apply (Hq st' n); [right; exact Hst'|exact Hn].
Qed.

Lemma fails_at_run : forall F stream, forward F -> post_ok F ->
  forall d g p r, fails_at F stream d g p r ->
  forall i, nth_error F i = Some g -> (List.length F - i <= d)%nat ->
  exists es, run_graph F stream d g [] false = GFail es /\ In (wrap_path p r) es.
Proof.
  intros F stream HF HP d g p r Hfa.
  induction Hfa as [d g pre st post n es r Hst Hpre Hmax Hpf Hn Hleaf Hex Hr Hni
                   |d g pre st post k f u Hst Hpre Hmax Hn Hni
                   |d g Hrun
                   |d g pre st post k gi g' p r Hst Hpre Hmax Hpf Hn Hg' Hfa IH];
    intros i Hg Hd.
  - cbn [run_graph].
    replace (fanout (width_of_first (g_stages g)) []) with (@nil item)
      by (destruct (width_of_first (g_stages g)) as [|[|w]]; reflexivity).
    assert (Hin_st : In st (g_stages g)) by (rewrite Hst; apply in_or_app; right; left; reflexivity).
    set (all := g_stages g) at 1. rewrite Hst.
    replace (effective_max g) with (List.length pre + S (effective_max g - List.length pre - 1))%nat by lia.
    rewrite steps_skip_quiet by (assumption || discriminate).
    destruct (step_reports_failure F stream (run_graph F stream d) all (g_loop g) (g_br g)
                (effective_max g - List.length pre - 1) st post [] n es r) as [es' [Hrun Hin]]; auto.
    + rewrite is_leaf_exec by exact Hleaf. exact Hex.
    + eapply stage_no_fuel; [| | |exact Hin_st].
      * intros st0 k0 gi0 g0 Hst0 Hn0 Hg0 items canc.
        destruct (HF i g st0 k0 gi0 Hg Hst0 Hn0) as [H1 H2].
        eapply run_graph_no_fuel; eauto. lia.
      * intros st0 k0 gi0 Hst0 Hn0. destruct (HF i g st0 k0 gi0 Hg Hst0 Hn0) as [_ H2].
        apply nth_error_Some. exact H2.
      * intros st0 n0 Hst0 Hn0. exact (HP i g st0 n0 Hg Hst0 Hn0).
    + exists es'. split; [exact Hrun|]. exact Hin.
  - cbn [run_graph].
    replace (fanout (width_of_first (g_stages g)) []) with (@nil item)
      by (destruct (width_of_first (g_stages g)) as [|[|w]]; reflexivity).
    set (all := g_stages g) at 1. rewrite Hst.
    replace (effective_max g) with (List.length pre + S (effective_max g - List.length pre - 1))%nat by lia.
    rewrite steps_skip_quiet by (assumption || discriminate).
    destruct (pre_handler_failure_lemma F stream (run_graph F stream d) all (g_loop g) (g_br g)
                (effective_max g - List.length pre - 1) st post [] k f u Hn) as [es' [Hrun [Hin _]]].
    { unfold pre_panic. destruct stream; reflexivity. }
    exists es'. split; [exact Hrun|]. exact Hin.
  - eexists. split; [exact Hrun|]. left. reflexivity.
  - assert (Hin_st : In st (g_stages g)) by (rewrite Hst; apply in_or_app; right; left; reflexivity).
    destruct (HF i g st k gi Hg Hin_st Hn) as [Hlt Hlen].
    destruct (IH gi Hg' ltac:(lia)) as [es0 [Hrun0 Hin0]].
    cbn [run_graph].
    replace (fanout (width_of_first (g_stages g)) []) with (@nil item)
      by (destruct (width_of_first (g_stages g)) as [|[|w]]; reflexivity).
    set (all := g_stages g) at 1. rewrite Hst.
    replace (effective_max g) with (List.length pre + S (effective_max g - List.length pre - 1))%nat by lia.
    rewrite steps_skip_quiet by (assumption || discriminate).
    destruct (step_reports_failure F stream (run_graph F stream d) all (g_loop g) (g_br g)
                (effective_max g - List.length pre - 1) st post [] (NSub k gi) es0 (wrap_path p r))
      as [es' [Hrun Hin]]; auto.
    + cbn [exec_node]. rewrite Hg', Hrun0. reflexivity.
    + rewrite wrap_path_interrupt_task. eapply fails_at_not_interrupt; eauto.
    + eapply stage_no_fuel; [| | |exact Hin_st].
      * intros st0 k0 gi0 g0 Hst0 Hn0 Hg0 items canc.
        destruct (HF i g st0 k0 gi0 Hg Hst0 Hn0) as [H1 H2].
        eapply run_graph_no_fuel; eauto. lia.
      * intros st0 k0 gi0 Hst0 Hn0. destruct (HF i g st0 k0 gi0 Hg Hst0 Hn0) as [_ H2].
        apply nth_error_Some. exact H2.
      * intros st0 n0 Hst0 Hn0. exact (HP i g st0 n0 Hg Hst0 Hn0).
    + exists es'. split; [exact Hrun|]. exact Hin.
Qed.

Definition stream_of (p : paradigm) : bool := match p with PInvoke => false | _ => true end.

(* through the public API *)
Lemma failing_node_reported_lemma : forall g F' par p r,
  forward (g :: F') -> post_ok (g :: F') -> fails_at (g :: F') (stream_of par) (S (List.length (g :: F'))) g p r ->
  In (AErr (top_error par (wrap_path p r))) (answers (g :: F') par false None) /\
  (is_interrupt_error r = false ->
     msg_path (top_error par (wrap_path p r)) = p ++ np_of r /\
     np_of (top_error par (wrap_path p r)) = p ++ np_of r).
Proof.
  intros g F' par p r HF HP Hfa. split.
  - destruct (fails_at_run (g :: F') (stream_of par) HF HP _ g p r Hfa 0%nat eq_refl ltac:(lia))
      as [es [Hrun Hin]].
    unfold answers.
    replace (match par with PInvoke => false | _ => true end) with (stream_of par) by reflexivity.
    replace (match par, @None err with (PCollect | PTransform), Some e => [IErr e] | _, _ => [] end) with (@nil item)
      by (destruct par; reflexivity).
    rewrite Hrun. apply in_map_iff. exists (wrap_path p r). split; [reflexivity|exact Hin].
  - intros Hni. destruct (fails_at_nonempty _ _ _ _ _ _ Hfa) as [Hne|[-> ->]].
    + split.
      * rewrite named_msg_path by (apply top_error_named, wrap_path_named; [exact Hne|exact Hni]).
        rewrite top_error_path. apply wrap_path_np. exact Hni.
      * rewrite top_error_path. apply wrap_path_np. exact Hni.
    + destruct par; split; reflexivity.
Qed.

(* a well-nested forest never makes the public call run out of nesting fuel *)
Lemma answers_no_fuel_lemma : forall g F' par cb ii, forward (g :: F') -> post_ok (g :: F') ->
  ~ In AFuel (answers (g :: F') par cb ii).
Proof.
  intros g F' par cb ii HF HP Hin. unfold answers in Hin.
  match type of Hin with context [run_graph ?F ?s ?d ?gg ?its ?c] =>
    pose proof (run_graph_no_fuel F s HF HP d 0%nat gg its c eq_refl ltac:(cbn [List.length]; lia)) as Hnf;
    destruct (run_graph F s d gg its c) as [its' c'|es| |i|]
  end.
  - destruct its' as [|it0 its'']; [destruct Hin as [H|[]]; discriminate|].
    apply in_map_iff in Hin. destruct Hin as [it [Heq _]]. destruct it; destruct par; discriminate.
  - apply in_map_iff in Hin. destruct Hin as [e [Heq _]]. discriminate.
  - destruct Hin as [H|[]]; discriminate.
  - destruct Hin as [H|[]]; discriminate.
  - contradiction.
Qed.

(* ------------------------------------------------------------------ a decision procedure for [forward] *)

Definition node_forward (i len : nat) (n : node) : bool :=
  match n with NSub _ gi => Nat.ltb i gi && Nat.ltb gi len | _ => true end.

Fixpoint forwardb_from (i len : nat) (gs : list graph) : bool :=
  match gs with
  | [] => true
  | g :: gs' => forallb (forallb (node_forward i len)) (g_stages g) && forwardb_from (S i) len gs'
  end.

Definition forwardb (F : forest) : bool := forwardb_from 0 (List.length F) F.

Lemma forwardb_from_sound : forall len gs i0, forwardb_from i0 len gs = true ->
  forall j g st n, nth_error gs j = Some g -> In st (g_stages g) -> In n st ->
    node_forward (i0 + j) len n = true.
Proof.
  intros len. induction gs as [|g0 gs IH]; intros i0 H j g st n Hg Hst Hn.
  - destruct j; discriminate.
  - cbn [forwardb_from] in H. apply andb_true_iff in H. destruct H as [H0 Hrest].
    destruct j as [|j].
    + inversion Hg; subst g0. rewrite Nat.add_0_r.
      rewrite forallb_forall in H0. specialize (H0 st Hst). rewrite forallb_forall in H0. apply H0. exact Hn.
    + cbn [nth_error] in Hg. replace (i0 + S j)%nat with (S i0 + j)%nat by lia.
      eapply IH; eauto.
Qed.

Lemma forwardb_sound : forall F, forwardb F = true -> forward F.
Proof.
  intros F H i g st k gi Hg Hst Hn.
  pose proof (forwardb_from_sound (List.length F) F 0%nat H i g st (NSub k gi) Hg Hst Hn) as Hf.
  cbn [node_forward plus] in Hf. apply andb_true_iff in Hf. destruct Hf as [H1 H2].
  apply Nat.ltb_lt in H1. apply Nat.ltb_lt in H2. split; assumption.
Qed.

(* ------------------------------------------------------------------ the branch after the last stage *)

Definition branch_origin (stream : bool) (u : err) : err :=
  if stream then wrap_stream CollectByInvoke u else u.

(* the tasks of the last stage succeed quietly and the branch condition returns u: the run fails
   with u under key-free wrappers (recoverable by [orig_recoverable]); no node is named *)
Lemma branch_failure_lemma : forall F stream rec all loop k st u,
  (forall n, In n st -> exec_node F stream rec [] false n = NOk [] false) ->
  pre_fails stream [] st = [] ->
  steps F stream rec all loop (BrFail u) (S k) [st] [] false = GFail [branch_error (branch_origin stream u)] /\
  exists ws, branch_error (branch_origin stream u) = apply_ws ws u /\ keys_of ws = [].
Proof.
  intros F stream rec all loop k st u Hq Hpf. split.
  - cbn [steps]. rewrite Hpf. rewrite (quiet_stage_fold F stream rec st Hq). reflexivity.
  - unfold branch_origin. destruct stream.
    + exists [WGraphRun; WWrapf; WWrapf; WWrapf; WStream CollectByInvoke]. split; reflexivity.
    + exists [WGraphRun; WWrapf; WWrapf; WWrapf]. split; reflexivity.
Qed.

(* a panic that leaves the run of a sub-graph (a panicking branch condition, a panicking stream
   read by the run loop) is the error of the sub-graph's node in the parent: contained by the
   executor's recover one level up *)
Lemma sub_run_panic_contained_lemma : forall F stream rec items canc k gi g' i,
  nth_error F gi = Some g' -> rec g' items canc = GPanic i ->
  exists j, exec_node F stream rec items canc (NSub k gi) = NErr [PanicErr j].
Proof.
  intros F stream rec items canc k gi g' i Hg Hr. cbn [exec_node]. rewrite Hg, Hr. eexists. reflexivity.
Qed.
