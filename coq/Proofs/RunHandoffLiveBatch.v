(* Proofs/RunHandoffLiveBatch.v — property C03, the composed system of Model/RunHandoff.v in batch
   mode (Graph; pregel and dag channels): no hang, for whole runs.  From every reachable state, on
   every maximal path (every interleaving of executors, collector and run loop) the run returns;
   before the return the system is never stuck: waitAll hands back exactly the tasks of the step
   (the guard of the resolve transition never blocks), with the error flags of their bodies.
   Hypothesis [Hfresh]: no node is executed twice by the canonical run - the composed system uses the
   node key as the key of a task, as the trace events of the implementation do. *)
From Eino Require Import Base.Util Model.TaskMgr Model.Confluence Model.RunHandoff.
From Eino Require Import Proofs.TaskMgr Proofs.TaskMgrProgress Proofs.Confluence Proofs.Eager.
From Eino Require Import Proofs.RunHandoff Proofs.RunHandoffOrder Proofs.RunHandoffLive.
From Coq Require Import Permutation Wf_nat.

Local Notation length := List.length.

Lemma run_batch_S ord m g f s tasks log :
  run_batch ord m g (S f) s tasks log =
  (if existsb prefail tasks then (OFail, log) else
   if existsb failed tasks then (OFail, log ++ log_of tasks) else
   match tasks with
   | [] => (OFail, log ++ log_of tasks)
   | _ => match calc_next m g s (ord (map run_task tasks)) with
          | NReturn v => (ODone v, log ++ log_of tasks)
          | NTasks ts s' => run_batch ord m g f s' ts (log ++ log_of tasks)
          end
   end).
Proof. reflexivity. Qed.

Lemma run_batch_log_prefix m g : forall fuel s tasks log, existsb prefail tasks = false ->
  exists suffix, snd (run_batch (fun l => l) m g (S fuel) s tasks log) = (log ++ log_of tasks) ++ suffix.
Proof.
  induction fuel as [|f IH]; intros s tasks log Hpf; rewrite run_batch_S, Hpf.
  - destruct (existsb failed tasks); [exists []; simpl; rewrite ?app_nil_r; reflexivity|].
    destruct tasks as [|t0 ts0]; [exists []; simpl; rewrite ?app_nil_r; reflexivity|].
    destruct (calc_next m g s _); exists []; simpl; rewrite ?app_nil_r; reflexivity.
  - destruct (existsb failed tasks); [exists []; simpl; rewrite ?app_nil_r; reflexivity|].
    destruct tasks as [|t0 ts0]; [exists []; simpl; rewrite ?app_nil_r; reflexivity|].
    destruct (calc_next m g s _) as [v|ts s']; [exists []; simpl; rewrite ?app_nil_r; reflexivity|].
    destruct (existsb prefail ts) eqn:Epf.
    { rewrite run_batch_S, Epf. exists []. simpl. rewrite ?app_nil_r. reflexivity. }
    destruct (IH s' ts (log ++ log_of (t0 :: ts0)) Epf) as [suf E].
    exists (log_of ts ++ suf). rewrite E. rewrite <- !app_assoc. reflexivity.
Qed.

Lemma step_collected s s' : step s s' -> collected s' = collected s \/ exists x, collected s' = x :: collected s.
Proof. intros H. destruct H; simpl; eauto. Qed.

Lemma firstn_app_exact {A} (a b : list A) : firstn (length (a ++ b) - length b) (a ++ b) = a.
Proof.
  rewrite app_length. replace (length a + length b - length b) with (length a) by lia.
  induction a as [|x a IH]; simpl; [destruct b; reflexivity|rewrite IH; reflexivity].
Qed.

Lemma filter_len_le {A} (f : A -> bool) (l : list A) : length (filter f l) <= length l.
Proof. induction l as [|a l IH]; simpl; [lia|]. destruct (f a); simpl; lia. Qed.

Lemma calc_next_len m g s cs ts s' : calc_next m g s cs = NTasks ts s' -> length ts <= length g.
Proof.
  unfold calc_next, take_ready.
  destruct (find is_end _) as [[n v]|]; [discriminate|]. intros H; inversion H; subst.
  rewrite map_length. apply filter_len_le.
Qed.

Section LiveBatch.
Variables (m : mode) (g : graph) (F : nat).
Hypothesis Hnd : NoDup (map n_id g).
Hypothesis Hfresh : NoDup (map fst (snd (batch (fun l => l) m g F))).

Definition LKb (s : st) (r : rl) : Prop :=
  r_res r = None ->
  r_ph r = PWait /\
  (exists new, collected s = new ++ r_col r) /\
  Permutation (map fst (epcs s) ++ ids_of (r_exp r)) (ids_of (r_run r) ++ map fst (r_col r)) /\
  Permutation (map fst (r_log r)) (map fst (epcs s) ++ ids_of (r_exp r)) /\
  (forall x, In x (r_run r) -> ~ In (tid x) (ids_of (r_exp r)) ->
     exists p, get_pc (tid x) (epcs s) = Some (p, bres_of (fst x))) /\
  incl (r_exp r) (r_run r).

Lemma lkb_init : LKb init (rl_init true m g F).
Proof.
  unfold LKb, rl_init. destruct (start_next m g) as [v|ts ch]; simpl; [discriminate|].
  unfold enter. destruct F as [|f]; simpl; [discriminate|].
  destruct (existsb prefail ts); simpl; [discriminate|]. intros _.
  split; [reflexivity|]. split; [exists []; reflexivity|].
  rewrite app_nil_r. split; [apply Permutation_refl|]. split; [rewrite log_of_ids; apply Permutation_refl|].
  split; [|apply incl_refl].
  intros x Hx Hn. exfalso. apply Hn, in_ids, Hx.
Qed.

Lemma bi_nodup_run r : BI m g F r -> r_res r = None -> NoDup (ids_of (r_run r)).
Proof. unfold BI. intros B Hn. rewrite Hn in B. destruct B as (ch' & log0 & _ & _ & Hok & _ & _). exact Hok. Qed.

Lemma bi_nodup_log r : BI m g F r -> r_res r = None -> NoDup (map fst (r_log r)).
Proof.
  unfold BI. intros B Hn. rewrite Hn in B. destruct B as (ch' & log0 & _ & Hl & _ & Hpf & Hb).
  destruct (run_batch_log_prefix m g (r_fuel r) ch' (r_run r) log0 Hpf) as [suf E].
  rewrite Hb in E. rewrite E in Hfresh. rewrite <- Hl in Hfresh. rewrite map_app in Hfresh.
  eapply nodup_app_l; exact Hfresh.
Qed.

Lemma lkb_step s r s' r' :
  reach s -> cstep true m g (s, r) (s', r') -> BI m g F r -> LKb s r -> LKb s' r'.
Proof.
  intros Rs Hs B K. pose proof (inv_reach s Rs) as I. inversion Hs; subst.
  - (* protocol step *)
    unfold LKb in *. intros Hn. specialize (K Hn). destruct K as (K0 & (new & Kc) & K1 & K2 & K3 & K4).
    match goal with H : step s s' |- _ => rename H into St end.
    match goal with H : num s' = num s |- _ => rename H into En end.
    rewrite (step_num_keys _ _ St En). split; [exact K0|]. split.
    { destruct (step_collected _ _ St) as [->|[x ->]]; [exists new; exact Kc|exists (x :: new); rewrite Kc; reflexivity]. }
    split; [exact K1|]. split; [exact K2|]. split; [|exact K4].
    intros x Hx Hni. destruct (K3 x Hx Hni) as (p & G). eapply step_num_pc; eassumption.
  - (* submit one *)
    unfold LKb, set_exp in *. simpl. intros Hn. specialize (K Hn). destruct K as (K0 & Kc & K1 & K2 & K3 & K4).
    match goal with H : split_task _ _ = Some _ |- _ => rename H into Hsp end.
    pose proof (split_task_ids _ _ _ _ Hsp) as P.
    assert (Pe : Permutation (map fst (epcs s) ++ ids_of (r_exp r)) ((map fst (epcs s) ++ [tid t]) ++ ids_of q)).
    { rewrite <- app_assoc. apply Permutation_app_head. exact P. }
    rewrite map_app. simpl map.
    split; [exact K0|]. split; [exact Kc|].
    split; [eapply perm_trans; [apply Permutation_sym, Pe|exact K1]|].
    split; [eapply perm_trans; [exact K2|exact Pe]|].
    assert (Hq : incl q (r_exp r)).
    { intros y Hy. apply (Permutation_in _ (Permutation_sym (split_task_perm _ _ _ _ Hsp))). right; exact Hy. }
    split; [|intros y Hy; apply K4, Hq, Hy].
    intros x Hx Hni.
    pose proof (bi_nodup_run r B Hn) as Nr.
    destruct (N.eqb (tid x) (tid t)) eqn:Ex.
    + apply N.eqb_eq in Ex.
      assert (x = t).
      { apply (nodup_ids_eq (r_run r)); auto. apply K4. eapply split_task_in; exact Hsp. }
      subst x. exists ERun. rewrite get_pc_app.
      match goal with H : get_pc (tid t) (epcs s) = None |- _ => rewrite H end.
      rewrite N.eqb_refl. reflexivity.
    + assert (Hni' : ~ In (tid x) (ids_of (r_exp r))).
      { intros Hi. apply (Permutation_in _ P) in Hi. destruct Hi as [Hi|Hi]; [|contradiction].
        apply N.eqb_neq in Ex. congruence. }
      destruct (K3 x Hx Hni') as (p & G). exists p. rewrite get_pc_app, G. reflexivity.
  - (* await *)
    unfold LKb, set_ph in *. simpl. intros Hn. specialize (K Hn). destruct K as (K0 & Kc & K1 & K2 & K3 & K4).
    split; [reflexivity|]. auto.
  - discriminate.
  - (* resolve the step *)
    match goal with H : resolve_batch _ _ _ _ = Some _ |- _ => rename H into Hr end.
    match goal with H : r_res r = None |- _ => rename H into Hn end.
    unfold resolve_batch in Hr.
    destruct (lookup_all (new_col s' r) (r_run r)) as [cts|]; [|discriminate].
    destruct (negb (Nat.eqb (length cts) (length (r_run r)))); [discriminate|].
    destruct (existsb failed cts); [inversion Hr; subst; unfold LKb; simpl; discriminate|].
    destruct cts as [|c0 cts0]; [inversion Hr; subst; unfold LKb; simpl; discriminate|].
    destruct (calc_next m g (r_ch r) (map run_task (c0 :: cts0))) as [v|ts ch'];
      [inversion Hr; subst; unfold LKb; simpl; discriminate|].
    inversion Hr; subst. unfold LKb, enter.
    destruct (r_fuel r) as [|f]; simpl; [discriminate|].
    destruct (existsb prefail ts); simpl; [discriminate|]. intros _.
    specialize (K Hn). destruct K as (K0 & Kc & K1 & K2 & K3 & K4).
    match goal with H : r_exp r = [] |- _ => rewrite H in * end. simpl in K1, K2. rewrite app_nil_r in K1, K2.
    split; [reflexivity|]. split; [exists []; reflexivity|].
    assert (D : drained s') by (split; assumption).
    pose proof (drained_all_collected s' I D) as Pc.
    split; [|split; [|split]].
    + eapply perm_trans; [apply Permutation_app_tail, Permutation_sym, Pc|]. apply Permutation_app_comm.
    + rewrite map_app, log_of_ids. apply Permutation_app_tail. exact K2.
    + intros y Hy Hni. exfalso. apply Hni, in_ids, Hy.
    + apply incl_refl.
  - discriminate.
Qed.

Lemma creach_lkb x : creach true m g F x -> LKb (fst x) (snd x).
Proof.
  induction 1 as [|[s r] [s' r'] Hr IH Hs]; simpl in *; [apply lkb_init|].
  eapply lkb_step; try eassumption.
  - exact (creach_reach _ _ _ _ _ Hr).
  - exact (creach_bi m g F Hnd _ Hr).
Qed.

(* ------------------------------------------------------------------ never stuck before the return *)

Lemma lookup_all_total run : forall es,
  (forall t e, In (t, e) es -> In t (ids_of run) /\ (forall x rest, split_task t run = Some (x, rest) -> e = flag_of x)) ->
  exists cts, lookup_all es run = Some cts /\ length cts = length es.
Proof.
  induction es as [|[t e] es IH]; intros H; simpl; [exists []; auto|].
  destruct (H t e (or_introl eq_refl)) as [Hin Hfl].
  destruct (split_task_some _ _ Hin) as (x & rest & Esp). rewrite Esp.
  destruct IH as (cts & El & Elen); [intros t' e' K; apply H; right; exact K|]. rewrite El.
  rewrite (Hfl _ _ Esp). rewrite Bool.eqb_reflx. exists (x :: cts). simpl. auto.
Qed.

Lemma cstep_enabled_b s r : creach true m g F (s, r) -> r_res r = None -> exists y, cstep true m g (s, r) y.
Proof.
  intros C Hn. pose proof (creach_reach _ _ _ _ _ C) as Rs. simpl in Rs. pose proof (inv_reach s Rs) as I.
  pose proof (creach_bi m g F Hnd _ C) as B. simpl in B.
  pose proof (creach_lkb _ C) as K. simpl in K. specialize (K Hn).
  destruct K as (K0 & (new & Kc) & K1 & K2 & K3 & K4).
  assert (Hidle : (exists y, cstep true m g (s, r) y) \/ cp s = CIdle).
  { destruct (deadlock_free s I) as [[Hc _]|[s1 Hd]]; [right; exact Hc|].
    destruct Hd as [a b Hs Hl]. destruct (Nat.eq_dec (num b) (num a)) as [En|En].
    - left. exists (b, r). apply c_proto; assumption.
    - right. apply (step_not_proto _ _ Hs Hl En). }
  destruct Hidle as [Hex|Hc]; [exact Hex|].
  destruct (r_exp r) as [|t q] eqn:Ee.
  - destruct (num s) as [|n] eqn:En.
    + (* waitAll has returned: the step can be resolved *)
      simpl in K1. rewrite app_nil_r in K1.
      assert (D : drained s) by (split; assumption).
      pose proof (drained_all_collected s I D) as Pc. rewrite Kc, map_app in Pc.
      assert (Pn : Permutation (map fst new) (ids_of (r_run r))).
      { eapply Permutation_app_inv_r. eapply perm_trans; [exact Pc|exact K1]. }
      assert (Enc : new_col s r = rev new).
      { unfold new_col. rewrite Kc. rewrite firstn_app_exact. reflexivity. }
      destruct (lookup_all_total (r_run r) (rev new)) as (cts & El & Elen).
      { intros t e Hte. apply in_rev in Hte. split.
        - apply (Permutation_in _ Pn). apply in_map_iff. exists (t, e). split; [reflexivity|exact Hte].
        - intros x rest Esp.
          assert (Hpl : In (t, e) (places s)).
          { unfold places. apply in_or_app. right. apply in_or_app. right. apply in_or_app. right.
            rewrite Kc. apply in_or_app. left; exact Hte. }
          destruct (i_flag s I t e Hpl) as (p & b & G & Eb).
          destruct (K3 x (split_task_in _ _ _ _ Esp)) as (p' & G'); [simpl; tauto|].
          rewrite (split_task_tid _ _ _ _ Esp) in G'. rewrite G in G'. inversion G'; subst. reflexivity. }
      assert (exists r', resolve_batch m g s r = Some r') as [r' Hr'].
      { unfold resolve_batch. rewrite Enc, El.
        assert (El2 : length cts = length (r_run r)).
        { rewrite Elen, rev_length.
          transitivity (length (map fst new)); [symmetry; apply map_length|].
          rewrite (Permutation_length Pn). unfold ids_of. apply map_length. }
        rewrite El2, Nat.eqb_refl. simpl.
        destruct (existsb failed cts); [eauto|]. destruct cts; [eauto|].
        destruct (calc_next m g (r_ch r) _); eauto. }
      exists (s, r'). apply c_resolve_b; auto.
    + eexists. eapply c_await; eauto.
  - assert (Nl : NoDup (map fst (r_log r))) by (apply bi_nodup_log; assumption).
    assert (Nf : ~ In (tid t) (map fst (epcs s))).
    { pose proof (Permutation_NoDup K2 Nl) as N2. simpl in N2.
      apply NoDup_remove_2 in N2. intros Y. apply N2. apply in_or_app. left; exact Y. }
    exists (submit1 false t s, set_exp r q). apply c_sub; auto.
    + rewrite Ee. simpl. rewrite N.eqb_refl. reflexivity.
    + apply get_pc_none. exact Nf.
Qed.

(* ------------------------------------------------------------------ a variant *)

Definition cmeas_b (x : st * rl) : nat :=
  2 * mu (fst x) + 27 * length (r_exp (snd x)) + (27 * length g + 28) * r_fuel (snd x).

Lemma cstep_meas_b x y : creach true m g F x -> r_res (snd x) = None -> cstep true m g x y ->
  r_res (snd y) <> None \/ cmeas_b y < cmeas_b x.
Proof.
  intros C Hn Hs. destruct x as [s r], y as [s' r']. simpl in *.
  inversion Hs; subst; unfold cmeas_b; simpl.
  - right. match goal with H : step s s' |- _ => rename H into St end.
    assert (D : dstep s s').
    { constructor; [exact St|]. rewrite <- (map_length fst (epcs s')), <- (map_length fst (epcs s)).
      f_equal. apply step_num_keys; assumption. }
    pose proof (dstep_mu _ _ D). lia.
  - right.
    match goal with H : split_task _ _ = Some _ |- _ => apply split_task_perm in H; apply Permutation_length in H; simpl in H; rename H into P end.
    match goal with H : cp s = CIdle |- _ => rename H into Hc end.
    unfold mu, submit1. simpl. rewrite wsum_app, Hc. simpl.
    destruct sy; simpl; lia.
  - right. unfold mu, await_st. simpl.
    match goal with H : cp s = CIdle |- _ => rewrite H end.
    match goal with H : num s = S _ |- _ => rewrite H end. simpl. lia.
  - discriminate.
  - match goal with H : resolve_batch _ _ _ _ = Some _ |- _ => rename H into Hr end.
    match goal with H : r_exp r = [] |- _ => rename H into He end.
    unfold resolve_batch in Hr.
    destruct (lookup_all (new_col s' r) (r_run r)) as [cts|]; [|discriminate].
    destruct (negb (Nat.eqb (length cts) (length (r_run r)))); [discriminate|].
    destruct (existsb failed cts); [inversion Hr; subst; left; simpl; discriminate|].
    destruct cts as [|c0 cts0]; [inversion Hr; subst; left; simpl; discriminate|].
    destruct (calc_next m g (r_ch r) (map run_task (c0 :: cts0))) as [v|ts ch'] eqn:Ec;
      [inversion Hr; subst; left; simpl; discriminate|].
    inversion Hr; subst. unfold enter.
    destruct (r_fuel r) as [|f]; simpl; [left; discriminate|].
    destruct (existsb prefail ts); simpl; [left; discriminate|]. right.
    pose proof (calc_next_len _ _ _ _ _ _ Ec) as Lt. rewrite He. simpl.
    nia.
  - discriminate.
Qed.

(* ------------------------------------------------------------------ inevitability *)

Inductive CAFb (P : st * rl -> Prop) : st * rl -> Prop :=
| cafb_now x : P x -> CAFb P x
| cafb_next x : (exists y, cstep true m g x y) -> (forall y, cstep true m g x y -> CAFb P y) -> CAFb P x.

Lemma batch_no_hang x : creach true m g F x -> CAFb (fun y => r_res (snd y) <> None) x.
Proof.
  induction x as [x IH] using (induction_ltof1 _ cmeas_b). unfold ltof in IH. intros C.
  destruct (r_res (snd x)) eqn:Er; [apply cafb_now; congruence|].
  apply cafb_next.
  - destruct x as [s r]. eapply cstep_enabled_b; eassumption.
  - intros y Hs. destruct (cstep_meas_b x y C Er Hs) as [K|K]; [apply cafb_now; exact K|].
    apply IH; [exact K|]. eapply cr_step; eassumption.
Qed.

End LiveBatch.
