(* Proofs/InterruptDrive.v — the segment- and run-level C06 theorems of Proofs/RunLoopDrive.v
   instantiated for the model the correspondence check evaluates: [seg_fresh] / [seg_resumed] of
   Model/Interrupt.v (batch or eager under whatever collection order the environment supplies, any
   node bodies, any nesting level) and [run_drive], the run of a case driven through the store
   (owner: C06). *)
From Eino Require Import Base.Util Model.Graph Model.RunLoop Model.Interrupt
     Proofs.RunLoop Proofs.RunLoopEager Proofs.RunLoopDrive Proofs.Interrupt.
Open Scope N_scope.

Section InstDrive.
  Variable ex : N -> option ncp -> value -> env -> tex * env.   (* any node bodies, e.g. [node_exec d F g] *)
  Variable gi : N.
  Variable g : gspec.
  Let gr := gs_graph g.

  Notation ekey := (@ev_key value).

  (* whatever interrupt a segment of the model returns reports every pending interrupt-before node *)
  Lemma enter_interrupt_reports : forall s e i c log e',
    enter ex gi g s e = (OInterrupted i c, log, e') -> reports_pending (gs_before g) i c.
  Proof.
    intros s e i c log e' H. unfold enter in H. fold gr in H.
    destruct (g_eager gr).
    - destruct (match ls_next s with [] => ([], e) | _ :: _ => pop_sched gi e end) as [sched e1].
      eapply (eiterate_interrupt_reports VNil (ifold gr) (igetr gr) (pre_fn g) ex (gs_before g) (gs_after g)); eauto.
    - eapply (iterate_interrupt_reports VNil (ifold gr) (igetr gr) (pre_fn g) ex (gs_before g) (gs_after g)); eauto.
  Qed.

  Lemma seg_fresh_interrupt_reports : forall x e i c log e',
    seg_fresh ex gi g x e = (OInterrupted i c, log, e') -> reports_pending (gs_before g) i c.
  Proof.
    intros x e i c log e' H. unfold seg_fresh in H. fold gr in H.
    destruct (init_chans value gr) as [cs0| |]; try discriminate.
    destruct (init (ifold gr) (igetr gr) (gs_before g) cs0 (gs0 g) x) as [s|v|i0 c0|err] eqn:Hi;
      simpl in H; try discriminate.
    - eapply enter_interrupt_reports; eauto.
    - inversion H; subst.
      edestruct (init_info_ok VNil (ifold gr) (igetr gr) (pre_fn g) ex (gs_before g) (gs_after g)) as [Hok _]; [exact Hi|].
      eapply info_ok_reports; exact Hok.
  Qed.

  Lemma seg_resumed_interrupt_reports : forall sm c0 e i c log e',
    seg_resumed ex gi g sm c0 e = (OInterrupted i c, log, e') -> reports_pending (gs_before g) i c.
  Proof. unfold seg_resumed; intros; eapply enter_interrupt_reports; eauto. Qed.

  (* the first clause for a run of the graph driven through any round-tripping store *)
  Lemma seg_drive_before_needs_report : forall {B : Type} (ser : cpt -> B) deser,
    (forall c, deser (ser c) = Some c) ->
    forall x tick with_id n mods e cos e' j co ev,
      drive ser deser (seg_fresh ex gi g x) (seg_resumed ex gi g) tick with_id n O mods None e = (cos, e') ->
      nth_error cos j = Some co -> In ev (co_log co) -> memN (ekey ev) (gs_before g) = true ->
      exists j' co' i c, j = S j' /\ nth_error cos j' = Some co' /\
                         co_out co' = OInterrupted i c /\ co_written co' = true /\ reported i (ekey ev).
  Proof.
    intros B ser deser Hser x tick with_id n mods e cos e' j co ev.
    apply (drive_before_needs_report (gs_before g) ser deser Hser (seg_fresh ex gi g x) (seg_resumed ex gi g) tick).
    - intros; eapply seg_fresh_no_before; eauto.
    - intros; eapply seg_resumed_before_only_pending; eauto.
    - intros; eapply seg_fresh_interrupt_reports; eauto.
    - intros; eapply seg_resumed_interrupt_reports; eauto.
  Qed.
End InstDrive.

(* [run_drive]: the definition the correspondence check evaluates on every case *)
Lemma run_drive_before_needs_report : forall (F : list gspec) g0 with_id mods x e cos e' j co ev,
  nth_error F 0 = Some g0 ->
  run_drive F with_id mods x e = (cos, e') ->
  nth_error cos j = Some co -> In ev (co_log co) -> memN (ev_key ev) (gs_before g0) = true ->
  exists j' co' i c, j = S j' /\ nth_error cos j' = Some co' /\
                     co_out co' = OInterrupted i c /\ co_written co' = true /\ reported i (ev_key ev).
Proof.
  intros F g0 with_id mods x e cos e' j co ev HF H.
  destruct F as [|g1 rest]; [discriminate|]. simpl in HF. inversion HF; subst g1.
  unfold run_drive in H. revert H.
  apply (seg_drive_before_needs_report (node_exec (List.length (g0 :: rest)) (g0 :: rest) g0) 0 g0
           (fun c : cpt => c) (fun c => Some c)).
  reflexivity.
Qed.

Lemma run_drive_written_iff : forall (F : list gspec) with_id mods x e cos e',
  run_drive F with_id mods x e = (cos, e') ->
  forall co, In co cos ->
    (co_written co = true <-> (with_id = true /\ exists i c, co_out co = OInterrupted i c)).
Proof.
  intros F with_id mods x e cos e' H.
  destruct F as [|g0 rest]; [inversion H; intros co []|].
  unfold run_drive in H. eapply drive_written_iff; eauto.
Qed.

(* ---------- the interrupt information of a run is faithful at every nesting level ----------
   [paired F g i c]: the interrupt information [i] and the checkpoint [c] of a segment of graph [g]
   belong together: [i] reports every interrupt-before node of [g] pending in [c]; the nested
   informations of [i] and the nested checkpoints of [c] are listed under the same keys, each key is a
   graph node of [g], and the pair found under it belongs together in the same sense for the nested
   graph. *)
Definition un_info (ni : ninfo) : inf := match ni with NInfo i => i end.
Definition un_cp (nc : ncp) : cpt := match nc with NCP c => c end.

Inductive paired (F : list gspec) : gspec -> inf -> cpt -> Prop :=
| paired_intro : forall g i c,
    reports_pending (gs_before g) i c ->
    Forall2 (fun (ki : N * ninfo) (kc : N * ncp) =>
               fst ki = fst kc /\
               exists n j sub, find_node (gs_graph g) (fst kc) = Some n /\ n_kind n = KSub j /\
                               nth_error F j = Some sub /\ paired F sub (un_info (snd ki)) (un_cp (snd kc)))
            (ii_subs i) (cp_subs c) ->
    paired F g i c.

Definition sub_ok (F : list gspec) (g : gspec) (k : N) (cp : ncp) (info : ninfo) : Prop :=
  exists n j sub, find_node (gs_graph g) k = Some n /\ n_kind n = KSub j /\
                  nth_error F j = Some sub /\ paired F sub (un_info info) (un_cp cp).

Lemma subs_paired_paired : forall F g (i : inf) (c : cpt),
  reports_pending (gs_before g) i c -> subs_paired (sub_ok F g) i c -> paired F g i c.
Proof.
  intros F g i c Hr Hs. constructor; [exact Hr|exact Hs].
Qed.

Section SegPaired.
  Variable F : list gspec.
  Variable ex : N -> option ncp -> value -> env -> tex * env.
  Variable gi : N.
  Variable g : gspec.
  Hypothesis H_ex : forall k cpo v e cp info e', ex k cpo v e = (TSub cp info, e') -> sub_ok F g k cp info.
  Let gr := gs_graph g.

  Lemma enter_paired : forall s e i c log e',
    enter ex gi g s e = (OInterrupted i c, log, e') -> paired F g i c.
  Proof.
    intros s e i c log e' H. apply subs_paired_paired; [eapply enter_interrupt_reports; eauto|].
    unfold enter in H. fold gr in H.
    destruct (g_eager gr).
    - destruct (match ls_next s with [] => ([], e) | _ :: _ => pop_sched gi e end) as [sched e1].
      eapply (eiterate_interrupt_subs VNil (ifold gr) (igetr gr) (pre_fn g) ex (gs_before g) (gs_after g) (sub_ok F g) H_ex);
        [|exact H]. simpl. constructor.
    - eapply (iterate_interrupt_subs VNil (ifold gr) (igetr gr) (pre_fn g) ex (gs_before g) (gs_after g) (sub_ok F g) H_ex); eauto.
  Qed.

  Lemma seg_fresh_paired : forall x e i c log e',
    seg_fresh ex gi g x e = (OInterrupted i c, log, e') -> paired F g i c.
  Proof.
    intros x e i c log e' H. pose proof H as H0. unfold seg_fresh in H. fold gr in H.
    destruct (init_chans value gr) as [cs0| |]; try discriminate.
    destruct (init (ifold gr) (igetr gr) (gs_before g) cs0 (gs0 g) x) as [s|v|i0 c0|err] eqn:Hi;
      simpl in H; try discriminate.
    - eapply enter_paired; eauto.
    - inversion H; subst. apply subs_paired_paired; [eapply seg_fresh_interrupt_reports; eauto|].
      eapply (init_interrupt_subs VNil (ifold gr) (igetr gr) (pre_fn g) ex (gs_before g) (gs_after g) (sub_ok F g)); eauto.
  Qed.

  Lemma seg_resumed_paired : forall sm c0 e i c log e',
    seg_resumed ex gi g sm c0 e = (OInterrupted i c, log, e') -> paired F g i c.
  Proof. unfold seg_resumed; intros; eapply enter_paired; eauto. Qed.
End SegPaired.

(* what a node body of the model returns for a nested interrupt belongs together, at every depth *)
Lemma node_exec_sub_ok : forall d F g k cpo v e cp info e',
  node_exec d F g k cpo v e = (TSub cp info, e') -> sub_ok F g k cp info.
Proof.
  induction d as [|d IH]; intros F g k cpo v e cp info e' H; simpl in H.
  - destruct (find_node (gs_graph g) k) as [n|]; [|discriminate].
    destruct (key_input g k cpo v) as [v'| |]; try discriminate.
    destruct (n_kind n); try discriminate;
      unfold lambda_exec in H; match type of H with (if ?b then _ else _, _) = _ => destruct b end; discriminate.
  - destruct (find_node (gs_graph g) k) as [n|] eqn:Hn; [|discriminate].
    destruct (key_input g k cpo v) as [v'| |]; try discriminate.
    destruct (n_kind n) as [| |j] eqn:Hk;
      try (unfold lambda_exec in H; match type of H with (if ?b then _ else _, _) = _ => destruct b end; discriminate).
    + destruct (nth_error F j) as [sub|] eqn:Hj; [|discriminate].
      destruct cpo as [[c0]|].
      * destruct (seg_resumed (node_exec d F sub) (N.of_nat j) sub (sm_of e) c0 e) as [[o l] e1] eqn:Hs.
        destruct o as [r|i c|x0|]; inversion H; subst. simpl.
        exists n, j, sub. split; [exact Hn|]. split; [exact Hk|]. split; [exact Hj|]. simpl.
        eapply (seg_resumed_paired F (node_exec d F sub) (N.of_nat j) sub); [|exact Hs].
        intros; eapply IH; eauto.
      * destruct (seg_fresh (node_exec d F sub) (N.of_nat j) sub v' e) as [[o l] e1] eqn:Hs.
        destruct o as [r|i c|x0|]; inversion H; subst. simpl.
        exists n, j, sub. split; [exact Hn|]. split; [exact Hk|]. split; [exact Hj|]. simpl.
        eapply (seg_fresh_paired F (node_exec d F sub) (N.of_nat j) sub); [|exact Hs].
        intros; eapply IH; eauto.
Qed.

(* every interrupt of the run of a case: information and written checkpoint belong together at every
   nesting level *)
Lemma run_drive_paired : forall (F : list gspec) g0 with_id mods x e cos e' co i c,
  nth_error F 0 = Some g0 ->
  run_drive F with_id mods x e = (cos, e') ->
  In co cos -> co_out co = OInterrupted i c -> paired F g0 i c.
Proof.
  intros F g0 with_id mods x e cos e' co i c HF H Hin Ho.
  destruct F as [|g1 rest]; [discriminate|]. simpl in HF. inversion HF; subst g1.
  unfold run_drive in H.
  set (ex := node_exec (List.length (g0 :: rest)) (g0 :: rest) g0) in *.
  assert (Hex : forall k cpo v e cp info e', ex k cpo v e = (TSub cp info, e') -> sub_ok (g0 :: rest) g0 k cp info)
    by (intros; eapply node_exec_sub_ok; eauto).
  eapply (drive_interrupts_from_segments (fun c : cpt => c) (fun c => Some c) (seg_fresh ex 0 g0 x) (seg_resumed ex 0 g0)
            (tick_of mods) (paired (g0 :: rest) g0)); [| |exact H|exact Hin|exact Ho].
  - intros; eapply (seg_fresh_paired (g0 :: rest) ex 0 g0 Hex); eauto.
  - intros; eapply (seg_resumed_paired (g0 :: rest) ex 0 g0 Hex); eauto.
Qed.

(* a segment resumed from a checkpoint that belongs together with an interrupt information executes
   an interrupt-before node only if that information reports it — at whatever nesting level the pair
   was found, whatever the node bodies, the schedule and the state modifier *)
Lemma paired_resume_honours : forall F g (i : inf) (c : cpt),
  paired F g i c ->
  forall (ex : N -> option ncp -> value -> env -> tex * env) gi sm e o l e',
    seg_resumed ex gi g sm c e = (o, l, e') ->
    forall ev, In ev l -> memN (ev_key ev) (gs_before g) = true -> reported i (ev_key ev).
Proof.
  intros F g i c Hp ex gi sm e o l e' Hs ev Hin Hm.
  inversion Hp as [g' i' c' Hrep Hsubs]; subst.
  apply Hrep; auto.
  eapply seg_resumed_before_only_pending; eauto.
Qed.

(* every nested checkpoint of a pair sits under a graph node, beside the nested information reported
   under the same key, and the two belong together for the nested graph *)
Lemma paired_descends : forall F g (i : inf) (c : cpt),
  paired F g i c ->
  forall k sc, In (k, sc) (cp_subs c) ->
    exists si n j sub, In (k, si) (ii_subs i) /\
      find_node (gs_graph g) k = Some n /\ n_kind n = KSub j /\ nth_error F j = Some sub /\
      paired F sub (un_info si) (un_cp sc).
Proof.
  intros F g i c Hp k sc Hin.
  inversion Hp as [g' i' c' Hrep Hsubs]; subst. clear Hp Hrep.
  induction Hsubs as [|ki kc li lc [Hk (n & j & sub & Hn & Hkind & Hj & Hpair)] _ IH]; [destruct Hin|].
  destruct Hin as [Heq|Hin].
  - subst kc. simpl in *. exists (snd ki), n, j, sub.
    split; [left; destruct ki as [k' si']; simpl in *; subst; reflexivity|].
    split; [exact Hn|]. split; [exact Hkind|]. split; [exact Hj|exact Hpair].
  - destruct (IH Hin) as (si & n' & j' & sub' & Hi & H1 & H2 & H3 & H4).
    exists si, n', j', sub'.
    split; [right; exact Hi|]. split; [exact H1|]. split; [exact H2|]. split; [exact H3|exact H4].
Qed.

(* ---------- witnesses (non-vacuity), evaluated by the kernel ---------- *)
(* START -> 2 -> 3 -> END, interrupt-after {2}, interrupt-before {3; 3; 9} (a name given twice, a name
   of no node): the run takes two calls; node 3 executes in the second, the first reported it *)
Definition wd_chain : gspec :=
  Build_gspec (Build_graph [Build_node 0 KLambda None [2] [2] [] [];
                            Build_node 2 KLambda None [3] [3] [] [];
                            Build_node 3 KLambda None [1] [1] [] []] Pregel false 0%nat)
              false [] [] [3; 3; 9] [2] [] [].
Definition wd_x : value := VMap [(0, VAtom 1)].

Lemma wd_chain_run : exists co1 co2 e ev i c,
  run_drive [wd_chain] true [] wd_x (env0 []) = ([co1; co2], e) /\
  In ev (co_log co2) /\ memN (ev_key ev) (gs_before wd_chain) = true /\
  co_out co1 = OInterrupted i c /\ co_written co1 = true /\ ii_before i = [3] /\ ii_after i = [2] /\
  (exists v, co_out co2 = ODone v) /\ co_written co2 = false.
Proof.
  do 6 eexists. split; [vm_compute; reflexivity|].
  split; [left; reflexivity|]. split; [vm_compute; reflexivity|].
  split; [reflexivity|]. split; [reflexivity|]. split; [reflexivity|]. split; [reflexivity|].
  split; [eexists; reflexivity|reflexivity].
Qed.

(* eager mode: START -> {2, 3} -> END (Workflow), interrupt-after {2}; collection order [2; 3]: the
   collection of node 2 ends the segment, nothing is submitted after it *)
Definition wd_eager : gspec :=
  Build_gspec (Build_graph [Build_node 0 KLambda None [2; 3] [2; 3] [] [];
                            Build_node 2 KLambda None [4] [4] [] [];
                            Build_node 3 KLambda None [4] [4] [] [];
                            Build_node 4 KLambda None [1] [1] [] []] Dag true 0%nat)
              true [] [] [] [2] [] [].

Definition wd_eager_state : option (@estate value (chans value) gst ncp ninfo) :=
  match init_chans value (gs_graph wd_eager) with
  | Ok cs0 =>
    match init (SCP := ncp) (SINFO := ninfo) (ifold (gs_graph wd_eager)) (igetr (gs_graph wd_eager))
               (gs_before wd_eager) cs0 (gs0 wd_eager) wd_x with
    | Continue s => Some (to_estate s)
    | _ => None
    end
  | _ => None
  end.

Lemma wd_eager_collects_after_node : exists s c rest sched',
  wd_eager_state = Some s /\
  collected (pre_fn wd_eager) (node_exec 1 [wd_eager] wd_eager) s [2; 3] (env0 []) = Some (c, rest, sched') /\
  In 2 (afters (gs_after wd_eager) [c]) /\ rest <> [].
Proof.
  do 4 eexists. split; [vm_compute; reflexivity|]. split; [vm_compute; reflexivity|].
  split; [vm_compute; left; reflexivity|discriminate].
Qed.

(* a graph node 2 holding START -> 4 -> 5 -> END with interrupt-before {5}: the first call is interrupted
   inside the nested graph; the nested information is listed under node 2 and reports node 5 *)
Definition wd_top : gspec :=
  Build_gspec (Build_graph [Build_node 0 KLambda None [2] [2] [] [];
                            Build_node 2 (KSub 1%nat) None [3] [3] [] [];
                            Build_node 3 KLambda None [1] [1] [] []] Pregel false 0%nat) false [] [] [] [] [] [].
Definition wd_sub : gspec :=
  Build_gspec (Build_graph [Build_node 0 KLambda None [4] [4] [] [];
                            Build_node 4 KLambda None [5] [5] [] [];
                            Build_node 5 KLambda None [1] [1] [] []] Pregel false 0%nat) false [] [] [5] [] [] [].

Lemma wd_nested_run : exists co rest e i c si sc,
  run_drive [wd_top; wd_sub] true [] wd_x (env0 []) = (co :: rest, e) /\
  co_out co = OInterrupted i c /\ ii_subs i = [(2, NInfo si)] /\ cp_subs c = [(2, NCP sc)] /\
  ii_before si = [5] /\ map fst (cp_inputs sc) = [5].
Proof.
  do 7 eexists. split; [vm_compute; reflexivity|].
  split; [reflexivity|]. split; [reflexivity|]. split; [reflexivity|]. split; reflexivity.
Qed.

(* the successor 3 of the interrupt-after node 2 of [wd_chain] is a pending input of the checkpoint of the
   first call, with the input computed from the output of node 2; nothing but node 2 ran *)
Lemma wd_chain_successor_pending : exists i c e,
  seg_fresh (node_exec 1 [wd_chain] wd_chain) 0 wd_chain wd_x (env0 []) = (OInterrupted i c, [{| ev_key := 2; ev_in := wd_x; ev_abort := false; ev_skip := false |}], e) /\
  ii_after i = [2] /\ cp_inputs c = [(3, VMap [(2, wd_x)])].
Proof. do 3 eexists. split; [vm_compute; reflexivity|]. split; reflexivity. Qed.
