(* Proofs/GenAgreeChanClose.v — property C19, translator tie: what tools/go2v (extractor "c19_chanclose")
   translates from compose/dag.go — dagChannel.reportValues and dagChannel.reportSkip, as far as streams are
   concerned (coq/Gen/ChanCloseCode.v, regenerated on every run) — is, for ALL arguments, the specification
   of Model/ChanCloseGenLib.v, and that specification is what the run model's [report_value] / [report_skip]
   (Model/StreamRun.v: the operations of finished_run_open_empty_* / every_stream_released_all_calls) do:
   a skipped channel closes every stream it is handed; a channel that becomes skipped closes every stream it
   holds; nothing else is closed, a value of a data predecessor is stored.  Dropping one of the two closing
   loops, changing its guard or its range, or storing a value of a non-predecessor makes these proofs fail.
   With the neutral Gen file (source shape not recognised) the first two theorems hold by reflexivity. *)
From Eino Require Import Base.Util Model.StreamAcct Model.AcctGenLib Model.StreamRun Model.ChanCloseGenLib.
From Eino Require Gen.ChanCloseCode.
From Coq Require Import Lia.
Open Scope N_scope.

(* ---- reportValues *)
Lemma rv_fold_close : forall (ins : list (key * handle)) a,
  fold_left (fun acc (kv : key * handle) => let '(_, v) := kv in ua_close v acc) ins a
  = {| ua_kept := ua_kept a; ua_closed := ua_closed a ++ map snd ins |}.
Proof.
  induction ins as [|[k v] ins IH]; intros a; simpl.
  - rewrite app_nil_r. now destruct a.
  - rewrite IH. simpl. now rewrite <- app_assoc.
Qed.

Lemma rv_fold_keep : forall dps (f : upd_acc -> key * handle -> upd_acc),
  (forall acc kv, f acc kv = if memb (fst kv) dps then ua_keep (fst kv) (snd kv) acc else acc) ->
  forall ins a,
  fold_left f ins a = {| ua_kept := ua_kept a ++ filter (fun kv => memb (fst kv) dps) ins; ua_closed := ua_closed a |}.
Proof.
  intros dps f Hf. induction ins as [|[k v] ins IH]; intros a; simpl.
  - rewrite app_nil_r. now destruct a.
  - rewrite IH, Hf. simpl. destruct (memb k dps); simpl; now rewrite <- ?app_assoc.
Qed.

Theorem gen_dag_report_values_agrees : forall skipped dps ins,
  Gen.ChanCloseCode.dag_report_values skipped dps ins = spec_report_values skipped dps ins.
Proof.
  intros skipped dps ins.
  first [ reflexivity
        | unfold Gen.ChanCloseCode.dag_report_values, spec_report_values, g_range;
          destruct skipped;
          [ rewrite rv_fold_close; reflexivity
          | rewrite (rv_fold_keep dps) by (intros acc [k v]; unfold g_set_mem; simpl; destruct (memb k dps); reflexivity);
            reflexivity ] ].
Qed.

(* ---- reportSkip *)
Lemma map_set_present : forall (m : list (key * dstate)) k a,
  NoDup (map fst m) -> g_map_has k m = true ->
  g_map_set k a m = map (fun ka => (fst ka, if N.eqb (fst ka) k then a else snd ka)) m.
Proof.
  induction m as [|[k' a'] m IH]; intros k a Hnd Hh; [discriminate|].
  simpl in *. inversion Hnd as [|? ? Hnot Hnd']; subst.
  destruct (N.eqb_spec k k') as [->|Hne].
  - rewrite N.eqb_refl. f_equal.
    rewrite <- (map_id m) at 1. apply map_ext_in. intros [k2 a2] Hin. simpl.
    destruct (N.eqb_spec k2 k') as [->|]; [|reflexivity].
    exfalso. apply Hnot. apply in_map_iff. now exists (k', a2).
  - destruct (N.eqb_spec k' k) as [E|_]; [congruence|]. f_equal. apply IH; auto.
Qed.

Lemma map_has_map : forall (m : list (key * dstate)) (f : key * dstate -> dstate) k,
  g_map_has k (map (fun ka => (fst ka, f ka)) m) = g_map_has k m.
Proof. intros. unfold g_map_has. induction m as [|a m IH]; simpl; [reflexivity|]. now rewrite IH. Qed.

Lemma mark_fold : forall keys (m : list (key * dstate)) (a : dstate),
  NoDup (map fst m) ->
  fold_left (fun cps k => if g_map_has k cps then g_map_set k a cps else cps) keys m
  = map (fun ka => (fst ka, if memb (fst ka) keys then a else snd ka)) m.
Proof.
  induction keys as [|k keys IH]; intros m a Hnd; simpl.
  - rewrite <- (map_id m) at 1. apply map_ext. now intros [k a'].
  - destruct (g_map_has k m) eqn:Hh.
    + rewrite map_set_present by assumption. rewrite IH.
      * rewrite map_map. apply map_ext. intros [k2 a2]. simpl.
        unfold memb at 2. simpl. fold (memb k2 keys).
        destruct (N.eqb k2 k); simpl; now destruct (memb k2 keys).
      * rewrite map_map. simpl. exact Hnd.
    + rewrite IH by assumption. apply map_ext_in. intros [k2 a2] Hin. simpl.
      unfold memb at 2. simpl. fold (memb k2 keys).
      destruct (N.eqb_spec k2 k) as [->|Hne]; [|reflexivity].
      exfalso. unfold g_map_has in Hh. rewrite <- not_true_iff_false in Hh. apply Hh.
      apply existsb_exists. exists (k, a2). split; [exact Hin|]. simpl. apply N.eqb_refl.
Qed.

Lemma flag_is_forall : forall (m : list (key * dstate)),
  (if existsb (fun ka => negb (dstate_eqb (snd ka) DSkip)) m then false else true)
  = forallb (fun ka => is_dskip (snd ka)) m.
Proof.
  induction m as [|[k a] m IH]; simpl; [reflexivity|].
  destruct a; simpl; auto.
Qed.

Lemma collect_fold : forall (vs : list (key * handle)) acc,
  fold_left (fun acc (kv : key * handle) => let '(_, v) := kv in acc ++ [v]) vs acc = acc ++ map snd vs.
Proof.
  induction vs as [|[k v] vs IH]; intros acc; simpl; [now rewrite app_nil_r|].
  rewrite IH. now rewrite <- app_assoc.
Qed.

Theorem gen_dag_report_skip_agrees : forall cps keys values,
  NoDup (map fst cps) ->
  Gen.ChanCloseCode.dag_report_skip cps keys values = spec_report_skip cps keys values.
Proof.
  intros cps keys values Hnd.
  first [ reflexivity
        | unfold Gen.ChanCloseCode.dag_report_skip, spec_report_skip, g_range, g_flag_break;
          rewrite mark_fold by exact Hnd;
          rewrite flag_is_forall;
          destruct (forallb _ _); [rewrite collect_fold|]; reflexivity ].
Qed.

(* ---- the specification is what the run model does *)
Lemma memb_filter : forall (f : key -> bool) l k, memb k (filter f l) = memb k l && f k.
Proof.
  induction l as [|a l IH]; intros k; [reflexivity|].
  cbn [filter]. destruct (f a) eqn:E.
  - unfold memb in *. cbn [existsb]. rewrite IH. destruct (N.eqb_spec k a) as [->|]; [now rewrite E|reflexivity].
  - rewrite IH. unfold memb. cbn [existsb]. destruct (N.eqb_spec k a) as [->|]; [|reflexivity].
    rewrite E. now rewrite andb_false_r.
Qed.

Lemma in_keys_of_data_pred : forall g p x, is_data_pred_g g p x = true -> memb p (all_keys g) = true.
Proof.
  intros g p x H. unfold is_data_pred_g, call_of in H.
  destruct (nlist_get p (g_calls g)) eqn:E; [|discriminate]. clear H.
  unfold all_keys. induction (g_calls g) as [|[k c'] l IH]; simpl in *; [discriminate|].
  destruct (N.eqb_spec p k); simpl; auto.
Qed.

Lemma data_preds_memb : forall g x p, memb p (data_preds g x) = is_data_pred_g g p x.
Proof.
  intros. unfold data_preds. rewrite memb_filter.
  destruct (is_data_pred_g g p x) eqn:E; [|now rewrite andb_false_r].
  now rewrite (in_keys_of_data_pred g p x E).
Qed.

(* reportValues of one value: a skipped channel closes it (and stores nothing); otherwise nothing is closed
   and the value is stored iff its writer is a data predecessor *)
Theorem report_value_is_spec : forall g x from h st,
  g_dag g = true -> is_chan g x = true ->
  let c := rs_chans st x in
  let a := spec_report_values (ch_skipped c) (data_preds g x) [(from, h)] in
  (ch_skipped c = true -> ua_kept a = [] /\ report_value g x from h st = close_all OChan (ua_closed a) st)
  /\ (ch_skipped c = false -> ua_closed a = []
        /\ ((ua_kept a = [(from, h)] /\ is_data_pred_g g from x = true
             /\ report_value g x from h st
                = Ok (set_chan st x {| ch_ctrl := ch_ctrl c; ch_data := upd (ch_data c) from true;
                                       ch_vals := upd (ch_vals c) from (Some h); ch_skipped := false |}))
            \/ (ua_kept a = [] /\ report_value g x from h st = Ok st))).
Proof.
  intros g x from h st Hd Hc c a. subst a. unfold spec_report_values, report_value. rewrite Hc, Hd. simpl.
  fold c. split; intros Hs; rewrite Hs; simpl.
  - split; reflexivity.
  - split; [reflexivity|]. rewrite data_preds_memb. destruct (is_data_pred_g g from x).
    + left. repeat split; reflexivity.
    + right. split; reflexivity.
Qed.

Lemma forallb_filter_map : forall (f : key -> bool) (q : key -> bool) (l : list key),
  forallb q (filter f l) = forallb (fun p => negb (f p) || q p) l.
Proof.
  induction l as [|a l IH]; simpl; [reflexivity|].
  destruct (f a); simpl; rewrite IH; reflexivity.
Qed.

Lemma forallb_map_l : forall A B (f : A -> B) (q : B -> bool) (l : list A),
  forallb q (map f l) = forallb (fun a => q (f a)) l.
Proof. induction l as [|a l IH]; simpl; [reflexivity|]. now rewrite IH. Qed.

Lemma chan_values_vals_map : forall g c, map snd (vals_map g c) = chan_values g c.
Proof.
  intros. unfold vals_map, chan_values. induction (all_keys g) as [|p l IH]; simpl; [reflexivity|].
  rewrite map_app, IH. destruct (ch_vals c p); reflexivity.
Qed.

(* reportSkip([k]): the verdict of the specification on the channel's control-predecessor map is the run
   model's, and the streams it closes are the ones the run model closes (all the stored ones, exactly when
   the channel becomes skipped) *)
Theorem report_skip_is_spec : forall g x k st,
  g_dag g = true -> is_chan g x = true ->
  let c := rs_chans st x in
  let '(cps', all, closed) := spec_report_skip (ctrl_map g x c) [k] (vals_map g c) in
  let ctrl := if is_ctrl_pred g k x then upd (ch_ctrl c) k DSkip else ch_ctrl c in
  let data := if is_data_pred_g g k x then upd (ch_data c) k true else ch_data c in
  cps' = map (fun p => (p, ctrl p)) (filter (fun p => is_ctrl_pred g p x) (all_keys g))
  /\ report_skip g x k st
     = if all then
         do st1 <- close_all OSkip closed st;
         Ok (true, set_chan st1 x {| ch_ctrl := ctrl; ch_data := data; ch_vals := fun _ => None; ch_skipped := true |})
       else Ok (false, set_chan st x {| ch_ctrl := ctrl; ch_data := data; ch_vals := ch_vals c; ch_skipped := false |}).
Proof.
  intros g x k st Hd Hc c.
  set (ctrl := if is_ctrl_pred g k x then upd (ch_ctrl c) k DSkip else ch_ctrl c).
  assert (Hmap : map (fun ka : key * dstate => (fst ka, if memb (fst ka) [k] then DSkip else snd ka)) (ctrl_map g x c)
                 = map (fun p => (p, ctrl p)) (filter (fun p => is_ctrl_pred g p x) (all_keys g))).
  { unfold ctrl_map. rewrite map_map. apply map_ext_in. intros p Hin. simpl.
    apply filter_In in Hin. destruct Hin as [_ Hp]. f_equal. unfold ctrl.
    destruct (N.eqb_spec p k) as [->|Hne]; simpl.
    - rewrite Hp. unfold upd. now rewrite N.eqb_refl.
    - destruct (is_ctrl_pred g k x); [|reflexivity]. unfold upd. destruct (N.eqb_spec p k); [congruence|reflexivity]. }
  unfold spec_report_skip. rewrite Hmap. split; [reflexivity|].
  unfold report_skip. rewrite Hd, Hc. cbn [negb]. fold c. fold ctrl.
  rewrite forallb_map_l. cbn [snd]. rewrite forallb_filter_map.
  destruct (forallb _ (all_keys g)); [|reflexivity].
  now rewrite chan_values_vals_map.
Qed.

(* non-vacuity *)
Example gen_report_values_skipped :
  Gen.ChanCloseCode.dag_report_values true [3] [(3, 10); (4, 11)] = {| ua_kept := []; ua_closed := [10; 11] |}.
Proof. vm_compute. reflexivity. Qed.
Example gen_report_values_live :
  Gen.ChanCloseCode.dag_report_values false [3] [(3, 10); (4, 11)] = {| ua_kept := [(3, 10)]; ua_closed := [] |}.
Proof. vm_compute. reflexivity. Qed.
Example gen_report_skip_last_predecessor :
  Gen.ChanCloseCode.dag_report_skip [(3, DSkip); (4, DWait)] [4] [(7, 20)] = ([(3, DSkip); (4, DSkip)], true, [20]).
Proof. vm_compute. reflexivity. Qed.
Example gen_report_skip_one_of_two :
  Gen.ChanCloseCode.dag_report_skip [(3, DReady); (4, DWait)] [4] [(7, 20)] = ([(3, DReady); (4, DSkip)], false, []).
Proof. vm_compute. reflexivity. Qed.
