(* Proofs/GenAgreeC06.v — property C06, translator tie (DESIGN §13a): the Gallina functions that tools/go2v
   (extractors "intrhit", "intrresolve", "intrloop") translate statement by statement from
     compose/graph_run.go     getHitKey, (runner).resolveInterruptCompletedTasks, and in (runner).run the
                              body of `for step := 0; ; step++` after tm.submit and the initial task set of
                              `if !initialized`
     compose/graph_manager.go (taskManager).wait
   are the definitions of Model/RunLoop.v that every C06 (and C05) theorem is about:

     gen_get_hit_key_same_nodes / _same_test / _agrees   get_hit_key  vs  hits
     gen_resolve_agrees                                   resolve_interrupt_completed_tasks vs
                                                          first_fail / subcps+subinfos / reruns / afters
     gen_tm_wait_agrees                                   tm_wait vs "all" (batch) / pick (eager)
     gen_loop_body_batch, gen_step_agrees                 loop_body true  vs  decide, step
     gen_loop_body_eager, gen_estep_agrees                loop_body false vs  edecide, estep (any schedule)
     gen_init_body_agrees                                 init_body vs init
     gen_extract_interrupt_info_agrees, gen_extract_through_wrapping, gen_extract_only_interrupts,
     gen_is_sub_graph_interrupt_agrees, texec_of_err_classified
                                                          compose/interrupt.go: ExtractInterruptInfo and
                                                          isSubGraphInterrupt (extractor "intrerr") on error
                                                          chains (Model/IntrGenLib.v: gerr; errors.As walks the
                                                          chain, a type assertion looks at its head)
     gen_interrupt_lists_reach_runner                     extractor "intrcfg": WithInterruptBeforeNodes / WithInterruptAfterNodes
                                                          (compose/interrupt.go) and the two assignments of graph.compile:
                                                          the runner tests against exactly the lists the application gave
     gen_handle_interrupt_agrees, gen_handle_sub_rerun_agrees, gen_handle_sub_rerun_is_rerun_interrupt
                                                          extractor "intrhandle": handleInterrupt = plain_interrupt,
                                                          handleInterruptWithSubGraphAndRerunNodes = handle_sub_rerun (= rerun_interrupt),
                                                          each with the exit of the handlers: a nested graph hands (information,
                                                          checkpoint) to its parent, a top-level run writes the checkpoint iff an id
                                                          was given, and returns the information
     handle_sub_rerun_agrees                              the classification BY LOOKUP that
                                                          handleInterruptWithSubGraphAndRerunNodes performs
                                                          (Model/IntrGenLib.v: handle_sub_rerun) vs the
                                                          model's classification by result (rerun_interrupt)

   for every channel discipline (fold, getr), graph state, zero value, set of collected results, set of
   results still running and collection order.  Hypotheses: the tasks of one task manager have pairwise
   distinct node keys (they are made from a map keyed by node; in eager mode C02: a node runs at most
   once); the configured interrupt-before list names no node twice (getHitKey reports a node once per
   occurrence of its name, the model once: without the hypothesis the two lists have the same elements,
   gen_get_hit_key_same_nodes, and the property speaks of nodes, not of multiplicities).

   An edit of the Go code that changes what is tested, in which order it matters, which list or task set
   is handed to which parameter of handleInterrupt / handleInterruptWithSubGraphAndRerunNodes /
   resolveInterruptCompletedTasks / calculateNextTasks, or when the loop waits for the running tasks,
   makes a theorem below fail; renamed locals, reordered declarations, an index loop written as a range
   loop, propositionally equivalent conditions do not. When an extractor does not recognise the source its
   Gen file is the neutral one and the statements hold trivially ([tie_available = false] for the loop). *)
From Coq Require Import String Lia Permutation.
From Eino Require Import Base.Util Model.RunLoop Model.IntrGenLib Proofs.RunLoop.
From Eino Require Gen.IntrHit Gen.IntrResolve Gen.IntrLoop Gen.IntrErr Gen.IntrCfg Gen.IntrHandle.
Open Scope N_scope.

(* ---------- getHitKey ---------- *)
Definition hit_spec {X} (tasks : list (N * X)) (keys : list N) : list N :=
  flat_map (fun t => map (fun _ => fst t) (filter (fun key => N.eqb key (fst t)) keys)) tasks.

Lemma hit_inner : forall (k : N) keys ret,
  for_range (R := list N) (fun key ret => if N.eqb key k then let ret := ret ++ [k] in CNext ret else CNext ret) keys ret
  = inl (ret ++ map (fun _ => k) (filter (fun key => N.eqb key k) keys)).
Proof.
  intros k keys; induction keys as [|a keys IH]; intros ret; simpl.
  - rewrite app_nil_r; reflexivity.
  - destruct (N.eqb a k); simpl.
    + rewrite IH, <- app_assoc; reflexivity.
    + apply IH.
Qed.

Lemma hit_outer : forall X (tasks : list (N * X)) keys ret,
  for_range (R := list N) (fun (t : N * X) ret =>
      match for_range (fun key ret => if N.eqb key (fst t) then let ret := ret ++ [fst t] in CNext ret else CNext ret) keys ret with
      | inr r => CRet r | inl ret => CNext ret end) tasks ret
  = inl (ret ++ hit_spec tasks keys).
Proof.
  intros X tasks keys; unfold hit_spec; induction tasks as [|t tasks IH]; intros ret; simpl.
  - rewrite app_nil_r; reflexivity.
  - rewrite hit_inner, IH, <- app_assoc; reflexivity.
Qed.

(* The same two loops as other sources spell them: the task's key named by a local (`nodeKey := tasks[i].nodeKey`: a
   `let`, gone after zeta), the comparison written either way round (`key == k` / `k == key`). *)
Lemma hit_inner_z : forall (k : N) keys ret,
  for_range (R := list N) (fun key ret => if N.eqb key k then CNext (ret ++ [k]) else CNext ret) keys ret
  = inl (ret ++ map (fun _ => k) (filter (fun key => N.eqb key k) keys)).
Proof. exact hit_inner. Qed.

Lemma hit_inner_sym_z : forall (k : N) keys ret,
  for_range (R := list N) (fun key ret => if N.eqb k key then CNext (ret ++ [k]) else CNext ret) keys ret
  = inl (ret ++ map (fun _ => k) (filter (fun key => N.eqb key k) keys)).
Proof.
  intros k keys; induction keys as [|a keys IH]; intros ret; simpl.
  - rewrite app_nil_r; reflexivity.
  - rewrite (N.eqb_sym k a). destruct (N.eqb a k); simpl.
    + rewrite IH, <- app_assoc; reflexivity.
    + apply IH.
Qed.

Lemma hit_outer_z : forall X (tasks : list (N * X)) keys ret,
  for_range (R := list N) (fun (t : N * X) ret =>
      match for_range (fun key ret => if N.eqb key (fst t) then CNext (ret ++ [fst t]) else CNext ret) keys ret with
      | inr r => CRet r | inl ret => CNext ret end) tasks ret
  = inl (ret ++ hit_spec tasks keys).
Proof.
  intros X tasks keys; unfold hit_spec; induction tasks as [|t tasks IH]; intros ret; simpl.
  - rewrite app_nil_r; reflexivity.
  - rewrite hit_inner_z, IH, <- app_assoc; reflexivity.
Qed.

Lemma hit_outer_sym_z : forall X (tasks : list (N * X)) keys ret,
  for_range (R := list N) (fun (t : N * X) ret =>
      match for_range (fun key ret => if N.eqb (fst t) key then CNext (ret ++ [fst t]) else CNext ret) keys ret with
      | inr r => CRet r | inl ret => CNext ret end) tasks ret
  = inl (ret ++ hit_spec tasks keys).
Proof.
  intros X tasks keys; unfold hit_spec; induction tasks as [|t tasks IH]; intros ret; simpl.
  - rewrite app_nil_r; reflexivity.
  - rewrite hit_inner_sym_z, IH, <- app_assoc; reflexivity.
Qed.

Lemma hit_one_in : forall (a k : N) keys,
  In k (map (fun _ => a) (filter (fun key => N.eqb key a) keys)) <-> k = a /\ memN a keys = true.
Proof.
  intros a k keys; induction keys as [|b keys IH]; simpl.
  - split; [tauto | intros [_ H]; discriminate].
  - rewrite (N.eqb_sym a b). destruct (N.eqb b a); simpl.
    + split; [intros [H|H]; [auto | apply IH in H; tauto] | intros [H _]; auto].
    + exact IH.
Qed.

Lemma hits_flat : forall V (keys : list N) (tasks : list (N * V)),
  hits keys tasks = flat_map (fun t => if memN (fst t) keys then [fst t] else []) tasks.
Proof.
  intros V keys tasks; unfold hits; induction tasks as [|t tasks IH]; simpl; auto.
  destruct (memN (fst t) keys); simpl; rewrite IH; reflexivity.
Qed.

Lemma hit_spec_in : forall V (tasks : list (N * V)) keys k,
  In k (hit_spec tasks keys) <-> In k (hits keys tasks).
Proof.
  intros V tasks keys k. rewrite hits_flat. unfold hit_spec. rewrite !in_flat_map.
  split; intros [t [Ht Hk]]; exists t; split; auto.
  - apply hit_one_in in Hk as [-> Hm]. rewrite Hm; left; reflexivity.
  - destruct (memN (fst t) keys) eqn:Hm; [destruct Hk as [<-|[]]; apply hit_one_in; auto | destruct Hk].
Qed.

Lemma filter_eq_none : forall (a : N) keys, ~ In a keys -> filter (fun key => N.eqb key a) keys = [].
Proof.
  intros a keys; induction keys as [|b keys IH]; simpl; intros H; auto.
  destruct (N.eqb b a) eqn:E; [apply N.eqb_eq in E; subst; tauto | apply IH; tauto].
Qed.

Lemma memN_in : forall (a : N) keys, memN a keys = true <-> In a keys.
Proof.
  intros a keys; unfold memN; rewrite existsb_exists; split.
  - intros [x [Hx E]]; apply N.eqb_eq in E; subst; auto.
  - intros H; exists a; split; auto; apply N.eqb_refl.
Qed.

Lemma hit_one_nodup : forall (a : N) keys, NoDup keys ->
  map (fun _ : N => a) (filter (fun key => N.eqb key a) keys) = if memN a keys then [a] else [].
Proof.
  intros a keys H; induction H as [|b keys Hb Hnd IH]; simpl; auto.
  rewrite (N.eqb_sym a b). destruct (N.eqb b a) eqn:E; simpl.
  - apply N.eqb_eq in E; subst. rewrite filter_eq_none by assumption. reflexivity.
  - exact IH.
Qed.

Lemma hit_spec_nodup : forall V (tasks : list (N * V)) keys, NoDup keys -> hit_spec tasks keys = hits keys tasks.
Proof.
  intros V tasks keys H. rewrite hits_flat. unfold hit_spec.
  induction tasks as [|t tasks IH]; simpl; auto. rewrite hit_one_nodup, IH by assumption. reflexivity.
Qed.

Lemma is_nil_in : forall A (l l' : list A), (forall k, In k l <-> In k l') -> is_nil l = is_nil l'.
Proof.
  intros A [|a l] [|b l'] H; simpl; auto.
  - destruct (proj2 (H b)); left; auto.
  - destruct (proj1 (H a)); left; auto.
Qed.

(* the generated getHitKey, as a specification; fails when Gen/IntrHit.v is the neutral file *)
Ltac gen_hit_is_spec :=
  unfold Gen.IntrHit.get_hit_key;
  first [ rewrite hit_outer | cbv zeta; first [ rewrite hit_outer_z | rewrite hit_outer_sym_z ] ]; reflexivity.

(* the translated getHitKey reports exactly the nodes the model's [hits] reports ... *)
Theorem gen_get_hit_key_same_nodes : forall V (tasks : list (N * V)) keys k,
  In k (Gen.IntrHit.get_hit_key tasks keys) <-> In k (hits keys tasks).
Proof.
  intros V tasks keys k.
  first [ reflexivity
        | assert (E : Gen.IntrHit.get_hit_key tasks keys = hit_spec tasks keys) by gen_hit_is_spec;
          rewrite E; apply hit_spec_in ].
Qed.

(* ... so the test `len(hit) > 0` is the model's ... *)
Theorem gen_get_hit_key_same_test : forall V (tasks : list (N * V)) keys,
  is_nil (Gen.IntrHit.get_hit_key tasks keys) = is_nil (hits keys tasks).
Proof. intros; apply is_nil_in; intros; apply gen_get_hit_key_same_nodes. Qed.

(* ... and it IS [hits] when the configured list names no node twice (it reports a node once per
   occurrence of its name in the configured list; the model once) *)
Theorem gen_get_hit_key_agrees : forall V (tasks : list (N * V)) keys, NoDup keys ->
  Gen.IntrHit.get_hit_key tasks keys = hits keys tasks.
Proof.
  intros V tasks keys H.
  first [ reflexivity
        | assert (E : Gen.IntrHit.get_hit_key tasks keys = hit_spec tasks keys) by gen_hit_is_spec;
          rewrite E; apply hit_spec_nodup; assumption ].
Qed.

(* ---------- resolveInterruptCompletedTasks ---------- *)
Section Resolve.
  Context {V SCP SINFO : Type}.
  Notation tex := (@texec V SCP SINFO).
  Variable unk : string -> option tex -> bool.
  Variable after : list N.

  (* what the model's loop takes from the collected results, with the accumulators of the Go function: the error of
     the first failing task and the accumulators as that task found them (Model/IntrGenLib.v: resolve_model) *)
  Definition resolve_spec (s0 : list (N * (SCP * SINFO))) (r0 a0 : list N) (rs : list (N * tex))
    : res unit * (list (N * (SCP * SINFO)) * list N * list N) :=
    resolve_model after s0 r0 a0 rs.

  Lemma ok_prefix_none : forall rs : list (N * tex), first_fail rs = None -> ok_prefix rs = rs.
  Proof.
    induction rs as [|[k x] rs IH]; simpl; auto. unfold first_fail in *; simpl.
    destruct x; simpl; intros H; try discriminate; f_equal; apply IH; exact H.
  Qed.

  (* no task failed: everything is taken; a task failed: its error *)
  Lemma resolve_spec_unfold : forall s0 r0 a0 rs,
    resolve_spec s0 r0 a0 rs =
    match first_fail rs with
    | Some e => (Err e, (s0 ++ subpairs (ok_prefix rs), r0 ++ reruns (ok_prefix rs), a0 ++ afters after (ok_prefix rs)))
    | None => (Ok tt, (s0 ++ subpairs rs, r0 ++ reruns rs, a0 ++ afters after rs))
    end.
  Proof.
    intros s0 r0 a0 rs. unfold resolve_spec, resolve_model. cbv zeta.
    destruct (first_fail rs) eqn:E; [reflexivity|]. rewrite (ok_prefix_none rs E). reflexivity.
  Qed.

  Lemma after_inner : forall (k : N) l acc,
    for_range (R := res unit * (list (N * (SCP * SINFO)) * list N * list N))
      (fun key acc => if N.eqb key k then let acc := acc ++ [key] in CBreak acc else CNext acc) l acc
    = inl (if memN k l then acc ++ [k] else acc).
  Proof.
    intros k l; induction l as [|a l IH]; intros acc; simpl; auto.
    rewrite (N.eqb_sym k a). destruct (N.eqb a k) eqn:E; simpl.
    - apply N.eqb_eq in E; subst; reflexivity.
    - apply IH.
  Qed.

  (* the same loop appending the searched node instead of the (equal) element of the configured list *)
  Lemma after_inner_k : forall (k : N) l acc,
    for_range (R := res unit * (list (N * (SCP * SINFO)) * list N * list N))
      (fun key acc => if N.eqb key k then let acc := acc ++ [k] in CBreak acc else CNext acc) l acc
    = inl (if memN k l then acc ++ [k] else acc).
  Proof.
    intros k l; induction l as [|a l IH]; intros acc; simpl; auto.
    rewrite (N.eqb_sym k a). destruct (N.eqb a k) eqn:E; simpl.
    - reflexivity.
    - apply IH.
  Qed.

  Lemma first_fail_cons : forall (t : N * tex) rs,
    first_fail (t :: rs) = match snd t with TFail e => Some e | _ => first_fail rs end.
  Proof. intros [k x] rs; unfold first_fail; simpl; destruct x; reflexivity. Qed.

  Lemma afters_cons : forall (t : N * tex) rs,
    afters after (t :: rs) =
    match snd t with TDone _ => if memN (fst t) after then fst t :: afters after rs else afters after rs
                | _ => afters after rs end.
  Proof. intros [k x] rs; unfold afters; simpl; destruct x; reflexivity. Qed.
  Lemma subpairs_cons : forall (t : N * tex) rs,
    subpairs (t :: rs) = match snd t with TSub c i => (fst t, (c, i)) :: subpairs rs | _ => subpairs rs end.
  Proof. intros [k x] rs; unfold subpairs; simpl; destruct x; reflexivity. Qed.

  Lemma reruns_cons : forall (t : N * tex) rs,
    reruns (t :: rs) = match snd t with TRerun => fst t :: reruns rs | _ => reruns rs end.
  Proof. intros [k x] rs; unfold reruns; simpl; destruct x; reflexivity. Qed.
End Resolve.

Ltac gen_resolve_loop IH :=
  let t := fresh "t" in let k := fresh "k" in let x := fresh "x" in
  intros [k x]; intros;
  rewrite first_fail_cons; cbn [for_range snd fst ok_prefix];
  destruct x; cbn [task_err snd fst err_non_nil is_sub_graph_interrupt errors_is_rerun wrap_graph_node_error]; unfold map_put;
  [ first [ rewrite after_inner | rewrite after_inner_k ]; cbn [fst snd]; rewrite IH;
    destruct (first_fail _); rewrite afters_cons, subpairs_cons, reruns_cons; cbn [snd fst];
    destruct (memN _ _); rewrite <- ?app_assoc; reflexivity
  | rewrite IH; destruct (first_fail _); rewrite afters_cons, subpairs_cons, reruns_cons; cbn [snd fst];
    rewrite <- ?app_assoc; reflexivity
  | rewrite IH; destruct (first_fail _); rewrite afters_cons, subpairs_cons, reruns_cons; cbn [snd fst];
    rewrite <- ?app_assoc; reflexivity
  | cbn [subpairs reruns afters outs flat_map map filter]; rewrite !app_nil_r; reflexivity ].

Theorem gen_resolve_agrees : forall V SCP SINFO (unk : string -> option (@texec V SCP SINFO) -> bool)
    after rs s0 r0 a0,
  Gen.IntrResolve.resolve_interrupt_completed_tasks unk after s0 r0 a0 rs = resolve_spec after s0 r0 a0 rs.
Proof.
  intros V SCP SINFO unk after rs s0 r0 a0.
  first [ reflexivity   (* the neutral file *)
        | rewrite resolve_spec_unfold; unfold Gen.IntrResolve.resolve_interrupt_completed_tasks;
          match goal with
          | |- match for_range ?F rs _ with _ => _ end = _ =>
            assert (G : forall rs s0 r0 a0, for_range F rs (s0, r0, a0) =
                      match first_fail rs with
                      | Some e => inr (Err e, (s0 ++ subpairs (ok_prefix rs), r0 ++ reruns (ok_prefix rs), a0 ++ afters after (ok_prefix rs)))
                      | None => inl (s0 ++ subpairs rs, r0 ++ reruns rs, a0 ++ afters after rs)
                      end);
            [ clear; induction rs as [|t rs IH];
              [ intros; cbn; rewrite !app_nil_r; reflexivity
              | revert t; gen_resolve_loop IH ]
            | rewrite G; destruct (first_fail rs); reflexivity ]
          end ].
Qed.

(* ---------- handleInterruptWithSubGraphAndRerunNodes: classification by lookup = by result ---------- *)
Section Handle.
  Context {V CS GS SCP SINFO : Type}.
  Notation tex := (@texec V SCP SINFO).
  Variable zero : V.
  Variable fold : CS -> list (N * V) -> res CS.

  Definition is_sub (t : N * tex) : bool := match snd t with TSub _ _ => true | _ => false end.
  Definition is_rr (t : N * tex) : bool := match snd t with TRerun => true | _ => false end.

  Lemma key_unique : forall (l : list (N * tex)) t t',
    NoDup (map fst l) -> In t l -> In t' l -> fst t = fst t' -> t = t'.
  Proof.
    induction l as [|a l IH]; intros t t' Hnd Ht Ht' E; [destruct Ht|].
    inversion Hnd as [|? ? Hna Hnd']; subst.
    destruct Ht as [<-|Ht], Ht' as [<-|Ht']; auto.
    - exfalso; apply Hna; rewrite E; apply in_map; assumption.
    - exfalso; apply Hna; rewrite <- E; apply in_map; assumption.
  Qed.

  Lemma nlist_get_unique : forall A (k : N) (a : A) l,
    In (k, a) l -> (forall b, In (k, b) l -> b = a) -> nlist_get k l = Some a.
  Proof.
    intros A k a l; induction l as [|[k' b] l IH]; intros Hin Hu; [destruct Hin|]. simpl.
    destruct (N.eqb k k') eqn:E.
    - apply N.eqb_eq in E; subst k'. f_equal. apply Hu; left; reflexivity.
    - destruct Hin as [Hin|Hin]; [inversion Hin; subst; rewrite N.eqb_refl in E; discriminate|].
      apply IH; auto. intros b' Hb'; apply Hu; right; assumption.
  Qed.

  Lemma nlist_get_absent : forall A (k : N) (l : list (N * A)),
    (forall b, ~ In (k, b) l) -> nlist_get k l = None.
  Proof.
    intros A k l; induction l as [|[k' b] l IH]; intros H; simpl; auto.
    destruct (N.eqb k k') eqn:E.
    - apply N.eqb_eq in E; subst k'. destruct (H b); left; reflexivity.
    - apply IH; intros b' Hb'; apply (H b'); right; assumption.
  Qed.

  Lemma subpairs_in : forall (rs : list (N * tex)) k ci,
    In (k, ci) (subpairs rs) <-> In (k, TSub (fst ci) (snd ci)) rs.
  Proof.
    intros rs k [c i]; unfold subpairs; rewrite in_flat_map; simpl; split.
    - intros [[k' x] [Hin Hx]]; simpl in Hx; destruct x; simpl in Hx; try tauto.
      destruct Hx as [Hx|[]]; inversion Hx; subst; assumption.
    - intros H; exists (k, TSub c i); split; auto; simpl; auto.
  Qed.

  Lemma lookup_sub : forall (rs : list (N * tex)) t,
    NoDup (map fst rs) -> In t rs ->
    map_get (fst t) (subpairs rs) = match snd t with TSub c i => Some (c, i) | _ => None end.
  Proof.
    intros rs [k x] Hnd Hin; unfold map_get; simpl.
    destruct x as [o| |c i|e].
    1,2,4: apply nlist_get_absent; intros [c' i'] Hb; rewrite <- in_rev in Hb; apply subpairs_in in Hb; simpl in Hb;
           pose proof (key_unique rs _ _ Hnd Hin Hb eq_refl) as E; discriminate.
    apply nlist_get_unique.
    - rewrite <- in_rev. apply (subpairs_in rs k (c, i)); assumption.
    - intros [c' i'] Hb. rewrite <- in_rev in Hb. apply subpairs_in in Hb; simpl in Hb.
      pose proof (key_unique rs _ _ Hnd Hin Hb eq_refl) as E; inversion E; reflexivity.
  Qed.

  Lemma in_sub_is_sub : forall (rs : list (N * tex)) t,
    NoDup (map fst rs) -> In t rs -> in_sub (subpairs rs) t = is_sub t.
  Proof. intros rs t Hnd Hin; unfold in_sub, is_sub; rewrite lookup_sub by assumption; destruct (snd t); reflexivity. Qed.

  Lemma reruns_in : forall (rs : list (N * tex)) k, In k (reruns rs) <-> In (k, TRerun) rs.
  Proof.
    intros rs k; unfold reruns; rewrite in_flat_map; split.
    - intros [[k' x] [Hin Hx]]; simpl in Hx; destruct x; simpl in Hx; try tauto. destruct Hx as [<-|[]]; assumption.
    - intros H; exists (k, TRerun); split; auto; simpl; auto.
  Qed.

  Lemma mem_rerun_is_rr : forall (rs : list (N * tex)) t,
    NoDup (map fst rs) -> In t rs -> memN (fst t) (reruns rs) = is_rr t.
  Proof.
    intros rs [k x] Hnd Hin; unfold is_rr; simpl.
    destruct (memN k (reruns rs)) eqn:E.
    - apply memN_in, reruns_in in E. pose proof (key_unique rs _ _ Hnd Hin E eq_refl) as E'; inversion E'; reflexivity.
    - destruct x; auto. exfalso. assert (memN k (reruns rs) = true) by (apply memN_in, reruns_in; assumption). congruence.
  Qed.

  Lemma filter_ext_in' : forall A (f g : A -> bool) l, (forall a, In a l -> f a = g a) -> filter f l = filter g l.
  Proof.
    intros A f g l; induction l as [|a l IH]; intros H; simpl; auto.
    rewrite (H a) by (left; reflexivity). rewrite IH by (intros; apply H; right; assumption). reflexivity.
  Qed.

  Lemma flat_map_ext_in' : forall A B (f g : A -> list B) l, (forall a, In a l -> f a = g a) -> flat_map f l = flat_map g l.
  Proof.
    intros A B f g l; induction l as [|a l IH]; intros H; simpl; auto.
    rewrite (H a) by (left; reflexivity). rewrite IH by (intros; apply H; right; assumption). reflexivity.
  Qed.

  Lemma flat_map_filter : forall A B (p : A -> bool) (g : A -> list B) l,
    (forall a, p a = false -> g a = []) -> flat_map g (filter p l) = flat_map g l.
  Proof.
    intros A B p g l H; induction l as [|a l IH]; simpl; auto.
    destruct (p a) eqn:E; simpl; rewrite IH; auto. rewrite (H a E); reflexivity.
  Qed.

  Lemma subcps_filter : forall rs : list (N * tex), map fst (subcps rs) = map fst (filter is_sub rs).
  Proof. induction rs as [|[k x] rs IH]; simpl; auto. unfold is_sub; destruct x; simpl; rewrite ?IH; auto. Qed.
  Lemma subcps_zero : forall rs : list (N * tex),
    map (fun kc : N * SCP => (fst kc, zero)) (subcps rs) = map (fun t : N * tex => (fst t, zero)) (filter is_sub rs).
  Proof. induction rs as [|[k x] rs IH]; simpl; auto. unfold is_sub; destruct x; simpl; rewrite ?IH; auto. Qed.
  Lemma reruns_zero : forall rs : list (N * tex),
    map (fun k : N => (k, zero)) (reruns rs) = map (fun t : N * tex => (fst t, zero)) (filter is_rr rs).
  Proof. induction rs as [|[k x] rs IH]; simpl; auto. unfold is_rr; destruct x; simpl; rewrite ?IH; auto. Qed.
  Lemma outs_others : forall rs : list (N * tex),
    outs (filter (fun t => negb (is_sub t) && negb (is_rr t)) rs) = outs rs.
  Proof.
    induction rs as [|[k x] rs IH]; simpl; auto.
    unfold is_sub, is_rr in *; destruct x; simpl; unfold outs in *; simpl; rewrite ?IH; auto.
  Qed.

  Theorem handle_sub_rerun_agrees : forall (cs : CS) (gs : GS) (rs : list (N * tex)) hb ha pending,
    NoDup (map fst rs) ->
    handle_sub_rerun zero fold cs gs (reruns rs) (subpairs rs) ha rs hb pending
    = rerun_interrupt zero fold cs gs rs (outs rs) pending hb ha.
  Proof.
    intros cs gs rs hb ha pending Hnd. unfold handle_sub_rerun, rerun_interrupt.
    rewrite (filter_ext_in' _ (in_sub (subpairs rs)) is_sub rs) by (intros; apply in_sub_is_sub; assumption).
    rewrite (filter_ext_in' _ (fun t => negb (in_sub (subpairs rs) t) && memN (fst t) (reruns rs))
                              (fun t => negb (is_sub t) && is_rr t) rs)
      by (intros a Ha; rewrite in_sub_is_sub, mem_rerun_is_rr by assumption; reflexivity).
    rewrite (filter_ext_in' _ (fun t => negb (in_sub (subpairs rs) t) && negb (memN (fst t) (reruns rs)))
                              (fun t => negb (is_sub t) && negb (is_rr t)) rs)
      by (intros a Ha; rewrite in_sub_is_sub, mem_rerun_is_rr by assumption; reflexivity).
    rewrite outs_others.
    destruct (fold cs (outs rs)) as [cs1|e|]; try reflexivity.
    assert (Hrr : filter (fun t : N * tex => negb (is_sub t) && is_rr t) rs = filter is_rr rs).
    { apply filter_ext_in'; intros [k x] _; unfold is_sub, is_rr; destruct x; reflexivity. }
    rewrite Hrr, <- subcps_zero, <- reruns_zero, <- subcps_filter.
    assert (Hi : flat_map (fun t : N * tex => match map_get (fst t) (subpairs rs) with Some ci => [(fst t, snd ci)] | None => [] end)
                   (filter is_sub rs) = subinfos rs).
    { unfold subinfos. rewrite <- (flat_map_filter _ _ is_sub (fun r : N * tex => match snd r with TSub _ i => [(fst r, i)] | _ => [] end))
        by (intros [k x]; unfold is_sub; destruct x; simpl; congruence).
      apply flat_map_ext_in'. intros t Ht. apply filter_In in Ht as [Ht _]. rewrite lookup_sub by assumption.
      destruct (snd t); reflexivity. }
    assert (Hc : flat_map (fun t : N * tex => match map_get (fst t) (subpairs rs) with Some ci => [(fst t, fst ci)] | None => [] end)
                   (filter is_sub rs) = subcps rs).
    { unfold subcps. rewrite <- (flat_map_filter _ _ is_sub (fun r : N * tex => match snd r with TSub c _ => [(fst r, c)] | _ => [] end))
        by (intros [k x]; unfold is_sub; destruct x; simpl; congruence).
      apply flat_map_ext_in'. intros t Ht. apply filter_In in Ht as [Ht _]. rewrite lookup_sub by assumption.
      destruct (snd t); reflexivity. }
    rewrite Hi, Hc. reflexivity.
  Qed.
End Handle.

(* ---------- the loop body of runner.run ---------- *)
Section LoopAgree.
  Context {V CS GS SCP SINFO : Type}.
  Notation tex := (@texec V SCP SINFO).
  Variable unk : string -> option tex -> bool.
  Variable zero : V.
  Variable fold : CS -> list (N * V) -> res CS.
  Variable getr : CS -> res (CS * list (N * V)).
  Variable before after : list N.

  (* how one pass through the loop body reads in the model: batch mode ... *)
  Definition batch_view (gs : GS) (g : @gres V CS GS SCP SINFO) : @sres V CS GS SCP SINFO :=
    match g with
    | GContinue cs next _ _ => Continue {| ls_cs := cs; ls_next := map mk_task next; ls_gs := gs |}
    | GReturn r => r
    end.
  (* ... and eager mode *)
  Definition eager_view (gs : GS) (g : @gres V CS GS SCP SINFO) : @eres V CS GS SCP SINFO :=
    match g with
    | GContinue cs next running sched =>
        EContinue {| es_cs := cs; es_next := map mk_task next; es_gs := gs; es_running := running |} sched
    | GReturn r => EStop r
    end.

  Lemma pos_len2 : forall A B (a : list A) (b : list B),
    (0 <? (List.length a + List.length b))%nat = negb (is_nil a && is_nil b).
  Proof. intros A B [|x a] [|y b]; reflexivity. Qed.
  Lemma pos_len : forall A (a : list A), (0 <? List.length a)%nat = negb (is_nil a).
  Proof. intros A [|x a]; reflexivity. Qed.
  Lemma len_zero : forall A (a : list A), (List.length a =? 0)%nat = is_nil a.
  Proof. intros A [|x a]; reflexivity. Qed.
  (* the other spellings of the same emptiness tests: `len(a)+len(b) != 0`, `0 == len(a)`, `len(a) >= 1`, `len(a) < 1`, `len(a) <= 0` … *)
  Lemma len2_zero : forall A B (a : list A) (b : list B),
    (List.length a + List.length b =? 0)%nat = is_nil a && is_nil b.
  Proof. intros A B [|x a] [|y b]; reflexivity. Qed.
  Lemma zero_len : forall A (a : list A), (0 =? List.length a)%nat = is_nil a.
  Proof. intros A [|x a]; reflexivity. Qed.
  Lemma zero_len2 : forall A B (a : list A) (b : list B),
    (0 =? List.length a + List.length b)%nat = is_nil a && is_nil b.
  Proof. intros A B [|x a] [|y b]; reflexivity. Qed.
  Lemma one_le_len : forall A (a : list A), (1 <=? List.length a)%nat = negb (is_nil a).
  Proof. intros A [|x a]; reflexivity. Qed.
  Lemma one_le_len2 : forall A B (a : list A) (b : list B),
    (1 <=? List.length a + List.length b)%nat = negb (is_nil a && is_nil b).
  Proof. intros A B [|x a] [|y b]; reflexivity. Qed.
  Lemma len_lt_one : forall A (a : list A), (List.length a <? 1)%nat = is_nil a.
  Proof. intros A [|x a]; reflexivity. Qed.
  Lemma len2_lt_one : forall A B (a : list A) (b : list B),
    (List.length a + List.length b <? 1)%nat = is_nil a && is_nil b.
  Proof. intros A B [|x a] [|y b]; reflexivity. Qed.
  Lemma len_le_zero : forall A (a : list A), (List.length a <=? 0)%nat = is_nil a.
  Proof. intros A [|x a]; reflexivity. Qed.
  Lemma len2_le_zero : forall A B (a : list A) (b : list B),
    (List.length a + List.length b <=? 0)%nat = is_nil a && is_nil b.
  Proof. intros A B [|x a] [|y b]; reflexivity. Qed.
  Lemma subpairs_nil : forall rs : list (N * tex), is_nil (subpairs rs) = is_nil (subcps rs).
  Proof. induction rs as [|[k x] rs IH]; simpl; auto. destruct x; simpl; auto. Qed.
  Lemma subpairs_app : forall a b : list (N * tex), subpairs (a ++ b) = subpairs a ++ subpairs b.
  Proof. intros; unfold subpairs; apply flat_map_app. Qed.
  Lemma reruns_app : forall a b : list (N * tex), reruns (a ++ b) = reruns a ++ reruns b.
  Proof. intros; unfold reruns; apply flat_map_app. Qed.
  Lemma afters_app : forall a b : list (N * tex), afters after (a ++ b) = afters after a ++ afters after b.
  Proof. intros; unfold afters, outs; rewrite flat_map_app, map_app, filter_app; reflexivity. Qed.
  Lemma first_fail_app : forall a b : list (N * tex),
    first_fail (a ++ b) = match first_fail a with Some e => Some e | None => first_fail b end.
  Proof.
    intros a b; unfold first_fail; rewrite flat_map_app.
    destruct (flat_map _ a); simpl; reflexivity.
  Qed.

  Lemma resolve_spec_nil : forall s0 r0 a0, resolve_spec after s0 r0 a0 (@nil (N * tex)) = (Ok tt, (s0, r0, a0)).
  Proof. intros; rewrite resolve_spec_unfold; cbn. rewrite !app_nil_r; reflexivity. Qed.

  (* calculateNextTasks in the model's terms *)
  Lemma calc_next_unfold : forall cs (completed : list (N * tex)),
    calculate_next_tasks fold getr cs completed =
    match calc fold getr cs (outs completed) with
    | Ok (cs', ready) => match nlist_get kEnd ready with
                         | Some v => Ok (cs', [], Some v)
                         | None => Ok (cs', ready, None)
                         end
    | Err e => Err e
    | Panic => Panic
    end.
  Proof. reflexivity. Qed.

  Lemma calc_next_end_unfold : forall cs (completed : list (N * tex)),
    calculate_next_tasks_end fold getr cs completed =
    match calc fold getr cs (outs completed) with
    | Ok (cs', ready) => match nlist_get kEnd ready with
                         | Some v => Ok (cs', [], Some v, true)
                         | None => Ok (cs', ready, None, false)
                         end
    | Err e => Err e
    | Panic => Panic
    end.
  Proof.
    intros cs completed. unfold calculate_next_tasks_end, calculate_next_tasks.
    destruct (calc fold getr cs (outs completed)) as [[cs' ready]|e|]; try reflexivity.
    destruct (nlist_get kEnd ready); reflexivity.
  Qed.

  (* calculateNextTasks with or without the separate isEnd result *)
  Ltac calc_unfold := first [ rewrite calc_next_end_unfold | rewrite calc_next_unfold ].

  Ltac use_gen :=
    unfold Gen.IntrLoop.loop_body, Gen.IntrLoop.init_body, Gen.IntrLoop.tm_wait.
  (* bring the next call of a translated function to the surface and replace it by its specification *)
  Ltac expose :=
    cbn [tm_wait_all tm_wait_one fst snd];
    try rewrite gen_resolve_agrees;
    repeat (rewrite gen_get_hit_key_agrees by assumption).

  Lemma take_key_perm : forall k (l : list (N * tex)) y r, take_key k l = Some (y, r) -> Permutation l (y :: r).
  Proof.
    intros k l; induction l as [|x l IH]; intros y r H; simpl in H; [discriminate|].
    destruct (N.eqb (fst x) k).
    - inversion H; subst; apply Permutation_refl.
    - destruct (take_key k l) as [[y' r']|]; [|discriminate]. inversion H; subst.
      eapply perm_trans; [apply perm_skip, IH; reflexivity | apply perm_swap].
  Qed.

  Lemma pick_perm : forall (running : list (N * tex)) sched c rest sched',
    pick running sched = Some (c, rest, sched') -> Permutation running (c :: rest).
  Proof.
    intros [|x running] sched c rest sched' H; unfold pick in H; [discriminate|].
    destruct sched as [|k sched]; [inversion H; subst; apply Permutation_refl|].
    destruct (take_key k (x :: running)) as [[y r]|] eqn:E.
    - inversion H; subst. eapply take_key_perm; eassumption.
    - inversion H; subst; apply Permutation_refl.
  Qed.

  Lemma pick_nodup : forall (running : list (N * tex)) sched c rest sched',
    pick running sched = Some (c, rest, sched') -> NoDup (map fst running) ->
    NoDup (map fst (c :: rest)) /\ NoDup (map fst rest).
  Proof.
    intros running sched c rest sched' Hp Hnd.
    assert (H : NoDup (map fst (c :: rest)))
      by (eapply Permutation_NoDup; [apply Permutation_map; eapply pick_perm; eassumption | assumption]).
    split; [assumption | inversion H; assumption].
  Qed.

  Lemma no_sub_rerun : forall rs : list (N * tex),
    negb (is_nil (subcps rs) && is_nil (reruns rs)) = false -> subpairs rs = [] /\ reruns rs = [].
  Proof.
    intros rs H. pose proof (subpairs_nil rs) as E.
    destruct (subcps rs), (reruns rs), (subpairs rs); simpl in *; try discriminate; auto.
  Qed.

  (* The proofs below are written as single tactics: when tools/go2v did not recognise the source,
     Gen/IntrLoop.v is the neutral file ([tie_available = false]) and the statements hold vacuously.
     Conditions are compared up to propositional equivalence over the emptiness tests of the lists
     ([align_cond]): `len(a)+len(b) > 0`, `len(a) > 0 || len(b) != 0`, swapped operands … are the same test. *)
  Ltac norm_conds := rewrite ?pos_len2, ?pos_len, ?len2_zero, ?len_zero, ?zero_len2, ?zero_len, ?one_le_len2, ?one_le_len,
                             ?len2_lt_one, ?len_lt_one, ?len2_le_zero, ?len_le_zero, ?subpairs_nil.
  Ltac bool_tauto := repeat match goal with |- context [is_nil ?l] => destruct (is_nil l) end; reflexivity.
  Ltac align_cond :=
    match goal with
    | |- ?f (if ?c then _ else _) = (if ?c' then _ else _) =>
        first [ constr_eq c c'
              | replace c with c' by bool_tauto
              | replace c with (negb c') by bool_tauto ]
    end.

  Ltac batch_proof :=
    let Hrr := fresh "Hrr" in
    intros cs gs next0 rs sched Hb Hnd; use_gen; unfold decide;
    expose; rewrite resolve_spec_unfold; cbn [app];
    destruct (first_fail rs) as [e|]; [reflexivity|];
    norm_conds; align_cond;
    destruct (negb (is_nil (subcps rs) && is_nil (reruns rs))) eqn:Hrr; cbn [negb];
    [ expose; rewrite resolve_spec_nil, app_nil_r; cbn [batch_view]; apply handle_sub_rerun_agrees; assumption
    | norm_conds; align_cond; destruct (is_nil rs); cbn [negb]; [reflexivity|];
      calc_unfold; destruct (calc fold getr cs (outs rs)) as [[cs2 ready]|e|]; try reflexivity;
      destruct (nlist_get kEnd ready) as [v|]; [reflexivity|];
      expose; norm_conds; align_cond;
      destruct (is_nil (hits before ready) && is_nil (afters after rs)); cbn [negb]; [reflexivity|];
      expose; rewrite resolve_spec_nil; norm_conds;
      match goal with |- ?f (if ?c then _ else _) = _ => replace c with false by (rewrite <- Hrr; bool_tauto) end;
      calc_unfold; cbn [outs flat_map];
      destruct (calc fold getr cs2 []) as [[cs4 ready2]|e|]; try reflexivity;
      destruct (nlist_get kEnd ready2) as [v|]; [reflexivity|]; expose; reflexivity ].

  (* BATCH: for every channel state, graph state, set of collected results: one pass through the translated
     loop body is the model's [decide] *)
  Theorem gen_loop_body_batch : @Gen.IntrLoop.tie_available = true ->
    forall cs gs next0 (rs : list (N * tex)) sched,
    NoDup before -> NoDup (map fst rs) ->
    batch_view gs (Gen.IntrLoop.loop_body unk zero fold getr before after true cs gs next0 (rs, sched))
    = decide zero fold getr before after cs gs rs.
  Proof. intros Hav; first [ discriminate Hav | clear Hav; batch_proof ]. Qed.

  Ltac eager_proof :=
    let Hp := fresh "Hp" in let Hrr := fresh "Hrr" in let Hs := fresh "Hs" in let Hr := fresh "Hr" in
    let Hnd' := fresh "Hnd'" in let Hndr := fresh "Hndr" in
    intros cs gs next0 running sched Hb Hnd; use_gen; unfold tm_wait_one; cbn [fst snd];
    destruct (pick running sched) as [[[c rest] sched']|] eqn:Hp;
    [| expose; rewrite resolve_spec_unfold; cbn [first_fail flat_map app subpairs reruns afters outs map filter];
       norm_conds; cbn [is_nil negb andb orb]; norm_conds; cbn [is_nil negb andb orb]; reflexivity ];
    destruct (pick_nodup _ _ _ _ _ Hp Hnd) as [Hnd' Hndr];
    unfold edecide; expose; rewrite resolve_spec_unfold; cbn [app];
    destruct (first_fail [c]) as [e|]; [reflexivity|];
    norm_conds; align_cond;
    destruct (negb (is_nil (subcps [c]) && is_nil (reruns [c]))) eqn:Hrr; cbn [negb];
    [ expose; rewrite resolve_spec_unfold;
      destruct (first_fail rest) as [e|]; [reflexivity|];
      rewrite <- subpairs_app, <- reruns_app, <- afters_app; cbn [app eager_view]; f_equal;
      apply handle_sub_rerun_agrees; assumption
    | norm_conds; cbn [is_nil negb];
      calc_unfold; destruct (calc fold getr cs (outs [c])) as [[cs2 ready]|e|]; try reflexivity;
      destruct (nlist_get kEnd ready) as [v|]; [reflexivity|];
      expose; norm_conds; align_cond;
      destruct (is_nil (hits before ready) && is_nil (afters after [c])); cbn [negb]; [reflexivity|];
      expose; rewrite resolve_spec_unfold;
      destruct (first_fail rest) as [e|]; [reflexivity|];
      destruct (no_sub_rerun _ Hrr) as [Hs Hr]; rewrite Hs, Hr; cbn [app];
      norm_conds; align_cond;
      destruct (negb (is_nil (subcps rest) && is_nil (reruns rest))); cbn [negb];
      [ cbn [eager_view]; f_equal; apply handle_sub_rerun_agrees; assumption
      | calc_unfold;
        destruct (calc fold getr cs2 (outs rest)) as [[cs4 ready2]|e|]; try reflexivity;
        destruct (nlist_get kEnd ready2) as [v|]; [reflexivity|]; expose; reflexivity ] ].

  (* EAGER: for every channel state, graph state, set of running results and collection order: one pass
     through the translated loop body is what [estep] does with the collected task: the model's [edecide] *)
  Theorem gen_loop_body_eager : @Gen.IntrLoop.tie_available = true ->
    forall cs gs next0 (running : list (N * tex)) sched,
    NoDup before -> NoDup (map fst running) ->
    eager_view gs (Gen.IntrLoop.loop_body unk zero fold getr before after false cs gs next0 (running, sched))
    = match pick running sched with
      | None => EStop (Failed eNoTasks)
      | Some (c, rest, sched') => edecide zero fold getr before after false cs gs c rest sched'
      end.
  Proof. intros Hav; first [ discriminate Hav | clear Hav; eager_proof ]. Qed.

  Ltac init_proof :=
    intros cs gs x tm Hb; use_gen; unfold init, init_gen;
    calc_unfold; cbn [outs flat_map snd fst app];
    destruct (calc fold getr cs [(kStart, x)]) as [[cs1 ready]|e|]; try reflexivity;
    destruct (nlist_get kEnd ready) as [v|]; [reflexivity|];
    expose; norm_conds; cbn [orb]; align_cond;
    destruct (is_nil (hits before ready)); reflexivity.

  (* the initial task set: the translated block of `if !initialized` is the model's [init] *)
  Theorem gen_init_body_agrees : @Gen.IntrLoop.tie_available = true ->
    forall cs gs x tm,
    NoDup before ->
    batch_view gs (Gen.IntrLoop.init_body fold getr before cs gs x tm) = init fold getr before cs gs x.
  Proof. intros Hav; first [ discriminate Hav | clear Hav; init_proof ]. Qed.

  (* taskManager.wait as translated: everything in batch mode, the scheduled task in eager mode *)
  Theorem gen_tm_wait_agrees : forall needAll (running : list (N * tex)) sched,
    Gen.IntrLoop.tm_wait needAll (running, sched) =
    if needAll then (running, ([], sched))
    else match pick running sched with
         | Some (c, rest, sched') => ([c], (rest, sched'))
         | None => ([], (running, sched))
         end.
  Proof.
    intros needAll running sched; unfold Gen.IntrLoop.tm_wait, tm_wait_one, tm_wait_all; cbn [fst snd].
    destruct needAll; [reflexivity|]. destruct (pick running sched) as [[[c rest] sched']|]; reflexivity.
  Qed.

  (* ---------- the same, for the very functions the C06 theorems are about: [step] (batch) and
     [estep] (eager) are "submit, then one pass through the translated loop body" ---------- *)
  Context {ENV : Type}.
  Variable pre : N -> V -> GS -> V * GS.
  Variable exec : N -> option SCP -> V -> ENV -> tex * ENV.

  Definition next_of (ts : list (@task V SCP)) : list (N * V) := map (fun t => (t_key t, t_in t)) ts.

  Theorem gen_step_agrees : @Gen.IntrLoop.tie_available = true ->
    forall (s : @lstate V CS GS SCP) env,
    NoDup before -> NoDup (map t_key (ls_next s)) ->
    step zero fold getr pre exec before after s env =
    let '(ts, gs1) := run_pres pre (ls_next s) (ls_gs s) in
    let '(rs, env1) := exec_all exec ts env in
    (batch_view gs1 (Gen.IntrLoop.loop_body unk zero fold getr before after true (ls_cs s) gs1 (next_of ts) (rs, [])),
     events_of ts rs, env1).
  Proof.
    intros Hav s env Hb Hnd. unfold step.
    pose proof (run_pres_keys pre (ls_next s) (ls_gs s)) as Hk.
    destruct (run_pres pre (ls_next s) (ls_gs s)) as [ts gs1]; cbn [fst] in Hk.
    pose proof (exec_all_keys exec ts env) as Hk2.
    destruct (exec_all exec ts env) as [rs env1]; cbn [fst] in Hk2.
    rewrite gen_loop_body_batch; auto. rewrite Hk2, Hk; assumption.
  Qed.

  Theorem gen_estep_agrees : @Gen.IntrLoop.tie_available = true ->
    forall (s : @estate V CS GS SCP SINFO) sched env,
    NoDup before -> NoDup (map fst (es_running s) ++ map t_key (es_next s)) ->
    estep zero fold getr pre exec before after s sched env =
    let '(ts, gs1) := run_pres pre (es_next s) (es_gs s) in
    let '(rs, env1) := exec_all exec ts env in
    (eager_view gs1 (Gen.IntrLoop.loop_body unk zero fold getr before after false (es_cs s) gs1 (next_of ts)
                       (es_running s ++ rs, sched)),
     events_of ts rs, env1).
  Proof.
    intros Hav s sched env Hb Hnd. unfold estep, estep_gen.
    pose proof (run_pres_keys pre (es_next s) (es_gs s)) as Hk.
    destruct (run_pres pre (es_next s) (es_gs s)) as [ts gs1]; cbn [fst] in Hk.
    pose proof (exec_all_keys exec ts env) as Hk2.
    destruct (exec_all exec ts env) as [rs env1]; cbn [fst] in Hk2.
    rewrite gen_loop_body_eager; auto. rewrite map_app, Hk2, Hk; assumption.
  Qed.
End LoopAgree.

(* ---------- handleInterrupt / handleInterruptWithSubGraphAndRerunNodes as translated (extractor "intrhandle") ----------
   The records checkpoint / InterruptInfo are flattened into one variable per field; what is returned is
   [HToParent info cp] (a nested graph: &subGraphInterruptError), [HInterrupt info cp written] (&interruptError;
   [written] = checkPointer.set was called) — Model/IntrGenLib.v: hexit, exit_of. The state saved is the one found in
   the context of a graph that declares state ([state_view]); the model's loops carry it as their graph state. *)
Section HandleAgree.
  Context {V CS GS SCP SINFO : Type}.
  Notation tex := (@texec V SCP SINFO).
  Variable zero : V.
  Variable fold : CS -> list (N * V) -> res CS.

  Lemma put_pending : forall (l : list (N * V)) acc,
    for_range (R := hexit V CS GS SCP SINFO) (fun t cp_Inputs => let cp_Inputs := map_put (fst t) (snd t) cp_Inputs in CNext cp_Inputs) l acc
    = inl (acc ++ l).
  Proof.
    induction l as [|[k v] l IH]; intros acc; simpl; [rewrite app_nil_r; reflexivity|].
    rewrite IH. unfold map_put. rewrite <- app_assoc. reflexivity.
  Qed.

  (* handleInterrupt as translated *)
  Theorem gen_handle_interrupt_agrees : @Gen.IntrHandle.tie_available = true ->
    forall has_state ctx_state (gs_nil : GS) hb ha (next : list (N * V)) (cs : CS) isStream isSub hasId,
    Gen.IntrHandle.handle_interrupt (SCP := SCP) (SINFO := SINFO) has_state ctx_state gs_nil hb ha next cs isStream isSub hasId
    = exit_of isSub hasId (plain_interrupt cs (state_view has_state ctx_state gs_nil) next hb ha).
  Proof.
    intros Hav; first [ discriminate Hav | clear Hav;
    intros has_state ctx_state gs_nil hb ha next cs isStream isSub hasId;
    unfold Gen.IntrHandle.handle_interrupt, plain_interrupt, exit_of, state_view;
    destruct has_state; [destruct ctx_state|]; cbv zeta; rewrite put_pending; cbn [app];
    destruct isSub; try reflexivity; destruct hasId; reflexivity ].
  Qed.

  Lemma rr_inner : forall (t : N * tex) rr (rrT : list (N * tex)),
    for_range (R := hexit V CS GS SCP SINFO) (fun key '(rerunTasks, rerun) =>
        if (N.eqb key (fst t)) then
          let rerunTasks := (rerunTasks ++ [t]) in
          let rerun := true in
          CBreak (rerunTasks, rerun)
        else
          CNext (rerunTasks, rerun)) rr (rrT, false)
    = inl (if memN (fst t) rr then (rrT ++ [t], true) else (rrT, false)).
  Proof.
    intros t rr; induction rr as [|a rr IH]; intros rrT; simpl; [reflexivity|].
    rewrite (N.eqb_sym (fst t) a). destruct (N.eqb a (fst t)); simpl; [reflexivity|apply IH].
  Qed.

  Lemma partition_loop : forall (subs : list (N * (SCP * SINFO))) rr (tasks : list (N * tex)) rr0 sb0 ot0 (sk0 : list (N * bool)),
    for_range (R := hexit V CS GS SCP SINFO) (fun t '(rerunTasks, subgraphTasks, otherTasks, skipPreHandler) =>
        match map_get (fst t) subs with
        | Some _ =>
            let subgraphTasks := (subgraphTasks ++ [t]) in
            let skipPreHandler := map_put (fst t) true skipPreHandler in
            CNext (rerunTasks, subgraphTasks, otherTasks, skipPreHandler)
        | None =>
            let rerun := false in
            match for_range (fun key '(rerunTasks, rerun) =>
                if (N.eqb key (fst t)) then
                  let rerunTasks := (rerunTasks ++ [t]) in
                  let rerun := true in
                  CBreak (rerunTasks, rerun)
                else
                  CNext (rerunTasks, rerun)) rr (rerunTasks, rerun) with
            | inr r => CRet r
            | inl (rerunTasks, rerun) =>
                if rerun then
                  CNext (rerunTasks, subgraphTasks, otherTasks, skipPreHandler)
                else
                  let otherTasks := (otherTasks ++ [t]) in
                  CNext (rerunTasks, subgraphTasks, otherTasks, skipPreHandler)
            end
        end) tasks (rr0, sb0, ot0, sk0)
    = inl (rr0 ++ filter (fun t => negb (in_sub subs t) && memN (fst t) rr) tasks,
           sb0 ++ filter (in_sub subs) tasks,
           ot0 ++ filter (fun t => negb (in_sub subs t) && negb (memN (fst t) rr)) tasks,
           sk0 ++ map (fun t => (fst t, true)) (filter (in_sub subs) tasks)).
  Proof.
    intros subs rr tasks; induction tasks as [|t tasks IH]; intros rr0 sb0 ot0 sk0; simpl.
    - rewrite !app_nil_r; reflexivity.
    - assert (Hin : in_sub subs t = match map_get (fst t) subs with Some _ => true | None => false end) by reflexivity.
      destruct (map_get (fst t) subs) as [ci|]; rewrite Hin; cbv zeta.
      + rewrite IH. unfold map_put. cbn [negb andb app map]. rewrite <- !app_assoc. reflexivity.
      + rewrite rr_inner. destruct (memN (fst t) rr); cbn [negb andb app map]; rewrite IH; rewrite <- ?app_assoc; reflexivity.
  Qed.

  Lemma sub_loop : forall (isStream : bool) (subs : list (N * (SCP * SINFO))) (l : list (N * tex))
      (inp : list (N * V)) (cps : list (N * SCP)) (infos : list (N * SINFO)),
    for_range (R := hexit V CS GS SCP SINFO) (fun t '(cp_Inputs, cp_SubGraphs, intInfo_SubGraphs) =>
        if isStream then
          let cp_Inputs := map_put (fst t) zero cp_Inputs in
          let cp_SubGraphs := map_put_opt (fst t) (option_map sub_interrupt_CheckPoint (map_get (fst t) subs)) cp_SubGraphs in
          let intInfo_SubGraphs := map_put_opt (fst t) (option_map sub_interrupt_Info (map_get (fst t) subs)) intInfo_SubGraphs in
          CNext (cp_Inputs, cp_SubGraphs, intInfo_SubGraphs)
        else
          let cp_Inputs := map_put (fst t) zero cp_Inputs in
          let cp_SubGraphs := map_put_opt (fst t) (option_map sub_interrupt_CheckPoint (map_get (fst t) subs)) cp_SubGraphs in
          let intInfo_SubGraphs := map_put_opt (fst t) (option_map sub_interrupt_Info (map_get (fst t) subs)) intInfo_SubGraphs in
          CNext (cp_Inputs, cp_SubGraphs, intInfo_SubGraphs)) l (inp, cps, infos)
    = inl (inp ++ map (fun t : N * tex => (fst t, zero)) l,
           cps ++ flat_map (fun t : N * tex => match map_get (fst t) subs with Some ci => [(fst t, fst ci)] | None => [] end) l,
           infos ++ flat_map (fun t : N * tex => match map_get (fst t) subs with Some ci => [(fst t, snd ci)] | None => [] end) l).
  Proof.
    intros isStream subs l; induction l as [|t l IH]; intros inp cps infos; simpl.
    - rewrite !app_nil_r; reflexivity.
    - destruct isStream; cbv zeta; rewrite IH; unfold map_put_opt, sub_interrupt_CheckPoint, sub_interrupt_Info;
        destruct (map_get (fst t) subs) as [[c i]|]; cbn [option_map fst snd]; unfold map_put; cbn [app];
        rewrite <- ?app_assoc; rewrite ?app_nil_r; reflexivity.
  Qed.

  Lemma rerun_loop : forall (isStream : bool) (l : list (N * tex)) (inp : list (N * V)),
    for_range (R := hexit V CS GS SCP SINFO) (fun t cp_Inputs =>
        if isStream then
          let cp_Inputs := map_put (fst t) zero cp_Inputs in
          CNext cp_Inputs
        else
          let cp_Inputs := map_put (fst t) zero cp_Inputs in
          CNext cp_Inputs) l inp
    = inl (inp ++ map (fun t : N * tex => (fst t, zero)) l).
  Proof.
    intros isStream l; induction l as [|t l IH]; intros inp; simpl.
    - rewrite app_nil_r; reflexivity.
    - destruct isStream; cbv zeta; rewrite IH; unfold map_put; rewrite <- app_assoc; reflexivity.
  Qed.

  Lemma skip_keys_true : forall (l : list (N * tex)), skip_keys (map (fun t : N * tex => (fst t, true)) l) = map fst l.
  Proof. unfold skip_keys; induction l as [|t l IH]; simpl; [reflexivity|]. f_equal; exact IH. Qed.

  (* handleInterruptWithSubGraphAndRerunNodes as translated: the hand-written mirror [handle_sub_rerun] of
     Model/IntrGenLib.v (classification of the completed tasks BY LOOKUP) with the exit of both handlers *)
  Theorem gen_handle_sub_rerun_agrees : @Gen.IntrHandle.tie_available = true ->
    forall has_state ctx_state (gs_nil : GS) rr (subs : list (N * (SCP * SINFO))) ha (complete : list (N * tex)) hb
           (pending : list (N * V)) hasId isSub (cs : CS) isStream,
    Gen.IntrHandle.handle_interrupt_with_sub_graph_and_rerun_nodes zero fold has_state ctx_state gs_nil
        rr subs ha complete hb pending hasId isSub cs isStream
    = exit_of isSub hasId (handle_sub_rerun zero fold cs (state_view has_state ctx_state gs_nil) rr subs ha complete hb pending).
  Proof.
    intros Hav; first [ discriminate Hav | clear Hav;
    intros has_state ctx_state gs_nil rr subs ha complete hb pending hasId isSub cs isStream;
    unfold Gen.IntrHandle.handle_interrupt_with_sub_graph_and_rerun_nodes, handle_sub_rerun, state_view;
    cbv zeta; rewrite partition_loop; cbn [app];
    destruct (fold cs (outs (filter (fun t => negb (in_sub subs t) && negb (memN (fst t) rr)) complete))) as [cs1|e|];
      try reflexivity;
    destruct has_state; [destruct ctx_state|];
    rewrite put_pending, sub_loop, rerun_loop; cbn [app]; rewrite skip_keys_true; rewrite <- ?app_assoc; unfold exit_of;
    destruct isSub; try reflexivity; destruct hasId; reflexivity ].
  Qed.

  (* ... hence, when the tasks have pairwise distinct node keys and the lists come out of
     resolveInterruptCompletedTasks, the model's [rerun_interrupt] with the exit of the handlers *)
  Corollary gen_handle_sub_rerun_is_rerun_interrupt : @Gen.IntrHandle.tie_available = true ->
    forall has_state ctx_state (gs_nil : GS) ha (rs : list (N * tex)) hb (pending : list (N * V)) hasId isSub (cs : CS) isStream,
    NoDup (map fst rs) ->
    Gen.IntrHandle.handle_interrupt_with_sub_graph_and_rerun_nodes zero fold has_state ctx_state gs_nil
        (reruns rs) (subpairs rs) ha rs hb pending hasId isSub cs isStream
    = exit_of isSub hasId (rerun_interrupt zero fold cs (state_view has_state ctx_state gs_nil) rs (outs rs) pending hb ha).
  Proof.
    intros Hav has_state ctx_state gs_nil ha rs hb pending hasId isSub cs isStream Hnd.
    rewrite gen_handle_sub_rerun_agrees by assumption. rewrite handle_sub_rerun_agrees by assumption. reflexivity.
  Qed.
End HandleAgree.


(* ---------- non-vacuity ---------- *)
Example gen_get_hit_key_witness :
  In 2 (Gen.IntrHit.get_hit_key [(2, tt); (3, tt)] [5; 2]) /\ ~ In 3 (Gen.IntrHit.get_hit_key [(2, tt); (3, tt)] [5; 2]).
Proof. split; [vm_compute; auto | vm_compute; intros [H|H]; [discriminate H | destruct H]]. Qed.

Example gen_resolve_witness :
  Gen.IntrResolve.resolve_interrupt_completed_tasks (V := N) (SCP := N) (SINFO := N) (fun _ _ => false) [4; 2] [] [] []
    [(2, TDone 7); (3, TRerun); (4, TSub 8 9); (5, TDone 1)]
  = (Ok tt, ([(4, (8, 9))], [3], [2]))
  /\ Gen.IntrResolve.resolve_interrupt_completed_tasks (V := N) (SCP := N) (SINFO := N) (fun _ _ => false) [4; 2] [] [] []
    [(2, TDone 7); (3, TFail 11); (4, TSub 8 9)] = (Err 11, ([], [], [2])).
Proof. split; reflexivity. Qed.

(* one pass of the translated loop body, batch mode: node 2 completed, node 3 (interrupt-before) became ready:
   the loop waits for everything, computes the ready nodes once more, and interrupts reporting node 3 *)
Example gen_loop_body_witness : exists c,
  batch_view (V := N) (CS := unit) (GS := unit) (SCP := N) (SINFO := N) tt
    (Gen.IntrLoop.loop_body (fun _ _ => false) 0 (fun cs _ => Ok cs) (fun cs => Ok (cs, [(3, 7)])) [3] [] true tt tt []
       ([(2, TDone 5)], []))
  = Interrupted {| ii_gs := tt; ii_before := [3; 3]; ii_after := []; ii_rerun := []; ii_subs := [] |} c
  /\ cp_inputs c = [(3, 7); (3, 7)].
Proof. eexists; split; reflexivity. Qed.

(* eager mode: node 2 (interrupt-after) is collected while node 4 still runs: the loop collects node 4 too and
   interrupts reporting node 2 *)
Example gen_loop_body_eager_witness : exists c,
  eager_view (V := N) (CS := unit) (GS := unit) (SCP := N) (SINFO := N) tt
    (Gen.IntrLoop.loop_body (fun _ _ => false) 0 (fun cs _ => Ok cs) (fun cs => Ok (cs, [])) [] [2] false tt tt []
       ([(4, TDone 1); (2, TDone 5)], [2]))
  = EStop (Interrupted {| ii_gs := tt; ii_before := []; ii_after := [2]; ii_rerun := []; ii_subs := [] |} c).
Proof. eexists; reflexivity. Qed.

(* ---------- compose/interrupt.go: ExtractInterruptInfo, isSubGraphInterrupt ---------- *)
Section ErrAgree.
  Context {INFO CP : Type}.
  Notation gerrT := (gerr INFO CP).

  (* ExtractInterruptInfo as translated: the information of the first interruptError of the chain *)
  Theorem gen_extract_interrupt_info_agrees : forall err : option gerrT,
    Gen.IntrErr.extract_interrupt_info err =
    match err with
    | Some e => match chain_interrupt e with Some i => (Some i, true) | None => (None, false) end
    | None => (None, false)
    end.
  Proof.
    intros [e|]; unfold Gen.IntrErr.extract_interrupt_info; cbn [go_err_nil errors_as_interruptError]; [|reflexivity].
    destruct (chain_interrupt e); reflexivity.
  Qed.

  (* "an error from which the interrupt information can be extracted": however often the caller (or a
     callback, or an enclosing runnable) wraps the error the run returned *)
  Theorem gen_extract_through_wrapping : forall n (i : INFO),
    Gen.IntrErr.extract_interrupt_info (Some (wrap_n n (EInterrupt (CP := CP) i))) = (Some i, true).
  Proof.
    intros n i. rewrite gen_extract_interrupt_info_agrees.
    assert (H : chain_interrupt (wrap_n n (EInterrupt (CP := CP) i)) = Some i) by (induction n; simpl; auto).
    rewrite H; reflexivity.
  Qed.

  (* ... and nothing is extracted from an error that is no interrupt of this graph: a nested graph's interrupt
     that has not been turned into the parent's, a rerun request, any other error *)
  Theorem gen_extract_only_interrupts : forall (e : gerrT) i,
    Gen.IntrErr.extract_interrupt_info (Some e) = (Some i, true) -> exists n, exists e', e = wrap_n n e' /\ e' = EInterrupt i.
  Proof.
    intros e i. rewrite gen_extract_interrupt_info_agrees.
    induction e as [j|j c| |c|e IH]; simpl; try discriminate.
    - intros H; inversion H; subst. exists O, (EInterrupt i); auto.
    - intros H. destruct (IH H) as [n [e' [-> ->]]]. exists (S n), (EInterrupt i); auto.
  Qed.

  Theorem gen_is_sub_graph_interrupt_agrees : forall err : option gerrT,
    Gen.IntrErr.is_sub_graph_interrupt_err err = match err with Some e => chain_sub e | None => None end.
  Proof.
    intros [e|]; unfold Gen.IntrErr.is_sub_graph_interrupt_err; cbn [go_err_nil errors_as_subGraphInterruptError]; [|reflexivity].
    destruct (chain_sub e); reflexivity.
  Qed.

  (* the classification of a task's error by resolveInterruptCompletedTasks (Gen/IntrResolve.v works on the
     result type [texec] of the model): what the vocabulary of Model/IntrGenLib.v answers on [texec_of_err e]
     is what the translated isSubGraphInterrupt / errors.Is answer on the error chain itself *)
  Theorem texec_of_err_classified : forall V (e : gerrT) (k : N),
    is_sub_graph_interrupt (task_err (k, texec_of_err (V := V) e)) =
      option_map (fun ic => (snd ic, fst ic)) (Gen.IntrErr.is_sub_graph_interrupt_err (Some e))
    /\ (Gen.IntrErr.is_sub_graph_interrupt_err (Some e) = None ->
        errors_is_rerun (task_err (k, texec_of_err (V := V) e)) = errors_is_InterruptAndRerun (Some e))
    /\ err_non_nil (task_err (k, texec_of_err (V := V) e)) = true.
  Proof.
    intros V e k. rewrite gen_is_sub_graph_interrupt_agrees. unfold texec_of_err, errors_is_InterruptAndRerun.
    destruct (chain_sub e) as [[i c]|]; cbn; [repeat split; intros; discriminate|].
    destruct (chain_sentinel e); cbn; repeat split; reflexivity.
  Qed.
End ErrAgree.

Example gen_extract_witness :
  Gen.IntrErr.extract_interrupt_info (INFO := N) (CP := N) (Some (EWrap (EWrap (EInterrupt 7)))) = (Some 7, true)
  /\ Gen.IntrErr.extract_interrupt_info (INFO := N) (CP := N) (Some (EWrap (ESubInterrupt 7 8))) = (None, false)
  /\ Gen.IntrErr.extract_interrupt_info (INFO := N) (CP := N) None = (None, false).
Proof. repeat split; reflexivity. Qed.

(* ---------- how the lists reach the runner (compose/interrupt.go, graph.compile) ---------- *)
(* whatever options were set before, in whatever order the two options are applied, and whatever an unknown
   function would do to a list (so none may be applied): the runner's interrupt-before list is the list handed
   to WithInterruptBeforeNodes, its interrupt-after list the one handed to WithInterruptAfterNodes — the lists
   [gs_before] / [gs_after] of the model *)
Theorem gen_interrupt_lists_reach_runner : forall unk (before after : list N) (o : copts),
  let o1 := Gen.IntrCfg.with_interrupt_after_nodes unk after (Gen.IntrCfg.with_interrupt_before_nodes unk before o) in
  let o2 := Gen.IntrCfg.with_interrupt_before_nodes unk before (Gen.IntrCfg.with_interrupt_after_nodes unk after o) in
  Gen.IntrCfg.runner_interrupt_before_nodes unk o1 = before /\ Gen.IntrCfg.runner_interrupt_after_nodes unk o1 = after /\
  Gen.IntrCfg.runner_interrupt_before_nodes unk o2 = before /\ Gen.IntrCfg.runner_interrupt_after_nodes unk o2 = after.
Proof. intros unk before after o; repeat split; reflexivity. Qed.
