(* Proofs/RunLoopEager.v — the eager (Workflow) loop of Model/RunLoop.v: interrupt points are
   honoured and reported exactly, for every schedule (owner: C05/C06). *)
From Eino Require Import Base.Util Model.RunLoop Proofs.RunLoop.
Open Scope N_scope.

Section EagerProofs.
  Context {V CS GS ENV SCP SINFO : Type}.
  Variable zero : V.
  Variable fold : CS -> list (N * V) -> res CS.
  Variable getr : CS -> res (CS * list (N * V)).
  Variable pre : N -> V -> GS -> V * GS.
  Variable exec : N -> option SCP -> V -> ENV -> @texec V SCP SINFO * ENV.
  Variable before after : list N.

  Notation taskT := (@task V SCP).
  Notation estateT := (@estate V CS GS SCP SINFO).
  Notation texecT := (@texec V SCP SINFO).
  Notation cptT := (@checkpoint V CS GS SCP).
  Notation infT := (@iinfo GS SINFO).
  Notation edecideE := (edecide zero fold getr before after false).
  Notation estepE := (estep_gen zero fold getr pre exec before after false).
  Notation eiterE := (eiterate zero fold getr pre exec before after false).
  Notation ekey := (@ev_key V).
  Notation info_okE := (info_ok zero before after).

  (* ---------- flat_map based projections distribute over cons ---------- *)
  Lemma outs_cons : forall (c : N * texecT) rest, outs (c :: rest) = outs [c] ++ outs rest.
  Proof. intros; unfold outs; simpl; rewrite app_nil_r; reflexivity. Qed.
  Lemma reruns_cons : forall (c : N * texecT) rest, reruns (c :: rest) = reruns [c] ++ reruns rest.
  Proof. intros; unfold reruns; simpl; rewrite app_nil_r; reflexivity. Qed.
  Lemma subcps_cons : forall (c : N * texecT) rest, subcps (c :: rest) = subcps [c] ++ subcps rest.
  Proof. intros; unfold subcps; simpl; rewrite app_nil_r; reflexivity. Qed.
  Lemma subinfos_cons : forall (c : N * texecT) rest, subinfos (c :: rest) = subinfos [c] ++ subinfos rest.
  Proof. intros; unfold subinfos; simpl; rewrite app_nil_r; reflexivity. Qed.
  Lemma afters_cons : forall (c : N * texecT) rest, afters after (c :: rest) = afters after [c] ++ afters after rest.
  Proof. intros; unfold afters; rewrite outs_cons, map_app, filter_app; reflexivity. Qed.

  Lemma is_nil_true : forall {A} (l : list A), is_nil l = true -> l = [].
  Proof. destruct l; simpl; congruence. Qed.

  Lemma subinfos_nil_of_subcps : forall rs : list (N * texecT), subcps rs = [] -> subinfos rs = [].
  Proof.
    intros rs H. pose proof (subs_keys rs) as Hk. rewrite H in Hk.
    destruct (subinfos rs); [reflexivity|discriminate].
  Qed.

  (* ---------- C06 (c), eager mode: every interrupt decided after a collection ---------- *)
  Lemma edecide_info_ok : forall cs (gs1 : GS) (c : N * texecT) rest sched' i cp,
    edecideE cs gs1 c rest sched' = EStop (Interrupted i cp) -> info_okE (c :: rest) i cp.
  Proof.
    unfold edecide; intros cs gs1 c rest sched' i cp H.
    destruct (first_fail [c]); try discriminate.
    destruct (negb (is_nil (subcps [c]) && is_nil (reruns [c]))) eqn:Hrr.
    { destruct (first_fail rest); try discriminate. injection H as H'.
      eapply rerun_info_ok with (pending := []); try exact H'; auto. }
    apply negb_false_iff in Hrr. apply andb_prop in Hrr as [Hs1 Hr1].
    apply is_nil_true in Hs1. apply is_nil_true in Hr1.
    destruct (calc fold getr cs (outs [c])) as [[cs2 ready]| |]; try discriminate.
    destruct (nlist_get kEnd ready); try discriminate.
    destruct (is_nil (hits before ready) && is_nil (afters after [c])); try discriminate.
    destruct (first_fail rest); try discriminate.
    destruct (negb (is_nil (subcps rest) && is_nil (reruns rest))) eqn:Hrr2.
    - injection H as H'.
      eapply rerun_info_ok_gen with (rs' := rest); try exact H'; auto.
      + symmetry; apply afters_cons.
      + rewrite reruns_cons, Hr1; reflexivity.
      + rewrite subcps_cons, Hs1; reflexivity.
      + rewrite subinfos_cons, (subinfos_nil_of_subcps [c] Hs1); reflexivity.
    - apply negb_false_iff in Hrr2. apply andb_prop in Hrr2 as [Hs2 Hr2].
      apply is_nil_true in Hs2. apply is_nil_true in Hr2.
      destruct (calc fold getr cs2 (outs rest)) as [[cs4 ready2]| |]; try discriminate.
      destruct (nlist_get kEnd ready2); try discriminate.
      assert (H' : @plain_interrupt V CS GS SCP SINFO cs4 gs1 (ready ++ ready2) (hits before (ready ++ ready2))
                     (afters after [c] ++ afters after rest) = Interrupted i cp).
      { rewrite hits_app. congruence. }
      eapply plain_info_ok; try exact H'; auto.
      + rewrite subcps_cons, Hs1, Hs2; reflexivity.
      + rewrite reruns_cons, Hr1, Hr2; reflexivity.
      + symmetry; apply afters_cons.
  Qed.

  (* ---------- the loop continues only when no interrupt point was hit ---------- *)
  Lemma edecide_continue : forall cs (gs1 : GS) (c : N * texecT) rest sched' (s' : estateT) sched'',
    edecideE cs gs1 c rest sched' = EContinue s' sched'' ->
    exists cs2 ready,
      calc fold getr cs (outs [c]) = Ok (cs2, ready) /\
      hits before ready = [] /\ afters after [c] = [] /\ reruns [c] = [] /\ subcps [c] = [] /\
      s' = {| es_cs := cs2; es_next := map mk_task ready; es_gs := gs1; es_running := rest |} /\ sched'' = sched'.
  Proof.
    unfold edecide; intros cs gs1 c rest sched' s' sched'' H.
    destruct (first_fail [c]); try discriminate.
    destruct (negb (is_nil (subcps [c]) && is_nil (reruns [c]))) eqn:Hrr.
    { destruct (first_fail rest); discriminate. }
    apply negb_false_iff in Hrr. apply andb_prop in Hrr as [Hs1 Hr1].
    apply is_nil_true in Hs1. apply is_nil_true in Hr1.
    destruct (calc fold getr cs (outs [c])) as [[cs2 ready]| |]; try discriminate.
    destruct (nlist_get kEnd ready); try discriminate.
    destruct (is_nil (hits before ready) && is_nil (afters after [c])) eqn:Hh.
    - inversion H; subst. apply andb_prop in Hh as [H1 H2].
      apply is_nil_true in H1. apply is_nil_true in H2.
      exists cs2, ready. repeat split; auto.
    - destruct (first_fail rest); try discriminate.
      destruct (negb (is_nil (subcps rest) && is_nil (reruns rest))); try discriminate.
      destruct (calc fold getr cs2 (outs rest)) as [[cs4 ready2]| |]; try discriminate.
      destruct (nlist_get kEnd ready2); discriminate.
  Qed.

  (* ---------- C06 (b), eager mode ---------- *)
  (* when the collected task is an interrupt-after node the loop does not continue (no task created
     from its output is submitted), and an interrupt reports it — whatever is still running *)
  Lemma edecide_after_stops : forall cs (gs1 : GS) (c : N * texecT) rest sched' k,
    In k (afters after (c :: rest)) ->
    match edecideE cs gs1 c rest sched' with
    | EContinue _ _ => ~ In k (afters after [c])
    | EStop (Interrupted i _) => In k (ii_after i)
    | EStop _ => True
    end.
  Proof.
    intros cs gs1 c rest sched' k Hk.
    destruct (edecideE cs gs1 c rest sched') as [s' sc|r] eqn:Hd.
    - apply edecide_continue in Hd as (cs2 & ready & _ & _ & Ha & _). rewrite Ha. auto.
    - destruct r as [s'|v|i cp|e]; auto.
      apply edecide_info_ok in Hd as (_ & Ha & _). rewrite Ha. exact Hk.
  Qed.

  (* ---------- C06 (a), eager mode ---------- *)
  Lemma estep_event_keys : forall (s : estateT) sched env r evs env',
    estepE s sched env = (r, evs, env') -> map ekey evs = map t_key (es_next s).
  Proof.
    unfold estep_gen; intros s sched env r evs env' H.
    pose proof (run_pres_keys pre (es_next s) (es_gs s)) as Hk.
    destruct (run_pres pre (es_next s) (es_gs s)) as [ts gs1]; simpl in Hk.
    pose proof (exec_all_length exec ts env) as Hl.
    destruct (exec_all exec ts env) as [rs env1]; simpl in Hl.
    inversion H; subst. rewrite events_of_keys by assumption. exact Hk.
  Qed.

  Lemma estep_continue_no_before : forall (s : estateT) sched env s' sched' evs env',
    estepE s sched env = (EContinue s' sched', evs, env') ->
    forall k, In k (map t_key (es_next s')) -> memN k before = false.
  Proof.
    unfold estep_gen; intros s sched env s' sched' evs env' H k Hk.
    destruct (run_pres pre (es_next s) (es_gs s)) as [ts gs1].
    destruct (exec_all exec ts env) as [rs env1].
    destruct (pick (es_running s ++ rs) sched) as [[[c rest] sc]|]; [|inversion H].
    inversion H as [[Hd He Hv]].
    apply edecide_continue in Hd as (cs2 & ready & _ & Hh & _ & _ & _ & -> & _).
    simpl in Hk. rewrite map_map in Hk; simpl in Hk.
    destruct (memN k before) eqn:Hm; auto.
    assert (Hin : In k (hits before ready)) by (unfold hits; apply filter_In; auto).
    rewrite Hh in Hin; destruct Hin.
  Qed.

  Lemma eiterate_log0 : forall fuel (s : estateT) sched env log,
    eiterE fuel s sched env log =
    let '(o, l, e) := eiterE fuel s sched env [] in (o, log ++ l, e).
  Proof.
    induction fuel as [|f IH]; intros s sched env log; simpl.
    - rewrite app_nil_r; reflexivity.
    - destruct (estepE s sched env) as [[r evs] env1].
      destruct r as [s' sched'|r]; simpl; try reflexivity.
      rewrite (IH s' sched' env1 (log ++ evs)), (IH s' sched' env1 evs).
      destruct (eiterE f s' sched' env1 []) as [[o l] e].
      rewrite app_assoc; reflexivity.
  Qed.

  (* in an eager run segment, under every schedule, an interrupt-before node executes only as one
     of the tasks the segment starts with *)
  Lemma eiterate_before_only_pending : forall fuel (s : estateT) sched env o log env',
    eiterE fuel s sched env [] = (o, log, env') ->
    forall ev, In ev log -> memN (ekey ev) before = true -> In (ekey ev) (map t_key (es_next s)).
  Proof.
    induction fuel as [|f IH]; intros s sched env o log env' H ev Hin Hm; simpl in H.
    { inversion H; subst; destruct Hin. }
    destruct (estepE s sched env) as [[r evs] env1] eqn:Hs.
    pose proof (estep_event_keys _ _ _ _ _ _ Hs) as Hk.
    assert (Hev : In ev evs -> In (ekey ev) (map t_key (es_next s))).
    { intro Hi. rewrite <- Hk. apply (in_map ekey) in Hi. exact Hi. }
    destruct r as [s' sched'|r]; simpl in H.
    - rewrite eiterate_log0 in H. destruct (eiterE f s' sched' env1 []) as [[o' l'] e'] eqn:Hit.
      inversion H; subst. apply in_app_or in Hin as [Hi|Hi]; auto.
      exfalso. pose proof (IH _ _ _ _ _ _ Hit ev Hi Hm) as Hp.
      rewrite (estep_continue_no_before _ _ _ _ _ _ _ Hs _ Hp) in Hm. discriminate.
    - inversion H; subst; auto.
  Qed.

  Lemma estart_no_before : forall fuel cs0 (gs0 : GS) x sched env o log env',
    estart zero fold getr pre exec before after false fuel cs0 gs0 x sched env = (o, log, env') ->
    forall ev, In ev log -> memN (ekey ev) before = false.
  Proof.
    unfold estart, init, init_gen; intros fuel cs0 gs0 x sched env o log env' H ev Hin.
    destruct (calc fold getr cs0 [(kStart, x)]) as [[cs1 ready]| |]; simpl in H;
      try (inversion H; subst; destruct Hin).
    destruct (nlist_get kEnd ready); simpl in H; try (inversion H; subst; destruct Hin).
    destruct (is_nil (hits before ready)) eqn:Hh; simpl in H; try (inversion H; subst; destruct Hin).
    destruct (memN (ekey ev) before) eqn:Hm; auto. exfalso.
    pose proof (eiterate_before_only_pending _ _ _ _ _ _ _ H ev Hin Hm) as Hp. simpl in Hp.
    rewrite map_map in Hp; simpl in Hp.
    assert (Hi : In (ekey ev) (hits before ready)) by (unfold hits; apply filter_In; auto).
    apply is_nil_true in Hh. rewrite Hh in Hi. destruct Hi.
  Qed.

  Lemma eresume_before_only_pending : forall fuel sm (c : cptT) sched env o log env',
    eresume zero fold getr pre exec before after false fuel sm c sched env = (o, log, env') ->
    forall ev, In ev log -> memN (ekey ev) before = true -> In (ekey ev) (map fst (cp_inputs c)).
  Proof.
    unfold eresume; intros fuel sm c sched env o log env' H ev Hin Hm.
    pose proof (eiterate_before_only_pending _ _ _ _ _ _ _ H ev Hin Hm) as Hp.
    simpl in Hp. rewrite map_map in Hp. simpl in Hp. exact Hp.
  Qed.
End EagerProofs.
