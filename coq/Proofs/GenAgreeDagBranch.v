(* Proofs/GenAgreeDagBranch.v — property C02, translator tie for the skip bookkeeping of one completed task.

   Gen/DagBranchCode.v is regenerated on every run by tools/go2v (extractor "dagbranch") from the Go text of
   runner.calculateBranch (compose/graph_run.go) and getSuccessors (compose/graph.go), statement by statement.
   This file proves, for every node, output, channel-manager state and input slice:

     gen_getSuccessors_agrees     the translated getSuccessors IS [succs] of Model/Graph.v (writeTo ++ controls ++
                                  the end nodes of every branch) — the successor list the skip work list walks;
     gen_calculateBranch_agrees   the translated calculateBranch computes what [eval_branches] of Model/Graph.v
                                  computes: it fails exactly when eval_branches fails (same class); otherwise it
                                  returns the same list of selected nodes and hands to channelManager.reportBranch a
                                  duplicate-free list with exactly the elements of eval_branches' skipped list
                                  (the end nodes no branch of this node selected, direct control successors
                                  excepted) — in SOME order: the Go code collects it by ranging over a map.

   What is assumed about the parts that are not translated (explicit hypotheses):
     - GraphBranch.invoke returns the chosen end nodes, or an error when one of them is not an end node of the
       branch ([invoke_spec]; the check is in compose/branch.go), and the choice is a function of the value;
     - the branch pre-handler (a type check / conversion, property C07) hands the value on unchanged;
     - value mode (isStream = false): collect is the stream form of invoke;
     - every branch receives (a copy of) the node's output.
   A changed test, a dropped or reordered deletion, a swapped map in the Go source makes a theorem here fail. *)
From Eino Require Import Base.Util Model.Graph Model.DagGenLib.
From Eino Require Gen.DagBranchCode.
From Coq Require Import Lia.
Open Scope N_scope.

Module G := Gen.DagBranchCode.

(* ---------------------------------------------------------------- small facts about the vocabulary *)

Lemma memb_In : forall k l, memb k l = true <-> In k l.
Proof.
  intros k l. unfold memb. rewrite existsb_exists. split.
  - intros [x [Hin Hx]]. apply N.eqb_eq in Hx. subst. exact Hin.
  - intros H. exists k. split; [exact H|apply N.eqb_refl].
Qed.

Lemma memb_false_In : forall k l, memb k l = false <-> ~ In k l.
Proof.
  intros k l. rewrite <- memb_In. destruct (memb k l); split; intros H; try reflexivity; try discriminate.
  elim H. reflexivity.
Qed.

Lemma ks_add_In : forall k x s, In k (ks_add x s) <-> k = x \/ In k s.
Proof.
  intros k x s. unfold ks_add. destruct (memb x s) eqn:E.
  - apply memb_In in E. split; [auto|]. intros [->|H]; assumption.
  - rewrite in_app_iff. simpl. split; [intros [H|[H|[]]]; auto|intros [->|H]; auto].
Qed.

Lemma NoDup_snoc : forall {A} (x : A) s, NoDup s -> ~ In x s -> NoDup (s ++ [x]).
Proof.
  intros A x s H Hx. induction H as [|a s Ha Hs IH]; simpl; [constructor; [intros []|constructor]|].
  constructor.
  - rewrite in_app_iff. simpl. intros [H|[H|[]]]; [exact (Ha H)|]. subst. apply Hx. left. reflexivity.
  - apply IH. intros H. apply Hx. right. exact H.
Qed.

Lemma ks_add_NoDup : forall x s, NoDup s -> NoDup (ks_add x s).
Proof.
  intros x s H. unfold ks_add. destruct (memb x s) eqn:E; [exact H|].
  apply memb_false_In in E. apply NoDup_snoc; assumption.
Qed.

Lemma ks_del_In : forall k x s, In k (ks_del x s) <-> In k s /\ k <> x.
Proof.
  intros k x s. unfold ks_del. rewrite filter_In. rewrite negb_true_iff, N.eqb_neq. tauto.
Qed.

Lemma ks_del_NoDup : forall x s, NoDup s -> NoDup (ks_del x s).
Proof. intros x s H. apply NoDup_filter. exact H. Qed.

Lemma fold_snoc_id : forall {A} (l acc : list A), fold_left (fun (st_ : list A) (x_ : A) => st_ ++ [x_]) l acc = acc ++ l.
Proof.
  intros A l. induction l as [|a l IH]; intros acc; simpl; [rewrite app_nil_r; reflexivity|].
  rewrite IH, <- app_assoc. reflexivity.
Qed.

Lemma l_set_get_id : forall {A} (d : A) i (l : list A), l_set i (l_get d i l) l = l.
Proof.
  intros A d i l. revert i. induction l as [|a l IH]; intros i; [destruct i; reflexivity|].
  destruct i; simpl; [reflexivity|]. unfold l_get in IH. rewrite IH. reflexivity.
Qed.

(* ---------------------------------------------------------------- getSuccessors *)

Lemma fold_ends : forall (bs : list branch) (acc : list key),
  fold_left (fun (st_ : list key) (x_ : branch) =>
               fold_left (fun (st_0 : list key) (x_0 : key) => st_0 ++ [x_0]) (b_ends x_) st_) bs acc
  = acc ++ flat_map b_ends bs.
Proof.
  intros bs. induction bs as [|b bs IH]; intros acc; simpl; [rewrite app_nil_r; reflexivity|].
  rewrite fold_snoc_id, IH, <- app_assoc. reflexivity.
Qed.

Theorem gen_getSuccessors_agrees : forall n : node,
  G.getSuccessors branch b_ends (n_dsucc n) (n_csucc n) (n_branches n) = succs n.
Proof.
  intros n. unfold G.getSuccessors, succs, branch_ends_of. rewrite fold_ends, <- app_assoc.
  reflexivity.
Qed.

(* ---------------------------------------------------------------- calculateBranch *)

Section Agree.
  Variable V : Type.
  Variable ops : vops V.
  Variable CM : Type.
  Variable dflt : V.
  Variable preBranch_handle : key -> nat -> V -> bool -> res V.
  Variable branch_collect : branch -> V -> res (list key).
  Variable branch_invoke : branch -> V -> res (list key).
  Variable cm_reportBranch : CM -> key -> list key -> res CM.

  Hypothesis handle_id : forall k i v s, preBranch_handle k i v s = Ok v.
  Hypothesis invoke_spec : forall b v,
    branch_invoke b v = if subset (choose V ops b v) (b_ends b) then Ok (choose V ops b v) else Err eBranch.

  (* the search loop: is [node] among the selected nodes? *)
  Definition search_step (node : key) := fun (st_ : bool * bool) (x_ : key) =>
    let '(skipped, brk_) := st_ in let w := x_ in
    if brk_ then (skipped, brk_) else if N.eqb node w then (let skipped := false in (skipped, true)) else (skipped, brk_).

  Lemma search_done : forall node ws s, fold_left (search_step node) ws (s, true) = (s, true).
  Proof. intros node ws s. induction ws as [|w ws IH]; simpl; [reflexivity|exact IH]. Qed.

  Lemma search_result : forall node ws,
    fst (fold_left (search_step node) ws (true, false)) = negb (memb node ws).
  Proof.
    intros node ws. induction ws as [|w ws IH]; simpl; [reflexivity|].
    destruct (N.eqb node w); simpl; [rewrite search_done; reflexivity|exact IH].
  Qed.

  (* the loop over the end nodes of one branch *)
  Definition ends_step (ws : list key) := fun (st_ : list key) (x_ : key) =>
    let skippedNodes := st_ in let node := x_ in
    let skipped := true in
    let '(skipped, _) := fold_left (search_step node) ws (skipped, false) in
    let skippedNodes := (if skipped then (let skippedNodes := ks_add node skippedNodes in skippedNodes) else skippedNodes) in
    skippedNodes.

  Lemma ends_step_eq : forall ws sk node,
    ends_step ws sk node = if negb (memb node ws) then ks_add node sk else sk.
  Proof.
    intros ws sk node. unfold ends_step. rewrite <- search_result.
    destruct (fold_left (search_step node) ws (true, false)) as [s b]. reflexivity.
  Qed.

  Lemma ends_loop_In : forall ws ends sk k,
    In k (fold_left (ends_step ws) ends sk) <-> In k sk \/ (In k ends /\ ~ In k ws).
  Proof.
    intros ws ends. induction ends as [|e ends IH]; intros sk k; simpl; [tauto|].
    rewrite IH, ends_step_eq. destruct (memb e ws) eqn:E; simpl.
    - apply memb_In in E. split; [intros [H|[H1 H2]]; auto|]. intros [H|[[->|H1] H2]]; auto. contradiction.
    - apply memb_false_In in E. rewrite ks_add_In. split.
      + intros [[->|H]|[H1 H2]]; auto.
      + intros [H|[[->|H1] H2]]; auto.
  Qed.

  Lemma ends_loop_NoDup : forall ws ends sk, NoDup sk -> NoDup (fold_left (ends_step ws) ends sk).
  Proof.
    intros ws ends. induction ends as [|e ends IH]; intros sk H; simpl; [exact H|].
    apply IH. rewrite ends_step_eq. destruct (negb (memb e ws)); [apply ks_add_NoDup|]; exact H.
  Qed.

  (* the loop over the branches *)
  Definition branch_step (curNodeKey : key) (isStream : bool) :=
    fun (st_ : (list V * list key * list key)) (x_ : (nat * branch)) =>
      let '(input, ret, skippedNodes) := st_ in let i := fst x_ in let branch := snd x_ in
      do x_ <- preBranch_handle curNodeKey i (l_get dflt i input) isStream;
      let input := l_set i x_ input in
      let ws := (@nil key) in
      do ws <- (if isStream then (do ws <- branch_collect branch (l_get dflt i input); Ok ws)
                else (do ws <- branch_invoke branch (l_get dflt i input); Ok ws));
      let skippedNodes := fold_left (ends_step ws) (b_ends branch) skippedNodes in
      let ret := (ret ++ ws) in
      Ok (input, ret, skippedNodes).

  Definition sel_of (out : V) (bs : list branch) : list key := flat_map (fun b => choose V ops b out) bs.
  Definition unsel_of (out : V) (bs : list branch) : list key :=
    flat_map (fun b => filter (fun e => negb (memb e (choose V ops b out))) (b_ends b)) bs.
  Definition all_in (out : V) (bs : list branch) : bool := forallb (fun b => subset (choose V ops b out) (b_ends b)) bs.

  Lemma branch_loop : forall cur out bs s input ret sk,
    (forall j, (j < List.length bs)%nat -> nth (s + j) input dflt = out) ->
    if all_in out bs then
      exists sk', fold_res (branch_step cur false) (combine (seq s (List.length bs)) bs) (input, ret, sk)
                  = Ok (input, ret ++ sel_of out bs, sk')
                  /\ (NoDup sk -> NoDup sk')
                  /\ (forall k, In k sk' <-> In k sk \/ In k (unsel_of out bs))
    else fold_res (branch_step cur false) (combine (seq s (List.length bs)) bs) (input, ret, sk) = Err eBranch.
  Proof.
    intros cur out bs. induction bs as [|b bs IH]; intros s input ret sk Hin; simpl.
    - exists sk. rewrite app_nil_r. split; [reflexivity|]. split; [auto|]. intros k. simpl. tauto.
    - assert (H0 : l_get dflt s input = out).
      { specialize (Hin O). simpl in Hin. rewrite Nat.add_0_r in Hin. apply Hin. lia. }
      rewrite handle_id. simpl. rewrite l_set_get_id, H0, invoke_spec.
      destruct (subset (choose V ops b out) (b_ends b)) eqn:Esub; simpl; [|reflexivity].
      specialize (IH (S s) input (ret ++ choose V ops b out) (fold_left (ends_step (choose V ops b out)) (b_ends b) sk)).
      assert (Hin' : forall j, (j < List.length bs)%nat -> nth (S s + j) input dflt = out).
      { intros j Hj. specialize (Hin (S j)). simpl in Hin. rewrite Nat.add_succ_r in Hin. apply Hin. lia. }
      specialize (IH Hin'). fold (all_in out bs). destruct (all_in out bs).
      + destruct IH as [sk' [Hr [Hnd Hk]]]. exists sk'. split.
        * rewrite Hr. unfold sel_of. simpl. rewrite app_assoc. reflexivity.
        * split; [intros H; apply Hnd, ends_loop_NoDup, H|].
          intros k. rewrite Hk, ends_loop_In. unfold unsel_of. simpl. rewrite in_app_iff, filter_In, negb_true_iff, memb_false_In. tauto.
      + exact IH.
  Qed.

  (* the three loops after it *)
  Definition desel_step := fun (st_ : list key) (x_ : key) =>
    let skippedNodes := st_ in let selected := x_ in
    let ok := ks_has selected skippedNodes in
    let skippedNodes := (if ok then (let skippedNodes := ks_del selected skippedNodes in skippedNodes) else skippedNodes) in
    skippedNodes.
  Definition direct_step := fun (st_ : list key) (x_ : key) =>
    let skippedNodes := st_ in let direct := x_ in
    let skippedNodes := ks_del direct skippedNodes in skippedNodes.

  Lemma desel_loop : forall l sk,
    (forall k, In k (fold_left desel_step l sk) <-> In k sk /\ ~ In k l)
    /\ (NoDup sk -> NoDup (fold_left desel_step l sk)).
  Proof.
    intros l. induction l as [|x l IH]; intros sk; simpl; [split; [tauto|auto]|].
    destruct (IH (desel_step sk x)) as [IH1 IH2]. split.
    - intros k. rewrite IH1. unfold desel_step, ks_has. destruct (memb x sk) eqn:E.
      + rewrite ks_del_In. intuition congruence.
      + apply memb_false_In in E. intuition congruence.
    - intros H. apply IH2. unfold desel_step, ks_has. destruct (memb x sk); [apply ks_del_NoDup|]; exact H.
  Qed.

  Lemma direct_loop : forall l sk,
    (forall k, In k (fold_left direct_step l sk) <-> In k sk /\ ~ In k l)
    /\ (NoDup sk -> NoDup (fold_left direct_step l sk)).
  Proof.
    intros l. induction l as [|x l IH]; intros sk; simpl; [split; [tauto|auto]|].
    destruct (IH (direct_step sk x)) as [IH1 IH2]. split.
    - intros k. rewrite IH1. unfold direct_step. rewrite ks_del_In. intuition congruence.
    - intros H. apply IH2. unfold direct_step. apply ks_del_NoDup. exact H.
  Qed.

  (* the model side in the same vocabulary *)
  Lemma eval_branches_eq : forall n out,
    eval_branches V ops n out
    = if all_in out (n_branches n)
      then Ok (sel_of out (n_branches n),
               nodup N.eq_dec (filter (fun e => negb (memb e (sel_of out (n_branches n))) && negb (memb e (n_csucc n)))
                                      (unsel_of out (n_branches n))))
      else Err eBranch.
  Proof.
    intros n out. unfold eval_branches, all_in, sel_of, unsel_of.
    assert (E0 : forall bs, forallb (fun bs0 : branch * list key => subset (snd bs0) (b_ends (fst bs0)))
                              (map (fun b : branch => (b, choose V ops b out)) bs)
                            = forallb (fun b => subset (choose V ops b out) (b_ends b)) bs).
    { intros bs. induction bs as [|b bs IH]; simpl; [reflexivity|]. rewrite IH. reflexivity. }
    rewrite E0.
    assert (E1 : forall bs, flat_map snd (map (fun b : branch => (b, choose V ops b out)) bs) = flat_map (fun b => choose V ops b out) bs).
    { intros bs. induction bs as [|b bs IH]; simpl; [reflexivity|]. rewrite IH. reflexivity. }
    assert (E2 : forall bs, flat_map (fun bs0 : branch * list key => filter (fun e => negb (memb e (snd bs0))) (b_ends (fst bs0)))
                              (map (fun b : branch => (b, choose V ops b out)) bs)
                            = flat_map (fun b => filter (fun e => negb (memb e (choose V ops b out))) (b_ends b)) bs).
    { intros bs. induction bs as [|b bs IH]; simpl; [reflexivity|]. rewrite IH. reflexivity. }
    rewrite E1, E2. reflexivity.
  Qed.

  Theorem gen_calculateBranch_agrees : forall (n : node) (out : V) (input : list V) (cm : CM),
    (List.length (n_branches n) <= List.length input)%nat ->
    (forall i, (i < List.length (n_branches n))%nat -> nth i input dflt = out) ->
    match eval_branches V ops n out with
    | Ok (sel, skp) =>
        exists skl, NoDup skl /\ (forall k, In k skl <-> In k skp)
          /\ G.calculateBranch V branch CM dflt b_ends preBranch_handle branch_collect branch_invoke cm_reportBranch
               (n_key n) (n_dsucc n) (n_branches n) (n_csucc n) input false cm
             = (do cm' <- cm_reportBranch cm (n_key n) skl; Ok (sel, cm'))
    | Err e =>
        G.calculateBranch V branch CM dflt b_ends preBranch_handle branch_collect branch_invoke cm_reportBranch
          (n_key n) (n_dsucc n) (n_branches n) (n_csucc n) input false cm = Err e
    | Panic => False
    end.
  Proof.
    intros n out input cm Hlen Hin. rewrite eval_branches_eq. unfold G.calculateBranch.
    assert (Hl : Nat.ltb (List.length input) (List.length (n_branches n)) = false) by (apply Nat.ltb_ge; exact Hlen).
    rewrite Hl. unfold l_enum.
    pose proof (branch_loop (n_key n) out (n_branches n) O input (@nil key) ks_empty Hin) as HL.
    change (fun (st_ : list V * list key * list key) (x_ : nat * branch) => _) with (branch_step (n_key n) false).
    destruct (all_in out (n_branches n)).
    - destruct HL as [sk' [Hr [Hnd Hk]]]. rewrite Hr. simpl.
      change (fold_left _ (sel_of out (n_branches n)) sk') with (fold_left desel_step (sel_of out (n_branches n)) sk').
      change (fold_left _ (n_csucc n) ?x) with (fold_left direct_step (n_csucc n) x).
      rewrite fold_snoc_id. simpl.
      destruct (desel_loop (sel_of out (n_branches n)) sk') as [D1 D2].
      destruct (direct_loop (n_csucc n) (fold_left desel_step (sel_of out (n_branches n)) sk')) as [C1 C2].
      eexists. split; [|split; [|reflexivity]].
      + apply C2, D2, Hnd. constructor.
      + intros k. rewrite C1, D1, Hk, nodup_In, filter_In, andb_true_iff, !negb_true_iff, !memb_false_In.
        unfold ks_empty. simpl. tauto.
    - rewrite HL. reflexivity.
  Qed.
End Agree.

Print Assumptions gen_getSuccessors_agrees.
Print Assumptions gen_calculateBranch_agrees.
