(* Proofs/BuilderReject3.v — property C20: rejections a Workflow only meets when Compile makes
   the deferred AddInput calls of one node, whatever the visiting order:
     * a dependency declared twice (duplicate control or data edge),
     * overlapping mapping targets (the whole input beside anything else, one target field
       twice) — also through the deprecated AddEnd, which is End().AddInput since d4925e3.
   Method: [always_fails k n] — the deferred inputs of node k fail on every graph — is enough
   for every Compile to fail, for every pair of orders ([w_compile_fails_of_node]). *)
From Eino Require Import Base.Util Model.Builder Proofs.Builder Proofs.BuilderReject Proofs.BuilderDag Proofs.BuilderSound Proofs.BuilderReject2.
Local Open Scope string_scope.
Local Open Scope list_scope.

(* ------------------------------------------------------------------ one node is enough *)
Definition always_fails (k : string) (n : wnode) : Prop :=
  forall g, snd (run_inputs g k (wn_mapped n) (wn_pending n)) <> None.

Lemma run_nodes_always_fails : forall order w k n,
  alist_get k (w_nodes w) = Some n -> always_fails k n -> In k order -> snd (run_nodes w order) <> None.
Proof.
  induction order as [|x rest IH]; intros w k n G AF O; [contradiction|]. simpl.
  destruct (String.eqb x k) eqn:X.
  - apply String.eqb_eq in X; subst x. rewrite G.
    pose proof (AF (w_g w)) as H.
    destruct (run_inputs (w_g w) k (wn_mapped n) (wn_pending n)) as [[g' m'] [e|]]; simpl in *; congruence.
  - apply String.eqb_neq in X.
    destruct O as [O|O]; [congruence|].
    destruct (alist_get x (w_nodes w)) as [nx|] eqn:GX; [|eapply IH; eassumption].
    destruct (run_inputs (w_g w) x (wn_mapped nx) (wn_pending nx)) as [[g' m'] [e|]]; simpl in *; [congruence|].
    apply (IH _ k n); simpl; try assumption.
    rewrite alist_get_set_other by congruence. assumption.
Qed.

Lemma run_branches_nodes_kept : forall v bs w w' r, run_branches v w bs = (w', r) -> w_nodes w' = w_nodes w.
Proof.
  induction bs as [|[from ends] rest IH]; intros w w' r H; simpl in H.
  - inversion H; subst; reflexivity.
  - dih H.
    + dih H; inversion H; subst; reflexivity.
    + destruct (g_add_branch (w_g w) from ends true) as [g' o]. apply IH in H. exact H.
Qed.

Theorem w_compile_fails_of_node : forall w o ord sord k n,
  alist_get k (w_nodes w) = Some n -> always_fails k n -> is_err (snd (w_compile fixed w o ord sord)).
Proof.
  intros w o ord sord k n G AF. unfold w_compile. destruct (g_err (w_g w)); [eexists; reflexivity|].
  destruct (run_branches fixed w (w_branches w)) as [w1 [out|]] eqn:B.
  - simpl. eapply run_branches_stop_is_err; eassumption.
  - pose proof (run_branches_nodes_kept _ _ _ _ _ B) as K.
    assert (G1 : alist_get k (w_nodes w1) = Some n) by (rewrite K; exact G).
    pose proof (run_nodes_always_fails (ord ++ map fst (w_nodes w1)) w1 k n G1 AF) as H.
    destruct (run_nodes w1 (ord ++ map fst (w_nodes w1))) as [w2 [e|]]; simpl in *; [eexists; reflexivity|].
    exfalso. apply H; [|reflexivity]. apply in_or_app. right. eapply alist_get_in_keys; eassumption.
Qed.

(* ------------------------------------------------------------------ a dependency declared twice *)
Definition adds_ctrl (i : winput) : bool := match wi_kind i with WNoDirect => false | _ => true end.
Definition adds_data (i : winput) : bool := match wi_kind i with WDepOnly => false | _ => true end.

(* what a successful addEdge leaves in the edge lists *)
Lemma add_edge_ok_lists : forall g s e nc nd fs g' o,
  g_add_edge g s e nc nd fs = (g', o) -> err_of o = None ->
  g_ctrl g' = (if nc then g_ctrl g else g_ctrl g ++ [(s, e)]) /\
  g_data g' = (if nd then g_data g else g_data g ++ [(s, e)]).
Proof.
  intros g s e nc nd fs g' o H E. unfold g_add_edge, fail in H.
  destruct (g_err g); [inversion H; subst; discriminate|].
  destruct (g_compiled g); [inversion H; subst; discriminate|].
  destruct (nc && nd) eqn:ND; [inversion H; subst; discriminate|].
  repeat (dih H; [inversion H; subst; discriminate|]).
  fold (add_ctrl g s e) in H.
  set (g1 := if nc then g else add_ctrl g s e) in *.
  assert (C1 : g_ctrl g1 = (if nc then g_ctrl g else g_ctrl g ++ [(s, e)])).
  { unfold g1. destruct nc; [reflexivity|]. apply (add_ctrl_fields g s e). }
  assert (D1 : g_data g1 = g_data g).
  { unfold g1. destruct nc; [reflexivity|]. apply (add_ctrl_fields g s e). }
  destruct nd.
  - inversion H; subst. split; assumption.
  - dih H; [inversion H; subst; discriminate|]. inversion H; subst. simpl.
    pose proof (ss_update_pending (set_pending (g_pending g1 ++ [(s, e, fs)]) g1)) as SS.
    split.
    + rewrite (ss_ctrl _ _ SS). simpl. exact C1.
    + rewrite (ss_data _ _ SS). simpl. rewrite D1. reflexivity.
Qed.

(* an edge that is already there is refused, whatever else is wrong with the call *)
Lemma add_edge_dup : forall g s e nc nd fs,
  (nc = false /\ In (s, e) (g_ctrl g)) \/ (nd = false /\ In (s, e) (g_data g)) ->
  err_of (snd (g_add_edge g s e nc nd fs)) <> None.
Proof.
  intros g s e nc nd fs D. unfold g_add_edge, fail.
  destruct (g_err g); [simpl; congruence|].
  destruct (g_compiled g); [simpl; congruence|].
  destruct (nc && nd); [simpl; congruence|].
  do 4 (dif; [simpl; congruence|]).
  destruct (negb nc && pmem s e (g_ctrl g)) eqn:DC; [simpl; congruence|].
  fold (add_ctrl g s e).
  set (g1 := if nc then g else add_ctrl g s e).
  assert (D1 : g_data g1 = g_data g).
  { unfold g1. destruct nc; [reflexivity|]. apply (add_ctrl_fields g s e). }
  destruct D as [[N I]|[N I]].
  - subst nc. simpl in DC. apply pmem_false in DC. contradiction.
  - subst nd. rewrite D1. apply pmem_In in I. rewrite I. simpl. congruence.
Qed.

Definition has_edges (g : gstate) (k : string) (i : winput) : Prop :=
  (adds_ctrl i = true -> In (wi_from i, k) (g_ctrl g)) /\ (adds_data i = true -> In (wi_from i, k) (g_data g)).

Lemma run_input_ok_lists : forall g k m i g' m',
  run_input g k m i = (g', m', None) ->
  has_edges g' k i /\ incl (g_ctrl g) (g_ctrl g') /\ incl (g_data g) (g_data g').
Proof.
  intros g k m i g' m' H. unfold run_input in H. unfold has_edges, adds_ctrl, adds_data.
  destruct (wi_kind i).
  - destruct (check_mapped m (wi_fields i)) as [m1 [e|]]; [discriminate|].
    destruct (g_add_edge g (wi_from i) k false false (wi_fields i)) as [g1 o] eqn:A. inversion H; subst.
    destruct (add_edge_ok_lists _ _ _ _ _ _ _ _ A H3) as [C D]. rewrite C, D.
    repeat split; intros; auto using in_or_app, in_eq; apply incl_appl, incl_refl.
  - destruct (check_mapped m (wi_fields i)) as [m1 [e|]]; [discriminate|].
    destruct (g_add_edge g (wi_from i) k true false (wi_fields i)) as [g1 o] eqn:A. inversion H; subst.
    destruct (add_edge_ok_lists _ _ _ _ _ _ _ _ A H3) as [C D]. rewrite C, D.
    repeat split; intros; try discriminate; auto using in_or_app, in_eq; try apply incl_refl; apply incl_appl, incl_refl.
  - destruct (g_add_edge g (wi_from i) k false true []) as [g1 o] eqn:A. inversion H; subst.
    destruct (add_edge_ok_lists _ _ _ _ _ _ _ _ A H3) as [C D]. rewrite C, D.
    repeat split; intros; try discriminate; auto using in_or_app, in_eq; try apply incl_refl; apply incl_appl, incl_refl.
Qed.

Definition edge_there (g : gstate) (k : string) (i : winput) : Prop :=
  (adds_ctrl i = true /\ In (wi_from i, k) (g_ctrl g)) \/ (adds_data i = true /\ In (wi_from i, k) (g_data g)).

Lemma run_input_dup : forall g k m i, edge_there g k i -> snd (run_input g k m i) <> None.
Proof.
  intros g k m i D. unfold run_input. unfold edge_there, adds_ctrl, adds_data in D.
  destruct (wi_kind i).
  - destruct (check_mapped m (wi_fields i)) as [m1 [e|]]; simpl; [congruence|].
    pose proof (add_edge_dup g (wi_from i) k false false (wi_fields i)) as A.
    destruct (g_add_edge g (wi_from i) k false false (wi_fields i)); simpl in *. apply A. tauto.
  - destruct (check_mapped m (wi_fields i)) as [m1 [e|]]; simpl; [congruence|].
    pose proof (add_edge_dup g (wi_from i) k true false (wi_fields i)) as A.
    destruct (g_add_edge g (wi_from i) k true false (wi_fields i)); simpl in *. apply A.
    destruct D as [[D _]|[_ D]]; [discriminate|right; auto].
  - pose proof (add_edge_dup g (wi_from i) k false true []) as A.
    destruct (g_add_edge g (wi_from i) k false true []); simpl in *. apply A.
    destruct D as [[_ D]|[D _]]; [left; auto|discriminate].
Qed.

Lemma run_inputs_dup : forall is g k m i, In i is -> edge_there g k i -> snd (run_inputs g k m is) <> None.
Proof.
  induction is as [|j rest IH]; intros g k m i I D; [contradiction|]. simpl.
  destruct I as [I|I].
  - subst j. pose proof (run_input_dup g k m i D) as H.
    destruct (run_input g k m i) as [[g' m'] [e|]]; simpl in *; congruence.
  - destruct (run_input g k m j) as [[g' m'] [e|]] eqn:R; simpl; [congruence|].
    destruct (run_input_ok_lists _ _ _ _ _ _ R) as [_ [C Dd]].
    apply (IH g' k m' i I). destruct D as [[A B]|[A B]]; [left|right]; split; auto.
Qed.

(* the two declarations make the same edge *)
Definition same_dependency (i1 i2 : winput) : Prop :=
  wi_from i1 = wi_from i2 /\
  ((adds_ctrl i1 = true /\ adds_ctrl i2 = true) \/ (adds_data i1 = true /\ adds_data i2 = true)).

Lemma run_inputs_twice : forall l1 i1 l2 i2 l3 g k m,
  same_dependency i1 i2 -> snd (run_inputs g k m (l1 ++ i1 :: l2 ++ i2 :: l3)) <> None.
Proof.
  induction l1 as [|j l1 IH]; intros i1 l2 i2 l3 g k m S; simpl.
  - destruct (run_input g k m i1) as [[g' m'] [e|]] eqn:R; simpl; [congruence|].
    destruct (run_input_ok_lists _ _ _ _ _ _ R) as [[HC HD] _].
    apply (run_inputs_dup _ g' k m' i2); [apply in_or_app; right; left; reflexivity|].
    destruct S as [F [[A B]|[A B]]]; [left|right]; (split; [assumption|]); rewrite <- F; auto.
  - destruct (run_input g k m j) as [[g' m'] [e|]]; simpl; [congruence|]. apply IH. exact S.
Qed.

Theorem workflow_rejects_duplicate_dependency : forall w o ord sord k n l1 i1 l2 i2 l3,
  alist_get k (w_nodes w) = Some n -> wn_pending n = l1 ++ i1 :: l2 ++ i2 :: l3 -> same_dependency i1 i2 ->
  is_err (snd (w_compile fixed w o ord sord)).
Proof.
  intros w o ord sord k n l1 i1 l2 i2 l3 G P S.
  apply (w_compile_fails_of_node w o ord sord k n G).
  intros g. rewrite P. apply run_inputs_twice. exact S.
Qed.

(* ------------------------------------------------------------------ overlapping mapping targets *)
(* two target lists that cannot both be mapped: one of them is the whole input, or they share a field *)
Definition overlap (fs1 fs2 : list string) : Prop :=
  fs1 = [] \/ fs2 = [] \/ exists f, In f fs1 /\ In f fs2.

(* the mapped paths of a node already exclude the targets [fs] *)
Definition blocks (m : mapped) (fs : list string) : Prop :=
  match m with
  | MNone => False
  | MWhole => True
  | MFields have => fs = [] \/ exists f, In f fs /\ In f have
  end.

Lemma add_fields_spec : forall fs have have' r,
  add_fields have fs = (have', r) ->
  incl have have' /\ (r = None -> incl fs have') /\ ((exists f, In f fs /\ In f have) -> r <> None).
Proof.
  induction fs as [|f rest IH]; intros have have' r H; simpl in H.
  - inversion H; subst. split; [apply incl_refl|]. split; [intros _ x []|]. intros [f [[] _]].
  - destruct (smem f have) eqn:S.
    + inversion H; subst. split; [apply incl_refl|]. split; [discriminate|]. intros _. discriminate.
    + destruct (IH _ _ _ H) as [A [B C]]. split; [|split].
      * intros x X. apply A. apply in_or_app. left. exact X.
      * intros R x [X|X]; [subst; apply A; apply in_or_app; right; left; reflexivity|apply (B R); exact X].
      * intros [x [[X|X] Y]].
        -- subst x. apply smem_In in Y. congruence.
        -- apply C. exists x. split; [exact X|apply in_or_app; left; exact Y].
Qed.

Lemma blocks_fail : forall m fs, blocks m fs -> snd (check_mapped m fs) <> None.
Proof.
  intros [| |have] fs B; simpl in *; [contradiction|discriminate|].
  destruct fs as [|f rest]; [discriminate|].
  destruct B as [B|B]; [discriminate|].
  destruct (add_fields have (f :: rest)) as [have' r] eqn:A. simpl.
  exact (proj2 (proj2 (add_fields_spec _ _ _ _ A)) B).
Qed.

Lemma blocks_intro : forall m fs1 m' fs, check_mapped m fs1 = (m', None) -> overlap fs1 fs -> blocks m' fs.
Proof.
  intros m fs1 m' fs H O. destruct m as [| |have]; simpl in H.
  - destruct fs1 as [|f1 r1]; [inversion H; subst; exact I|].
    destruct (add_fields [] (f1 :: r1)) as [have' r] eqn:A. inversion H; subst. simpl.
    destruct (add_fields_spec _ _ _ _ A) as [_ [B _]]. specialize (B eq_refl).
    destruct O as [O|[O|[f [O1 O2]]]]; [discriminate|left; exact O|]. right. exists f. split; [exact O2|apply B; exact O1].
  - discriminate.
  - destruct fs1 as [|f1 r1]; [discriminate|].
    destruct (add_fields have (f1 :: r1)) as [have' r] eqn:A. inversion H; subst. simpl.
    destruct (add_fields_spec _ _ _ _ A) as [_ [B _]]. specialize (B eq_refl).
    destruct O as [O|[O|[f [O1 O2]]]]; [discriminate|left; exact O|]. right. exists f. split; [exact O2|apply B; exact O1].
Qed.

Lemma blocks_mono : forall m fs2 m' fs, check_mapped m fs2 = (m', None) -> blocks m fs -> blocks m' fs.
Proof.
  intros m fs2 m' fs H B. destruct m as [| |have]; simpl in *; [contradiction|discriminate|].
  destruct fs2 as [|f2 r2]; [discriminate|].
  destruct (add_fields have (f2 :: r2)) as [have' r] eqn:A. inversion H; subst. simpl.
  destruct (add_fields_spec _ _ _ _ A) as [INC _].
  destruct B as [B|[f [B1 B2]]]; [left; exact B|]. right. exists f. split; [exact B1|apply INC; exact B2].
Qed.

Lemma run_input_blocked : forall g k m i, adds_data i = true -> blocks m (wi_fields i) -> snd (run_input g k m i) <> None.
Proof.
  intros g k m i D B. unfold run_input. unfold adds_data in D.
  pose proof (blocks_fail m (wi_fields i) B) as F.
  destruct (wi_kind i); [| |discriminate];
    destruct (check_mapped m (wi_fields i)) as [m1 [e|]]; simpl in *; congruence.
Qed.

Lemma run_input_blocks_mono : forall g k m i g' m' fs, run_input g k m i = (g', m', None) -> blocks m fs -> blocks m' fs.
Proof.
  intros g k m i g' m' fs H B. unfold run_input in H.
  destruct (wi_kind i).
  - destruct (check_mapped m (wi_fields i)) as [m1 [e|]] eqn:C; [discriminate|].
    destruct (g_add_edge g (wi_from i) k false false (wi_fields i)). inversion H; subst. eapply blocks_mono; eassumption.
  - destruct (check_mapped m (wi_fields i)) as [m1 [e|]] eqn:C; [discriminate|].
    destruct (g_add_edge g (wi_from i) k true false (wi_fields i)). inversion H; subst. eapply blocks_mono; eassumption.
  - destruct (g_add_edge g (wi_from i) k false true []). inversion H; subst. exact B.
Qed.

Lemma run_input_blocks_intro : forall g k m i g' m' fs,
  run_input g k m i = (g', m', None) -> adds_data i = true -> overlap (wi_fields i) fs -> blocks m' fs.
Proof.
  intros g k m i g' m' fs H D O. unfold run_input in H. unfold adds_data in D.
  destruct (wi_kind i); [| |discriminate].
  - destruct (check_mapped m (wi_fields i)) as [m1 [e|]] eqn:C; [discriminate|].
    destruct (g_add_edge g (wi_from i) k false false (wi_fields i)). inversion H; subst. eapply blocks_intro; eassumption.
  - destruct (check_mapped m (wi_fields i)) as [m1 [e|]] eqn:C; [discriminate|].
    destruct (g_add_edge g (wi_from i) k true false (wi_fields i)). inversion H; subst. eapply blocks_intro; eassumption.
Qed.

Lemma run_inputs_blocked : forall is g k m i,
  In i is -> adds_data i = true -> blocks m (wi_fields i) -> snd (run_inputs g k m is) <> None.
Proof.
  induction is as [|j rest IH]; intros g k m i I D B; [contradiction|]. simpl.
  destruct I as [I|I].
  - subst j. pose proof (run_input_blocked g k m i D B) as H.
    destruct (run_input g k m i) as [[g' m'] [e|]]; simpl in *; congruence.
  - destruct (run_input g k m j) as [[g' m'] [e|]] eqn:R; simpl; [congruence|].
    apply (IH g' k m' i I D). eapply run_input_blocks_mono; eassumption.
Qed.

Definition overlapping (i1 i2 : winput) : Prop :=
  adds_data i1 = true /\ adds_data i2 = true /\ overlap (wi_fields i1) (wi_fields i2).

Lemma run_inputs_overlap : forall l1 i1 l2 i2 l3 g k m,
  overlapping i1 i2 -> snd (run_inputs g k m (l1 ++ i1 :: l2 ++ i2 :: l3)) <> None.
Proof.
  induction l1 as [|j l1 IH]; intros i1 l2 i2 l3 g k m S; simpl.
  - destruct (run_input g k m i1) as [[g' m'] [e|]] eqn:R; simpl; [congruence|].
    destruct S as [D1 [D2 O]].
    apply (run_inputs_blocked _ g' k m' i2); [apply in_or_app; right; left; reflexivity|exact D2|].
    eapply run_input_blocks_intro; eassumption.
  - destruct (run_input g k m j) as [[g' m'] [e|]]; simpl; [congruence|]. apply IH. exact S.
Qed.

(* a single declaration that names one target field twice *)
Lemma add_fields_dup : forall fs have, has_dup fs = true -> snd (add_fields have fs) <> None.
Proof.
  induction fs as [|f rest IH]; intros have D; simpl in *; [discriminate|].
  destruct (smem f have); [simpl; discriminate|].
  apply orb_true_iff in D. destruct D as [D|D]; [|apply IH; exact D].
  destruct (add_fields (have ++ [f]) rest) as [have' r] eqn:A. simpl.
  apply (proj2 (proj2 (add_fields_spec _ _ _ _ A))). exists f. split; [apply smem_In; exact D|].
  apply in_or_app. right. left. reflexivity.
Qed.

Lemma run_inputs_self_dup : forall l1 i l2 g k m,
  adds_data i = true -> has_dup (wi_fields i) = true -> snd (run_inputs g k m (l1 ++ i :: l2)) <> None.
Proof.
  induction l1 as [|j l1 IH]; intros i l2 g k m D H; simpl.
  - assert (F : snd (run_input g k m i) <> None).
    { unfold run_input. unfold adds_data in D.
      assert (C : snd (check_mapped m (wi_fields i)) <> None).
      { destruct m as [| |have]; simpl.
        - destruct (wi_fields i) as [|f r] eqn:E; [discriminate|].
          pose proof (add_fields_dup (f :: r) [] H) as X.
          destruct (add_fields [] (f :: r)); exact X.
        - discriminate.
        - destruct (wi_fields i) as [|f r] eqn:E; [discriminate|].
          pose proof (add_fields_dup (f :: r) have H) as X.
          destruct (add_fields have (f :: r)); exact X. }
      destruct (wi_kind i); [| |discriminate];
        destruct (check_mapped m (wi_fields i)) as [m1 [e|]]; simpl in *; congruence. }
    destruct (run_input g k m i) as [[g' m'] [e|]]; simpl in *; congruence.
  - destruct (run_input g k m j) as [[g' m'] [e|]]; simpl; [congruence|]. apply IH; assumption.
Qed.

Theorem workflow_rejects_overlapping_mappings :
  (forall w o ord sord k n l1 i1 l2 i2 l3,
      alist_get k (w_nodes w) = Some n -> wn_pending n = l1 ++ i1 :: l2 ++ i2 :: l3 -> overlapping i1 i2 ->
      is_err (snd (w_compile fixed w o ord sord)))
  /\ (forall w o ord sord k n l1 i l2,
      alist_get k (w_nodes w) = Some n -> wn_pending n = l1 ++ i :: l2 ->
      adds_data i = true -> has_dup (wi_fields i) = true ->
      is_err (snd (w_compile fixed w o ord sord))).
Proof.
  split.
  - intros w o ord sord k n l1 i1 l2 i2 l3 G P S.
    apply (w_compile_fails_of_node w o ord sord k n G).
    intros g. rewrite P. apply run_inputs_overlap. exact S.
  - intros w o ord sord k n l1 i l2 G P D H.
    apply (w_compile_fails_of_node w o ord sord k n G).
    intros g. rewrite P. apply run_inputs_self_dup; assumption.
Qed.

(* ------------------------------------------------------------------ non-vacuity: the deprecated AddEnd *)
(* AddEnd(a, A) beside End().AddInput(b, A): END's own check for overlapping mappings rejects it
   (before d4925e3 AddEnd added its edge at once, outside that check) *)
Definition wf_addend_overlap : list wcall :=
  [ WAddNode "a" NLambda false; WAddInput "a" START WNormal [];
    WAddNode "b" NLambda false; WAddInput "b" START WNormal [];
    WAddEnd "a" ["A"]; WAddInput END_ "b" WNormal ["A"] ].

Lemma wf_addend_overlap_hyp :
  let w := final (wstep fixed) (w_init false) wf_addend_overlap in
  exists n i1 i2, alist_get END_ (w_nodes w) = Some n /\ wn_pending n = [] ++ i1 :: [] ++ i2 :: [] /\ overlapping i1 i2.
Proof.
  vm_compute. eexists. eexists. eexists. split; [reflexivity|]. split; [reflexivity|].
  split; [reflexivity|]. split; [reflexivity|]. right. right. exists "A". split; left; reflexivity.
Qed.

Lemma wf_addend_overlap_rejected :
  snd (wstep fixed (final (wstep fixed) (w_init false) wf_addend_overlap) (WCompile opt_default [] []))
  = OErr EMapConflict.
Proof. vm_compute. reflexivity. Qed.

Definition wf_dup_dependency : list wcall :=
  [ WAddNode "a" NLambda false; WAddInput "a" START WNormal [];
    WAddNode "b" NLambda false; WAddInput "b" "a" WNormal ["A"]; WAddInput "b" "a" WDepOnly [];
    WAddInput END_ "b" WNormal [] ].

Lemma wf_dup_dependency_hyp :
  let w := final (wstep fixed) (w_init false) wf_dup_dependency in
  exists n i1 i2, alist_get "b" (w_nodes w) = Some n /\ wn_pending n = [] ++ i1 :: [] ++ i2 :: [] /\ same_dependency i1 i2.
Proof.
  vm_compute. eexists. eexists. eexists. split; [reflexivity|]. split; [reflexivity|].
  split; [reflexivity|]. left. split; reflexivity.
Qed.

Lemma wf_dup_dependency_rejected :
  snd (wstep fixed (final (wstep fixed) (w_init false) wf_dup_dependency) (WCompile opt_default [] []))
  = OErr EDupCtrlEdge.
Proof. vm_compute. reflexivity. Qed.
