(* Proofs/ConcatOrderList.v — message lists: the position-wise concatenation does not depend
   on Go's map iteration order nor on the rendering of the Extra maps (Model/ConcatOrderList.v). *)
From Eino Require Import Base.Util Model.Concat Model.ConcatMsg Model.ConcatOrder Model.ConcatOrderList.
From Eino Require Import Proofs.Concat Proofs.ConcatRechunk Proofs.ConcatMsg Proofs.ConcatOrder Proofs.ConcatOrderMsg.
From Coq Require Import Sorting.Permutation.

Section User.
Context {U : UserFn} {L : UserLaw}.

Definition list_same (a b : list (option msg)) : Prop := Forall2 omsg_same a b.

Lemma F2_length {A B} (R : A -> B -> Prop) l r : Forall2 R l r -> List.length l = List.length r.
Proof. induction 1; cbn; congruence. Qed.

Lemma F2_nth_error {A B} (R : A -> B -> Prop) l r i : Forall2 R l r ->
  match nth_error l i, nth_error r i with
  | Some a, Some b => R a b
  | None, None => True
  | _, _ => False
  end.
Proof.
  intros H. revert i. induction H; intros [|i]; cbn; auto. apply IHForall2.
Qed.

Lemma column_same i mas mas' : Forall2 list_same mas mas' -> Forall2 msg_same (column i mas) (column i mas').
Proof.
  induction 1 as [|ma ma' mas mas' H _ IH]; [constructor|].
  unfold column in *. cbn [flat_map]. apply Forall2_app; [|exact IH].
  pose proof (F2_nth_error omsg_same ma ma' i H) as Hn.
  destruct (nth_error ma i) as [[a|]|], (nth_error ma' i) as [[b|]|]; cbn in Hn; try contradiction; constructor; auto.
Qed.

Lemma F2_some l l' : Forall2 msg_same l l' -> Forall2 omsg_same (map Some l) (map Some l').
Proof. induction 1 as [|x y l l' Hxy _ IH]; cbn [map]; constructor; [exact Hxy|exact IH]. Qed.

Lemma F2_same_refl (l : list msg) : Forall2 msg_same l l.
Proof. induction l; constructor; [apply msg_same_refl|assumption]. Qed.

Lemma column_o_rel po s c c' :
  (forall x, Permutation (po x) x) -> sched_ok s -> Forall2 msg_same c c' ->
  rrel omsg_same (concat_column_o po s c) (concat_column c').
Proof.
  intros Hpo Hs H. destruct H as [|a a' c c' Ha H]; [exact I|].
  destruct H as [|b b' c c' Hb H]; [exact Ha|].
  cbn [concat_column_o concat_column].
  pose proof (concat_msgs_order po s (map Some (a :: b :: c)) (map Some (a' :: b' :: c')) Hpo Hs) as R.
  assert (HF : Forall2 omsg_same (map Some (a :: b :: c)) (map Some (a' :: b' :: c'))).
  { apply F2_some. constructor; [exact Ha|]. constructor; assumption. }
  specialize (R HF). unfold rrel in *.
  destruct (concat_msgs_o _ _ _), (concat_msgs _); cbn; auto.
Qed.

Lemma mapM_rel {A B} (R : B -> B -> Prop) (f g : A -> res B) l :
  (forall a, In a l -> rrel R (f a) (g a)) ->
  (forall a, In a l -> f a <> Panic) -> (forall a, In a l -> g a <> Panic) ->
  rrel (Forall2 R) (res_mapM f l) (res_mapM g l).
Proof.
  induction l as [|a l IH]; intros H Pf Pg; cbn; [constructor|].
  assert (Ha : rrel R (f a) (g a)) by (apply H; now left).
  assert (Hl : rrel (Forall2 R) (res_mapM f l) (res_mapM g l)).
  { apply IH; intros; [apply H|apply Pf|apply Pg]; now right. }
  assert (Pl : res_mapM f l <> Panic) by (apply res_mapM_no_panic; intros; apply Pf; now right).
  assert (Pl' : res_mapM g l <> Panic) by (apply res_mapM_no_panic; intros; apply Pg; now right).
  unfold rrel in *.
  destruct (f a), (g a); cbn; try contradiction; auto;
    destruct (res_mapM f l), (res_mapM g l); cbn; try contradiction; auto; try congruence.
  all: try (constructor; assumption).
Qed.

Lemma concat_column_o_no_panic po s c : (forall x, Permutation (po x) x) -> sched_ok s -> concat_column_o po s c <> Panic.
Proof.
  intros Hpo Hs. destruct c as [|a [|b c]]; cbn; try discriminate.
  pose proof (concat_msgs_order po s (map Some (a :: b :: c)) (map Some (a :: b :: c)) Hpo Hs) as R.
  assert (HF : Forall2 omsg_same (map Some (a :: b :: c)) (map Some (a :: b :: c))).
  { apply F2_some, F2_same_refl. }
  specialize (R HF). pose proof (concat_msgs_no_panic (map Some (a :: b :: c))) as P.
  unfold rrel in R. cbn [map] in *. destruct (concat_msgs_o _ _ _), (concat_msgs _); cbn; try contradiction; congruence.
Qed.

Theorem msg_arrays_order po s mas mas' :
  (forall x, Permutation (po x) x) -> sched_ok s -> Forall2 list_same mas mas' ->
  rrel list_same (concat_msg_arrays_o po s mas) (concat_msg_arrays mas').
Proof.
  intros Hpo Hs H. destruct H as [|ma ma' mas mas' Ha H]; [exact I|].
  unfold concat_msg_arrays_o, concat_msg_arrays.
  assert (Hn : List.length ma = List.length ma') by (apply (F2_length _ _ _ Ha)).
  assert (HF : Forall2 list_same (ma :: mas) (ma' :: mas')) by (constructor; assumption).
  assert (Hlens : forallb (fun x => Nat.eqb (List.length x) (List.length ma)) (ma :: mas) =
                  forallb (fun x => Nat.eqb (List.length x) (List.length ma')) (ma' :: mas')).
  { rewrite <- Hn. clear - HF. induction HF as [|x x' l l' Hx _ IH]; cbn; [reflexivity|].
    rewrite (F2_length _ _ _ Hx), IH. reflexivity. }
  rewrite Hlens, Hn. destruct (forallb _ (ma' :: mas')); [|exact I].
  apply mapM_rel.
  - intros i _. apply column_o_rel; auto. apply column_same, HF.
  - intros i _. apply concat_column_o_no_panic; assumption.
  - intros i _. apply concat_column_no_panic.
Qed.

Theorem msglist_stream_order po s l l' :
  (forall x, Permutation (po x) x) -> sched_ok s -> Forall2 list_same l l' ->
  rrel list_same (msglist_stream_o po s l) (msglist_stream l').
Proof.
  intros Hpo Hs H. destruct H as [|x x' l l' Hx H]; [exact I|].
  destruct H as [|y y' l l' Hy H]; [exact Hx|].
  cbn [msglist_stream_o msglist_stream]. apply msg_arrays_order; auto.
Qed.

End User.
