(* Proofs/StreamRunV0.v — the parametrised run loop instantiated with the current channel
   operations is the run model of Model/StreamRun.v; witnesses of F-C19b and of 760a968. *)
From Eino Require Import Base.Util Model.StreamAcct Model.StreamRun Model.StreamRunV0.
Open Scope N_scope.

(* the two fixpoint chains are convertible once the parameters are instantiated *)
Lemma run_g_current : forall g sched, run_g report_skip report_value g sched = run g sched.
Proof. reflexivity. Qed.

Definition mkcall0 (w c : list key) (bs : list bdecl) : call := {| c_write_to := w; c_controls := c; c_branches := bs |}.

(* F-C19b (corpus 09 shape): START has a data-only edge to 2 and a branch {END, 2} that selects END
   only: 2 is skipped by reportBranch, the copy written to its channel by the data edge is dropped.
   (Since 665541a a direct control successor is no longer reported as skipped, so the original
   witness — an ordinary edge and a branch to the same node, corpus 05 — now runs the node.) *)
Definition ex_f19b : graph :=
  {| g_dag := true; g_eager := false;
     g_calls := [ (0, mkcall0 [2] [] [ {| bd_nodata := true; bd_ends := [1; 2] |} ]); (2, mkcall0 [1] [1] []) ] |}.
Definition ex_f19b_sched : list batch := [ [(0, [[1]])] ].

Definition open_of (o : res outcome) : res (handle * list handle * bool) :=
  match o with
  | Ok (Done out _ st) => Ok (out, s_open (rs_store st), true)
  | Ok (Running st) => Ok (0, s_open (rs_store st), false)
  | Err e => Err e
  | Panic => Panic
  end.

Lemma f19b_witness :
  (exists out rest, open_of (run_v0_values ex_f19b ex_f19b_sched) = Ok (out, rest, true) /\ List.length rest = 2%nat) /\
  (exists out, open_of (run ex_f19b ex_f19b_sched) = Ok (out, [out], true)).
Proof. vm_compute. split; eexists; [eexists; split; reflexivity|reflexivity]. Qed.

(* 760a968 (corpus 08): Workflow, 2 -> 3 -> branch without data over {4, 5} selecting 5; 4 and 5
   hold a data-only input from 2; 4 becomes skipped while it stores 2's stream *)
Definition ex_760 : graph :=
  {| g_dag := true; g_eager := true;
     g_calls := [ (0, mkcall0 [2] [2] []); (2, mkcall0 [3; 4; 5] [3] []);
                  (3, mkcall0 [] [] [ {| bd_nodata := true; bd_ends := [4; 5] |} ]);
                  (4, mkcall0 [1] [1] []); (5, mkcall0 [1] [1] []) ] |}.
Definition ex_760_sched : list batch := [ [(0, [])]; [(2, [])]; [(3, [[5]])]; [(5, [])] ].

Lemma skip_v0_witness :
  (exists out rest, open_of (run_v0_skip ex_760 ex_760_sched) = Ok (out, rest, true) /\ List.length rest = 2%nat) /\
  (exists out, open_of (run ex_760 ex_760_sched) = Ok (out, [out], true)).
Proof. vm_compute. split; eexists; [eexists; split; reflexivity|reflexivity]. Qed.

From Eino Require Import Proofs.StreamAcct Proofs.StreamRun.

Lemma v0_values_refuted_l :
  ~ (forall g sched out dropped st,
       g_dag g = true -> NoDup (all_keys g) -> ~ In kEND (all_keys g) -> covered g = true ->
       run_v0_values g sched = Ok (Done out dropped st) -> all_finished g st = true ->
       s_open (rs_store st) = [out]).
Proof.
  intros H.
  assert (Er : exists out dr st, run_v0_values ex_f19b ex_f19b_sched = Ok (Done out dr st) /\
                                 all_finished ex_f19b st = true /\ s_open (rs_store st) <> [out]).
  { vm_compute. eexists. eexists. eexists. split; [reflexivity|]. split; [reflexivity|]. simpl. discriminate. }
  destruct Er as (out & dr & st & E & Hf & Hne). apply Hne.
  assert (Hn : NoDup (all_keys ex_f19b)) by (apply nodup_keys_NoDup; reflexivity).
  assert (He : ~ In kEND (all_keys ex_f19b)) by (intros Hin; apply memb_in in Hin; vm_compute in Hin; discriminate).
  exact (H ex_f19b _ _ _ _ eq_refl Hn He eq_refl E Hf).
Qed.

Lemma v0_skip_refuted_l :
  ~ (forall g sched out dropped st,
       g_dag g = true -> NoDup (all_keys g) -> ~ In kEND (all_keys g) -> covered g = true ->
       run_v0_skip g sched = Ok (Done out dropped st) -> all_finished g st = true ->
       s_open (rs_store st) = [out]).
Proof.
  intros H.
  assert (Er : exists out dr st, run_v0_skip ex_760 ex_760_sched = Ok (Done out dr st) /\
                                 all_finished ex_760 st = true /\ s_open (rs_store st) <> [out]).
  { vm_compute. eexists. eexists. eexists. split; [reflexivity|]. split; [reflexivity|]. simpl. discriminate. }
  destruct Er as (out & dr & st & E & Hf & Hne). apply Hne.
  assert (Hn : NoDup (all_keys ex_760)) by (apply nodup_keys_NoDup; reflexivity).
  assert (He : ~ In kEND (all_keys ex_760)) by (intros Hin; apply memb_in in Hin; vm_compute in Hin; discriminate).
  exact (H ex_760 _ _ _ _ eq_refl Hn He eq_refl E Hf).
Qed.
