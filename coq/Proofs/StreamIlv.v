(* Proofs/StreamIlv.v — property C08: the fast interleaving check is sound for [Shuf]. *)
From Eino Require Import Base.Util Model.Stream Model.StreamIlv Proofs.Stream Proofs.StreamRel Proofs.StreamWf Proofs.StreamClose Proofs.StreamLink Proofs.StreamSem.
From Coq Require Import Lia Permutation.

Definition strs_of (st : pstate) : list (list item) := map snd st.

Lemma item_eqb_eq : forall x y, item_eqb x y = true -> x = y.
Proof. intros [a|a] [b|b] H; simpl in H; try discriminate; apply N.eqb_eq in H; congruence. Qed.

Lemma rev_append_strs : forall pre post, strs_of (rev_append pre post) = rev_append (map snd pre) (strs_of post).
Proof.
  induction pre as [|a pre IH]; intros post; simpl; auto. rewrite IH. reflexivity.
Qed.

Lemma nth_rev_append_shift : forall A (pre l : list A) i,
  nth_error (rev_append pre l) (List.length pre + i) = nth_error l i.
Proof.
  induction pre as [|b pre IH]; intros l i; [reflexivity|]. cbn [rev_append List.length].
  replace (S (List.length pre) + i) with (List.length pre + S i) by lia. rewrite IH. reflexivity.
Qed.

Lemma upd_rev_append_shift : forall A (pre l : list A) i v,
  upd (rev_append pre l) (List.length pre + i) v = rev_append pre (upd l i v).
Proof.
  induction pre as [|b pre IH]; intros l i v; [reflexivity|]. cbn [rev_append List.length].
  replace (S (List.length pre) + i) with (List.length pre + S i) by lia. rewrite IH. reflexivity.
Qed.

Lemma nth_rev_append_mid : forall A (pre : list A) a post, nth_error (rev_append pre (a :: post)) (List.length pre) = Some a.
Proof.
  intros. replace (List.length pre) with (List.length pre + 0) by lia. rewrite nth_rev_append_shift. reflexivity.
Qed.

Lemma upd_rev_append_mid : forall A (pre : list A) a b post,
  upd (rev_append pre (a :: post)) (List.length pre) b = rev_append pre (b :: post).
Proof.
  intros. replace (List.length pre) with (List.length pre + 0) by lia. rewrite upd_rev_append_shift. reflexivity.
Qed.

(* a successor of [pstep] takes x from the head of one strand *)
Lemma pstep_go_spec : forall x post pre st',
  In st' (pstep_go x pre post) ->
  exists k s, nth_error (strs_of (rev_append pre post)) k = Some (x :: s)
              /\ strs_of st' = upd (strs_of (rev_append pre post)) k s.
Proof.
  induction post as [|[n s] post IH]; intros pre st' Hin; simpl in Hin; [contradiction|].
  assert (Hrec : In st' (pstep_go x ((n, s) :: pre) post) ->
            exists k s0, nth_error (strs_of (rev_append pre ((n, s) :: post))) k = Some (x :: s0)
                         /\ strs_of st' = upd (strs_of (rev_append pre ((n, s) :: post))) k s0).
  { intros H. destruct (IH _ _ H) as (k & s0 & A & B). simpl in A, B. eauto. }
  destruct s as [|y s']; auto.
  destruct (item_eqb x y) eqn:E; auto.
  destruct (existsb (strand_eqb (n, y :: s')) pre); auto.
  destruct Hin as [<-|Hin]; auto.
  apply item_eqb_eq in E. subst y.
  exists (List.length pre), s'. rewrite !rev_append_strs. simpl.
  replace (List.length pre) with (List.length (map snd pre)) by apply map_length.
  split; [apply nth_rev_append_mid | symmetry; apply upd_rev_append_mid].
Qed.

Lemma pstep_spec : forall x st st', In st' (pstep x st) ->
  exists k s, nth_error (strs_of st) k = Some (x :: s) /\ strs_of st' = upd (strs_of st) k s.
Proof. intros x st st' H. apply (pstep_go_spec x st [] st' H). Qed.

Lemma pdedup_sub : forall l acc st, In st (pdedup acc l) -> In st acc \/ In st l.
Proof.
  induction l as [|a l IH]; intros acc st H; simpl in *; auto.
  destruct (existsb (lens_eqb a) acc).
  - destruct (IH _ _ H); auto.
  - destruct (IH _ _ H) as [[<-|X]|X]; auto.
Qed.

Lemma pdone_spec : forall full st, pdone full st = true -> full = true -> Forall (fun s => s = []) (strs_of st).
Proof.
  intros full st H Hf. unfold pdone in H. rewrite Hf in H. rewrite forallb_forall in H.
  apply Forall_forall. intros s Hs. unfold strs_of in Hs. apply in_map_iff in Hs. destruct Hs as (p & <- & Hp).
  specialize (H p Hp). destruct (snd p); auto; discriminate.
Qed.

Lemma ilv_sweep_sound : forall full obs states, ilv_sweep full obs states = true ->
  exists st, In st states /\ Shuf full obs (strs_of st).
Proof.
  intros full. induction obs as [|x obs IH]; intros states H; simpl in H.
  - apply existsb_exists in H. destruct H as (st & Hin & Hd). exists st. split; auto.
    apply Sh_nil. intros Hf. eapply pdone_spec; eauto.
  - destruct (pdedup [] (flat_map (pstep x) states)) as [|n0 next] eqn:E; [discriminate|].
    destruct (IH _ H) as (st' & Hin' & Hs).
    rewrite <- E in Hin'. apply pdedup_sub in Hin'. destruct Hin' as [[]|Hin'].
    apply in_flat_map in Hin'. destruct Hin' as (st & Hin & Hst).
    destruct (pstep_spec _ _ _ Hst) as (k & s & Hk & Hu).
    exists st. split; auto. eapply Sh_cons; eauto. rewrite <- Hu. exact Hs.
Qed.

Lemma strs_of_pinit : forall strs, strs_of (pinit strs) = strs.
Proof. intros strs. unfold strs_of, pinit. rewrite map_map. simpl. apply map_id. Qed.

(* what the fast check accepts is an interleaving in the sense of the theorems *)
Theorem ilv_fast_sound : forall full obs strs, ilv_fast full obs strs = true -> Shuf full obs strs.
Proof.
  intros full obs strs H. unfold ilv_fast in H. destruct (ilv_sweep_sound _ _ _ H) as (st & [<-|[]] & Hs).
  rewrite strs_of_pinit in Hs. exact Hs.
Qed.

(* ... and therefore also accepted by the backtracking checker *)
Corollary ilv_fast_backtracking : forall full obs strs,
  ilv_fast full obs strs = true -> is_interleaving_of full obs strs = true.
Proof. intros. apply Shuf_checker. apply ilv_fast_sound. assumption. Qed.

(* ------------------------------------------------------------------ completeness *)

(* every state of a sweep consists of suffixes of the strands of one base, with their lengths *)
Definition wfp (base : list (list item)) (st : pstate) : Prop :=
  Forall2 (fun b p => fst p = List.length (snd p) /\ exists pre, b = pre ++ snd p) base st.

Lemma suffix_same_length : forall (b pre1 s1 pre2 s2 : list item),
  b = pre1 ++ s1 -> b = pre2 ++ s2 -> List.length s1 = List.length s2 -> s1 = s2.
Proof.
  intros b pre1 s1 pre2 s2 E1 E2 Hl.
  assert (Hp : List.length pre1 = List.length pre2).
  { assert (X : List.length (pre1 ++ s1) = List.length (pre2 ++ s2)) by congruence. rewrite !app_length in X. lia. }
  rewrite E1 in E2. clear E1.
  revert pre2 Hp E2. induction pre1 as [|a p1 IH]; intros [|c p2] Hp E2; simpl in *; try discriminate; auto.
  injection E2 as _ E3. apply (IH p2); [lia | exact E3].
Qed.

Lemma lens_eqb_same : forall base a b, wfp base a -> wfp base b -> lens_eqb a b = true -> strs_of a = strs_of b.
Proof.
  intros base a b Ha. revert b. induction Ha as [|b0 [n s] base a (Hn & pre & Hb) Ha IH]; intros b Hb' He.
  - inversion Hb'; subst. reflexivity.
  - inversion Hb' as [|b1 [m s2] base' b' (Hm & pre2 & Hb2) Hb'']; subst. simpl in He.
    apply andb_prop in He. destruct He as [E1 E2]. apply Nat.eqb_eq in E1. simpl in *.
    f_equal; [|apply IH; auto]. eapply suffix_same_length; eauto. congruence.
Qed.

Lemma pstep_go_shape : forall x post pre st', In st' (pstep_go x pre post) ->
  exists l1 n s' l2, rev_append pre post = l1 ++ (n, x :: s') :: l2 /\ st' = l1 ++ (Nat.pred n, s') :: l2.
Proof.
  induction post as [|[n s] post IH]; intros pre st' Hin; simpl in Hin; [contradiction|].
  assert (Hrec : In st' (pstep_go x ((n, s) :: pre) post) ->
            exists l1 n0 s' l2, rev_append pre ((n, s) :: post) = l1 ++ (n0, x :: s') :: l2 /\ st' = l1 ++ (Nat.pred n0, s') :: l2).
  { intros H. destruct (IH _ _ H) as (l1 & n0 & s' & l2 & A & B). simpl in A. eauto 6. }
  destruct s as [|y s']; auto.
  destruct (item_eqb x y) eqn:E; auto.
  destruct (existsb (strand_eqb (n, y :: s')) pre); auto.
  destruct Hin as [<-|Hin]; auto.
  apply item_eqb_eq in E. subst y.
  exists (rev pre), n, s', post. rewrite !rev_append_rev. auto.
Qed.

Lemma pstep_wfp : forall base x st st', wfp base st -> In st' (pstep x st) -> wfp base st'.
Proof.
  intros base x st st' Hw Hin. destruct (pstep_go_shape _ _ _ _ Hin) as (l1 & n & s' & l2 & A & ->). simpl in A. subst st.
  unfold wfp in *. apply Forall2_app_inv_r in Hw. destruct Hw as (b1 & b2 & H1 & H2 & ->).
  inversion H2 as [|b0 p b2' l2' (Hn & pre & Hb) H2']; subst. apply Forall2_app; auto. constructor; auto.
  simpl in *. split; [rewrite Hn; reflexivity|]. exists (pre ++ [x]). rewrite <- app_assoc. reflexivity.
Qed.

(* symmetry reduction: a strand that equals an earlier strand of the state is not advanced (the
   two successor states differ by a transposition, and [Shuf] is invariant under permutations of
   the strands) *)
Lemma items_eqb_eq : forall a b, items_eqb a b = true -> a = b.
Proof.
  induction a as [|x a IH]; intros [|y b] H; simpl in H; try discriminate; auto.
  destruct (item_eqb x y) eqn:E; [|discriminate]. apply item_eqb_eq in E. f_equal; auto.
Qed.

Lemma strand_eqb_eq : forall p q, strand_eqb p q = true -> p = q.
Proof.
  intros [n s] [m t] H. unfold strand_eqb in H. simpl in H.
  destruct (Nat.eqb n m) eqn:E; [|discriminate]. apply Nat.eqb_eq in E. apply items_eqb_eq in H. congruence.
Qed.

Lemma perm_upd : forall A (l l' : list A), Permutation l l' ->
  forall k a b, nth_error l k = Some a ->
  exists k', nth_error l' k' = Some a /\ Permutation (upd l k b) (upd l' k' b).
Proof.
  intros A l l' HP. induction HP as [|c l l' HP IH|c d l|l l' l'' HP1 IH1 HP2 IH2]; intros k a b Hk.
  - destruct k; discriminate.
  - destruct k as [|k]; simpl in Hk.
    + exists 0. simpl. split; [exact Hk|]. apply perm_skip. exact HP.
    + destruct (IH k a b Hk) as (k' & A1 & A2). exists (S k'). simpl. split; [exact A1|]. apply perm_skip. exact A2.
  - destruct k as [|[|k]]; simpl in Hk.
    + exists 1. simpl. split; [exact Hk|]. apply perm_swap.
    + exists 0. simpl. split; [exact Hk|]. apply perm_swap.
    + exists (S (S k)). simpl. split; [exact Hk|]. apply perm_swap.
  - destruct (IH1 k a b Hk) as (k' & A1 & A2). destruct (IH2 k' a b A1) as (k'' & B1 & B2).
    exists k''. split; auto. eapply perm_trans; eauto.
Qed.

Lemma Shuf_perm : forall full l strs, Shuf full l strs -> forall strs', Permutation strs strs' -> Shuf full l strs'.
Proof.
  intros full l strs H. induction H as [strs Hn | x l strs k s Hk H IH]; intros strs' HP.
  - apply Sh_nil. intros Hf. specialize (Hn Hf). rewrite Forall_forall in *. intros y Hy.
    apply Hn. eapply Permutation_in; [symmetry; exact HP | exact Hy].
  - destruct (perm_upd _ _ _ HP k (x :: s) s Hk) as (k' & A1 & A2).
    eapply Sh_cons; [exact A1 | apply IH; exact A2].
Qed.

Lemma upd_perm_cons : forall A (l : list A) k a b, nth_error l k = Some a -> Permutation (a :: upd l k b) (b :: l).
Proof.
  induction l as [|c l IH]; intros [|k] a b Hk; simpl in Hk; try discriminate.
  - inversion Hk; subst. simpl. apply perm_swap.
  - simpl. eapply perm_trans; [apply perm_swap|]. eapply perm_trans; [apply perm_skip; apply IH; exact Hk|]. apply perm_swap.
Qed.

Lemma upd_swap_perm : forall A (l : list A) j k a b, nth_error l j = Some a -> nth_error l k = Some a ->
  Permutation (upd l k b) (upd l j b).
Proof.
  induction l as [|c l IH]; intros [|j] [|k] a b Hj Hk; simpl in Hj, Hk; try discriminate; simpl.
  - apply Permutation_refl.
  - inversion Hj; subst. apply upd_perm_cons. exact Hk.
  - inversion Hk; subst. apply Permutation_sym. apply upd_perm_cons. exact Hj.
  - apply perm_skip. eapply IH; eauto.
Qed.

(* every way of taking x from a strand is among the successors, up to the choice among equal strands *)
Lemma pstep_go_complete : forall x post pre k p s', nth_error post k = Some p -> snd p = x :: s' ->
  In p pre \/
  exists j, nth_error post j = Some p /\ In (rev_append pre (upd post j (Nat.pred (fst p), s'))) (pstep_go x pre post).
Proof.
  induction post as [|[m s] post IH]; intros pre k p s' Hk Hs; [destruct k; discriminate|].
  assert (Hhead : p = (m, s) -> In p pre \/
            exists j, nth_error ((m, s) :: post) j = Some p /\
              In (rev_append pre (upd ((m, s) :: post) j (Nat.pred (fst p), s'))) (pstep_go x pre ((m, s) :: post))).
  { intros ->. simpl in Hs. subst s. simpl. rewrite item_eqb_refl.
    destruct (existsb (strand_eqb (m, x :: s')) pre) eqn:E.
    - apply existsb_exists in E. destruct E as (q & Hq & He). apply strand_eqb_eq in He. subst q. left. exact Hq.
    - right. exists 0. simpl. split; auto. }
  destruct k as [|k]; simpl in Hk.
  - inversion Hk; subst. apply Hhead. reflexivity.
  - destruct (IH ((m, s) :: pre) k p s' Hk Hs) as [[Heq|Hin]|(j & Hj & Hin)].
    + apply Hhead. symmetry. exact Heq.
    + left. exact Hin.
    + right. exists (S j). split; [exact Hj|]. simpl. simpl in Hin.
      destruct s as [|y s0]; auto. destruct (item_eqb x y); auto.
      destruct (existsb (strand_eqb (m, y :: s0)) pre); [|right]; exact Hin.
Qed.

Lemma strs_of_upd : forall st k p, strs_of (upd st k p) = upd (strs_of st) k (snd p).
Proof. intros. unfold strs_of. apply map_upd. Qed.

Lemma pstep_complete : forall x st k s, nth_error (strs_of st) k = Some (x :: s) ->
  exists j st', In st' (pstep x st) /\ nth_error (strs_of st) j = Some (x :: s) /\ strs_of st' = upd (strs_of st) j s.
Proof.
  intros x st k s Hk. unfold strs_of in Hk. rewrite nth_error_map in Hk.
  destruct (nth_error st k) as [[n s0]|] eqn:E.
  2:{ exfalso. revert Hk. unfold pstate, pstrand in *. rewrite E. discriminate. }
  assert (Hk2 : option_map snd (Some (n, s0)) = Some (x :: s)).
  { revert Hk. unfold pstate, pstrand in *. rewrite E. auto. }
  simpl in Hk2. inversion Hk2; subst s0.
  destruct (pstep_go_complete x st [] k (n, x :: s) s E eq_refl) as [[]|(j & Hj & Hin)].
  exists j, (upd st j (Nat.pred n, s)). split; [exact Hin|]. split.
  - unfold strs_of. rewrite nth_error_map. unfold pstate, pstrand in *. rewrite Hj. reflexivity.
  - rewrite strs_of_upd. reflexivity.
Qed.

Lemma lens_eqb_refl : forall a, lens_eqb a a = true.
Proof. induction a as [|[n s] a IH]; simpl; auto. rewrite Nat.eqb_refl. exact IH. Qed.

Lemma pdedup_acc : forall l acc st, In st acc -> In st (pdedup acc l).
Proof.
  induction l as [|a l IH]; intros acc st H; simpl; auto.
  destruct (existsb (lens_eqb a) acc); apply IH; auto. right. exact H.
Qed.

Lemma pdedup_repr : forall l acc st, In st l -> exists st2, In st2 (pdedup acc l) /\ lens_eqb st st2 = true.
Proof.
  induction l as [|a l IH]; intros acc st Hin; [contradiction|]. simpl.
  destruct Hin as [->|Hin].
  - destruct (existsb (lens_eqb st) acc) eqn:E.
    + apply existsb_exists in E. destruct E as (b & Hb & He). exists b. split; auto. apply pdedup_acc. exact Hb.
    + exists st. split; [apply pdedup_acc; left; reflexivity | apply lens_eqb_refl].
  - destruct (existsb (lens_eqb a) acc); apply IH; exact Hin.
Qed.

Lemma ilv_sweep_complete : forall full obs strs, Shuf full obs strs ->
  forall base states, (forall st, In st states -> wfp base st) ->
  (exists st, In st states /\ strs_of st = strs) -> ilv_sweep full obs states = true.
Proof.
  intros full. induction obs as [|x l IH]; intros strs H base states Hw (st & Hin & Hs).
  - inversion H as [strs0 Hn|]; subst. simpl. apply existsb_exists. exists st. split; auto. unfold pdone. destruct full; auto.
    specialize (Hn eq_refl). unfold strs_of in Hn. rewrite Forall_forall in Hn.
    apply forallb_forall. intros p Hp. rewrite (Hn (snd p) (in_map snd _ _ Hp)). reflexivity.
  - inversion H as [|x0 l0 strs0 k s Hk H']; subst. simpl.
    destruct (pstep_complete x st k s Hk) as (j & st' & Hst' & Hj & Hu).
    assert (Hsh : Shuf full l (upd (strs_of st) j s)).
    { eapply Shuf_perm; [exact H'|]. eapply upd_swap_perm; eauto. }
    assert (Hfm : In st' (flat_map (pstep x) states)) by (apply in_flat_map; eauto).
    destruct (pdedup_repr _ [] _ Hfm) as (st2 & Hin2 & He).
    assert (Hwn : forall a, In a (pdedup [] (flat_map (pstep x) states)) -> wfp base a).
    { intros a Ha. apply pdedup_sub in Ha. destruct Ha as [[]|Ha]. apply in_flat_map in Ha.
      destruct Ha as (a0 & Ha0 & Ha1). eapply pstep_wfp; eauto. }
    destruct (pdedup [] (flat_map (pstep x) states)) as [|n0 next] eqn:E; [inversion Hin2|].
    apply (IH _ Hsh base); auto. exists st2. split; auto.
    rewrite <- Hu. symmetry. eapply lens_eqb_same; eauto. eapply pstep_wfp; eauto.
Qed.

Lemma pinit_wfp : forall strs, wfp strs (pinit strs).
Proof.
  induction strs as [|s strs IH]; simpl; constructor; auto. simpl. split; auto. exists []. reflexivity.
Qed.

(* the fast check decides exactly the predicate of the theorems *)
Theorem ilv_fast_spec : forall full obs strs, ilv_fast full obs strs = true <-> Shuf full obs strs.
Proof.
  intros full obs strs. split; [apply ilv_fast_sound|]. intros H. unfold ilv_fast.
  apply (ilv_sweep_complete full obs strs H strs).
  - intros st [<-|[]]. apply pinit_wfp.
  - exists (pinit strs). split; [left; reflexivity | apply strs_of_pinit].
Qed.
