(* Proofs/ReactHeap.v — the ReAct agent's message history as a Go slice (Model/ReactHeap.v):
   for every growth policy, step limit, modifier and sequence of pre-handler executions
   (1) [history_is_what_was_appended]: state.Messages reads exactly the appended messages, in order;
   (2) [handed_never_modified]: every slice handed to the model still reads, in the final heap, what
       it read when it was handed over. *)
From Coq Require Import List Arith NArith Bool Lia.
From Eino Require Import Model.ReactHeap.
Import ListNotations.

Lemma nth_set_arr_same : forall h i a, i < length h -> nth i (set_arr h i a) [] = a.
Proof.
  induction h as [|x h IH]; intros i a Hi; simpl in *; [lia|].
  destruct i; simpl; auto. apply IH. lia.
Qed.

Lemma nth_set_arr_other : forall h i j a, i <> j -> nth j (set_arr h i a) [] = nth j h [].
Proof.
  induction h as [|x h IH]; intros i j a Hij; simpl.
  - destruct j; reflexivity.
  - destruct i; destruct j; simpl; auto; try congruence.
Qed.

Lemma set_arr_length : forall h i a, length (set_arr h i a) = length h.
Proof. induction h as [|x h IH]; intros [|i] a; simpl; auto. Qed.

Lemma list_N_eqb_refl : forall l, list_N_eqb l l = true.
Proof. induction l; simpl; auto. rewrite N.eqb_refl. auto. Qed.

Lemma list_N_eqb_eq : forall a b, list_N_eqb a b = true -> a = b.
Proof.
  induction a; destruct b; simpl; intros H; try discriminate; auto.
  apply andb_true_iff in H. destruct H as [H1 H2]. apply N.eqb_eq in H1. subst. f_equal. auto.
Qed.

(* a slice header inside the heap *)
Definition wf (h : heap) (s : slice) : Prop :=
  sl_arr s < length h /\ sl_len s <= length (arr_of h s).

(* ---- Go's append: what it returns, and what it leaves alone ---- *)
Section Append.
  Variable pol : policy.

  Lemma firstn_prefix : forall (p q : list N), firstn (length p) (p ++ q) = p.
  Proof. intros. rewrite firstn_app, Nat.sub_diag, firstn_all. simpl. apply app_nil_r. Qed.

  Lemma append_read : forall h s xs,
    wf h s ->
    read (fst (append pol h s xs)) (snd (append pol h s xs)) = read h s ++ xs
    /\ wf (fst (append pol h s xs)) (snd (append pol h s xs))
    /\ length h <= length (fst (append pol h s xs)).
  Proof.
    intros h s xs [Ha Hl]. unfold append.
    set (a := arr_of h s) in *.
    assert (L1 : length (firstn (sl_len s) a) = sl_len s) by (rewrite firstn_length; lia).
    assert (L2 : length (firstn (sl_len s) a ++ xs) = sl_len s + length xs) by (rewrite app_length, L1; reflexivity).
    destruct (sl_len s + length xs <=? length a) eqn:E; cbn [fst snd].
    - apply Nat.leb_le in E.
      assert (A' : arr_of (set_arr h (sl_arr s) (firstn (sl_len s) a ++ xs ++ skipn (sl_len s + length xs) a))
                          (mkSlice (sl_arr s) (sl_len s + length xs))
                   = firstn (sl_len s) a ++ xs ++ skipn (sl_len s + length xs) a).
      { unfold arr_of. cbn [sl_arr]. apply nth_set_arr_same. exact Ha. }
      split; [|split].
      + unfold read. rewrite A'. cbn [sl_len]. rewrite app_assoc. rewrite <- L2. rewrite firstn_prefix.
        reflexivity.
      + split; cbn [sl_arr sl_len].
        * rewrite set_arr_length. exact Ha.
        * rewrite A'. rewrite !app_length, L1, skipn_length. lia.
      + rewrite set_arr_length. lia.
    - apply Nat.leb_gt in E.
      set (c := Nat.max (pol (length a) (sl_len s) (length xs)) (sl_len s + length xs)).
      assert (A' : arr_of (h ++ [firstn (sl_len s) a ++ xs ++ repeat 0%N (c - (sl_len s + length xs))])
                          (mkSlice (length h) (sl_len s + length xs))
                   = firstn (sl_len s) a ++ xs ++ repeat 0%N (c - (sl_len s + length xs))).
      { unfold arr_of. cbn [sl_arr]. rewrite app_nth2 by lia. rewrite Nat.sub_diag. reflexivity. }
      split; [|split].
      + unfold read. rewrite A'. cbn [sl_len]. rewrite app_assoc. rewrite <- L2. rewrite firstn_prefix.
        reflexivity.
      + split; cbn [sl_arr sl_len].
        * rewrite app_length. simpl. lia.
        * rewrite A'. rewrite !app_length, L1, repeat_length. lia.
      + rewrite app_length. simpl. lia.
  Qed.

  (* a slice that lies in another array, or in the same array below the appended slice's length,
     reads the same afterwards (and stays below the new length) *)
  Lemma append_keeps : forall h s xs t,
    wf h s -> wf h t ->
    (sl_arr t = sl_arr s -> sl_len t <= sl_len s) ->
    read (fst (append pol h s xs)) t = read h t
    /\ wf (fst (append pol h s xs)) t
    /\ (sl_arr t = sl_arr (snd (append pol h s xs)) -> sl_len t <= sl_len (snd (append pol h s xs))).
  Proof.
    intros h s xs t [Ha Hl] [Hta Htl] Hlow. unfold append.
    set (a := arr_of h s) in *.
    assert (L1 : length (firstn (sl_len s) a) = sl_len s) by (rewrite firstn_length; lia).
    destruct (sl_len s + length xs <=? length a) eqn:E; cbn [fst snd sl_arr sl_len].
    - apply Nat.leb_le in E.
      destruct (Nat.eq_dec (sl_arr t) (sl_arr s)) as [Eq|Ne].
      + specialize (Hlow Eq).
        assert (A' : arr_of (set_arr h (sl_arr s) (firstn (sl_len s) a ++ xs ++ skipn (sl_len s + length xs) a)) t
                     = firstn (sl_len s) a ++ xs ++ skipn (sl_len s + length xs) a).
        { unfold arr_of. rewrite Eq. apply nth_set_arr_same. exact Ha. }
        assert (At : arr_of h t = a). { unfold arr_of, a, arr_of. rewrite Eq. reflexivity. }
        split; [|split].
        * unfold read. rewrite A', At. rewrite firstn_app. rewrite L1.
          replace (sl_len t - sl_len s) with 0 by lia. simpl. rewrite app_nil_r.
          rewrite firstn_firstn. f_equal. lia.
        * split; [rewrite set_arr_length; exact Hta|].
          rewrite A'. rewrite !app_length, L1, skipn_length. lia.
        * intros _. lia.
      + assert (A' : arr_of (set_arr h (sl_arr s) (firstn (sl_len s) a ++ xs ++ skipn (sl_len s + length xs) a)) t
                     = arr_of h t).
        { unfold arr_of. apply nth_set_arr_other. congruence. }
        split; [|split].
        * unfold read. rewrite A'. reflexivity.
        * split; [rewrite set_arr_length; exact Hta|]. rewrite A'. exact Htl.
        * intros H. congruence.
    - set (c := Nat.max (pol (length a) (sl_len s) (length xs)) (sl_len s + length xs)).
      assert (A' : arr_of (h ++ [firstn (sl_len s) a ++ xs ++ repeat 0%N (c - (sl_len s + length xs))]) t
                   = arr_of h t).
      { unfold arr_of. apply app_nth1. exact Hta. }
      split; [|split].
      + unfold read. rewrite A'. reflexivity.
      + split; [rewrite app_length; lia|]. rewrite A'. exact Htl.
      + intros H. lia.
  Qed.
End Append.

(* ---- the run ---- *)
Section Run.
  Variable pol : policy.
  Variable modifier : option (list N -> list N).

  (* the invariant: the state's slice and every handed slice are inside the heap, every handed slice
     reads what it read, and one that shares the state's backing array lies below the state's length *)
  Definition inv (st : hstate) (hist : list N) : Prop :=
    wf (h_heap st) (h_msgs st)
    /\ read (h_heap st) (h_msgs st) = hist
    /\ Forall (fun p => read (h_heap st) (fst p) = snd p
                        /\ wf (h_heap st) (fst p)
                        /\ (sl_arr (fst p) = sl_arr (h_msgs st) -> sl_len (fst p) <= sl_len (h_msgs st)))
              (h_handed st).

  Lemma forall_append_keeps : forall h s xs (l : list (slice * list N)),
    wf h s ->
    Forall (fun p => read h (fst p) = snd p /\ wf h (fst p)
                     /\ (sl_arr (fst p) = sl_arr s -> sl_len (fst p) <= sl_len s)) l ->
    Forall (fun p => read (fst (append pol h s xs)) (fst p) = snd p
                     /\ wf (fst (append pol h s xs)) (fst p)
                     /\ (sl_arr (fst p) = sl_arr (snd (append pol h s xs))
                         -> sl_len (fst p) <= sl_len (snd (append pol h s xs)))) l.
  Proof.
    intros h s xs l Hs H. rewrite Forall_forall in *. intros p Hp.
    destruct (H p Hp) as [Hr [Hw Hlow]].
    destruct (append_keeps pol h s xs (fst p) Hs Hw Hlow) as [A [B C]].
    repeat split; auto; try apply B. congruence.
  Qed.

  (* allocating one more array moves nothing *)
  Lemma extend_keeps : forall h (x : list N) t,
    wf h t -> read (h ++ [x]) t = read h t /\ wf (h ++ [x]) t.
  Proof.
    intros h x t [T1 T2].
    assert (A : arr_of (h ++ [x]) t = arr_of h t) by (unfold arr_of; apply app_nth1; exact T1).
    split; [unfold read; rewrite A; reflexivity|].
    split; [rewrite app_length; simpl; lia|rewrite A; exact T2].
  Qed.

  Lemma hstep_inv : forall st hist op,
    inv st hist ->
    inv (hstep pol modifier st op) (hist ++ match op with HChat i => i | HTools m => [m] end).
  Proof.
    intros st hist op [Hw [Hr Hh]].
    destruct op as [input|m]; unfold hstep.
    - pose proof (append_read pol (h_heap st) (h_msgs st) input Hw) as [R [W L]].
      pose proof (forall_append_keeps (h_heap st) (h_msgs st) input (h_handed st) Hw Hh) as K.
      destruct (append pol (h_heap st) (h_msgs st) input) as [h1 s1] eqn:Ea.
      cbn [fst snd] in R, W, L, K.
      destruct modifier as [f|].
      + (* the modifier's array is new: nothing else moves *)
        unfold inv. cbn [h_heap h_msgs h_handed].
        destruct (extend_keeps h1 (f (read h1 s1)) s1 W) as [X1 X2].
        split; [exact X2|]. split; [rewrite X1, R, Hr; reflexivity|].
        apply Forall_app. split.
        * rewrite Forall_forall in *. intros p Hp. destruct (K p Hp) as [A [B C]].
          destruct (extend_keeps h1 (f (read h1 s1)) (fst p) B) as [Y1 Y2].
          split; [congruence|]. split; [exact Y2|exact C].
        * constructor; [|constructor]. cbn [fst snd].
          assert (A : arr_of (h1 ++ [f (read h1 s1)]) (mkSlice (length h1) (length (f (read h1 s1)))) = f (read h1 s1)).
          { unfold arr_of. cbn [sl_arr]. rewrite app_nth2 by lia. rewrite Nat.sub_diag. reflexivity. }
          split; [unfold read at 1; rewrite A; cbn [sl_len]; apply firstn_all|].
          split.
          -- split; cbn [sl_arr sl_len]; [rewrite app_length; simpl; lia|rewrite A; lia].
          -- cbn [sl_arr]. intros E. destruct W as [W1 _]. lia.
      + unfold inv. cbn [h_heap h_msgs h_handed].
        split; [exact W|]. split; [rewrite R, Hr; reflexivity|].
        apply Forall_app. split; [exact K|].
        constructor; [|constructor]. cbn [fst snd]. split; [reflexivity|]. split; [exact W|]. lia.
    - pose proof (append_read pol (h_heap st) (h_msgs st) [m] Hw) as [R [W L]].
      pose proof (forall_append_keeps (h_heap st) (h_msgs st) [m] (h_handed st) Hw Hh) as K.
      destruct (append pol (h_heap st) (h_msgs st) [m]) as [h1 s1] eqn:Ea.
      cbn [fst snd] in R, W, L, K.
      unfold inv. cbn [h_heap h_msgs h_handed].
      split; [exact W|]. split; [rewrite R, Hr; reflexivity|exact K].
  Qed.

  Lemma hinit_inv : forall max_step, inv (hinit max_step) [].
  Proof.
    intros. unfold inv, hinit, wf, read, arr_of. simpl. repeat split; auto. lia.
  Qed.

  Lemma fold_inv : forall ops st hist,
    inv st hist -> inv (fold_left (hstep pol modifier) ops st) (hist ++ appended ops).
  Proof.
    induction ops as [|op ops IH]; intros st hist H; simpl.
    - rewrite app_nil_r. exact H.
    - pose proof (IH _ _ (hstep_inv st hist op H)) as G.
      rewrite <- app_assoc in G. exact G.
  Qed.

  Theorem history_is_what_was_appended : forall max_step ops,
    read (h_heap (hrun pol modifier max_step ops)) (h_msgs (hrun pol modifier max_step ops)) = appended ops.
  Proof.
    intros. destruct (fold_inv ops _ _ (hinit_inv max_step)) as [_ [H _]]. exact H.
  Qed.

  Theorem handed_never_modified : forall max_step ops,
    Forall (fun p => read (h_heap (hrun pol modifier max_step ops)) (fst p) = snd p)
           (h_handed (hrun pol modifier max_step ops)).
  Proof.
    intros. destruct (fold_inv ops _ _ (hinit_inv max_step)) as [_ [_ H]].
    eapply Forall_impl; [|exact H]. simpl. intros p [A _]. exact A.
  Qed.

  Corollary handed_intact_true : forall max_step ops,
    handed_intact (hrun pol modifier max_step ops) = true.
  Proof.
    intros. unfold handed_intact. apply forallb_forall. intros p Hp.
    pose proof (handed_never_modified max_step ops) as H. rewrite Forall_forall in H.
    rewrite (H p Hp). apply list_N_eqb_refl.
  Qed.
End Run.

(* without a modifier the k-th model call is handed the state's own slice: the history so far *)
Fixpoint seen_by_model (hist : list N) (ops : list hop) : list (list N) :=
  match ops with
  | [] => []
  | HChat i :: r => (hist ++ i) :: seen_by_model (hist ++ i) r
  | HTools m :: r => seen_by_model (hist ++ [m]) r
  end.

Lemma handed_fold_without_modifier : forall pol ops st hist,
  inv st hist ->
  map snd (h_handed (fold_left (hstep pol None) ops st)) = map snd (h_handed st) ++ seen_by_model hist ops.
Proof.
  intros pol. induction ops as [|op ops IH]; intros st hist H; simpl.
  - rewrite app_nil_r. reflexivity.
  - pose proof (hstep_inv pol None st hist op H) as H'.
    destruct op as [input|m].
    + rewrite (IH _ _ H'). clear IH.
      unfold hstep. destruct H as [Hw [Hr _]].
      pose proof (append_read pol (h_heap st) (h_msgs st) input Hw) as [R _].
      destruct (append pol (h_heap st) (h_msgs st) input) as [h1 s1] eqn:Ea.
      cbn [fst snd] in R. cbn [h_handed]. rewrite map_app. cbn [map snd].
      rewrite R, Hr. rewrite <- app_assoc. reflexivity.
    + rewrite (IH _ _ H'). clear IH.
      unfold hstep. destruct (append pol (h_heap st) (h_msgs st) [m]) as [h1 s1] eqn:Ea.
      cbn [h_handed]. reflexivity.
Qed.

Theorem handed_without_modifier : forall pol max_step ops,
  map snd (h_handed (hrun pol None max_step ops)) = seen_by_model [] ops.
Proof.
  intros. unfold hrun. rewrite (handed_fold_without_modifier pol ops _ [] (hinit_inv max_step)).
  reflexivity.
Qed.
