(* Proofs/HandoffOrder.v — property C03: the two models composed.  Whatever interleaving of
   executors and collector the hand-off protocol (Model/TaskMgr.v) goes through, once waitAll has
   drained it the run loop (Model/Confluence.v) computes from the tasks in the order they were
   collected exactly what it computes from the order in which they were submitted. *)
From Eino Require Import Base.Util Model.TaskMgr Model.Confluence.
From Eino Require Import Proofs.TaskMgr Proofs.TaskMgrProgress Proofs.Confluence.
From Coq Require Import Permutation.

(* the completed list handed to calculateNextTasks: every task with its (deterministic) output *)
Definition outs {A} (out : task -> val) (ts : list (task * A)) : list (nid * val) :=
  map (fun x => (fst x, out (fst x))) ts.

Lemma outs_map {A} out (ts : list (task * A)) : outs out ts = map (fun t => (t, out t)) (map fst ts).
Proof. unfold outs. rewrite map_map. reflexivity. Qed.

Lemma outs_keys {A} out (ts : list (task * A)) : map fst (outs out ts) = map fst ts.
Proof. unfold outs. rewrite map_map. reflexivity. Qed.

Lemma handoff_order_irrelevant s : reach s -> drained s ->
  forall m g st st' out, ceq st st' ->
  next_eq (calc_next m g st (outs out (collected s))) (calc_next m g st' (outs out (epcs s))).
Proof.
  intros R D m g st st' out Hc. pose proof (inv_reach s R) as I.
  apply calc_next_perm; [| |exact Hc].
  - rewrite !outs_map. apply Permutation_map. apply drained_all_collected; assumption.
  - rewrite outs_keys. destruct (exactly_once s R) as (_ & _ & K & _). exact K.
Qed.

Lemma af_mono (P Q : st -> Prop) : (forall s, P s -> Q s) -> forall s, AF P s -> AF Q s.
Proof.
  intros H s A. induction A as [s Hp|s Hex _ IH]; [apply af_now, H, Hp|apply af_next; assumption].
Qed.

(* from every reachable state, on every maximal run of the protocol (every interleaving), waitAll
   returns, and what it returns gives the run loop the same next step as the submission order *)
Lemma batch_step_through_handoff s : reach s ->
  AF (fun s' => drained s' /\ reach s' /\ map fst (epcs s') = map fst (epcs s) /\
        forall m g st out,
          next_eq (calc_next m g st (outs out (collected s'))) (calc_next m g st (outs out (epcs s)))) s.
Proof.
  intros R.
  assert (G : forall s', reach s' -> map fst (epcs s') = map fst (epcs s) ->
            AF (fun s'' => drained s'' /\ reach s'' /\ map fst (epcs s'') = map fst (epcs s)) s').
  { intros s'. induction s' as [s' IH] using (induction_ltof1 _ mu). unfold ltof in IH. intros R' E'.
    destruct (deadlock_free s' (inv_reach s' R')) as [D|Hex].
    - apply af_now. auto.
    - apply af_next; [exact Hex|]. intros s2 Hd. apply IH.
      + apply dstep_mu, Hd.
      + destruct Hd as [a b Hs Hl]. eapply r_step; eassumption.
      + rewrite (dstep_keys _ _ Hd). exact E'. }
  eapply af_mono; [|apply (G s R eq_refl)].
  intros s' (D & R' & E). split; [exact D|]. split; [exact R'|]. split; [exact E|].
  intros m g st out.
  replace (outs out (epcs s)) with (outs out (epcs s')) by (rewrite !outs_map, E; reflexivity).
  apply handoff_order_irrelevant; auto. apply ceq_refl.
Qed.
