(* Proofs/StreamRel.v — big-step relational presentation of [recv] and [close_rd]
   (Model/Stream.v): every outcome of the fuel-bounded functions is derivable in the
   relations [Recv] / [Close], which have no fuel and no select-choice argument.  The
   invariants of the later files are proved by induction over these derivations. *)
From Eino Require Import Base.Util Model.Stream Proofs.Stream.
From Coq Require Import Lia.

Definition stuck (r : pres) : Prop := r = PFuel \/ r = PBad.
Definition not_item (r : pres) : Prop := forall x, r <> PItem x.

Inductive Recv : store -> rd -> pres -> store -> rd -> Prop :=
| R_arr_eof : forall st d, Recv st (RArr d []) PEOF st (RArr d [])
| R_arr_item : forall st d x r, Recv st (RArr d (x :: r)) (PItem (IVal x)) st (RArr (d ++ [x]) r)
| R_str : forall st sid s r s',
    nth_error (streams st) sid = Some s -> stream_recv s = (r, s') ->
    Recv st (RStr sid) r (set_stream st sid s') (RStr sid)
| R_mul_eof : forall st sts, Recv st (RMul sts []) PEOF st (RMul sts [])
| R_mul_block : forall st sts chosen,
    chosen <> [] ->
    (forall i sid, In i chosen -> nth_error sts i = Some sid -> stream_ready st sid = false) ->
    Recv st (RMul sts chosen) PBlock st (RMul sts chosen)
| R_mul_item : forall st sts chosen i sid s x s',
    In i chosen -> nth_error sts i = Some sid -> nth_error (streams st) sid = Some s ->
    stream_recv s = (PItem x, s') ->
    Recv st (RMul sts chosen) (PItem x) (set_stream st sid s') (RMul sts chosen)
| R_mul_retire : forall st sts chosen i sid s s0 r st' t',
    In i chosen -> nth_error sts i = Some sid -> nth_error (streams st) sid = Some s ->
    stream_recv s = (PEOF, s0) ->
    Recv st (RMul sts (remove_nat i chosen)) r st' t' ->
    Recv st (RMul sts chosen) r st' t'
| R_conv_item : forall st f src cin cout x y st1 src1,
    Recv st src (PItem x) st1 src1 -> conv_item f x = Some y ->
    Recv st (RConv f src cin cout) (PItem y) st1 (RConv f src1 (cin ++ [x]) (cout ++ [y]))
| R_conv_skip : forall st f src cin cout x st1 src1 r st2 t2,
    Recv st src (PItem x) st1 src1 -> conv_item f x = None ->
    Recv st1 (RConv f src1 (cin ++ [x]) cout) r st2 t2 ->
    Recv st (RConv f src cin cout) r st2 t2
| R_conv_other : forall st f src cin cout r st1 src1,
    Recv st src r st1 src1 -> not_item r ->
    Recv st (RConv f src cin cout) r st1 (RConv f src1 cin cout)
| R_child_closed : forall st p i P,
    nth_error (parents st) p = Some P -> nth_error (p_cur P) i = Some None ->
    Recv st (RChild p i) (PItem (IErr err_after_closed)) st (RChild p i)
| R_child_have : forall st p i P c x,
    nth_error (parents st) p = Some P -> nth_error (p_cur P) i = Some (Some c) ->
    nth_error (p_items P) c = Some x ->
    Recv st (RChild p i) (PItem x) (set_parent st p (deliver P i c x)) (RChild p i)
| R_child_eof : forall st p i P c,
    nth_error (parents st) p = Some P -> nth_error (p_cur P) i = Some (Some c) ->
    nth_error (p_items P) c = None -> p_eof P = true ->
    Recv st (RChild p i) PEOF (set_parent st p (mark_eof P i)) (RChild p i)
| R_child_pull_item : forall st p i P c x st1 src1,
    nth_error (parents st) p = Some P -> nth_error (p_cur P) i = Some (Some c) ->
    nth_error (p_items P) c = None -> p_eof P = false ->
    Recv st (p_src P) (PItem x) st1 src1 ->
    Recv st (RChild p i) (PItem x)
         (set_parent st1 p (deliver (pulled_item (with_src P src1) x) i c x)) (RChild p i)
| R_child_pull_eof : forall st p i P c st1 src1,
    nth_error (parents st) p = Some P -> nth_error (p_cur P) i = Some (Some c) ->
    nth_error (p_items P) c = None -> p_eof P = false ->
    Recv st (p_src P) PEOF st1 src1 ->
    Recv st (RChild p i) PEOF
         (set_parent st1 p (mark_eof (pulled_eof (with_src P src1)) i)) (RChild p i)
| R_child_pull_other : forall st p i P c r st1 src1,
    nth_error (parents st) p = Some P -> nth_error (p_cur P) i = Some (Some c) ->
    nth_error (p_items P) c = None -> p_eof P = false ->
    Recv st (p_src P) r st1 src1 -> not_item r -> r <> PEOF ->
    Recv st (RChild p i) r (set_parent st1 p (with_src P src1)) (RChild p i)
| R_stuck : forall st t r, stuck r -> Recv st t r st t.

Lemma filter_In_hd : forall (f : nat -> bool) l i0 ready' k,
  filter f l = i0 :: ready' -> In (nth k (i0 :: ready') i0) l /\ f (nth k (i0 :: ready') i0) = true.
Proof.
  intros f l i0 ready' k H.
  assert (Hin : In (nth k (i0 :: ready') i0) (i0 :: ready')).
  { destruct (Nat.lt_ge_cases k (List.length (i0 :: ready'))) as [Hlt|Hge].
    - apply nth_In. exact Hlt.
    - rewrite nth_overflow by exact Hge. left. reflexivity. }
  revert Hin. generalize (nth k (i0 :: ready') i0). intros y Hin.
  rewrite <- H in Hin. apply filter_In in Hin. exact Hin.
Qed.

Lemma recv_Recv : forall fuel st t ch r st' t' ch',
  recv fuel st t ch = (r, st', t', ch') -> Recv st t r st' t'.
Proof.
  induction fuel as [|fuel IH]; intros st t ch r st' t' ch' H; simpl in H.
  - inversion H; subst. apply R_stuck. left. reflexivity.
  - destruct t as [d rest | sid | sts chosen | f src cin cout | p i].
    + destruct rest as [|x rest']; inversion H; subst; constructor.
    + destruct (nth_error (streams st) sid) as [s|] eqn:Es.
      2:{ inversion H; subst. apply R_stuck. right. reflexivity. }
      destruct (stream_recv s) as [r0 s0] eqn:Er. inversion H; subst. eapply R_str; eauto.
    + destruct chosen as [|c0 chosen']; [inversion H; subst; constructor|].
      remember (c0 :: chosen') as chosen eqn:Ech.
      destruct (filter _ chosen) as [|i0 ready'] eqn:Ef.
      { inversion H; subst st' t' r ch'. apply R_mul_block; [subst; discriminate|].
        intros i sid Hin Hn.
        destruct (stream_ready st sid) eqn:Erd; auto. exfalso.
        assert (Hx : In i (filter (fun i => match nth_error sts i with
                                        | Some sid => stream_ready st sid | None => false end) chosen)).
        { apply filter_In. split; auto. rewrite Hn. exact Erd. }
        rewrite Ef in Hx. inversion Hx. }
      pose proof (filter_In_hd _ _ _ _ (Nat.modulo (hd 0 ch) (List.length (i0 :: ready'))) Ef) as [Hin Hrd].
      set (i := nth (Nat.modulo (hd 0 ch) (List.length (i0 :: ready'))) (i0 :: ready') i0) in *.
      destruct (nth_error sts i) as [sid|] eqn:Ei.
      2:{ inversion H; subst. apply R_stuck. right. reflexivity. }
      destruct (nth_error (streams st) sid) as [s|] eqn:Es.
      2:{ inversion H; subst. apply R_stuck. right. reflexivity. }
      destruct (stream_recv s) as [r0 s0] eqn:Er.
      destruct r0.
      * inversion H; subst. eapply R_mul_item; eauto.
      * apply IH in H. eapply R_mul_retire; eauto.
      * inversion H; subst. apply R_stuck. right. reflexivity.
      * inversion H; subst. apply R_stuck. right. reflexivity.
      * inversion H; subst. apply R_stuck. right. reflexivity.
    + destruct (recv fuel st src ch) as [[[r1 st1] src1] ch1] eqn:E1.
      apply IH in E1.
      destruct r1 as [x| | | |].
      * destruct (conv_item f x) as [y|] eqn:Ey.
        -- inversion H; subst. eapply R_conv_item; eauto.
        -- apply IH in H. eapply R_conv_skip; eauto.
      * inversion H; subst. apply R_conv_other; auto. intros x; discriminate.
      * inversion H; subst. apply R_conv_other; auto. intros x; discriminate.
      * inversion H; subst. apply R_conv_other; auto. intros x; discriminate.
      * inversion H; subst. apply R_conv_other; auto. intros x; discriminate.
    + destruct (nth_error (parents st) p) as [P|] eqn:EP.
      2:{ inversion H; subst. apply R_stuck. right. reflexivity. }
      destruct (nth_error (p_cur P) i) as [[c|]|] eqn:Ec.
      3:{ inversion H; subst. apply R_stuck. right. reflexivity. }
      2:{ inversion H; subst. eapply R_child_closed; eauto. }
      destruct (nth_error (p_items P) c) as [x|] eqn:Ex.
      { inversion H; subst. eapply R_child_have; eauto. }
      destruct (p_eof P) eqn:Ee.
      { inversion H; subst. eapply R_child_eof; eauto. }
      destruct (recv fuel st (p_src P) ch) as [[[r1 st1] src1] ch1] eqn:E1.
      apply IH in E1.
      destruct r1 as [x| | | |]; inversion H; subst.
      * eapply R_child_pull_item; eauto.
      * eapply R_child_pull_eof; eauto.
      * eapply R_child_pull_other; eauto; [intros x; discriminate | discriminate].
      * eapply R_child_pull_other; eauto; [intros x; discriminate | discriminate].
      * eapply R_child_pull_other; eauto; [intros x; discriminate | discriminate].
Qed.

(* ------------------------------------------------------------------ Close *)

Definition cstuck (c : clres) : Prop := c = ClFuel \/ c = ClBad.

Inductive Close : store -> rd -> clres -> store -> Prop :=
| C_arr : forall st d r, Close st (RArr d r) ClOk st
| C_str : forall st sid c st', close_streams st [sid] = (c, st') -> Close st (RStr sid) c st'
| C_mul : forall st sts ch c st', close_streams st sts = (c, st') -> Close st (RMul sts ch) c st'
| C_conv : forall st f src cin cout c st', Close st src c st' -> Close st (RConv f src cin cout) c st'
| C_child_again : forall st p i P,
    nth_error (parents st) p = Some P -> nth_error (p_cur P) i = Some None ->
    Close st (RChild p i) ClOk st
| C_child_last : forall st p i P c0 c st',
    nth_error (parents st) p = Some P -> nth_error (p_cur P) i = Some (Some c0) ->
    p_closed (close_child P i) = List.length (p_cur (close_child P i)) ->
    Close (set_parent st p (src_closed (close_child P i))) (p_src P) c st' ->
    Close st (RChild p i) c st'
| C_child_notlast : forall st p i P c0,
    nth_error (parents st) p = Some P -> nth_error (p_cur P) i = Some (Some c0) ->
    p_closed (close_child P i) <> List.length (p_cur (close_child P i)) ->
    Close st (RChild p i) ClOk (set_parent st p (close_child P i))
| C_stuck : forall st t c, cstuck c -> Close st t c st.

Lemma close_Close : forall fuel st t c st', close_rd fuel st t = (c, st') -> Close st t c st'.
Proof.
  induction fuel as [|fuel IH]; intros st t c st' H; cbn [close_rd] in H.
  - inversion H; subst. apply C_stuck. left. reflexivity.
  - destruct t as [d rest | sid | sts chosen | f src cin cout | p i].
    + inversion H; subst. apply C_arr.
    + apply C_str. exact H.
    + apply C_mul. exact H.
    + apply C_conv. eapply IH; eauto.
    + destruct (nth_error (parents st) p) as [P|] eqn:EP.
      2:{ inversion H; subst. apply C_stuck. right. reflexivity. }
      destruct (nth_error (p_cur P) i) as [[c0|]|] eqn:Ec.
      3:{ inversion H; subst. apply C_stuck. right. reflexivity. }
      2:{ inversion H; subst. eapply C_child_again; eauto. }
      destruct (Nat.eqb _ _) eqn:En.
      * apply Nat.eqb_eq in En. eapply C_child_last; eauto.
      * apply Nat.eqb_neq in En. inversion H; subst. eapply C_child_notlast; eauto.
Qed.
