(* Proofs/TypesFlow.v — scheduler-independent type safety of a compiled graph.

   [run] (Model/TypeBuilder.v) is Invoke on a Pregel graph: one particular discipline of
   moving values (supersteps, fan-in stops the model).  The safety argument does not
   depend on the discipline: whatever order nodes execute in (Pregel supersteps, the
   all-predecessor / DAG mode, Workflow's eager mode), whether values travel as values or as
   streams whose chunks are converted lazily before the consumer reads them, and whether
   several values meet at a node and are merged (mergeValues / mergeMap return a value of
   the common dynamic type of their arguments or fail), a value can only move
     - from a completed node along a data edge or to an end node of one of its branches,
       through the run-time converters installed on that connection,
     - through a state pre handler, a node body, a state post handler.
   [flow st site k d]: a value of dynamic type d can be at the given site of node k in SOME
   execution of the compiled graph [st]; lambdas and state handlers return ANY value their
   declared Go type admits (nothing is assumed about them beyond Go's static typing, no
   emit table), a state handler of a passthrough node (declared for any) returns anything,
   and its result moves on only if the converter of the node's inferred type accepts it.
   Theorem [flow_typed]: every value that can be at a site has the static type of that site;
   [flow_sites_safe]: hence every type assertion the framework makes (state pre handler
   entry, node entry, state post handler entry, branch condition, final output) holds. *)
From Eino Require Import Base.Util Model.Types Model.TypeBuilder Proofs.TypesLattice Proofs.TypesBuilder Proofs.TypesRun Proofs.TypesInv2 Proofs.TypesMay.
From Coq Require Import Lia.
Arguments check_assignable : simpl never.

Section F.
  Variable u : univ.
  Notation asrt := (assert_type u).

  Inductive site : Type :=
  | SArr     (* handed to the node's task: after the converters of the connection, before the pre handler *)
  | SBody    (* entering the node body (after the pre handler) *)
  | SOut     (* leaving the node body (before the post handler) *)
  | SDone.   (* the completed task's value (after the post handler): what branches and successors see *)

  Inductive flow (st : gstate) : site -> key -> dyn -> Prop :=
  (* the graph input: any value of the graph's input type *)
  | F_start : forall d, has_type u d (g_in st) = true -> flow st SDone kSTART d
  (* along a data edge, through its converters *)
  | F_edge : forall s t d,
      flow st SDone s d -> In (s, t) (g_data st) ->
      conv_all asrt d (hedge_of st s t) = true -> flow st SArr t d
  (* to an end node of a branch, through the branch's converter and the connection's converters
     (whatever the condition selects) *)
  | F_branch : forall s b t d,
      flow st SDone s d -> In (s, b) (g_branches st) -> In t (b_ends b) ->
      conv_all asrt d (b_conv b) = true -> conv_all asrt d (hedge_of st s t) = true -> flow st SArr t d
  (* pre handler: absent, or returns its argument *)
  | F_pre_same : forall k d, flow st SArr k d -> flow st SBody k d
  (* pre handler of a lambda node, declared for the type t: any value of that type *)
  | F_pre_lambda : forall k n d d' t,
      flow st SArr k d -> get_node st k = Some n -> n_pass n = false -> n_pre n = Some t ->
      has_type u d' t = true -> flow st SBody k d'
  (* pre handler of a passthrough node (declared for any): any value the node's converter accepts *)
  | F_pre_pass : forall k n d d' t,
      flow st SArr k d -> get_node st k = Some n -> n_pass n = true -> n_in n = Some t ->
      asrt d' t = true -> flow st SBody k d'
  (* node body: a passthrough node hands its input on; a lambda returns any value of its output type *)
  | F_body_pass : forall k n d,
      flow st SBody k d -> get_node st k = Some n -> n_pass n = true -> flow st SOut k d
  | F_body_lambda : forall k n d d' t,
      flow st SBody k d -> get_node st k = Some n -> n_pass n = false -> n_out n = Some t ->
      has_type u d' t = true -> flow st SOut k d'
  (* post handler, as the pre handler *)
  | F_post_same : forall k d, flow st SOut k d -> flow st SDone k d
  | F_post_lambda : forall k n d d' t,
      flow st SOut k d -> get_node st k = Some n -> n_pass n = false -> n_post n = Some t ->
      has_type u d' t = true -> flow st SDone k d'
  | F_post_pass : forall k n d d' t,
      flow st SOut k d -> get_node st k = Some n -> n_pass n = true -> n_out n = Some t ->
      asrt d' t = true -> flow st SDone k d'.

  (* the static type of a site *)
  Definition site_typed (st : gstate) (s : site) (k : key) (d : dyn) : Prop :=
    match s with
    | SArr | SBody => exists t, in_ty st k = Some t /\ asrt d t = true
    | SOut | SDone => exists t, out_ty st k = Some t /\ has_type u d t = true
    end.

  Lemma in_ty_of_node : forall st k n, nodes_ok st -> get_node st k = Some n -> in_ty st k = n_in n /\ out_ty st k = n_out n.
  Proof. intros. eapply types_of_node; eauto. Qed.

  Theorem flow_typed_inv : forall st, inv u st -> g_compiled st = true ->
    forall s k d, flow st s k d -> site_typed st s k d.
  Proof.
    intros st I C s k d F. pose proof (inv_nodes _ _ I) as NO.
    induction F; simpl in *.
    - (* start *) exists (g_in st). split; [reflexivity | assumption].
    - (* edge *)
      assert (Hc : In (s, t) (conns st)) by (unfold conns; apply in_or_app; left; assumption).
      destruct (compiled_all_validated u st I C _ Hc) as [CO _].
      assert (D : done_ok u st (s, d)) by exact IHF.
      exact (transfer_ok u st s t d CO D H0).
    - (* branch *)
      assert (Hc : In (s, t) (conns st)).
      { unfold conns; apply in_or_app; right. eapply branch_pair_In; eauto. }
      destruct (compiled_all_validated u st I C _ Hc) as [CO _].
      assert (D : done_ok u st (s, d)) by exact IHF.
      exact (transfer_ok u st s t d CO D H2).
    - (* pre same *) exact IHF.
    - (* pre lambda *)
      destruct (NO k n H) as [[_ [_ [Pr _]]] _]. specialize (Pr t H1). rewrite H0 in Pr.
      destruct (in_ty_of_node st k n NO H) as [Ti _].
      exists t. split; [rewrite Ti; exact Pr | apply assert_has_type; assumption].
    - (* pre pass *)
      destruct (in_ty_of_node st k n NO H) as [Ti _].
      exists t. split; [rewrite Ti; assumption | assumption].
    - (* body pass *)
      destruct IHF as [t [It At]].
      destruct (NO k n H) as [[Pp _] _]. destruct (in_ty_of_node st k n NO H) as [Ti To].
      exists t. split; [rewrite To, <- (Pp H0), <- Ti; exact It | apply has_type_assert; exact At].
    - (* body lambda *)
      destruct (in_ty_of_node st k n NO H) as [_ To].
      exists t. split; [rewrite To; assumption | assumption].
    - (* post same *) exact IHF.
    - (* post lambda *)
      destruct (NO k n H) as [[_ [_ [_ Po]]] _]. specialize (Po t H1). rewrite H0 in Po.
      destruct (in_ty_of_node st k n NO H) as [_ To].
      exists t. split; [rewrite To; exact Po | assumption].
    - (* post pass *)
      destruct (in_ty_of_node st k n NO H) as [_ To].
      exists t. split; [rewrite To; assumption | apply has_type_assert; assumption].
  Qed.

  (* every assertion the framework makes on a value that can be there holds *)
  Definition sites_safe (st : gstate) : Prop :=
    (* entry assertion of a state pre handler *)
    (forall k n d t, flow st SArr k d -> get_node st k = Some n -> n_pre n = Some t -> asrt d t = true) /\
    (* entry assertion of a node (lambda: its declared input type) *)
    (forall k n d t, flow st SBody k d -> get_node st k = Some n -> n_in n = Some t -> asrt d t = true) /\
    (* entry assertion of a state post handler *)
    (forall k n d t, flow st SOut k d -> get_node st k = Some n -> n_post n = Some t -> asrt d t = true) /\
    (* a branch condition, behind the branch's converter *)
    (forall s b d, flow st SDone s d -> In (s, b) (g_branches st) ->
       conv_all asrt d (b_conv b) = true -> asrt d (b_ty b) = true) /\
    (* the final output: out.(O) *)
    (forall d, flow st SArr kEND d -> asrt d (g_out st) = true).

  Theorem flow_sites_safe_inv : forall st, inv u st -> g_compiled st = true -> sites_safe st.
  Proof.
    intros st I C. pose proof (inv_nodes _ _ I) as NO.
    pose proof (flow_typed_inv st I C) as FT.
    split; [|split; [|split; [|split]]].
    - intros k n d t F G P. destruct (FT _ _ _ F) as [ti [It At]]. simpl in It.
      destruct (NO k n G) as [[_ [_ [Pr _]]] _]. specialize (Pr t P).
      destruct (in_ty_of_node st k n NO G) as [Ti _].
      destruct (n_pass n); [subst t; apply assert_any|].
      rewrite Ti, Pr in It. inversion It; subst ti. exact At.
    - intros k n d t F G P. destruct (FT _ _ _ F) as [ti [It At]]. simpl in It.
      destruct (in_ty_of_node st k n NO G) as [Ti _]. rewrite Ti, P in It. inversion It; subst ti. exact At.
    - intros k n d t F G P. destruct (FT _ _ _ F) as [to [Ot Ht]]. simpl in Ot.
      destruct (NO k n G) as [[_ [_ [_ Po]]] _]. specialize (Po t P).
      destruct (in_ty_of_node st k n NO G) as [_ To].
      destruct (n_pass n); [subst t; apply assert_any|].
      rewrite To, Po in Ot. inversion Ot; subst to. apply assert_has_type; exact Ht.
    - intros s b d F B CV. destruct (FT _ _ _ F) as [a [Oa Ha]]. simpl in Oa.
      destruct (inv_branches _ _ I s b B) as [_ [a' [Oa' [Hc Hm]]]]. rewrite Oa in Oa'. inversion Oa'; subst a'.
      destruct (check_assignable u (Some a) (Some (b_ty b))) eqn:E.
      + exfalso; apply Hc; reflexivity.
      + eapply must_sound; eauto.
      + specialize (Hm eq_refl). unfold conv_all in CV. rewrite forallb_forall in CV. apply CV; exact Hm.
    - intros d F. destruct (FT _ _ _ F) as [t [It At]]. simpl in It. unfold in_ty in It. simpl in It.
      inversion It; subst t. exact At.
  Qed.

  (* ------------------------------------------------------------------ the Pregel run is an instance:
     every task the superstep loop [run] creates and every completed value it sees is a flow *)
  Variable emit : list (key * dyn).

  Lemma pre_all_flow : forall st tasks tasks1,
    all_typed st -> hret_ok u st ->
    (forall x, In x tasks -> flow st SArr (fst x) (snd x)) ->
    pre_all asrt st tasks = inr tasks1 ->
    forall x, In x tasks1 -> flow st SBody (fst x) (snd x).
  Proof.
    intros st tasks. induction tasks as [|[k d] rest IH]; intros tasks1 AT HR HF H; simpl in H.
    - inversion H; subst. intros x [].
    - destruct (pre_res asrt st (k, d)) as [d1| |] eqn:P; try discriminate.
      destruct (pre_all asrt st rest) as [o|l] eqn:R; [discriminate|]. inversion H; subst tasks1; clear H.
      intros x [Hx|Hx]; [|eapply IH; eauto; intros y Hy; apply HF; right; exact Hy].
      subst x. simpl. pose proof (HF (k, d) (or_introl eq_refl)) as F0. simpl in F0.
      unfold pre_res in P. simpl in P. destruct (get_node st k) as [n|] eqn:G.
      2:{ inversion P; subst d1. apply F_pre_same; exact F0. }
      unfold run_handler in P. destruct (n_pre n) as [t0|] eqn:Pn.
      2:{ inversion P; subst d1. apply F_pre_same; exact F0. }
      destruct (asrt d t0); simpl in P; [|discriminate].
      destruct (n_pass n) eqn:Ps.
      + destruct (n_in n) as [tc|] eqn:Ni.
        * destruct (asrt (match n_pre_ret n with Some r => r | None => d end) tc) eqn:A; [|discriminate].
          inversion P; subst d1. eapply F_pre_pass; eauto.
        * destruct (AT k n G) as [t Ht]. congruence.
      + inversion P; subst d1. destruct (n_pre_ret n) as [r|] eqn:Rr; [|apply F_pre_same; exact F0].
        destruct (HR k n G Ps) as [H1 _]. eapply F_pre_lambda; eauto.
  Qed.
End F.
