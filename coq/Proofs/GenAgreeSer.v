(* Proofs/GenAgreeSer.v — property C12: the Gallina functions tools/go2v translated statement by
   statement from internal/serialization/serialization.go (Gen/SerCode.v: internalMarshal,
   definedContainerKey, GenericRegister, resolvePointerNum, containerType) are the encoder [enc_at], the registration function
   [register] and the decoder's type computations [add_ptr], [container_ty] of Model/Ser.v that the C12 theorems are about.

   internalMarshal is recursive; the translation is the *equation* the Go source states, with the
   recursive call as the parameter [self] (the record internalStruct is [gis], Model/SerGenLib.v).
     gen_internalMarshal_congr   for every well-typed value v and every [self] that is the model's
                                 encoder on the values the call recurses into (fields, elements, map
                                 values), the translated body yields the model's encoding of v;
     gen_internalMarshal_agrees  so the model's encoder satisfies the equation;
     gen_internalMarshal_unique  and every function that satisfies it on well-typed values is the
                                 model's encoder on well-typed values (induction over the size of the
                                 value: the translated body calls [self] on strictly smaller values only).
   Hypotheses: the value is well typed ([wt]: what reflect guarantees of a Go value; the model's
   universe), registry names are not empty ([names_nonempty]: the Go record tells "no container type
   recorded" from a recorded one by the empty string).  What is assumed about the untranslated parts
   is in the header of Model/SerGenLib.v (JSON layer as parameters, Go map insertion as append,
   reflect operations on the model's values).
   A changed kind dispatch, a pointer count that starts or stops elsewhere, a dropped or swapped
   field assignment, another lookup key, another error class, a skipped element … in the Go source
   makes a theorem here stop compiling.  When tools/go2v does not recognise the shape of the source,
   Gen/SerCode.v re-exports the reference translation Model/SerCodeRef.v (tie unavailable: the
   theorems are then about the reference, not about the current source). *)
From Coq Require Import List Bool Arith NArith String Lia.
From Eino Require Import Base.Util Base.Universe Model.Ser Model.SerGenLib.
From Eino Require Model.SerCodeRef Gen.SerCode.
Import ListNotations.
Local Open Scope bool_scope.

(* ------------------------------------------------------------------ loops *)
Lemma loop_ptr_count : forall (R S : Type) (f : S -> S) t s,
  loop_ptr (R := R) (fun _ s => LCont (f s)) t s
  = LCont (snd (strip_ptr t), Nat.iter (fst (strip_ptr t)) f s).
Proof.
  intros R S f t. induction t; intro s; simpl; try reflexivity.
  rewrite IHt. destruct (strip_ptr t) as [n b]. simpl. f_equal. f_equal.
  clear. revert s. induction n; intro s; simpl; [reflexivity|]. now rewrite IHn.
Qed.

(* a test the translated loops make on the pointer types they strip (t.Name() != "": a defined pointer
   type, fix F-C12m) never fires in the universe: it has no defined pointer types *)
Lemma loop_ptr_guard : forall (R S : Type) (r : R) (body : ty -> S -> lres R S) t s,
  loop_ptr (fun t s => if rt_named t then LRet r else body t s) t s = loop_ptr body t s.
Proof.
  intros R S r body t. induction t; intro s; try reflexivity.
  simpl. destruct (body (TPtr t) s); [reflexivity|apply IHt].
Qed.

Lemma loop_ptr_TPtr : forall (R S : Type) (body : ty -> S -> lres R S) e s,
  loop_ptr body (TPtr e) s = match body (TPtr e) s with LRet r => LRet r | LCont s' => loop_ptr body e s' end.
Proof. reflexivity. Qed.

Lemma loop_ptr_nonptr : forall (R S : Type) (body : ty -> S -> lres R S) t s,
  is_ptr t = false -> loop_ptr body t s = LCont (t, s).
Proof. intros R S body [] s H; try reflexivity. discriminate H. Qed.

Lemma slice_set_app : forall {A} (pre : list A) a tl x,
  slice_set (pre ++ a :: tl) (List.length pre) x = pre ++ x :: tl.
Proof. intros A pre; induction pre as [|p pre IH]; intros a tl x; simpl; [reflexivity|]. now rewrite IH. Qed.

Lemma nth_app_len : forall {A} (pre : list A) a tl d, nth (List.length pre) (pre ++ a :: tl) d = a.
Proof. intros A pre; induction pre; intros; simpl; auto. Qed.

Section Agree.
  Variables J JK : Type.
  Variable jenc : base -> lit -> res J.
  Variable kenc : base -> lit -> res JK.
  Variable reg : registry.
  Variable env : senv.

  Notation gisT := (gis J JK).
  Notation istructT := (istruct J JK).
  Let enc0 (v : val) : res (option gisT) := to_gis_res (enc_at J JK jenc kenc fixed reg 0 v).

  Lemma get_set_SliceValues : forall (r : gisT) x, SliceValues (set_SliceValues r x) = x.
  Proof. intros [] x; reflexivity. Qed.
  Lemma set_set_SliceValues : forall (r : gisT) x y, set_SliceValues (set_SliceValues r x) y = set_SliceValues r y.
  Proof. intros [] x y; reflexivity. Qed.
  Lemma get_set_MapValues : forall (r : gisT) x, MapValues (set_MapValues r x) = x.
  Proof. intros [] x; reflexivity. Qed.
  Lemma set_set_MapValues : forall (r : gisT) x y, set_MapValues (set_MapValues r x) y = set_MapValues r y.
  Proof. intros [] x y; reflexivity. Qed.

  Lemma iter_incr_PointerNum : forall n (r : gisT),
    Nat.iter n (fun s : gisT => set_PointerNum s (S (PointerNum s))) r = set_PointerNum r (n + PointerNum r).
  Proof.
    induction n; intro r; simpl; [destruct r; reflexivity|]. rewrite IHn. destruct r; reflexivity.
  Qed.
  Lemma iter_incr_MapKeyPointerNum : forall n (r : gisT),
    Nat.iter n (fun s : gisT => set_MapKeyPointerNum s (S (MapKeyPointerNum s))) r = set_MapKeyPointerNum r (n + MapKeyPointerNum r).
  Proof.
    induction n; intro r; simpl; [destruct r; reflexivity|]. rewrite IHn. destruct r; reflexivity.
  Qed.
  Lemma iter_incr_MapValuePointerNum : forall n (r : gisT),
    Nat.iter n (fun s : gisT => set_MapValuePointerNum s (S (MapValuePointerNum s))) r = set_MapValuePointerNum r (n + MapValuePointerNum r).
  Proof.
    induction n; intro r; simpl; [destruct r; reflexivity|]. rewrite IHn. destruct r; reflexivity.
  Qed.
  Lemma iter_incr_SliceValuePointerNum : forall n (r : gisT),
    Nat.iter n (fun s : gisT => set_SliceValuePointerNum s (S (SliceValuePointerNum s))) r = set_SliceValuePointerNum r (n + SliceValuePointerNum r).
  Proof.
    induction n; intro r; simpl; [destruct r; reflexivity|]. rewrite IHn. destruct r; reflexivity.
  Qed.

  (* the three element loops *)
  Lemma mapM_to_gis : forall (f : val -> res (option istructT)) es,
    mapM (fun e => to_gis_res (f e)) es = res_map (map (option_map to_gis)) (mapM f es).
  Proof.
    intros f es; induction es as [|e r IH]; simpl; [reflexivity|].
    destruct (f e) as [o|c|]; simpl; try reflexivity.
    rewrite IH. destruct (mapM f r); reflexivity.
  Qed.

  Lemma loop_slice : forall (self : val -> res (option gisT)) (es pre : list val) (done : list (option gisT)) (ret : gisT) dflt,
    List.length done = List.length pre ->
    SliceValues ret = done ++ slice_make (List.length es) ->
    loop_list (fun i ret =>
        match self (rv_Interface (nth i (pre ++ es) dflt)) with
        | Err e_ => LRet (Err e_) | Panic => LRet Panic
        | Ok internalValue => LCont (set_SliceValues ret (slice_set (SliceValues ret) i internalValue))
        end) (seq (List.length pre) (List.length es)) ret
    = match mapM self es with
      | Ok l => LCont (set_SliceValues ret (done ++ l))
      | Err e => LRet (R := res (option gisT)) (Err e)
      | Panic => LRet Panic
      end.
  Proof.
    intros self es; induction es as [|e r IH]; intros pre done ret dflt Hlen Hsv; simpl.
    - simpl in Hsv. rewrite app_nil_r in *. subst done. destruct ret; reflexivity.
    - unfold rv_Interface in *. rewrite nth_app_len. destruct (self e) as [iv|c|]; simpl; try reflexivity.
      rewrite Hsv. rewrite <- Hlen.
      change (slice_make (List.length (e :: r))) with (@None gisT :: @slice_make gisT (List.length r)).
      rewrite slice_set_app.
      specialize (IH (pre ++ [e]) (done ++ [iv]) (set_SliceValues ret (done ++ iv :: slice_make (List.length r))) dflt).
      rewrite !app_length in IH. simpl in IH. rewrite !Nat.add_1_r in IH.
      rewrite <- !app_assoc in IH. simpl in IH. rewrite Hlen in IH |- *.
      rewrite IH; [| reflexivity | apply get_set_SliceValues].
      destruct (mapM self r); simpl; try reflexivity. now rewrite set_set_SliceValues, <- app_assoc.
  Qed.

  Lemma loop_list_ext_in : forall {A R S} (b1 b2 : A -> S -> lres R S) l s,
    (forall a s, In a l -> b1 a s = b2 a s) -> loop_list b1 l s = loop_list b2 l s.
  Proof.
    intros A R S b1 b2 l; induction l as [|a r IH]; intros s H; simpl; [reflexivity|].
    rewrite (H a s (or_introl eq_refl)). destruct (b2 a s); [reflexivity|].
    apply IH. intros; apply H; now right.
  Qed.
  Lemma loop_range_nth : forall {A R S} (l : list A) d (body : A -> S -> lres R S) s,
    loop_range (fun i s => body (nth i l d) s) (List.length l) s = loop_list body l s.
  Proof.
    intros A R S l d body. unfold loop_range.
    assert (G : forall pre s, loop_list (fun i s => body (nth i (pre ++ l) d) s) (seq (List.length pre) (List.length l)) s
                              = loop_list body l s).
    { induction l as [|a r IH]; intros pre s; simpl; [reflexivity|].
      rewrite nth_app_len. destruct (body a s); [reflexivity|].
      specialize (IH (pre ++ [a]) s0). rewrite app_length in IH. simpl in IH. rewrite Nat.add_1_r in IH.
      rewrite <- IH. apply loop_list_ext_in. intros i s1 _. now rewrite <- app_assoc. }
    intro s. exact (G [] s).
  Qed.

  (* fields of a struct *)
  Lemma loop_fields : forall (f : val -> res (option istructT)) (fs : list (string * val)) (ret : gisT),
    loop_list (fun (fv : string * val) ret =>
        match to_gis_res (f (snd fv)) with
        | Err e_ => LRet (Err e_) | Panic => LRet Panic
        | Ok internalValue => LCont (set_MapValues ret (mv_put (MapValues ret) (MKName (fst fv)) internalValue))
        end) fs ret
    = match mapM (fun fv => do i <- f (snd fv); Ok (fst fv, i)) fs with
      | Ok l => LCont (set_MapValues ret (MapValues ret ++ map (fun fo => (MKName (fst fo), option_map to_gis (snd fo))) l))
      | Err e => LRet (R := res (option gisT)) (Err e)
      | Panic => LRet Panic
      end.
  Proof.
    intros f fs; induction fs as [|[n v] r IH]; intros ret; simpl.
    - destruct ret; simpl; rewrite app_nil_r; reflexivity.
    - destruct (f v) as [iv|c|]; simpl; try reflexivity.
      rewrite IH. destruct (mapM _ r); simpl; try reflexivity.
      rewrite get_set_MapValues, set_set_MapValues. unfold mv_put. now rewrite <- app_assoc.
  Qed.

  (* entries of a map *)
  Lemma loop_entries : forall (f : val -> res (option istructT)) (kvs : list (val * val)) (ret : gisT),
    loop_list (fun (iter : val * val) ret =>
        match to_gis_res (f (rv_Interface (iter_Value iter))) with
        | Err e_ => LRet (Err e_) | Panic => LRet Panic
        | Ok internalValue =>
            match sonic_MarshalString JK kenc (rv_Interface (iter_Key iter)) with
            | Err e_ => LRet (Err e_) | Panic => LRet Panic
            | Ok keyStr => LCont (set_MapValues ret (mv_put (MapValues ret) (MKJson keyStr) internalValue))
            end
        end) kvs ret
    = match mapM (fun kv => do i <- f (snd kv); do jk <- enc_key JK kenc (fst kv); Ok (jk, i)) kvs with
      | Ok l => LCont (set_MapValues ret (MapValues ret ++ map (fun e => (MKJson (fst e), option_map to_gis (snd e))) l))
      | Err e => LRet (R := res (option gisT)) (Err e)
      | Panic => LRet Panic
      end.
  Proof.
    intros f kvs; induction kvs as [|[k v] r IH]; intros ret; simpl.
    - destruct ret; simpl; rewrite app_nil_r; reflexivity.
    - unfold rv_Interface, iter_Value, iter_Key, sonic_MarshalString in *. simpl.
      destruct (f v) as [iv|c|]; simpl; try reflexivity.
      destruct (enc_key JK kenc k) as [jk|c|]; simpl; try reflexivity.
      rewrite IH. destruct (mapM _ r); simpl; try reflexivity.
      rewrite get_set_MapValues, set_set_MapValues. unfold mv_put. now rewrite <- app_assoc.
  Qed.

  Lemma fields_wt_names : forall ds fs, fields_wt env ds fs = true ->
    List.length ds = List.length fs /\
    forall i d1 d2, i < List.length fs -> fst (nth i ds d1) = fst (nth i fs d2).
  Proof.
    induction ds as [|[f t] ds IH]; intros [|[g w] fs] H; simpl in H; try discriminate H.
    - split; [reflexivity|]. intros i d1 d2 Hi. simpl in Hi. lia.
    - apply andb_true_iff in H. destruct H as [H H4]. apply andb_true_iff in H. destruct H as [H H3].
      apply andb_true_iff in H. destruct H as [H1 H2]. apply String.eqb_eq in H1. subst g.
      destruct (IH fs H4) as [Hl Hn]. split; [simpl; now rewrite Hl|].
      intros [|i] d1 d2 Hi; simpl; [reflexivity|]. apply Hn. simpl in Hi. lia.
  Qed.

  Lemma slice_loop_final : forall es dflt (ret : gisT),
    SliceValues ret = repeat None (List.length es) ->
    match loop_list (fun i ret =>
            match enc0 (nth i es dflt) with
            | Ok internalValue => LCont (set_SliceValues ret (slice_set (SliceValues ret) i internalValue))
            | Err e_ => LRet (Err e_) | Panic => LRet Panic
            end) (seq 0 (List.length es)) ret with
    | LRet r_ => r_
    | LCont ret => Ok (Some ret)
    end
    = match mapM (enc_at J JK jenc kenc fixed reg 0) es with
      | Ok l => Ok (Some (set_SliceValues ret (map (option_map to_gis) l)))
      | Err e => Err e
      | Panic => Panic
      end.
  Proof.
    intros es dflt ret H.
    pose proof (loop_slice enc0 es [] [] ret dflt eq_refl H) as L. unfold rv_Interface in L. simpl in L.
    rewrite L. unfold enc0. rewrite mapM_to_gis. destruct (mapM (enc_at J JK jenc kenc fixed reg 0) es); reflexivity.
  Qed.

  Lemma entries_loop_final : forall kvs (ret : gisT),
    MapValues ret = [] ->
    match loop_list (fun (iter : val * val) (ret0 : gisT) =>
            match enc0 (rv_Interface (iter_Value iter)) with
            | Ok internalValue =>
                match sonic_MarshalString JK kenc (rv_Interface (iter_Key iter)) with
                | Ok keyStr => LCont (set_MapValues ret0 (mv_put (MapValues ret0) (MKJson keyStr) internalValue))
                | Err e_ => LRet (Err e_) | Panic => LRet Panic
                end
            | Err e_ => LRet (Err e_) | Panic => LRet Panic
            end) kvs ret with
    | LRet r_ => r_
    | LCont ret => Ok (Some ret)
    end
    = match mapM (fun kv => do i <- enc_at J JK jenc kenc fixed reg 0 (snd kv);
                            do jk <- enc_key JK kenc (fst kv); Ok (jk, i)) kvs with
      | Ok l => Ok (Some (set_MapValues ret (map (fun e => (MKJson (fst e), option_map to_gis (snd e))) l)))
      | Err e => Err e
      | Panic => Panic
      end.
  Proof.
    intros kvs ret H. unfold enc0.
    rewrite (loop_entries (enc_at J JK jenc kenc fixed reg 0) kvs ret). rewrite H.
    destruct (mapM _ kvs); reflexivity.
  Qed.

  Definition g0 (pn : nat) : gisT :=
    MkGis J JK pn 0 EmptyString None EmptyString 0 EmptyString 0 EmptyString [] 0 EmptyString [] false EmptyString.
  Definition not_box (v : val) : bool := match v with VIface _ _ => false | _ => true end.

  Lemma wt_not_box : forall w, wt env w = true -> is_iface (ty_of w) = false -> not_box w = true.
  Proof.
    intros [] Hwt Hi; try reflexivity. simpl in *. apply andb_true_iff in Hwt. destruct Hwt as [H _]. congruence.
  Qed.

  (* registry names are not empty (the decoder tells the record shapes apart by which name is set) *)
  Definition names_nonempty (r : registry) : bool := forallb (fun e => negb (String.eqb (fst e) EmptyString)) r.
  Hypothesis reg_names : names_nonempty reg = true.
  Lemma rm_lookup_nonempty : forall t k, rm_lookup reg t = Some k -> String.eqb k EmptyString = false.
  Proof.
    unfold names_nonempty in reg_names. revert reg_names. generalize reg as r.
    induction r as [|[k' t'] r IH]; intros Hn t k H; simpl in *; [discriminate H|].
    apply andb_true_iff in Hn. destruct Hn as [H1 H2].
    destruct (ty_eqb t t'); [inversion H; subst; now apply negb_true_iff in H1 | eauto].
  Qed.

  (* the values a call hands to its recursive calls: fields, elements, map values (pointers,
     interface boxes and defined types are opened by the call itself) *)
  Fixpoint children (v : val) : list val :=
    match v with
    | VStruct _ fs => map snd fs
    | VPtr w => children w
    | VSlice _ (Some es) => es
    | VMap _ _ (Some kvs) => map snd kvs
    | VIface _ (Some w) => children w
    | VArray _ es => es
    | VDef _ w => children w
    | _ => []
    end.

  Theorem gen_internalMarshal_congr : forall (self : val -> res (option gisT)) v, wt env v = true ->
    (forall u, In u (children v) -> self u = enc0 u) ->
    Gen.SerCode.internalMarshal J JK jenc kenc reg env self v = enc0 v.
  Proof.
    intros self v Hwt Hself.
    unfold Gen.SerCode.internalMarshal. try unfold Model.SerCodeRef.internalMarshal.  (* the neutral file re-exports the reference *)
    cbv zeta.
    match goal with |- (if _ then _ else ?M) = _ =>
      match M with context C [loop_ptr ?b _ _] =>
        set (body := b);
        let K := constr:(fun x : lres (res (option gisT)) (ty * (gisT * val)) =>
                           ltac:(let g := context C [x] in exact g)) in
        pose (K0 := K)
      end
    end.
    assert (MAIN : forall w pn, not_box w = true -> wt env w = true ->
              (forall u, In u (children w) -> self u = enc0 u) ->
              K0 (loop_ptr body (ty_of w) (g0 pn, w)) = to_gis_res (enc_at J JK jenc kenc fixed reg pn w)).
    { clear Hself. induction w; intros pn Hnb Hw Hself.
      all: idtac.

      - (* VBase *)
        unfold K0. cbn. unfold lookup_name. destruct (rm_lookup reg (TBase b)); cbn; [|reflexivity].
        destruct (jenc b l); reflexivity.
      - unfold K0. cbn. unfold lookup_name. destruct (rm_lookup reg (TNamed n b)); cbn; [|reflexivity].
        destruct (jenc b l); reflexivity.
      - (* VStruct *)
        unfold K0. cbn.
        rewrite wt_struct in Hw. destruct (struct_fields env n) as [ds|]; [|discriminate Hw].
        destruct (fields_wt_names ds fs Hw) as [Hlen Hnames].
        unfold lookup_name. destruct (rm_lookup reg (TStruct n)) as [key|]; cbn; [|reflexivity].
        unfold sfield in *. rewrite Hlen.
        erewrite loop_list_ext_in.
        2:{ intros i s Hin. apply in_seq in Hin. unfold sf_Name, rv_Field, rv_fields.
            rewrite (Hnames i _ (EmptyString, VStruct n fs)) by lia. unfold rv_Interface.
            rewrite Hself by (simpl; apply in_map, nth_In; lia). reflexivity. }
        match goal with |- context [loop_list ?b (seq 0 (List.length fs)) ?s] =>
          change (loop_list b (seq 0 (List.length fs)) s) with (loop_range b (List.length fs) s) end.
        rewrite (loop_range_nth fs (EmptyString, VStruct n fs)
                   (fun fv ret => match enc0 (rv_Interface (snd fv)) with
                                  | Ok internalValue => LCont (set_MapValues ret (mv_put (MapValues ret) (MKName (fst fv)) internalValue))
                                  | Err e_ => LRet (Err e_) | Panic => LRet Panic end)).
        unfold enc0, rv_Interface. rewrite loop_fields. cbn.
        destruct (mapM _ fs); reflexivity.
      - (* VNilPtr *)
        change (ty_of (VNilPtr t)) with (TPtr t). rewrite loop_ptr_TPtr. unfold body at 1.
        cbn -[loop_ptr]. rewrite ?loop_ptr_guard, loop_ptr_count. unfold K0. cbn -[Nat.iter].
        unfold lookup_name. destruct (rm_lookup reg (snd (strip_ptr t))) as [key|]; cbn -[Nat.iter]; [|reflexivity].
        rewrite iter_incr_PointerNum. cbn. rewrite Nat.sub_0_r.
        replace (fst (strip_ptr t) + S pn) with (S (pn + fst (strip_ptr t))) by lia. reflexivity.
      - (* VPtr *)
        change (ty_of (VPtr w)) with (TPtr (ty_of w)). rewrite loop_ptr_TPtr. unfold body at 1.
        cbn -[loop_ptr]. fold body.
        simpl in Hw. apply andb_true_iff in Hw. destruct Hw as [Hi Hw]. apply negb_true_iff in Hi.
        apply (IHw (S pn)); [apply wt_not_box; assumption | assumption | exact Hself].
      - (* VSlice *)
        unfold K0. rewrite loop_ptr_nonptr by reflexivity. cbn -[loop_ptr]. rewrite ?loop_ptr_guard, loop_ptr_count.
        cbn -[Nat.iter]. rewrite iter_incr_SliceValuePointerNum. cbn.
        set (es := match o with Some es => es | None => [] end).
        assert (Hes : forall u, In u es -> self u = enc0 u)
          by (intros u Hu; apply Hself; subst es; destruct o; [exact Hu | destruct Hu]).
        replace (match o with Some es0 => mapM (enc_at J JK jenc kenc fixed reg 0) es0 | None => Ok [] end)
          with (mapM (enc_at J JK jenc kenc fixed reg 0) es) by (destruct o; reflexivity).
        unfold elem_key, lookup_name. destruct (rm_lookup reg (snd (strip_ptr t))) as [key|]; cbn; [|reflexivity].
        rewrite andb_false_r. cbn. erewrite loop_list_ext_in
              by (intros i s Hin; apply in_seq in Hin; rewrite Hes by (apply nth_In; lia); reflexivity).
            rewrite slice_loop_final by reflexivity.
        destruct (mapM _ es); cbn; try reflexivity. now rewrite Nat.add_0_r.
      - (* VMap *)
        unfold K0. rewrite loop_ptr_nonptr by reflexivity. cbn -[loop_ptr]. rewrite ?loop_ptr_guard, loop_ptr_count.
        cbn -[Nat.iter loop_ptr]. rewrite iter_incr_MapKeyPointerNum. cbn -[loop_ptr].
        set (kvs := match o with Some kvs => kvs | None => [] end).
        assert (Hkvs : forall u, In u (map snd kvs) -> self u = enc0 u)
          by (intros u Hu; apply Hself; subst kvs; destruct o; [exact Hu | destruct Hu]).
        match goal with |- _ = to_gis_res (do kk <- _; do vk <- _; do entries <- ?E; _) =>
          replace E with (mapM (fun kv : val * val =>
                                  do i <- enc_at J JK jenc kenc fixed reg 0 (snd kv);
                                  do jk <- enc_key JK kenc (fst kv); Ok (jk, i)) kvs)
            by (destruct o; reflexivity) end.
        unfold elem_key, lookup_name. destruct (rm_lookup reg (snd (strip_ptr k))) as [kkey|]; cbn -[loop_ptr]; [|reflexivity].
        rewrite ?loop_ptr_guard, loop_ptr_count. cbn -[Nat.iter]. rewrite iter_incr_MapValuePointerNum. cbn.
        destruct (rm_lookup reg (snd (strip_ptr t))) as [vkey|]; cbn; [|reflexivity].
        rewrite andb_false_r. cbn. erewrite loop_list_ext_in
              by (intros kv s Hin; unfold rv_Interface, iter_Value; rewrite Hkvs by (apply in_map; exact Hin); reflexivity).
            rewrite entries_loop_final by reflexivity.
        destruct (mapM _ kvs); cbn; try reflexivity. now rewrite !Nat.add_0_r.
      - (* VIface *) discriminate Hnb.
      - (* VArray *)
        assert (Hes : forall u, In u es -> self u = enc0 u) by exact Hself.
        unfold K0. rewrite loop_ptr_nonptr by reflexivity. cbn -[loop_ptr]. rewrite ?loop_ptr_guard, loop_ptr_count.
        cbn -[Nat.iter]. rewrite iter_incr_SliceValuePointerNum. cbn.
        unfold elem_key, lookup_name. destruct (rm_lookup reg (snd (strip_ptr t))) as [key|]; cbn; [|reflexivity].
        rewrite andb_false_r. cbn. erewrite loop_list_ext_in
              by (intros i s Hin; apply in_seq in Hin; rewrite Hes by (apply nth_In; lia); reflexivity).
            rewrite slice_loop_final by reflexivity.
        destruct (mapM _ es); cbn; try reflexivity. now rewrite Nat.add_0_r.
      - (* VDef *)
        clear IHw. simpl in Hw. apply andb_true_iff in Hw. destruct Hw as [Hc Hw].
        destruct w; try discriminate Hc.
        + (* defined slice *)
          unfold K0. rewrite loop_ptr_nonptr by reflexivity. cbn -[loop_ptr]. rewrite ?loop_ptr_guard, loop_ptr_count.
          cbn -[Nat.iter]. rewrite iter_incr_SliceValuePointerNum. cbn.
          set (es := match o with Some es => es | None => [] end).
        assert (Hes : forall u, In u es -> self u = enc0 u)
          by (intros u Hu; apply Hself; subst es; destruct o; [exact Hu | destruct Hu]).
          replace (match o with Some es0 => mapM (enc_at J JK jenc kenc fixed reg 0) es0 | None => Ok [] end)
            with (mapM (enc_at J JK jenc kenc fixed reg 0) es) by (destruct o; reflexivity).
          unfold elem_key, lookup_name, rm_get.
          destruct (rm_lookup reg (TDef d (TSlice t))) as [ck|] eqn:Eck.
          * rewrite (rm_lookup_nonempty _ _ Eck), !andb_false_r.
            destruct (rm_lookup reg (snd (strip_ptr t))) as [key|]; cbn; [|reflexivity].
            erewrite loop_list_ext_in
              by (intros i s Hin; apply in_seq in Hin; rewrite Hes by (apply nth_In; lia); reflexivity).
            rewrite slice_loop_final by reflexivity.
            destruct (mapM _ es); cbn; try reflexivity. now rewrite Nat.add_0_r.
          * destruct pn; cbn.
            -- destruct (rm_lookup reg (snd (strip_ptr t))) as [key|]; cbn; [|reflexivity].
               erewrite loop_list_ext_in
              by (intros i s Hin; apply in_seq in Hin; rewrite Hes by (apply nth_In; lia); reflexivity).
            rewrite slice_loop_final by reflexivity.
               destruct (mapM _ es); cbn; try reflexivity. now rewrite Nat.add_0_r.
            -- destruct (rm_lookup reg (snd (strip_ptr t))); reflexivity.
        + (* defined map *)
          unfold K0. rewrite loop_ptr_nonptr by reflexivity. cbn -[loop_ptr]. rewrite ?loop_ptr_guard, loop_ptr_count.
          cbn -[Nat.iter loop_ptr]. rewrite iter_incr_MapKeyPointerNum. cbn -[loop_ptr].
          set (kvs := match o with Some kvs => kvs | None => [] end).
        assert (Hkvs : forall u, In u (map snd kvs) -> self u = enc0 u)
          by (intros u Hu; apply Hself; subst kvs; destruct o; [exact Hu | destruct Hu]).
          match goal with |- _ = to_gis_res (if _ then _ else do oi <- (do kk <- _; do vk <- _; do entries <- ?E; _); _) =>
            replace E with (mapM (fun kv : val * val =>
                                    do i <- enc_at J JK jenc kenc fixed reg 0 (snd kv);
                                    do jk <- enc_key JK kenc (fst kv); Ok (jk, i)) kvs)
              by (destruct o; reflexivity) end.
          unfold elem_key, lookup_name, rm_get.
          destruct (rm_lookup reg (TDef d (TMap k t))) as [ck|] eqn:Eck.
          * rewrite !andb_false_r.
            destruct (rm_lookup reg (snd (strip_ptr k))) as [kkey|]; cbn -[loop_ptr]; [|reflexivity].
            rewrite ?loop_ptr_guard, loop_ptr_count. cbn -[Nat.iter]. rewrite iter_incr_MapValuePointerNum. cbn.
            destruct (rm_lookup reg (snd (strip_ptr t))) as [vkey|]; cbn; [|reflexivity].
            rewrite (rm_lookup_nonempty _ _ Eck), !andb_false_r.
            erewrite loop_list_ext_in
              by (intros kv s Hin; unfold rv_Interface, iter_Value; rewrite Hkvs by (apply in_map; exact Hin); reflexivity).
            rewrite entries_loop_final by reflexivity.
            destruct (mapM _ kvs); cbn; try reflexivity. now rewrite !Nat.add_0_r.
          * destruct pn; cbn -[loop_ptr].
            -- destruct (rm_lookup reg (snd (strip_ptr k))) as [kkey|]; cbn -[loop_ptr]; [|reflexivity].
               rewrite ?loop_ptr_guard, loop_ptr_count. cbn -[Nat.iter]. rewrite iter_incr_MapValuePointerNum. cbn.
               destruct (rm_lookup reg (snd (strip_ptr t))) as [vkey|]; cbn; [|reflexivity].
               erewrite loop_list_ext_in
              by (intros kv s Hin; unfold rv_Interface, iter_Value; rewrite Hkvs by (apply in_map; exact Hin); reflexivity).
            rewrite entries_loop_final by reflexivity.
               destruct (mapM _ kvs); cbn; try reflexivity. now rewrite !Nat.add_0_r.
            -- destruct (rm_lookup reg (snd (strip_ptr k))) as [kkey|]; cbn -[loop_ptr]; [|reflexivity].
               rewrite ?loop_ptr_guard, loop_ptr_count. cbn -[Nat.iter]. rewrite iter_incr_MapValuePointerNum. cbn.
               destruct (rm_lookup reg (snd (strip_ptr t))); reflexivity.
        + (* an interface value is not a container *)
          simpl in Hw. destruct it; discriminate.
        + (* defined array *)
          assert (Hes : forall u, In u es -> self u = enc0 u) by exact Hself.
          unfold K0. rewrite loop_ptr_nonptr by reflexivity. cbn -[loop_ptr]. rewrite ?loop_ptr_guard, loop_ptr_count.
          cbn -[Nat.iter]. rewrite iter_incr_SliceValuePointerNum. cbn.
          unfold elem_key, lookup_name, rm_get.
          destruct (rm_lookup reg (TDef d (TArray (List.length es) t))) as [ck|] eqn:Eck.
          * rewrite (rm_lookup_nonempty _ _ Eck), !andb_false_r.
            destruct (rm_lookup reg (snd (strip_ptr t))) as [key|]; cbn; [|reflexivity].
            erewrite loop_list_ext_in
              by (intros i s Hin; apply in_seq in Hin; rewrite Hes by (apply nth_In; lia); reflexivity).
            rewrite slice_loop_final by reflexivity.
            destruct (mapM _ es); cbn; try reflexivity. now rewrite Nat.add_0_r.
          * destruct pn; cbn.
            -- destruct (rm_lookup reg (snd (strip_ptr t))) as [key|]; cbn; [|reflexivity].
               erewrite loop_list_ext_in
              by (intros i s Hin; apply in_seq in Hin; rewrite Hes by (apply nth_In; lia); reflexivity).
            rewrite slice_loop_final by reflexivity.
               destruct (mapM _ es); cbn; try reflexivity. now rewrite Nat.add_0_r.
            -- destruct (rm_lookup reg (snd (strip_ptr t))); reflexivity.
    }
    destruct v as [b l|n b l|n fs|t|w|t o|k t o|it [w|]|t es|d w];
      try (match type of Hwt with wt env ?x = true => exact (MAIN x 0 eq_refl Hwt Hself) end).
    - (* a boxed value *)
      simpl in Hwt. apply andb_true_iff in Hwt. destruct Hwt as [_ Hwt].
      apply andb_true_iff in Hwt. destruct Hwt as [Hi Hwt]. apply negb_true_iff in Hi.
      exact (MAIN w 0 (wt_not_box w Hwt Hi) Hwt Hself).
    - (* the nil interface *)
      reflexivity.
  Qed.
End Agree.

(* ------------------------------------------------------------------ uniqueness of the solution *)
Fixpoint vsize (v : val) : nat :=
  match v with
  | VStruct _ fs => S (list_sum (map (fun fv => vsize (snd fv)) fs))
  | VPtr w => S (vsize w)
  | VSlice _ (Some es) => S (list_sum (map vsize es))
  | VMap _ _ (Some kvs) => S (list_sum (map (fun kv => vsize (snd kv)) kvs))
  | VIface _ (Some w) => S (vsize w)
  | VArray _ es => S (list_sum (map vsize es))
  | VDef _ w => S (vsize w)
  | _ => 1
  end.

Lemma list_sum_In : forall {A} (f : A -> nat) l a, In a l -> f a <= list_sum (map f l).
Proof.
  intros A f l; induction l as [|b r IH]; intros a H; simpl in *; [contradiction|].
  destruct H as [->|H]; [lia|]. specialize (IH a H). lia.
Qed.

Lemma children_smaller : forall v u, In u (children v) -> vsize u < vsize v.
Proof.
  induction v using val_ind'; intros u Hu; simpl in *; try contradiction.
  - apply in_map_iff in Hu. destruct Hu as [fv [<- Hu]].
    pose proof (list_sum_In (fun fv => vsize (snd fv)) fs fv Hu). simpl in *. lia.
  - specialize (IHv u Hu). lia.
  - pose proof (list_sum_In vsize es u Hu). lia.
  - apply in_map_iff in Hu. destruct Hu as [kv [<- Hu]].
    pose proof (list_sum_In (fun kv => vsize (snd kv)) kvs kv Hu). simpl in *. lia.
  - specialize (IHv u Hu). lia.
  - pose proof (list_sum_In vsize es u Hu). lia.
  - specialize (IHv u Hu). lia.
Qed.

Lemma elems_wt_In : forall env t es u, elems_wt env t es = true -> In u es -> wt env u = true.
Proof.
  intros env t es; induction es as [|e r IH]; intros u H Hu; simpl in *; [contradiction|].
  apply andb_true_iff in H. destruct H as [H H2]. apply andb_true_iff in H. destruct H as [H1 _].
  destruct Hu as [<-|Hu]; auto.
Qed.
Lemma fields_wt_In : forall env ds fs u, fields_wt env ds fs = true -> In u (map snd fs) -> wt env u = true.
Proof.
  intros env ds; induction ds as [|[f t] ds IH]; intros [|[g w] fs] u H Hu; simpl in *; try contradiction; try discriminate H.
  apply andb_true_iff in H. destruct H as [H H4]. apply andb_true_iff in H. destruct H as [H _].
  apply andb_true_iff in H. destruct H as [_ H2].
  destruct Hu as [<-|Hu]; eauto.
Qed.
Lemma entries_wt_In : forall env k t kvs u, entries_wt env k t kvs = true -> In u (map snd kvs) -> wt env u = true.
Proof.
  intros env k t kvs; induction kvs as [|[a b] r IH]; intros u H Hu; simpl in *; [contradiction|].
  apply andb_true_iff in H. destruct H as [H H5]. apply andb_true_iff in H. destruct H as [H _].
  apply andb_true_iff in H. destruct H as [_ H3].
  destruct Hu as [<-|Hu]; auto.
Qed.

Lemma children_wt : forall env v u, wt env v = true -> In u (children v) -> wt env u = true.
Proof.
  intros env; induction v using val_ind'; intros u Hw Hu; try (simpl in Hu; contradiction).
  - rewrite wt_struct in Hw. destruct (struct_fields env n); [|discriminate Hw].
    eapply fields_wt_In; eauto.
  - simpl in Hw, Hu. apply andb_true_iff in Hw. destruct Hw as [_ Hw]. auto.
  - rewrite wt_slice in Hw. apply andb_true_iff in Hw. destruct Hw as [_ Hw]. eapply elems_wt_In; eauto.
  - rewrite wt_map in Hw. apply andb_true_iff in Hw. destruct Hw as [_ Hw].
    apply andb_true_iff in Hw. destruct Hw as [Hw _]. eapply entries_wt_In; eauto.
  - simpl in Hw, Hu. apply andb_true_iff in Hw. destruct Hw as [_ Hw].
    apply andb_true_iff in Hw. destruct Hw as [_ Hw]. auto.
  - rewrite wt_array in Hw. apply andb_true_iff in Hw. destruct Hw as [_ Hw]. eapply elems_wt_In; eauto.
  - simpl in Hw, Hu. apply andb_true_iff in Hw. destruct Hw as [_ Hw]. auto.
Qed.

Section Unique.
  Variables J JK : Type.
  Variable jenc : base -> lit -> res J.
  Variable kenc : base -> lit -> res JK.
  Variable reg : registry.
  Variable env : senv.
  Hypothesis reg_names : names_nonempty reg = true.

  (* the model's encoder solves the translated recursive equation … *)
  Theorem gen_internalMarshal_agrees : forall v, wt env v = true ->
    Gen.SerCode.internalMarshal J JK jenc kenc reg env
      (fun w => to_gis_res (enc_at J JK jenc kenc fixed reg 0 w)) v
    = to_gis_res (enc_at J JK jenc kenc fixed reg 0 v).
  Proof. intros v Hwt. apply gen_internalMarshal_congr; auto. Qed.

  (* … and it is the only solution: whatever function satisfies the equation the Go source states
     (on every well-typed value) is the model's encoder on every well-typed value *)
  Theorem gen_internalMarshal_unique : forall f : val -> res (option (gis J JK)),
    (forall v, wt env v = true -> f v = Gen.SerCode.internalMarshal J JK jenc kenc reg env f v) ->
    forall v, wt env v = true -> f v = to_gis_res (enc_at J JK jenc kenc fixed reg 0 v).
  Proof.
    intros f Hf v. remember (vsize v) as n eqn:Hn. revert v Hn.
    induction n as [n IH] using lt_wf_ind. intros v Hn Hwt. rewrite (Hf v Hwt).
    apply gen_internalMarshal_congr; auto.
    intros u Hu. apply (IH (vsize u)); [subst n; now apply children_smaller | reflexivity | eapply children_wt; eauto].
  Qed.
End Unique.

(* ------------------------------------------------------------------ the property's first clause for the
   translated encoder: whatever function the Go source of internalMarshal defines (any solution of the
   translated equation) followed by the model's decoder restores every value it accepts *)
From Eino Require Proofs.Ser.
Theorem translated_encoder_roundtrips :
  forall (J JK : Type) (jenc : base -> lit -> res J) (jdec : base -> J -> res lit)
         (kenc : base -> lit -> res JK) (kdec : base -> JK -> res lit) (reg : registry) (env : senv)
         (json_roundtrip : forall b l j,
             lit_in_base b l = true -> jsafe l = true -> jenc b l = Ok j -> jdec b j = Ok l)
         (key_roundtrip : forall b l j,
             lit_in_base b l = true -> jsafe l = true -> kenc b l = Ok j -> kdec b j = Ok l)
         (registry_names_unique : NoDup (map fst reg))
         (registry_names_nonempty : names_nonempty reg = true)
         (field_names_unique : forall n ds, struct_fields env n = Some ds -> NoDup (map fst ds))
         (f : val -> res (option (gis J JK))),
    (forall v, wt env v = true -> f v = Gen.SerCode.internalMarshal J JK jenc kenc reg env f v) ->
    forall v og,
      wt env v = true -> is_iface (ty_of v) = false -> Proofs.Ser.safe v -> Proofs.Ser.defs_ok reg v ->
      f v = Ok og ->
      exists oi v', og = option_map to_gis oi /\
                    unmarshal J JK jdec kdec fixed reg env oi = Ok v' /\ v' ≅ v /\ dyn_ty v' = dyn_ty v.
Proof.
  intros J JK jenc jdec kenc kdec reg env jrt krt Hnd Hne Hfn f Hf v og Hwt Hi Hs Hd Hfv.
  rewrite (gen_internalMarshal_unique J JK jenc kenc reg env Hne f Hf v Hwt) in Hfv.
  unfold to_gis_res in Hfv.
  destruct (enc_at J JK jenc kenc fixed reg 0 v) as [oi|e|] eqn:E; simpl in Hfv; try discriminate Hfv.
  inversion Hfv; subst og. exists oi.
  destruct (Proofs.Ser.enc_dec_roundtrip_lemma J JK jenc jdec kenc kdec reg env jrt krt Hnd Hfn v oi Hwt Hi Hs Hd E)
    as [v' [H1 [H2 H3]]].
  exists v'. auto.
Qed.

(* ------------------------------------------------------------------ definedContainerKey *)
Theorem gen_definedContainerKey_agrees : forall J JK jenc kenc reg env rt,
  Gen.SerCode.definedContainerKey J JK jenc kenc reg env rt
  = if rt_named rt then ct_str (rm_lookup reg rt) else EmptyString.
Proof.
  intros. unfold Gen.SerCode.definedContainerKey. try unfold Model.SerCodeRef.definedContainerKey.
  destruct (rt_named rt); reflexivity.
Qed.

(* ------------------------------------------------------------------ GenericRegister *)
Lemma grm_lookup_rm_of : forall reg t, grm_lookup (rm_of reg) t = rm_lookup reg t.
Proof.
  induction reg as [|[k t'] r IH]; intro t; simpl; [reflexivity|]. destruct (ty_eqb t t'); auto.
Qed.

(* with the two package-level maps holding one registry (m = the list, rm = its inverse), the
   translated GenericRegister refuses what the model's [register] refuses and otherwise leaves the
   two maps holding the model's new registry *)
Theorem gen_GenericRegister_agrees : forall reg T key,
  Gen.SerCode.GenericRegister reg (rm_of reg) T key
  = res_map (fun r => (r, rm_of r)) (register reg key T).
Proof.
  intros reg T key.
  unfold Gen.SerCode.GenericRegister. try unfold Model.SerCodeRef.GenericRegister.
  cbn -[loop_ptr]. rewrite ?loop_ptr_guard, loop_ptr_count. cbn.
  all: unfold register, gm_lookup, gm_put, grm_put, opt_some; rewrite grm_lookup_rm_of.
  all: destruct (m_lookup reg key); [reflexivity|].
  all: destruct (rm_lookup reg (snd (strip_ptr T))); [reflexivity|].
  all: simpl; unfold rm_of; rewrite map_app; reflexivity.
Qed.

(* ------------------------------------------------------------------ resolvePointerNum, containerType *)
Lemma loop_const_body : forall {S : Type} (f : S -> S) l (s : S),
  loop_list (R := S) (fun (_ : nat) s => LCont (f s)) l s = LCont (Nat.iter (List.length l) f s).
Proof.
  intros S f l; induction l as [|a r IH]; intro s; simpl; [reflexivity|]. rewrite IH. f_equal.
  clear. induction (List.length r); simpl; [reflexivity|]. now rewrite IHn.
Qed.
Theorem gen_resolvePointerNum_agrees : forall n t, Gen.SerCode.resolvePointerNum n t = add_ptr n t.
Proof.
  intros n t. unfold Gen.SerCode.resolvePointerNum. try unfold Model.SerCodeRef.resolvePointerNum.
  unfold loop_range. rewrite (loop_const_body TPtr). rewrite seq_length.
  induction n; simpl; [reflexivity|]. now rewrite IHn.
Qed.
(* ContainerType is "" when the encoder recorded none *)
Theorem gen_containerType_agrees : forall J JK reg (v : gis J JK) t,
  Gen.SerCode.containerType J JK reg v t
  = container_ty reg (if String.eqb (ContainerType v) EmptyString then None else Some (ContainerType v)) t.
Proof.
  intros. unfold Gen.SerCode.containerType. try unfold Model.SerCodeRef.containerType.
  unfold container_ty, lookup_ty, rt_AssignableTo.
  destruct (String.eqb (ContainerType v) EmptyString); [reflexivity|].
  destruct (m_lookup reg (ContainerType v)); simpl; [|reflexivity].
  destruct (assignable_to t t0); reflexivity.
Qed.

(* ------------------------------------------------------------------ the registration tables and the
   record declarations.  [go_ty] reads a Go type as written in the source as a type of the model's
   universe; the struct / interface / named-type numbers are those of Model/SerCheckpoint.v. *)
From Eino Require Import Model.SerCheckpoint.
Local Open Scope string_scope.
Definition go_base : list (string * ty) :=
  [ ("int", TBase BInt); ("int8", TBase BInt8); ("int16", TBase BInt16); ("int32", TBase BInt32);
    ("int64", TBase BInt64); ("uint", TBase BUint); ("uint8", TBase BUint8); ("uint16", TBase BUint16);
    ("uint32", TBase BUint32); ("uint64", TBase BUint64); ("float32", TBase BFloat32);
    ("float64", TBase BFloat64); ("complex64", TBase BComplex64); ("complex128", TBase BComplex128);
    ("uintptr", TBase BUintptr); ("bool", TBase BBool); ("string", TBase BString); ("any", TAny) ].
Definition go_compose : list (string * ty) :=
  [ ("nilChunk", TStruct S_NILCHUNK); ("channel", TIface I_CHANNEL); ("checkpoint", TStruct S_CHECKPOINT);
    ("dagChannel", TStruct S_DAG); ("pregelChannel", TStruct S_PREGEL);
    ("dependencyState", TNamed N_DEPSTATE BUint8);
    ("map[string]channel", TMap t_string (TIface I_CHANNEL)); ("map[string]any", TMap t_string TAny);
    ("map[string]bool", TMap t_string (TBase BBool)); ("map[string]*checkpoint", TMap t_string t_checkpoint_ptr);
    ("map[string]dependencyState", TMap t_string (TNamed N_DEPSTATE BUint8)) ].
Definition go_ty (s : string) : option ty := alist_get s (go_compose ++ go_base)%list.
Definition tr_table (l : list (string * string)) : list (string * ty) :=
  flat_map (fun e => match go_ty (snd e) with Some t => [(fst e, t)] | None => [] end) l.
Definition all_known (l : list (string * string)) : bool := forallb (fun e => opt_some (go_ty (snd e))) l.
(* the struct types of package schema are ordinary registered structs outside the model's sample
   universe; anything else that init() registers must be a type the model's registry has *)
Definition is_schema (s : string) : bool := String.eqb (String.substring 0 7 s) "schema.".

Theorem gen_init_serialization_agrees :
  tr_table Gen.SerCode.init_serialization = builtin_registry
  /\ forallb (fun e => opt_some (go_ty (snd e)) || is_schema (snd e)) Gen.SerCode.init_serialization = true.
Proof. split; vm_compute; reflexivity. Qed.

Theorem gen_init_compose_agrees :
  tr_table Gen.SerCode.init_compose = ckpt_registry /\ all_known Gen.SerCode.init_compose = true.
Proof. split; vm_compute; reflexivity. Qed.

(* the declarations of the record types, as the struct environment of the model *)
Definition tr_records (l : list (string * list (string * string))) : list (option (N * list (string * option ty))) :=
  map (fun d => match go_ty (fst d) with
                | Some (TStruct n) => Some (n, map (fun f => (fst f, go_ty (snd f))) (snd d))
                | _ => None
                end) l.
Theorem gen_compose_records_agree :
  tr_records Gen.SerCode.compose_records
  = map (fun d => Some (fst d, map (fun f => (fst f, Some (snd f))) (snd d))) ckpt_env
  /\ go_ty Gen.SerCode.dependencyState_underlying = Some (TBase BUint8).
Proof. split; vm_compute; reflexivity. Qed.
Local Close Scope string_scope.

(* ------------------------------------------------------------------ non-vacuity: the translated
   functions run.  The recursion is closed with fuel (a distinguished error when it runs out). *)
Fixpoint gen_marshal_fuel (n : nat) (reg : registry) (env : senv) (v : val) : res (option (gis lit lit)) :=
  match n with
  | O => Err 90%N
  | S n' => Gen.SerCode.internalMarshal lit lit jenc_c kenc_c reg env (gen_marshal_fuel n' reg env) v
  end.
Example gen_internalMarshal_runs :
  wt (ckpt_senv []) sample_checkpoint = true
  /\ names_nonempty (ckpt_reg []) = true
  /\ gen_marshal_fuel 12 (ckpt_reg []) (ckpt_senv []) sample_checkpoint
     = to_gis_res (enc_c fixed (ckpt_reg []) sample_checkpoint)
  /\ is_ok (gen_marshal_fuel 12 (ckpt_reg []) (ckpt_senv []) sample_checkpoint) = true.
Proof. repeat split; vm_compute; reflexivity. Qed.
Example gen_GenericRegister_runs :
  is_ok (Gen.SerCode.GenericRegister builtin_registry (rm_of builtin_registry) (TPtr (TPtr (TStruct 7))) "x") = true
  /\ Gen.SerCode.GenericRegister builtin_registry (rm_of builtin_registry) (TPtr (TBase BInt)) "x" = Err E_DUP
  /\ Gen.SerCode.GenericRegister builtin_registry (rm_of builtin_registry) (TStruct 7) "_eino_any" = Err E_DUP.
Proof. repeat split; vm_compute; reflexivity. Qed.
