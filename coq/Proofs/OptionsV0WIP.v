(* WIP: old behaviours (before the repairs F-C16b, F-C16c) and their refutation witnesses *)
From Eino Require Import Base.Util Model.Options Model.OptionsSpec Model.OptionsResume Proofs.Options Proofs.OptionsResume.
Local Open Scope N_scope.

(* F-C16c (repaired by 4defab8): before the repair the options handed to a nested graph were
   extracted — and so validated — only when that graph ran: runner.run called the plain
   extractOption, there was no checkOption. *)
Fixpoint run_graph_v0 (fuel : nat) (F : forest) (gi : nat) (pre : path) (inh : list N)
         (opts : list copt) : res (list report) :=
  match fuel with
  | O => Err E_FUEL
  | S f =>
    match nth_error F gi with
    | None => Err E_GRAPH
    | Some g =>
      do m <- extract_option g opts [];
      res_flat_mapM (fun nd =>
        if negb (n_runs nd) then Ok [] else
        let p := pre ++ [n_key nd] in
        let hs := inh ++ node_handlers (n_key nd) opts in
        match n_kind nd with
        | KComp ty =>
            do its <- convert_items ty (om_get (n_key nd) m);
            Ok [mkRep p (Some its) (if n_cb nd then Some hs else None)]
        | KSub gj =>
            do os <- convert_opts (om_get (n_key nd) m);
            do rs <- run_graph_v0 f F gj p hs os;
            Ok (mkRep p None (Some hs) :: rs)
        end) g
    end
  end.
Definition run_call_v0 (F : forest) (opts : list copt) : res (list report) :=
  let inh := graph_handlers opts in
  do rs <- run_graph_v0 (S (List.length F)) F 0 [] inh opts;
  Ok (mkRep [] None (Some inh) :: rs).

(* graph node 2 sits behind a branch that is not taken; the option designates an unknown node
   inside it *)
Definition v0F : forest :=
  [ [mkNode 1 (KComp 6) true true; mkNode 2 (KSub 1%nat) true false];
    [mkNode 1 (KComp 6) true true] ].
Definition v0Opts : list copt := [ mkOpt [(6, 1)] [] [[2; 9]] ].

Lemma bad_designation_errors_v0_refuted_l :
  ~ (forall F opts,
       keys_unique F -> well_nested F -> F <> [] -> Forall uniform opts ->
       (fails (run_call_v0 F opts) <->
        exists o q, In o opts /\ In q (o_paths o) /\ bad_path F o 0 q = true)).
Proof.
  intros H.
  assert (HU : keys_unique v0F).
  { intros gi g Hg. destruct gi as [|[|gi]]; simpl in Hg; try (destruct gi; discriminate);
      inversion Hg; subst; simpl; repeat constructor; simpl; intuition discriminate. }
  assert (HW : well_nested v0F).
  { intros gi g nd gj Hg Hin Hk.
    destruct gi as [|[|gi]]; simpl in Hg; try (destruct gi; discriminate); inversion Hg; subst;
      simpl in Hin; intuition; subst; simpl in Hk; inversion Hk; subst; simpl; lia. }
  assert (HF : v0F <> []) by discriminate.
  assert (HO : Forall uniform v0Opts).
  { repeat constructor. intros it Hit. simpl in Hit. destruct Hit as [<-|[]]. reflexivity. }
  destruct (H v0F v0Opts HU HW HF HO) as [_ Hbad].
  assert (Hf : fails (run_call_v0 v0F v0Opts)).
  { apply Hbad. exists (mkOpt [(6, 1)] [] [[2; 9]]), [2; 9]. simpl. auto. }
  eapply Hf. vm_compute. reflexivity.
Qed.

(* the repaired code rejects that call *)
Lemma v0_witness_rejected : fails (run_call v0F v0Opts).
Proof. intros a. vm_compute. discriminate. Qed.

(* bad designations and resumed calls *)
Lemma resume_call_fails_iff F opts c :
  keys_unique F -> well_nested F -> F <> [] -> Forall uniform opts ->
  (fails (resume_call F opts c) <->
   exists o q, In o opts /\ In q (o_paths o) /\ bad_path F o 0 q = true).
Proof. intros HU HW HF HO. rewrite resume_call_eq. apply run_call_fails_iff; assumption. Qed.
