(* Proofs/RunHandoffReturn.v — property C03, the composed system of Model/RunHandoff.v: what has
   happened to the started tasks when the run returns.
   Batch mode: at the return (and ever after) every task that was ever handed to the task manager has
   been collected - exactly once - every executor has left the protocol and nothing can move any
   more: the run does not return before the nodes it started have finished.
   Eager mode: at the return (and ever after) the tasks the run loop still has in flight are exactly
   the submitted tasks that have not been collected; none of them feeds END when a value is
   returned (run_eager_ancestors_finished). *)
From Eino Require Import Base.Util Model.TaskMgr Model.Confluence Model.RunHandoff.
From Eino Require Import Proofs.TaskMgr Proofs.TaskMgrProgress Proofs.Confluence Proofs.Eager.
From Eino Require Import Proofs.RunHandoff Proofs.RunHandoffOrder Proofs.RunHandoffLive.
From Coq Require Import Permutation.

Local Notation length := List.length.

(* ------------------------------------------------------------------ protocol: who holds the mutex has not been collected *)

Definition JH (s : st) : Prop := forall t, lock s = HExec t -> ~ In t (map fst (collected s)).

Lemma collected_in_places s x : In x (collected s) -> In x (places s).
Proof. intros H. unfold places. apply in_or_app. right. apply in_or_app. right. apply in_or_app. right. exact H. Qed.

Lemma jh_step s s' : Inv s -> JH s -> step s s' -> JH s'.
Proof.
  intros I J Hs t. destruct Hs; simpl; intros Hl; try (apply J; exact Hl); try discriminate.
  - (* an executor takes the mutex: it has not pushed yet *)
    inversion Hl; subst. intros K.
    assert (Hp : pushed s t).
    { apply (i_places s I). apply in_map_iff in K. destruct K as (x & Ex & Hx).
      apply in_map_iff. exists x. split; [exact Ex|apply collected_in_places, Hx]. }
    destruct Hp as (p & b' & G & Hpb). rewrite H in G. inversion G; subst. discriminate.
Qed.

Lemma jh_reach s : reach s -> JH s.
Proof.
  induction 1 as [|s s' R IH Hs]; [intros t H; discriminate|].
  eapply jh_step; [apply inv_reach; exact R|exact IH|exact Hs].
Qed.

Lemma wsum_zero m : (forall t p b, get_pc t m = Some (p, b) -> p = EDone) -> NoDup (map fst m) -> wsum m = 0.
Proof.
  induction m as [|[t [p b]] m IH]; simpl; intros H Nd; [reflexivity|]. inversion Nd as [|? ? Hni Nd']; subst.
  assert (p = EDone) by (apply (H t p b); rewrite N.eqb_refl; reflexivity). subst p. simpl.
  apply IH; [|exact Nd']. intros t' p' b' G. apply (H t' p' b'). destruct (N.eqb t' t) eqn:E; [|exact G].
  apply N.eqb_eq in E. subst. exfalso. apply get_pc_none in Hni. congruence.
Qed.

Lemma nodup_app_disj {A} (a b : list A) x : NoDup (a ++ b) -> In x a -> In x b -> False.
Proof.
  induction a as [|y a IH]; simpl; intros N Ha Hb; [contradiction|]. inversion N; subst.
  destruct Ha as [->|Ha]; [apply H1; apply in_or_app; right; exact Hb|eapply IH; eassumption].
Qed.

(* a drained reachable state is completely quiescent: nothing in transit, every executor has left the
   protocol *)
Lemma drained_quiescent s : reach s -> drained s -> mu s = 0 /\ l s = [] /\ done s = None.
Proof.
  intros R D. pose proof (inv_reach s R) as I. pose proof (jh_reach s R) as J.
  pose proof (drained_all_collected s I D) as Pc. destruct D as [Hc Hn].
  assert (Hall : forall t, In t (map fst (epcs s)) -> In t (map fst (collected s))).
  { intros t Ht. apply (Permutation_in _ (Permutation_sym Pc)), Ht. }
  assert (Hkey : forall t, pushed s t -> In t (map fst (epcs s))).
  { intros t (p & b & G & _). destruct (in_dec N.eq_dec t (map fst (epcs s))) as [Y|Nn]; [exact Y|].
    apply get_pc_none in Nn. congruence. }
  pose proof (i_nodup s I) as Nd. unfold places in Nd. rewrite Hc in Nd. simpl in Nd. rewrite !map_app in Nd.
  assert (El : l s = []).
  { destruct (l s) as [|x xs] eqn:E; [reflexivity|]. exfalso.
    assert (Hp : pushed s (fst x)).
    { apply (i_places s I). unfold places. rewrite E. simpl. left; reflexivity. }
    eapply (nodup_app_disj _ _ (fst x) Nd); [simpl; left; reflexivity|].
    apply in_or_app. right. apply Hall, Hkey, Hp. }
  assert (Ed : done s = None).
  { destruct (done s) as [x|] eqn:E; [|reflexivity]. exfalso.
    assert (Hp : pushed s (fst x)).
    { apply (i_places s I). unfold places. rewrite E, El. simpl. left; reflexivity. }
    rewrite El in Nd. simpl in Nd. inversion Nd; subst. apply H1. apply Hall, Hkey, Hp. }
  split; [|split; [exact El|exact Ed]].
  assert (Hpc : forall t p b, get_pc t (epcs s) = Some (p, b) -> p = EDone).
  { intros t p b G.
    assert (Ht : In t (map fst (epcs s))).
    { destruct (in_dec N.eq_dec t (map fst (epcs s))) as [Y|Nn]; [exact Y|]. apply get_pc_none in Nn. congruence. }
    pose proof (Hall t Ht) as Hcol.
    assert (Hp : pushed s t).
    { apply (i_places s I). apply in_map_iff in Hcol. destruct Hcol as (x & Ex & Hx).
      apply in_map_iff. exists x. split; [exact Ex|apply collected_in_places, Hx]. }
    destruct Hp as (p' & b' & G' & Hpb). rewrite G in G'. inversion G'; subst.
    destruct p'; try discriminate; try reflexivity.
    - exfalso. apply (J t); [apply (i_hold s I t ETop b' G eq_refl)|exact Hcol].
    - exfalso. apply (J t); [apply (i_hold s I t EOut b' G eq_refl)|exact Hcol]. }
  unfold mu. rewrite (wsum_zero _ Hpc (i_keys s I)), El, Ed, Hn, Hc. reflexivity.
Qed.

(* ------------------------------------------------------------------ batch mode *)

Section ReturnBatch.
Variables (m : mode) (g : graph) (F : nat).

Lemma batch_returned_drained x : creach true m g F x -> r_res (snd x) <> None -> drained (fst x).
Proof.
  induction 1 as [|[s r] [s' r'] Hr IH Hs]; simpl in *.
  - intros _. split; reflexivity.
  - intros Hret. pose proof (creach_reach _ _ _ _ _ Hr) as Rs. simpl in Rs.
    inversion Hs; subst; try (exfalso; apply Hret; simpl; assumption); try discriminate.
    + (* a protocol step after the return: impossible, nothing moves *)
      exfalso. destruct (drained_quiescent s Rs (IH Hret)) as [Hm _].
      match goal with H : step s s' |- _ => rename H into St end.
      assert (D : dstep s s').
      { constructor; [exact St|]. rewrite <- (map_length fst (epcs s')), <- (map_length fst (epcs s)).
        f_equal. apply step_num_keys; assumption. }
      pose proof (dstep_mu _ _ D). lia.
    + split; assumption.
Qed.

(* when a batch run returns - and ever after - every task that was handed to the task manager has
   been collected, exactly once; nothing is in transit and nothing can move any more *)
Lemma batch_return_all_collected s r :
  creach true m g F (s, r) -> r_res r <> None ->
  Permutation (map fst (collected s)) (map fst (epcs s)) /\ NoDup (map fst (collected s)) /\
  l s = [] /\ done s = None /\ (forall s', ~ dstep s s').
Proof.
  intros C Hret. pose proof (creach_reach _ _ _ _ _ C) as Rs. simpl in Rs.
  pose proof (batch_returned_drained _ C Hret) as D. simpl in D.
  destruct (drained_quiescent s Rs D) as (Hm & El & Ed).
  split; [apply drained_all_collected; [apply inv_reach; exact Rs|exact D]|].
  split; [destruct (exactly_once s Rs) as (_ & _ & K & _); exact K|].
  split; [exact El|]. split; [exact Ed|].
  intros s' Hd. pose proof (dstep_mu _ _ Hd). lia.
Qed.

End ReturnBatch.

(* ------------------------------------------------------------------ eager mode *)

Section ReturnEager.
Variable g : graph.
Hypothesis Hnd : NoDup (map n_id g).
Hypothesis Hstart : ~ In START (map n_id g).
Variable F : nat.

Definition RE (s : st) (r : rl) : Prop :=
  r_res r <> None ->
  cp s = CIdle /\ collected s = r_col r /\
  Permutation (map fst (epcs s)) (ids_of (r_run r) ++ map fst (r_col r)).

Lemma re_reach x : creach false Dag g F x -> RE (fst x) (snd x).
Proof.
  induction 1 as [|[s r] [s' r'] Hr IH Hs]; simpl in *.
  - unfold RE, rl_init. destruct (start_next Dag g) as [v|ts ch]; simpl.
    + intros _. split; [reflexivity|]. split; [reflexivity|]. apply Permutation_refl.
    + unfold enter. destruct (existsb prefail ts); simpl; [|intros K; exfalso; apply K; reflexivity].
      intros _. split; [reflexivity|]. split; [reflexivity|]. apply Permutation_refl.
  - pose proof (creach_reach _ _ _ _ _ Hr) as Rs. simpl in Rs.
    destruct (creach_ei g Hnd Hstart F _ Hr) as [_ L]. simpl in L.
    pose proof (creach_lkid g Hnd Hstart F _ Hr) as K. simpl in K.
    unfold RE in *. inversion Hs; subst.
    + (* protocol step: if the run has returned the collector stays idle *)
      intros Hret. destruct (IH Hret) as (Hc & Hcol & P).
      match goal with H : step s s' |- _ => rename H into St end.
      match goal with H : num s' = num s |- _ => rename H into En end.
      rewrite (step_num_keys _ _ St En).
      assert (cp s' = CIdle /\ collected s' = collected s) as [Hc' Hcol'].
      { destruct St; simpl in *; try (split; [assumption|reflexivity]); try congruence; try lia.
        split_or; congruence. }
      split; [exact Hc'|]. split; [congruence|exact P].
    + intros Hret. exfalso. apply Hret. simpl. assumption.
    + intros Hret. exfalso. apply Hret. simpl. assumption.
    + (* nothing outstanding *)
      intros _. simpl.
      match goal with H : r_res r = None |- _ => rename H into Hn end.
      specialize (L Hn). destruct L as [_ L2]. specialize (K Hn). destruct K as (K1 & _).
      match goal with H : r_ph r = PWait |- _ => rewrite H in L2 end.
      match goal with H : r_exp r = [] |- _ => rewrite H in K1 end.
      simpl in K1. rewrite app_nil_r in K1. destruct L2 as [Lc _].
      split; [assumption|]. split; [exact Lc|exact K1].
    + discriminate.
    + (* resolve *)
      match goal with H : resolve_eager _ _ _ = Some _ |- _ => rename H into Hq end.
      match goal with H : r_res r = None |- _ => rename H into Hn end.
      specialize (L Hn). destruct L as [_ L2]. specialize (K Hn). destruct K as (K1 & _).
      match goal with H : r_ph r = PGot |- _ => rewrite H in L2 end.
      destruct L2 as [Le Ld]. rewrite Le in K1. simpl in K1. rewrite app_nil_r in K1.
      match goal with H : cp s' = CIdle |- _ => rename H into Hc end.
      destruct Ld as [[_ Lb]|(x0 & Lc & _)]; [rewrite Hc in Lb; destruct Lb|].
      unfold resolve_eager in Hq.
      destruct (new_col s' r) as [|[t e] [|? ?]] eqn:Enc; try discriminate.
      assert (Ex0 : x0 = (t, e)).
      { unfold new_col in Enc. rewrite Lc in Enc. simpl length in Enc.
        replace (S (length (r_col r)) - length (r_col r)) with 1 in Enc by lia.
        simpl in Enc. inversion Enc. reflexivity. }
      subst x0.
      destruct (split_task t (r_run r)) as [[x rest]|] eqn:Esp; [|discriminate].
      destruct (negb (Bool.eqb e (flag_of x))); [discriminate|].
      pose proof (split_task_ids _ _ _ _ Esp) as Pi. rewrite (split_task_tid _ _ _ _ Esp) in Pi.
      assert (Pfin : Permutation (map fst (epcs s')) (ids_of rest ++ map fst (collected s'))).
      { rewrite Lc. simpl. eapply perm_trans; [exact K1|].
        eapply perm_trans; [apply Permutation_app_tail, Pi|]. simpl. apply Permutation_middle. }
      destruct (failed x).
      { inversion Hq; subst. simpl. intros _. split; [exact Hc|]. split; [reflexivity|exact Pfin]. }
      destruct (calc_next Dag g (r_ch r) [run_task x]) as [v|ts ch'].
      { inversion Hq; subst. simpl. intros _. split; [exact Hc|]. split; [reflexivity|exact Pfin]. }
      inversion Hq; subst. unfold enter. destruct (existsb prefail ts); simpl.
      { intros _. split; [exact Hc|]. split; [reflexivity|exact Pfin]. }
      intros Hret. exfalso. apply Hret. reflexivity.
Qed.

(* when an eager run returns - and ever after - the tasks the run loop still has in flight are
   exactly the tasks that were handed to the task manager and have not been collected *)
Lemma eager_return_inflight s r :
  creach false Dag g F (s, r) -> r_res r <> None ->
  forall x, In x (ids_of (r_run r)) <-> (In x (map fst (epcs s)) /\ ~ In x (map fst (collected s))).
Proof.
  intros C Hret x. pose proof (re_reach _ C Hret) as (Hc & Hcol & P). simpl in *.
  pose proof (creach_reach _ _ _ _ _ C) as Rs. simpl in Rs.
  pose proof (i_keys s (inv_reach s Rs)) as Nk.
  pose proof (Permutation_NoDup P Nk) as N2. rewrite Hcol. split.
  - intros Hx. split; [apply (Permutation_in _ (Permutation_sym P)); apply in_or_app; left; exact Hx|].
    intros Hy. eapply nodup_app_disj; eassumption.
  - intros [Hx Hny]. apply (Permutation_in _ P) in Hx. apply in_app_or in Hx. destruct Hx; [assumption|contradiction].
Qed.

End ReturnEager.
