(* Proofs/Errors.v — lemmas about Model/Errors.v (property C13). *)
From Eino Require Import Base.Util Model.Errors.

Lemma chain_head : forall b e, exists l, chain_gen b e = e :: l.
Proof. intros b e. destruct e; simpl; eauto. Qed.
