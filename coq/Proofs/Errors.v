(* Proofs/Errors.v — lemmas about Model/Errors.v (property C13), part 1: the algebra of the
   error wrappers (paths, errors.Is / errors.As through any stack of wrappers). *)
From Eino Require Import Base.Util Model.Errors.

(* ------------------------------------------------------------------ vocabulary *)

(* the node path a caller reads off the error: errors.As for the wrapper, its nodePath *)
Definition np_of (e : err) : list string :=
  match as_internal e with Some (_, _, np, _) => np | None => [] end.
Definition sp_of (e : err) : list action :=
  match as_internal e with Some (_, sp, _, _) => sp | None => [] end.

Definition is_interrupt_error := is_interrupt_error_gen true.

(* everything the run machinery may put around a node's error *)
Inductive wrapper : Type :=
| WNode (k : string)         (* wrapGraphNodeError *)
| WStream (a : action)       (* wrapStreamWrapperError *)
| WConcat (a : action)       (* newStreamWrapperError(action, "concat ... %w" ("failed to read ... %w" e)) *)
| WGraphRun                  (* newGraphRunError *)
| WWrapf.                    (* fmt.Errorf("...%w", e), e.g. "failed to invoke tool call %s: %w" *)

Definition apply_w (w : wrapper) (e : err) : err :=
  match w with
  | WNode k => wrap_node k e
  | WStream a => wrap_stream a e
  | WConcat a => concat_fail a e
  | WGraphRun => new_graph_run_error e
  | WWrapf => Wrapf e
  end.
Definition apply_ws (ws : list wrapper) (e : err) : err := fold_right apply_w e ws.

Definition keys_of (ws : list wrapper) : list string :=
  flat_map (fun w => match w with WNode k => [k] | _ => [] end) ws.

Definition wrap_path (p : list string) (e : err) : err := fold_right wrap_node e p.

(* values errors.Is / errors.As look for: sentinels, typed errors, recovered panics, interrupts —
   not the framework's own wrappers *)
Definition transparent (e : err) : bool :=
  match e with Internal _ _ _ _ | Wrapf _ => true | _ => false end.

(* ------------------------------------------------------------------ chains *)

Lemma chain_unfold : forall e,
  chain e = e :: match unwrap e with Some e' => chain e' | None => [] end.
Proof. destruct e; reflexivity. Qed.

Lemma chain_v0_unfold : forall e,
  chain_v0 e = e :: match unwrap_v0 e with Some e' => chain_v0 e' | None => [] end.
Proof. destruct e; reflexivity. Qed.

Lemma chain_head : forall b e, exists l, chain_gen b e = e :: l.
Proof. intros b e. destruct e; simpl; eauto. Qed.

Lemma list_eqb_refl : forall A (eqb : A -> A -> bool), (forall a, eqb a a = true) -> forall l, list_eqb eqb l l = true.
Proof. intros A eqb H l. induction l; simpl; auto. rewrite H, IHl. reflexivity. Qed.

Lemma action_eqb_refl : forall a, action_eqb a a = true.
Proof. intros a. unfold action_eqb. apply N.eqb_refl. Qed.

Lemma err_eqb_refl : forall e, err_eqb e e = true.
Proof.
  induction e; simpl; auto using N.eqb_refl.
  - rewrite !N.eqb_refl. reflexivity.
  - rewrite !N.eqb_refl, IHe. reflexivity.
  - rewrite IHe, (list_eqb_refl _ _ action_eqb_refl), (list_eqb_refl _ _ String.eqb_refl).
    destruct t; reflexivity.
Qed.

Lemma existsb_In_refl : forall t l, In t l -> existsb (err_eqb t) l = true.
Proof.
  intros t l H. apply existsb_exists. exists t. split; auto. apply err_eqb_refl.
Qed.

(* one wrapper changes the chain by a prefix of framework wrappers, possibly rewriting the path
   fields of a leading wrapper: every predicate / selector that ignores framework wrappers sees
   the same thing before and after *)
Section Ignoring.
  Variable q : err -> bool.
  Hypothesis q_transparent : forall e, transparent e = true -> q e = false.

  Lemma q_internal : forall t sp np o, q (Internal t sp np o) = false.
  Proof. intros. apply q_transparent. reflexivity. Qed.
  Lemma q_wrapf : forall e, q (Wrapf e) = false.
  Proof. intros. apply q_transparent. reflexivity. Qed.

  Lemma existsb_wrap_node : forall k e, existsb q (chain (wrap_node k e)) = existsb q (chain e).
  Proof.
    intros k e. unfold wrap_node, wrap_node_gen.
    destruct (is_interrupt_error_gen true e); [reflexivity|].
    destruct e; try (destruct (as_internal_gen true _) as [[[[t' sp'] np'] o']|];
      cbn [chain chain_gen existsb]; rewrite q_internal; reflexivity).
    cbn [chain chain_gen existsb]. rewrite !q_internal. reflexivity.
  Qed.

  Lemma existsb_wrap_stream : forall a e, existsb q (chain (wrap_stream a e)) = existsb q (chain e).
  Proof.
    intros a e. unfold wrap_stream, wrap_stream_gen.
    destruct (is_interrupt_error_gen true e); [reflexivity|].
    destruct e; try (destruct (as_internal_gen true _) as [[[[t' sp'] np'] o']|];
      cbn [chain chain_gen existsb]; rewrite q_internal; reflexivity).
    cbn [chain chain_gen existsb]. rewrite !q_internal. reflexivity.
  Qed.

  Lemma existsb_apply_w : forall w e, existsb q (chain (apply_w w e)) = existsb q (chain e).
  Proof.
    intros [k|a|a| |] e; cbn [apply_w].
    - apply existsb_wrap_node.
    - apply existsb_wrap_stream.
    - unfold concat_fail, new_stream_wrapper_error. cbn [chain chain_gen existsb].
      rewrite q_internal, !q_wrapf. reflexivity.
    - unfold new_graph_run_error. cbn [chain chain_gen existsb]. rewrite q_internal. reflexivity.
    - cbn [chain chain_gen existsb]. rewrite q_wrapf. reflexivity.
  Qed.

  Lemma existsb_apply_ws : forall ws e, existsb q (chain (apply_ws ws e)) = existsb q (chain e).
  Proof.
    induction ws as [|w ws IH]; intros e; cbn [apply_ws fold_right]; [reflexivity|].
    fold (apply_ws ws e). rewrite existsb_apply_w. apply IH.
  Qed.
End Ignoring.

Section Selecting.
  Variable B : Type.
  Variable f : err -> option B.
  Hypothesis f_transparent : forall e, transparent e = true -> f e = None.

  Lemma f_internal : forall t sp np o, f (Internal t sp np o) = None.
  Proof. intros. apply f_transparent. reflexivity. Qed.
  Lemma f_wrapf : forall e, f (Wrapf e) = None.
  Proof. intros. apply f_transparent. reflexivity. Qed.

  Lemma first_wrap_node : forall k e, first_some f (chain (wrap_node k e)) = first_some f (chain e).
  Proof.
    intros k e. unfold wrap_node, wrap_node_gen.
    destruct (is_interrupt_error_gen true e); [reflexivity|].
    destruct e; try (destruct (as_internal_gen true _) as [[[[t' sp'] np'] o']|];
      cbn [chain chain_gen first_some]; rewrite f_internal; reflexivity).
    cbn [chain chain_gen first_some]. rewrite !f_internal. reflexivity.
  Qed.

  Lemma first_wrap_stream : forall a e, first_some f (chain (wrap_stream a e)) = first_some f (chain e).
  Proof.
    intros a e. unfold wrap_stream, wrap_stream_gen.
    destruct (is_interrupt_error_gen true e); [reflexivity|].
    destruct e; try (destruct (as_internal_gen true _) as [[[[t' sp'] np'] o']|];
      cbn [chain chain_gen first_some]; rewrite f_internal; reflexivity).
    cbn [chain chain_gen first_some]. rewrite !f_internal. reflexivity.
  Qed.

  Lemma first_apply_w : forall w e, first_some f (chain (apply_w w e)) = first_some f (chain e).
  Proof.
    intros [k|a|a| |] e; cbn [apply_w].
    - apply first_wrap_node.
    - apply first_wrap_stream.
    - unfold concat_fail, new_stream_wrapper_error. cbn [chain chain_gen first_some].
      rewrite f_internal, !f_wrapf. reflexivity.
    - unfold new_graph_run_error. cbn [chain chain_gen first_some]. rewrite f_internal. reflexivity.
    - cbn [chain chain_gen first_some]. rewrite f_wrapf. reflexivity.
  Qed.

  Lemma first_apply_ws : forall ws e, first_some f (chain (apply_ws ws e)) = first_some f (chain e).
  Proof.
    induction ws as [|w ws IH]; intros e; cbn [apply_ws fold_right]; [reflexivity|].
    fold (apply_ws ws e). rewrite first_apply_w. apply IH.
  Qed.
End Selecting.

(* ------------------------------------------------------------------ errors.Is / errors.As through wrappers *)

(* a target that is not one of the framework's wrappers *)
Definition leaf_target (t : err) : Prop := transparent t = false.

Lemma err_eqb_leaf_transparent : forall t, leaf_target t -> forall e, transparent e = true -> err_eqb t e = false.
Proof.
  intros t Ht e He. destruct e; try discriminate; destruct t; try reflexivity; discriminate.
Qed.

Lemma is_through_wrappers : forall t, leaf_target t -> forall ws e, is_ t (apply_ws ws e) = is_ t e.
Proof.
  intros t Ht ws e. unfold is_, is_gen. fold chain.
  apply existsb_apply_ws. apply err_eqb_leaf_transparent. exact Ht.
Qed.

Lemma custom_code_transparent : forall ty e, transparent e = true -> custom_code ty e = None.
Proof. intros ty e H. destruct e; try discriminate; reflexivity. Qed.
Lemma panic_info_transparent : forall e, transparent e = true -> panic_info e = None.
Proof. intros e H. destruct e; try discriminate; reflexivity. Qed.

Lemma as_custom_through_wrappers : forall ty ws e, as_custom ty (apply_ws ws e) = as_custom ty e.
Proof.
  intros. unfold as_custom, as_custom_gen. fold chain. apply first_apply_ws. apply custom_code_transparent.
Qed.

Lemma as_panic_through_wrappers : forall ws e, as_panic (apply_ws ws e) = as_panic e.
Proof.
  intros. unfold as_panic, as_panic_gen. fold chain. apply first_apply_ws. apply panic_info_transparent.
Qed.

Lemma interrupt_e_transparent : forall e, transparent e = true -> is_interrupt_e e = false.
Proof. intros e H. destruct e; try discriminate; reflexivity. Qed.
Lemma subinterrupt_e_transparent : forall e, transparent e = true -> is_subinterrupt_e e = false.
Proof. intros e H. destruct e; try discriminate; reflexivity. Qed.

Lemma interrupt_through_wrappers : forall ws e, is_interrupt_error (apply_ws ws e) = is_interrupt_error e.
Proof.
  intros. unfold is_interrupt_error, is_interrupt_error_gen, extract_interrupt_gen, is_sub_interrupt_gen, is_gen.
  fold chain.
  rewrite (existsb_apply_ws _ interrupt_e_transparent), (existsb_apply_ws _ subinterrupt_e_transparent).
  rewrite (existsb_apply_ws (err_eqb (Leaf id_rerun))); [reflexivity|].
  apply err_eqb_leaf_transparent. reflexivity.
Qed.

Lemma interrupt_task_through_wrappers : forall ws e, is_interrupt_task (apply_ws ws e) = is_interrupt_task e.
Proof.
  intros. unfold is_interrupt_task, is_, is_gen. fold chain.
  rewrite (existsb_apply_ws _ subinterrupt_e_transparent).
  rewrite (existsb_apply_ws (err_eqb (Leaf id_rerun))); [reflexivity|].
  apply err_eqb_leaf_transparent. reflexivity.
Qed.

(* the node's own error value stays on the chain (errors.Is(runErr, e) by identity), unless it is
   itself a framework wrapper (then it is that same wrapper, with a longer path) *)
Lemma In_chain_apply_w : forall y, transparent y = false \/ (exists x, y = Wrapf x) ->
  forall w e, In y (chain e) -> In y (chain (apply_w w e)).
Proof.
  intros y Hy w e Hin.
  assert (Hni : forall t sp np o, y <> Internal t sp np o).
  { intros t sp np o ->. destruct Hy as [H|[x H]]; discriminate. }
  destruct w as [k|a|a| |]; cbn [apply_w].
  - unfold wrap_node, wrap_node_gen. destruct (is_interrupt_error_gen true e); [exact Hin|].
    destruct e; try (destruct (as_internal_gen true _) as [[[[t' sp'] np'] o']|];
      cbn [chain chain_gen]; right; exact Hin).
    cbn [chain chain_gen] in *. destruct Hin as [H|H]; [exfalso; eapply Hni; eauto|right; exact H].
  - unfold wrap_stream, wrap_stream_gen. destruct (is_interrupt_error_gen true e); [exact Hin|].
    destruct e; try (destruct (as_internal_gen true _) as [[[[t' sp'] np'] o']|];
      cbn [chain chain_gen]; right; exact Hin).
    cbn [chain chain_gen] in *. destruct Hin as [H|H]; [exfalso; eapply Hni; eauto|right; exact H].
  - unfold concat_fail, new_stream_wrapper_error. cbn [chain chain_gen]. right. right. right. exact Hin.
  - unfold new_graph_run_error. cbn [chain chain_gen]. right. exact Hin.
  - cbn [chain chain_gen]. right. exact Hin.
Qed.

Lemma own_error_on_chain_lemma : forall e, transparent e = false \/ (exists x, e = Wrapf x) ->
  forall ws, In e (chain (apply_ws ws e)).
Proof.
  intros e He ws. induction ws as [|w ws IH]; cbn [apply_ws fold_right].
  - destruct (chain_head true e) as [l Hl]. unfold chain. rewrite Hl. left. reflexivity.
  - apply In_chain_apply_w; assumption.
Qed.

(* ------------------------------------------------------------------ paths *)

Lemma as_internal_Internal : forall t sp np o, as_internal (Internal t sp np o) = Some (t, sp, np, o).
Proof. reflexivity. Qed.

Lemma wrap_node_path : forall k e, is_interrupt_error e = false -> np_of (wrap_node k e) = k :: np_of e.
Proof.
  intros k e H. unfold wrap_node, wrap_node_gen. unfold is_interrupt_error in H. rewrite H.
  destruct e; try reflexivity;
    try (unfold np_of at 2; fold as_internal;
         destruct (as_internal _) as [[[[t' sp'] np'] o']|] eqn:E; reflexivity).
Qed.

Lemma wrap_node_sp : forall k e, sp_of (wrap_node k e) = sp_of e.
Proof.
  intros k e. unfold wrap_node, wrap_node_gen.
  destruct (is_interrupt_error_gen true e); [reflexivity|].
  destruct e; try reflexivity;
    try (unfold sp_of at 2; fold as_internal;
         destruct (as_internal _) as [[[[t' sp'] np'] o']|] eqn:E; reflexivity).
Qed.

Lemma wrap_stream_path : forall a e, np_of (wrap_stream a e) = np_of e.
Proof.
  intros a e. unfold wrap_stream, wrap_stream_gen.
  destruct (is_interrupt_error_gen true e); [reflexivity|].
  destruct e; try reflexivity;
    try (unfold np_of at 2; fold as_internal;
         destruct (as_internal _) as [[[[t' sp'] np'] o']|] eqn:E; reflexivity).
Qed.

Lemma wrap_node_interrupt : forall k e, is_interrupt_error (wrap_node k e) = is_interrupt_error e.
Proof. intros k e. exact (interrupt_through_wrappers [WNode k] e). Qed.

Lemma wrap_path_interrupt : forall p e, is_interrupt_error (wrap_path p e) = is_interrupt_error e.
Proof.
  induction p as [|k p IH]; intros e; cbn [wrap_path fold_right]; [reflexivity|].
  fold (wrap_path p e). rewrite wrap_node_interrupt. apply IH.
Qed.

Lemma wrap_path_np : forall p e, is_interrupt_error e = false -> np_of (wrap_path p e) = p ++ np_of e.
Proof.
  induction p as [|k p IH]; intros e H; cbn [wrap_path fold_right]; [reflexivity|].
  fold (wrap_path p e). rewrite wrap_node_path by (rewrite wrap_path_interrupt; exact H).
  rewrite IH by exact H. reflexivity.
Qed.

Lemma wrap_path_is_apply_ws : forall p e, wrap_path p e = apply_ws (map WNode p) e.
Proof. induction p as [|k p IH]; intros e; cbn; [reflexivity|]. f_equal. apply IH. Qed.

(* interrupts are handed on as they are *)
Lemma interrupt_not_wrapped_lemma : forall e, is_interrupt_error e = true ->
  (forall k, wrap_node k e = e) /\ (forall a, wrap_stream a e = e).
Proof.
  intros e H. unfold is_interrupt_error in H. split; intros x.
  - unfold wrap_node, wrap_node_gen. rewrite H. reflexivity.
  - unfold wrap_stream, wrap_stream_gen. rewrite H. reflexivity.
Qed.
