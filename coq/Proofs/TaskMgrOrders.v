(* Proofs/TaskMgrOrders.v — property C03: every completion order can occur.  For every list of
   submitted tasks and every permutation of it there is a run of the hand-off LTS in which waitAll
   hands the tasks back in exactly that order.  So the permutation of tm_progress is an arbitrary one:
   the quantification of batch_order_independent over all permutations of every step is needed, and
   the theorems about "every interleaving" do not talk about a protocol that is secretly FIFO. *)
From Eino Require Import Base.Util Model.TaskMgr Proofs.TaskMgr Proofs.TaskMgrProgress.
From Coq Require Import Permutation.

Local Notation length := List.length.

Inductive sstar : st -> st -> Prop :=
| ss_refl s : sstar s s
| ss_step s1 s2 s3 : step s1 s2 -> sstar s2 s3 -> sstar s1 s3.

Lemma sstar_trans a b c : sstar a b -> sstar b c -> sstar a c.
Proof. induction 1; [auto|]. intros K. eapply ss_step; eauto. Qed.

Lemma sstar_reach a b : reach a -> sstar a b -> reach b.
Proof. intros R S. induction S; [exact R|]. apply IHS. eapply r_step; eassumption. Qed.

(* nothing is in transit: the overflow list and the slot are empty, nobody holds the mutex, the
   collector is idle *)
Definition quiet (s : st) : Prop := l s = [] /\ done s = None /\ lock s = HNone /\ cp s = CIdle.

(* one task finishes, is handed over and collected while everything else stands still *)
Lemma collect_one s t b n :
  quiet s -> get_pc t (epcs s) = Some (ERun, b) -> num s = S n ->
  exists s', sstar s s' /\ quiet s' /\ num s' = n /\
             collected s' = (t, err_of b) :: collected s /\
             epcs s' = set_st t EDone (epcs s).
Proof.
  intros (Ql & Qd & Qk & Qc) G Hn.
  (* await *)
  set (s1 := mk (l s) (done s) (lock s) (epcs s) CWait n (collected s)).
  assert (S1 : step s s1) by (apply s_await; assumption).
  (* lock *)
  set (s2 := mk (l s1) (done s1) (HExec t) (set_st t ELk (epcs s1)) (cp s1) (num s1) (collected s1)).
  assert (S2 : step s1 s2) by (eapply s_exec_lock; [exact G|exact Qk]).
  assert (G2 : get_pc t (epcs s2) = Some (ELk, b)).
  { simpl. rewrite (get_pc_set t t ELk ERun b _ G), N.eqb_refl. reflexivity. }
  (* push *)
  set (s3 := mk (l s2 ++ [(t, err_of b)]) (done s2) (lock s2) (set_st t ETop (epcs s2)) (cp s2) (num s2) (collected s2)).
  assert (S3 : step s2 s3) by (eapply s_exec_push; [reflexivity|exact G2]).
  assert (G3 : get_pc t (epcs s3) = Some (ETop, b)).
  { simpl. simpl in G2. rewrite (get_pc_set t t ETop ELk b _ G2), N.eqb_refl. reflexivity. }
  (* send *)
  set (s4 := mk [] (Some (t, err_of b)) (lock s3) (epcs s3) (cp s3) (num s3) (collected s3)).
  assert (S4 : step s3 s4).
  { eapply (s_exec_send s3 t b (t, err_of b) []); [reflexivity|exact G3| |].
    - simpl. rewrite Ql. reflexivity.
    - simpl. exact Qd. }
  (* unlock *)
  set (s5 := mk (l s4) (done s4) HNone (set_st t EDone (epcs s4)) (cp s4) (num s4) (collected s4)).
  assert (S5 : step s4 s5).
  { eapply (s_exec_unlock s4 t b ETop); [reflexivity|exact G3|left; split; reflexivity]. }
  (* receive *)
  set (s6 := mk (l s5) None (lock s5) (epcs s5) (CGot (t, err_of b)) (num s5) (collected s5)).
  assert (S6 : step s5 s6) by (apply s_recv; reflexivity).
  (* collector locks, finds nothing to top up, unlocks *)
  set (s7 := mk (l s6) (done s6) HColl (epcs s6) (CTop (t, err_of b)) (num s6) (collected s6)).
  assert (S7 : step s6 s7) by (apply s_coll_lock; reflexivity).
  set (s8 := mk (l s7) (done s7) HNone (epcs s7) CIdle (num s7) ((t, err_of b) :: collected s7)).
  assert (S8 : step s7 s8) by (apply s_coll_unlock; left; split; reflexivity).
  exists s8. split.
  { eapply ss_step; [exact S1|]. eapply ss_step; [exact S2|]. eapply ss_step; [exact S3|].
    eapply ss_step; [exact S4|]. eapply ss_step; [exact S5|]. eapply ss_step; [exact S6|].
    eapply ss_step; [exact S7|]. eapply ss_step; [exact S8|]. apply ss_refl. }
  split; [repeat split; reflexivity|]. split; [reflexivity|]. split; [reflexivity|].
  (* the program counter map: three updates of the same key collapse *)
  simpl. clear -G. induction (epcs s) as [|[t2 [p2 b2]] m IH]; simpl in *; [discriminate|].
  destruct (N.eqb t t2) eqn:E; simpl; rewrite ?E; simpl; rewrite ?E; simpl; rewrite ?E; [reflexivity|].
  f_equal. apply IH. exact G.
Qed.

Lemma get_pc_set_other t t' p m : t' <> t -> get_pc t' (set_st t p m) = get_pc t' m.
Proof.
  intros Hne. induction m as [|[t2 [p2 b2]] m IH]; simpl; [reflexivity|].
  destruct (N.eqb t t2) eqn:E; simpl.
  - apply N.eqb_eq in E. subst t2. destruct (N.eqb t' t) eqn:E2; [apply N.eqb_eq in E2; contradiction|reflexivity].
  - destruct (N.eqb t' t2); [reflexivity|exact IH].
Qed.

(* every task of [col] is running: they are collected one after the other, in the order of [col] *)
Lemma collect_all : forall (col : list (task * bres)) s,
  quiet s -> NoDup (map fst col) -> num s = length col ->
  (forall t b, In (t, b) col -> get_pc t (epcs s) = Some (ERun, b)) ->
  exists s', sstar s s' /\ quiet s' /\ num s' = 0 /\
             collected s' = rev (map (fun x => (fst x, err_of (snd x))) col) ++ collected s /\
             map fst (epcs s') = map fst (epcs s).
Proof.
  induction col as [|[t b] col IH]; intros s Q Nd Hn Hr.
  - exists s. split; [apply ss_refl|]. split; [exact Q|]. split; [exact Hn|]. split; reflexivity.
  - simpl in Hn. inversion Nd as [|? ? Hni Nd']; subst.
    destruct (collect_one s t b (length col) Q (Hr t b (or_introl eq_refl)) Hn)
      as (s1 & P1 & Q1 & N1 & C1 & E1).
    destruct (IH s1 Q1 Nd' N1) as (s2 & P2 & Q2 & N2 & C2 & E2).
    { intros t' b' Hin. rewrite E1. rewrite get_pc_set_other; [apply Hr; right; exact Hin|].
      intros ->. apply Hni. apply in_map_iff. exists (t, b'). split; [reflexivity|exact Hin]. }
    exists s2. split; [eapply sstar_trans; eassumption|]. split; [exact Q2|]. split; [exact N2|]. split.
    + rewrite C2, C1. simpl. rewrite <- app_assoc. reflexivity.
    + rewrite E2, E1. apply map_fst_set.
Qed.

(* the run loop hands in all the tasks of [sub] (each on its own goroutine) *)
Lemma spawn_all : forall (sub : list (task * bres)) s,
  quiet s -> NoDup (map fst sub) -> (forall t, In t (map fst sub) -> get_pc t (epcs s) = None) ->
  exists s', sstar s s' /\ quiet s' /\ num s' = num s + length sub /\ collected s' = collected s /\
             epcs s' = epcs s ++ map (fun x => (fst x, (ERun, snd x))) sub.
Proof.
  induction sub as [|[t b] sub IH]; intros s Q Nd Hf.
  - exists s. split; [apply ss_refl|]. split; [exact Q|]. simpl. rewrite app_nil_r. split; [lia|]. split; reflexivity.
  - inversion Nd as [|? ? Hni Nd']; subst. destruct Q as (Ql & Qd & Qk & Qc).
    set (s1 := mk (l s) (done s) (lock s) (epcs s ++ [(t, (ERun, b))]) CIdle (S (num s)) (collected s)).
    assert (S1 : step s s1) by (apply s_spawn; [exact Qc|apply Hf; left; reflexivity]).
    destruct (IH s1) as (s2 & P2 & Q2 & N2 & C2 & E2).
    + repeat split; assumption.
    + exact Nd'.
    + intros t' Hin. simpl. rewrite get_pc_app. rewrite (Hf t' (or_intror Hin)).
      destruct (N.eqb t' t) eqn:E; [|reflexivity]. apply N.eqb_eq in E. subst. contradiction.
    + exists s2. split; [eapply ss_step; eassumption|]. split; [exact Q2|].
      split; [rewrite N2; simpl; lia|]. split; [rewrite C2; reflexivity|].
      rewrite E2. simpl. rewrite <- app_assoc. reflexivity.
Qed.

Lemma get_pc_fresh_list t b (m : list (task * bres)) :
  NoDup (map fst m) -> In (t, b) m -> get_pc t (map (fun x => (fst x, (ERun, snd x))) m) = Some (ERun, b).
Proof.
  induction m as [|[t2 b2] m IH]; simpl; intros Nd Hin; [contradiction|]. inversion Nd as [|? ? Hni Nd']; subst.
  destruct Hin as [E|Hin].
  - inversion E; subst. rewrite N.eqb_refl. reflexivity.
  - destruct (N.eqb t t2) eqn:E; [|apply IH; assumption].
    apply N.eqb_eq in E. subst. exfalso. apply Hni. apply in_map_iff. exists (t2, b). auto.
Qed.

(* every completion order can occur: the tasks [sub] are submitted in this order; for every
   permutation [col] of them there is a run of the protocol, from the initial state, at the end of
   which waitAll has handed them back in exactly the order [col] *)
Lemma every_order_possible (sub col : list (task * bres)) :
  NoDup (map fst sub) -> Permutation sub col ->
  exists s, reach s /\ drained s /\ map fst (epcs s) = map fst sub /\
            rev (collected s) = map (fun x => (fst x, err_of (snd x))) col.
Proof.
  intros Nd P.
  destruct (spawn_all sub init) as (s1 & P1 & Q1 & N1 & C1 & E1).
  { repeat split; reflexivity. }
  { exact Nd. }
  { intros t _. reflexivity. }
  simpl in N1, C1, E1.
  assert (Ndc : NoDup (map fst col)).
  { eapply Permutation_NoDup; [apply Permutation_map; exact P|exact Nd]. }
  destruct (collect_all col s1 Q1 Ndc) as (s2 & P2 & Q2 & N2 & C2 & E2).
  { rewrite N1. apply Permutation_length, P. }
  { intros t b Hin. rewrite E1. apply get_pc_fresh_list; [exact Nd|].
    apply (Permutation_in _ (Permutation_sym P)), Hin. }
  exists s2. split; [apply (sstar_reach init); [apply r_init|eapply sstar_trans; [exact P1|exact P2]]|].
  destruct Q2 as (_ & _ & _ & Qc). split; [split; assumption|]. split.
  - rewrite E2, E1, map_map. reflexivity.
  - rewrite C2, C1, app_nil_r, rev_involutive. reflexivity.
Qed.
