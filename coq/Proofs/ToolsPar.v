(* Proofs/ToolsPar.v — the protocol of parallelRunToolCall (Model/ToolsPar.v) refines the abstraction
   Model/Tools.v uses ("every slot is written, in some order, before the scan"): with the deferred
   functions in the order of the code ([prog_ok]: run, recover handler, wg.Done) every schedule
   that lets the caller finish hands the scan exactly the recovered results of all tasks, and no
   goroutine ends while panicking; with wg.Done before the recover handler ([prog_v0]) a schedule
   exists in which the scan reads a cell the recover handler has not written yet. *)
From Coq Require Import Permutation.
From Eino Require Import Base.Util Model.Tools Model.ToolsPar Proofs.Tools Proofs.ToolsMore.
Local Open Scope string_scope.

Section ParProofs.
  Variable R : Type.
  Variable exec : nat -> task -> R.
  Variable is_panic : R -> bool.
  Variable perr : R.

  Notation gst := (gst R).
  Notation pst := (pst R).
  Notation pstep := (pstep exec is_panic perr prog_ok).
  Notation prun := (prun exec is_panic perr prog_ok).

  (* what the deferred recover makes of a result *)
  Definition rec (r : R) : R := if is_panic r then perr else r.
  (* task 0 runs inline, without a recover of the node's *)
  Definition rec_at (i : nat) (r : R) : R := match i with O => r | S _ => rec r end.

  (* the state of the goroutine of a task whose execution yields [r] *)
  Definition glocal (g : gst) (r : R) : Prop :=
    match g_pc g with
    | 0 => g_pan g = false /\ g_slot g = None
    | 1 => if is_panic r then g_pan g = true /\ g_slot g = None
           else g_pan g = false /\ g_slot g = Some r
    | 2 | 3 => g_pan g = false /\ g_slot g = Some (rec r)
    | _ => False
    end.

  (* [k] = the tasks 1..k-1 have been spawned *)
  Definition ginv (k i : nat) (g : gst) (t : task) : Prop :=
    (k <= i -> g_pc g = 0) /\ glocal g (exec i t).

  Fixpoint ginv_all (k i : nat) (gs : list gst) (ts : list task) : Prop :=
    match gs, ts with
    | [], [] => True
    | g :: gs', t :: ts' => ginv k i g t /\ ginv_all k (S i) gs' ts'
    | _, _ => False
    end.

  Definition pend1 (k i : nat) (g : gst) : nat :=
    if Nat.ltb i k && Nat.ltb (g_pc g) 3 then 1 else 0.

  (* the spawned goroutines that have not called wg.Done yet *)
  Fixpoint pending (k i : nat) (gs : list gst) : nat :=
    match gs with
    | [] => 0
    | g :: gs' => pend1 k i g + pending k (S i) gs'
    end.

  Lemma ginv_all_length : forall gs ts k i, ginv_all k i gs ts -> List.length gs = List.length ts.
  Proof.
    induction gs as [|g0 gs IHgs]; intros [|t0 ts]; simpl; intros k i H; try contradiction; auto.
    destruct H as [_ H]. f_equal. eapply IHgs; eauto.
  Qed.

  Lemma ginv_all_nth : forall gs ts k i j g t,
    ginv_all k i gs ts -> nth_error gs j = Some g -> nth_error ts j = Some t -> ginv k (i + j) g t.
  Proof.
    induction gs as [|g0 gs IHgs]; intros [|t0 ts]; simpl; intros k i j g t H Hg Ht; try contradiction.
    - destruct j; discriminate.
    - destruct H as [H0 H]. destruct j; simpl in *.
      + inversion Hg; inversion Ht; subst. rewrite Nat.add_0_r. assumption.
      + replace (i + S j) with (S i + j) by lia. eapply IHgs; eauto.
  Qed.

  Lemma ginv_all_set_nth : forall gs ts k i j g' t,
    ginv_all k i gs ts -> nth_error ts j = Some t -> ginv k (i + j) g' t ->
    ginv_all k i (set_nth j g' gs) ts.
  Proof.
    induction gs as [|g0 gs IHgs]; intros [|t0 ts]; simpl; intros k i j g' t H Ht Hg'; try contradiction.
    - destruct j; assumption.
    - destruct H as [H0 H]. destruct j; simpl in *.
      + inversion Ht; subst. rewrite Nat.add_0_r in Hg'. split; assumption.
      + split; [assumption|]. eapply IHgs; eauto.
        replace (S i + j) with (i + S j) by lia. assumption.
  Qed.

  Lemma ginv_all_mono : forall gs ts k k' i, k <= k' -> ginv_all k i gs ts -> ginv_all k' i gs ts.
  Proof.
    induction gs as [|g0 gs IHgs]; intros [|t0 ts]; simpl; intros k k' i Hk H; try contradiction; auto.
    destruct H as [[H1 H2] H]. split.
    - split; [intros Hi; apply H1; lia|assumption].
    - eapply IHgs; eauto.
  Qed.

  Lemma pending_set_nth : forall gs k i j g g',
    nth_error gs j = Some g ->
    pending k i (set_nth j g' gs) + pend1 k (i + j) g = pending k i gs + pend1 k (i + j) g'.
  Proof.
    induction gs; intros k i j g g' H; [destruct j; discriminate|].
    destruct j; simpl in *.
    - inversion H; subst. rewrite Nat.add_0_r. lia.
    - specialize (IHgs k (S i) j g g' H).
      replace (i + S j) with (S i + j) by lia. lia.
  Qed.

  Lemma pending_unspawned : forall gs k i, k <= i -> pending k i gs = 0.
  Proof.
    induction gs; intros k i H; simpl; auto.
    rewrite IHgs by lia. unfold pend1.
    replace (Nat.ltb i k) with false by (symmetry; apply Nat.ltb_ge; lia). reflexivity.
  Qed.

  Lemma pending_spawn : forall gs ts k i,
    ginv_all k i gs ts -> i <= k -> k < i + List.length gs ->
    pending (S k) i gs = S (pending k i gs).
  Proof.
    induction gs as [|g0 gs IHgs]; intros [|t0 ts]; simpl; intros k i H Hik Hlt; try contradiction; [lia|].
    destruct H as [[H1 H2] H].
    destruct (Nat.eq_dec i k) as [->|Hne].
    - rewrite (pending_unspawned gs (S k) (S k)) by lia.
      rewrite (pending_unspawned gs k (S k)) by lia.
      unfold pend1. rewrite (H1 (le_n k)). simpl.
      replace (Nat.ltb k (S k)) with true by (symmetry; apply Nat.ltb_lt; lia).
      replace (Nat.ltb k k) with false by (symmetry; apply Nat.ltb_ge; lia). reflexivity.
    - rewrite (IHgs ts k (S i)) by (auto; lia).
      unfold pend1.
      replace (Nat.ltb i (S k)) with true by (symmetry; apply Nat.ltb_lt; lia).
      replace (Nat.ltb i k) with true by (symmetry; apply Nat.ltb_lt; lia). lia.
  Qed.

  (* nobody pending, everybody spawned: every cell holds the recovered result *)
  Lemma all_done_slots : forall gs ts k i,
    ginv_all k i gs ts -> i + List.length gs <= k -> pending k i gs = 0 ->
    map (@g_slot R) gs = map (fun p => Some (rec (exec (fst p) (snd p)))) (combine (seq i (List.length ts)) ts).
  Proof.
    induction gs as [|a gs IHgs]; intros [|t0 ts]; simpl; intros k i H Hk Hp; try contradiction; auto.
    destruct H as [[H1 H2] H].
    assert (Hp1 : pend1 k i a = 0) by lia.
    assert (Hp2 : pending k (S i) gs = 0) by lia.
    f_equal.
    - unfold pend1 in Hp1.
      replace (Nat.ltb i k) with true in Hp1 by (symmetry; apply Nat.ltb_lt; lia). simpl in Hp1.
      destruct (Nat.ltb (g_pc a) 3) eqn:E; [discriminate|]. apply Nat.ltb_ge in E.
      unfold glocal in H2. destruct (g_pc a) as [|[|[|[|n]]]]; try lia; try contradiction.
      destruct H2 as [_ H2]. exact H2.
    - eapply IHgs; eauto. lia.
  Qed.

  (* the invariant *)
  Definition kof (m : mst) (n : nat) : nat := match m with MSpawn k => k | _ => n end.

  Definition Inv (tasks : list task) (st : pst) : Prop :=
    match tasks with
    | [] => False
    | t0 :: ts =>
        let n := List.length tasks in
        let k := kof (p_main st) n in
        1 <= k <= n
        /\ ginv_all k 1 (p_gs st) ts
        /\ p_cnt st = pending k 1 (p_gs st)
        /\ p_crash st = false
        /\ match p_main st with
           | MSpawn _ => p_slot0 st = None /\ p_seen st = None
           | MWait => p_slot0 st = Some (exec 0 t0) /\ is_panic (exec 0 t0) = false /\ p_seen st = None
           | MEnd => is_panic (exec 0 t0) = false
                     /\ p_seen st = Some (map (fun p => Some (rec_at (fst p) (exec (fst p) (snd p))))
                                              (combine (seq 0 n) tasks))
           | MPanic => is_panic (exec 0 t0) = true
           end
    end.

  Lemma ginv_all_init : forall ts i, ginv_all 1 (S i) (map (fun _ => mkG 0 false (@None R)) ts) ts.
  Proof.
    induction ts; intros i; simpl; auto. split; [|apply IHts].
    split; [reflexivity|]. unfold glocal. simpl. auto.
  Qed.

  Lemma pending_init : forall (ts : list task) i, pending 1 (S i) (map (fun _ => mkG 0 false (@None R)) ts) = 0.
  Proof. intros. apply pending_unspawned. lia. Qed.

  Lemma inv_init : forall tasks, tasks <> [] -> Inv tasks (pinit tasks).
  Proof.
    intros [|t0 ts] H; [congruence|]. unfold Inv, pinit. simpl.
    repeat split; auto; try lia.
    - apply ginv_all_init.
    - rewrite pending_init. reflexivity.
  Qed.

  Lemma inv_step : forall tasks st th st', Inv tasks st -> pstep tasks st th = Some st' -> Inv tasks st'.
  Proof.
    intros [|t0 ts] st th st' HI Hs; [contradiction|].
    unfold Inv in HI. cbv zeta in HI. cbn [List.length] in HI. destruct HI as [Hk [Hg [Hc [Hcr Hm]]]].
    pose proof (ginv_all_length _ _ _ _ Hg) as Hlen.
    destruct th as [|j]; simpl in Hs.
    - (* the caller *)
      destruct (p_main st) as [k| | |] eqn:Em; simpl in *; try discriminate.
      + destruct Hm as [Hs0 Hseen].
        destruct (Nat.ltb k (S (List.length ts))) eqn:Elt.
        * apply Nat.ltb_lt in Elt. inversion Hs; subst st'; clear Hs. unfold Inv; simpl.
          repeat split; auto; try lia.
          -- eapply ginv_all_mono; [|exact Hg]. lia.
          -- rewrite Hc. symmetry. eapply pending_spawn; eauto; lia.
        * apply Nat.ltb_ge in Elt. assert (k = S (List.length ts)) by lia. subst k.
          destruct (is_panic (exec 0 t0)) eqn:Ep; inversion Hs; subst st'; clear Hs; unfold Inv; simpl;
            repeat split; auto; lia.
      + destruct Hm as [Hs0 [Hp Hseen]].
        destruct (Nat.eqb (p_cnt st) 0) eqn:E0; [|discriminate]. apply Nat.eqb_eq in E0.
        inversion Hs; subst st'; clear Hs. unfold Inv; simpl.
        repeat split; auto; try lia.
        rewrite Hs0. f_equal. f_equal.
        rewrite (all_done_slots _ _ _ _ Hg) by (try lia; congruence).
        clear. change 1 with (S 0). generalize 0 as i.
        induction ts as [|t ts IH]; intros i; simpl; auto. f_equal. apply IH.
    - (* the goroutine of task S j *)
      destruct (spawned R st (S j)) eqn:Esp; [|discriminate]. simpl in Hs.
      destruct (nth_error (p_gs st) j) as [g|] eqn:Eg; [|discriminate].
      destruct (nth_error ts j) as [t|] eqn:Et; [|discriminate].
      assert (Hjk : S j < kof (p_main st) (S (List.length ts))).
      { unfold spawned in Esp. destruct (p_main st); simpl.
        - apply Nat.ltb_lt in Esp. exact Esp.
        - assert (j < List.length ts) by (apply nth_error_Some; congruence). lia.
        - assert (j < List.length ts) by (apply nth_error_Some; congruence). lia.
        - assert (j < List.length ts) by (apply nth_error_Some; congruence). lia. }
      pose proof (ginv_all_nth _ _ _ _ _ _ _ Hg Eg Et) as [_ Hl]. simpl in Hl.
      unfold gstep in Hs. unfold glocal in Hl.
      set (k := kof (p_main st) (S (List.length ts))) in *.
      assert (Hpend : forall g', pending k 1 (set_nth j g' (p_gs st)) + pend1 k (S j) g = pending k 1 (p_gs st) + pend1 k (S j) g').
      { intros g'. apply (pending_set_nth _ k 1 j g g' Eg). }
      assert (Hp1 : forall g0 : gst, pend1 k (S j) g0 = if Nat.ltb (g_pc g0) 3 then 1 else 0).
      { intros g0. unfold pend1. replace (Nat.ltb (S j) k) with true by (symmetry; apply Nat.ltb_lt; lia). reflexivity. }
      destruct (g_pc g) as [|[|[|pc]]] eqn:Epc; simpl in Hs.
      + (* GRun *)
        inversion Hs; subst st'; clear Hs. unfold Inv; simpl. fold k.
        assert (Hk' : kof (p_main st) (S (List.length ts)) = k) by reflexivity.
        destruct Hl as [Hpan Hslot].
        set (g' := if is_panic (exec (S j) t) then mkG 1 true (g_slot g) else mkG 1 false (Some (exec (S j) t))).
        assert (Hpc' : g_pc g' = 1) by (subst g'; destruct (is_panic (exec (S j) t)); reflexivity).
        repeat split; auto; try lia.
        * eapply ginv_all_set_nth; eauto. split; [intros; lia|]. cbn [Nat.add].
          unfold glocal. rewrite Hpc'. subst g'. destruct (is_panic (exec (S j) t)); simpl; auto.
        * specialize (Hpend g'). rewrite !Hp1, Epc, Hpc' in Hpend. simpl in Hpend. lia.
        * rewrite Hcr. subst g'. destruct (is_panic (exec (S j) t)); reflexivity.
      + (* GRecover *)
        inversion Hs; subst st'; clear Hs. unfold Inv; simpl. fold k.
        set (g' := if g_pan g then mkG 2 false (Some perr) else mkG 2 false (g_slot g)).
        assert (Hpc' : g_pc g' = 2) by (subst g'; destruct (g_pan g); reflexivity).
        repeat split; auto; try lia.
        * eapply ginv_all_set_nth; eauto. split; [intros; lia|]. cbn [Nat.add].
          unfold glocal. rewrite Hpc'. unfold rec. subst g'.
          destruct (is_panic (exec (S j) t)); destruct Hl as [Hp Hsl]; rewrite Hp; simpl; auto.
        * specialize (Hpend g'). rewrite !Hp1, Epc, Hpc' in Hpend. simpl in Hpend. lia.
        * rewrite Hcr. subst g'. destruct (g_pan g); reflexivity.
      + (* GDone *)
        inversion Hs; subst st'; clear Hs. unfold Inv; simpl. fold k.
        destruct Hl as [Hpan Hslot].
        repeat split; auto; try lia.
        * eapply ginv_all_set_nth; eauto. split; [intros; lia|]. cbn [Nat.add].
          unfold glocal. simpl. auto.
        * specialize (Hpend (mkG 3 (g_pan g) (g_slot g))). rewrite !Hp1, Epc in Hpend. simpl in Hpend. lia.
        * rewrite Hcr, Hpan. reflexivity.
      + destruct pc; discriminate.
  Qed.

  Lemma inv_run : forall tasks sch st st', Inv tasks st -> prun tasks sch st = Some st' -> Inv tasks st'.
  Proof.
    induction sch; simpl; intros st st' HI H.
    - inversion H; subst. assumption.
    - destruct (pstep tasks st a) eqn:E; [|discriminate]. eapply IHsch; [|exact H]. eapply inv_step; eauto.
  Qed.

  (* every schedule: when the caller is through, the scan has read the recovered results of all
     tasks (or the inline task panicked), and no goroutine ended while panicking *)
  Theorem par_safe : forall tasks sch st,
    tasks <> [] ->
    prun tasks sch (pinit tasks) = Some st ->
    p_crash st = false
    /\ match p_main st with
       | MEnd => p_seen st = Some (map (fun p => Some (rec_at (fst p) (exec (fst p) (snd p))))
                                       (combine (seq 0 (List.length tasks)) tasks))
       | MPanic => exists t0 ts, tasks = t0 :: ts /\ is_panic (exec 0 t0) = true
       | _ => True
       end.
  Proof.
    intros tasks sch st Hne H.
    pose proof (inv_run _ _ _ _ (inv_init _ Hne) H) as HI.
    destruct tasks as [|t0 ts]; [contradiction|]. unfold Inv in HI. cbv zeta in HI.
    destruct HI as [_ [_ [_ [Hcr Hm]]]]. split; auto.
    destruct (p_main st); auto.
    - destruct Hm as [_ Hm]. exact Hm.
    - eauto.
  Qed.
End ParProofs.

(* ---- the two instances, down to tools_invoke / tools_stream_open --------------------------- *)
Section Instances.
  Variable kind_of : string -> option tkind.
  Variable inv : string -> string -> tres.
  Variable str : string -> string -> sres.
  Variable handler : option (string -> string -> tres).

  Definition par_invoke (prog : list gact) :=
    prun (fun (_ : nat) t => exec_invoke inv str t) is_panic_t (TErr E_PANIC) prog.
  Definition par_stream (prog : list gact) :=
    prun (fun (_ : nat) t => exec_stream inv str t) is_panic_s (SErr E_PANIC) prog.

  Lemma rec_at_t : forall i r, rec_at tres is_panic_t (TErr E_PANIC) i r = recover_t i r.
  Proof. intros [|i] r; simpl; [destruct r; reflexivity|]. unfold rec. destruct r; reflexivity. Qed.
  Lemma rec_at_s : forall i r, rec_at sres is_panic_s (SErr E_PANIC) i r = recover_s i r.
  Proof. intros [|i] r; simpl; [destruct r; reflexivity|]. unfold rec. destruct r; reflexivity. Qed.

  (* Invoke: whatever the schedule of the caller and the goroutines, what Invoke makes of the
     cells once parallelRunToolCall is over is what the model's tools_invoke computes (for any
     completion order [pi]: it does not depend on it) *)
  Theorem par_invoke_refines : forall pi calls tasks sch st r,
    gen_tasks kind_of handler true calls = Ok tasks ->
    Permutation pi (seq 0 (List.length calls)) ->
    par_invoke prog_ok tasks sch (pinit tasks) = Some st ->
    par_result assemble_invoke tasks st = Some r ->
    r = tools_invoke kind_of inv str handler pi true calls /\ p_crash st = false.
  Proof.
    intros pi calls tasks sch st r Hg P Hrun Hres.
    assert (Hne : tasks <> []).
    { unfold gen_tasks in Hg. simpl in Hg. destruct calls; [discriminate|].
      simpl in Hg. destruct (gen_task kind_of handler c); simpl in Hg; try discriminate.
      destruct (res_mapM (gen_task kind_of handler) calls); simpl in Hg; try discriminate.
      inversion Hg. discriminate. }
    destruct (par_safe _ _ _ _ _ _ _ Hne Hrun) as [Hcr Hm]. split; auto.
    rewrite tools_invoke_any_order by (apply perm_covers; auto). rewrite Hg. simpl.
    unfold par_result in Hres.
    destruct (p_main st) eqn:Em; try discriminate.
    - rewrite Hm in Hres. inversion Hres; subst r; clear Hres.
      rewrite <- (assemble_scan inv str tasks 0). f_equal.
      apply map_ext. intros [i t]. simpl. rewrite rec_at_t. reflexivity.
    - inversion Hres; subst r; clear Hres.
      destruct Hm as [t0 [ts [-> Hp]]]. simpl.
      destruct (exec_invoke inv str t0); simpl in Hp; try discriminate. reflexivity.
  Qed.

  Theorem par_stream_refines : forall pi calls tasks sch st r,
    gen_tasks kind_of handler true calls = Ok tasks ->
    Permutation pi (seq 0 (List.length calls)) ->
    par_stream prog_ok tasks sch (pinit tasks) = Some st ->
    par_result assemble_stream tasks st = Some r ->
    r = tools_stream_open kind_of inv str handler pi true calls /\ p_crash st = false.
  Proof.
    intros pi calls tasks sch st r Hg P Hrun Hres.
    assert (Hne : tasks <> []).
    { unfold gen_tasks in Hg. simpl in Hg. destruct calls; [discriminate|].
      simpl in Hg. destruct (gen_task kind_of handler c); simpl in Hg; try discriminate.
      destruct (res_mapM (gen_task kind_of handler) calls); simpl in Hg; try discriminate.
      inversion Hg. discriminate. }
    destruct (par_safe _ _ _ _ _ _ _ Hne Hrun) as [Hcr Hm]. split; auto.
    rewrite tools_stream_any_order by (apply perm_covers; auto). rewrite Hg. simpl.
    unfold par_result in Hres.
    destruct (p_main st) eqn:Em; try discriminate.
    - rewrite Hm in Hres. inversion Hres; subst r; clear Hres.
      rewrite <- (assemble_scan_stream inv str tasks 0). f_equal.
      apply map_ext. intros [i t]. simpl. rewrite rec_at_s. reflexivity.
    - inversion Hres; subst r; clear Hres.
      destruct Hm as [t0 [ts [-> Hp]]]. simpl.
      destruct (exec_stream inv str t0); simpl in Hp; try discriminate. reflexivity.
  Qed.
End Instances.

(* ---- wg.Done before the recover handler: refuted ------------------------------------------- *)
Section Refuted.
  Let kind_of (n : string) : option tkind := if String.eqb n "ta" then Some KInv else None.
  Let inv (n a : string) : tres := if String.eqb a "panic" then TPanic else TOk (n ++ ":" ++ a).
  Let str (n a : string) : sres := SErr 7.
  Let calls : list call := [mkCall "c0" "ta" "x"; mkCall "c1" "ta" "panic"].

  (* the caller spawns the goroutine of call 1 and runs call 0; the goroutine runs its tool, which
     panics, and calls wg.Done; the caller passes wg.Wait and scans — before the recover handler has
     stored the panic error: cell 1 still holds its zero value (the model's unwritten cell; in Go a
     nil error beside an empty output, resp. a nil stream) *)
  Theorem par_v0_refuted :
    exists tasks sch st r,
      gen_tasks kind_of None true calls = Ok tasks
      /\ par_invoke inv str prog_v0 tasks sch (pinit tasks) = Some st
      /\ par_result assemble_invoke tasks st = Some r
      /\ r <> tools_invoke kind_of inv str None [0; 1]%nat true calls
      /\ tools_invoke kind_of inv str None [0; 1]%nat true calls = Err E_PANIC.
  Proof.
    eexists. exists [0; 0; 1; 1; 0]%nat. eexists. eexists.
    split; [vm_compute; reflexivity|].
    split; [vm_compute; reflexivity|].
    split; [vm_compute; reflexivity|].
    split; [vm_compute; discriminate|vm_compute; reflexivity].
  Qed.

  (* non-vacuity of par_invoke_refines: the same calls, the code's order, a schedule in which the
     goroutine finishes last: the caller cannot pass wg.Wait before *)
  Example par_ok_nonvacuous :
    exists tasks st,
      gen_tasks kind_of None true calls = Ok tasks
      /\ par_invoke inv str prog_ok tasks [0; 0; 1; 1; 0]%nat (pinit tasks) = None
      /\ par_invoke inv str prog_ok tasks [0; 0; 1; 1; 1; 0]%nat (pinit tasks) = Some st
      /\ par_result assemble_invoke tasks st = Some (Err E_PANIC)
      /\ p_crash st = false.
  Proof.
    eexists. eexists.
    split; [vm_compute; reflexivity|].
    split; [vm_compute; reflexivity|].
    split; [vm_compute; reflexivity|].
    split; vm_compute; reflexivity.
  Qed.
End Refuted.
