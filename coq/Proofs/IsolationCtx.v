(* Proofs/IsolationCtx.v — property C09: the shape of defect F-C09b (a run's user function handed
   the constructor's context) and of its repair. *)
From Eino Require Import Base.Util Model.Isolation Proofs.Isolation.

(* a run whose own context is live: alone its checker says "live"; when the owner of the
   constructor's context cancels that context first (schedule 1,0) it says "cancelled" *)
Lemma ctor_context_foreign_cancel :
  exists sched g g',
    grun cstep_ctor sched g = Some g' /\ all_final cstep_ctor g' = true /\
    exists r r' s rs,
      nth_error (snd g) 0 = Some r /\ nth_error (snd g') 0 = Some r' /\
      c_owner r = false /\ c_own_cancelled r = false /\
      solo_run cstep_ctor 1 (fst g) r = Some (s, rs) /\
      c_verdict rs = Some true /\ c_verdict r' = Some false.
Proof.
  exists [1; 0]%nat.
  exists (false, [ {| c_owner := false; c_pc := 0; c_own_cancelled := false; c_verdict := None |};
                   {| c_owner := true; c_pc := 0; c_own_cancelled := false; c_verdict := None |} ]).
  eexists. split; [vm_compute; reflexivity|]. split; [vm_compute; reflexivity|].
  do 4 eexists. repeat split; vm_compute; reflexivity.
Qed.

(* the repaired condition: the verdict of a checking run is a function of its own context,
   whatever the other runs and the owner of the constructor's context do, in every interleaving.
   (The store IS written here — by its owner — so H1 fails; what holds is H2 for the empty view:
   a checking run reads nothing of the store.) *)
Lemma cstep_own_reads_nothing : forall s1 s2 r, (fun _ : bool => tt) s1 = (fun _ : bool => tt) s2 ->
  option_map snd (cstep_own s1 r) = option_map snd (cstep_own s2 r).
Proof.
  intros s1 s2 r _. unfold cstep_own. destruct (N.eqb (c_pc r) 0); [|reflexivity]. destruct (c_owner r); reflexivity.
Qed.

Lemma cstep_own_view_tt : forall s r s' r', cstep_own s r = Some (s', r') ->
  (fun _ : bool => tt) s' = (fun _ : bool => tt) s.
Proof. reflexivity. Qed.

Lemma cstep_own_verdict : forall sched g g',
  grun cstep_own sched g = Some g' ->
  forall i r, nth_error (snd g) i = Some r -> c_pc r = 0%N -> c_owner r = false ->
  forall r', nth_error (snd g') i = Some r' -> final cstep_own (fst g') r' = true ->
  c_verdict r' = Some (negb (c_own_cancelled r)).
Proof.
  intros sched g g' H i r Hr Hpc Hown r' Hr' Hf.
  destruct (project_run _ _ _ cstep_own (fun _ : bool => tt) cstep_own_view_tt cstep_own_reads_nothing
              sched g g' H i r Hr (fst g) eq_refl) as (sf & rf & A & B & _).
  rewrite Hr' in B; inversion B; subst rf; clear B.
  destruct r as [ow pc oc vd]; simpl in *; subst pc ow.
  remember (count i sched) as n. destruct n as [|[|n]]; simpl in A.
  - inversion A; subst r'. unfold final, cstep_own in Hf; simpl in Hf. discriminate.
  - unfold cstep_own in A; simpl in A. inversion A; subst r'. reflexivity.
  - unfold cstep_own in A; simpl in A. discriminate.
Qed.
