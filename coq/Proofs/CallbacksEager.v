(* Proofs/CallbacksEager.v — exchanging adjacent independent operations changes neither the
   context of any unit, nor the events of any unit, nor the flag: every reordering of a schedule
   (Model/CallbacksEager.v [reorder]) serves every unit exactly what the schedule serves it.
   Hence the engine theorems hold for the executions of the eager task collection too. *)
From Coq Require Import List Arith Lia Bool NArith Permutation.
From Eino Require Import Base.Util Base.GoSlice Model.Callbacks Model.CallbacksSched Model.CallbacksEager.
From Eino Require Import Proofs.CallbacksSlice Proofs.Callbacks Proofs.CallbacksEngine Proofs.CallbacksSched.
Import ListNotations.

(* ---------------------------------------------------------------- a step as an effect *)

(* what a step does, given only the lookup function: a new binding, new events, the flag *)
Definition effect (w : world) (lk : ukey -> option sctx) (o : op) : option (ukey * sctx) * list event * bool :=
  match o with
  | ORaw new inf _ hs _ => (Some (new, snew w inf hs), [], false)
  | OAppend parent new inf opts =>
      match (match parent with None => Some None | Some p => lk p end) with
      | None => (None, [], true)
      | Some c => (Some (new, snew w inf (slist c ++ List.concat opts)), [], false)
      end
  | OReuse p new inf =>
      match lk p with
      | None => (None, [], true)
      | Some c => (Some (new, match c with None => None | Some (l, _) => Some (l, inf) end), [], false)
      end
  | OOn u t =>
      match lk u with
      | None => (None, [], true)
      | Some None => (None, [], false)
      | Some (Some (l, inf)) => (None, events_of u t inf (select w t (l ++ w_globals w)), false)
      end
  | OAlias src new inf lo hi =>
      match lk src with
      | Some (Some (l, _)) =>
          if (lo <=? hi)%nat && (hi <=? List.length l)%nat
          then (Some (new, snew w inf (firstn (hi - lo) (skipn lo l))), [], false)
          else (None, [], true)
      | _ => (None, [], true)
      end
  end.

Definition apply (s : sstate) (e : option (ukey * sctx) * list event * bool) : sstate :=
  {| ss_ctxs := match fst (fst e) with Some kv => kv :: ss_ctxs s | None => ss_ctxs s end;
     ss_log := ss_log s ++ snd (fst e);
     ss_bad := ss_bad s || snd e |}.

Definition lk (s : sstate) (u : ukey) : option sctx := lookup u (ss_ctxs s).

(* same contexts, same events per unit, same flag *)
Definition seq (s s' : sstate) : Prop :=
  ss_bad s = ss_bad s' /\ (forall u, lk s u = lk s' u) /\
  (forall u, filter (of_unit u) (ss_log s) = filter (of_unit u) (ss_log s')).

Lemma seq_refl s : seq s s.
Proof. repeat split; auto. Qed.

Lemma seq_trans a b c : seq a b -> seq b c -> seq a c.
Proof.
  intros (B1 & L1 & G1) (B2 & L2 & G2). split; [congruence|].
  split; intros u; [rewrite L1|rewrite G1]; auto.
Qed.

Lemma sstep_apply w s o : seq (sstep w s o) (apply s (effect w (lk s) o)).
Proof.
  unfold seq, apply, lk.
  destruct o as [new inf o0 hs spare | parent new inf opts | p new inf | v t | src new inf lo hi]; simpl.
  - rewrite app_nil_r, orb_false_r. repeat split; auto.
  - destruct (match parent with None => Some None | Some p => lookup p (ss_ctxs s) end); simpl;
      rewrite app_nil_r; [rewrite orb_false_r|rewrite orb_true_r]; repeat split; auto.
  - destruct (lookup p (ss_ctxs s)); simpl;
      rewrite app_nil_r; [rewrite orb_false_r|rewrite orb_true_r]; repeat split; auto.
  - destruct (lookup v (ss_ctxs s)) as [[[l inf]|]|]; simpl.
    + rewrite orb_false_r. repeat split; auto.
    + rewrite app_nil_r, orb_false_r. destruct s; repeat split; auto.
    + rewrite app_nil_r, orb_true_r. repeat split; auto.
  - destruct (lookup src (ss_ctxs s)) as [[[l inf']|]|]; simpl.
    + destruct ((lo <=? hi)%nat && (hi <=? List.length l)%nat); simpl;
        rewrite app_nil_r; [rewrite orb_false_r|rewrite orb_true_r]; repeat split; auto.
    + rewrite app_nil_r, orb_true_r. repeat split; auto.
    + rewrite app_nil_r, orb_true_r. repeat split; auto.
Qed.

(* the effect depends only on the contexts the operation reads *)
Lemma effect_ext w f f' o : (forall u, In u (op_reads o) -> f u = f' u) -> effect w f o = effect w f' o.
Proof.
  destruct o as [new inf o0 hs spare | [p|] new inf opts | p new inf | v t | src new inf lo hi]; simpl; intros H; auto;
    rewrite (H _ (or_introl eq_refl)); auto.
Qed.

(* what an effect binds and whom its events belong to *)
Lemma effect_binds w f o kv : fst (fst (effect w f o)) = Some kv -> op_creates o = Some (fst kv) /\ op_unit o = fst kv.
Proof.
  destruct o as [new inf o0 hs spare | parent new inf opts | p new inf | v t | src new inf lo hi]; simpl.
  - intros [= <-]. auto.
  - destruct (match parent with None => Some None | Some p => f p end); simpl; [intros [= <-]; auto|discriminate].
  - destruct (f p); simpl; [intros [= <-]; auto|discriminate].
  - destruct (f v) as [[[l inf]|]|]; simpl; discriminate.
  - destruct (f src) as [[[l inf']|]|]; simpl; try discriminate.
    destruct ((lo <=? hi)%nat && (hi <=? List.length l)%nat); simpl; [intros [= <-]; auto|discriminate].
Qed.

Lemma effect_events w f o e : In e (snd (fst (effect w f o))) -> ev_unit e = op_unit o.
Proof.
  destruct o as [new inf o0 hs spare | parent new inf opts | p new inf | v t | src new inf lo hi]; simpl.
  - contradiction.
  - destruct (match parent with None => Some None | Some p => f p end); simpl; contradiction.
  - destruct (f p); simpl; contradiction.
  - destruct (f v) as [[[l inf]|]|]; simpl; try contradiction.
    unfold events_of. rewrite in_map_iff. intros (x & <- & _). reflexivity.
  - destruct (f src) as [[[l inf']|]|]; simpl; try contradiction.
    destruct ((lo <=? hi)%nat && (hi <=? List.length l)%nat); simpl; contradiction.
Qed.

Lemma lk_apply s e u :
  lk (apply s e) u = match fst (fst e) with
                     | Some kv => if N.eqb u (fst kv) then Some (snd kv) else lk s u
                     | None => lk s u
                     end.
Proof. unfold lk, apply. simpl. destruct (fst (fst e)) as [[k c]|]; simpl; auto. Qed.

Lemma apply_seq s s' e : seq s s' -> seq (apply s e) (apply s' e).
Proof.
  intros (B & L & G). repeat split.
  - simpl. now rewrite B.
  - intros u. rewrite !lk_apply. destruct (fst (fst e)) as [kv|]; auto. now rewrite L.
  - intros u. simpl. rewrite !filter_app. now rewrite G.
Qed.

Lemma effect_seq w s s' o : seq s s' -> effect w (lk s) o = effect w (lk s') o.
Proof. intros (_ & L & _). apply effect_ext. intros u _. apply L. Qed.

Lemma seq_sym a b : seq a b -> seq b a.
Proof. intros (B & L & G). repeat split; auto. Qed.

Lemma sstep_seq w s s' o : seq s s' -> seq (sstep w s o) (sstep w s' o).
Proof.
  intros E.
  eapply seq_trans; [apply sstep_apply|].
  eapply seq_trans; [|apply seq_sym, sstep_apply].
  rewrite (effect_seq w s s' o E). now apply apply_seq.
Qed.

Lemma run_seq_cong w ops : forall s s', seq s s' -> seq (run_spec_from w s ops) (run_spec_from w s' ops).
Proof.
  induction ops as [|o ops IH]; simpl; intros s s' E; auto.
  apply IH. now apply sstep_seq.
Qed.

(* ---------------------------------------------------------------- exchanging two independent operations *)

Lemma filter_none_unit u (l : list event) v : (forall e, In e l -> ev_unit e = v) -> v <> u -> filter (of_unit u) l = [].
Proof.
  intros H N. apply filter_nil_iff. intros e He. unfold of_unit. rewrite (H e He).
  apply N.eqb_neq. auto.
Qed.

Lemma swap_seq w s x y : indep x y -> seq (sstep w (sstep w s x) y) (sstep w (sstep w s y) x).
Proof.
  intros (NU & Cxy & Cyx).
  set (ex := effect w (lk s) x). set (ey := effect w (lk s) y).
  (* after x the contexts y reads are unchanged, and conversely *)
  assert (Ey : effect w (lk (apply s ex)) y = ey).
  { apply effect_ext. intros u Hu. rewrite lk_apply. destruct (fst (fst ex)) as [kv|] eqn:B; auto.
    destruct (effect_binds _ _ _ _ B) as (C & _). destruct (N.eqb u (fst kv)) eqn:E; auto.
    apply N.eqb_eq in E. subst u. exfalso. eapply Cxy; eauto. }
  assert (Ex : effect w (lk (apply s ey)) x = ex).
  { apply effect_ext. intros u Hu. rewrite lk_apply. destruct (fst (fst ey)) as [kv|] eqn:B; auto.
    destruct (effect_binds _ _ _ _ B) as (C & _). destruct (N.eqb u (fst kv)) eqn:E; auto.
    apply N.eqb_eq in E. subst u. exfalso. eapply Cyx; eauto. }
  assert (L : seq (sstep w (sstep w s x) y) (apply (apply s ex) ey)).
  { eapply seq_trans; [apply sstep_seq, sstep_apply|]. fold ex.
    eapply seq_trans; [apply sstep_apply|]. rewrite Ey. apply seq_refl. }
  assert (Rr : seq (sstep w (sstep w s y) x) (apply (apply s ey) ex)).
  { eapply seq_trans; [apply sstep_seq, sstep_apply|]. fold ey.
    eapply seq_trans; [apply sstep_apply|]. rewrite Ex. apply seq_refl. }
  eapply seq_trans; [exact L|]. eapply seq_trans; [|apply seq_sym; exact Rr].
  repeat split.
  - simpl. now rewrite <- !orb_assoc, (orb_comm (snd ex)).
  - intros u. rewrite !lk_apply.
    destruct (fst (fst ex)) as [kx|] eqn:Bx, (fst (fst ey)) as [ky|] eqn:By; auto.
    destruct (effect_binds _ _ _ _ Bx) as (_ & Ux). destruct (effect_binds _ _ _ _ By) as (_ & Uy).
    destruct (N.eqb u (fst ky)) eqn:E1, (N.eqb u (fst kx)) eqn:E2; auto.
    apply N.eqb_eq in E1, E2. exfalso. apply NU. congruence.
  - intros u. simpl. rewrite <- !app_assoc, !filter_app. f_equal.
    destruct (N.eq_dec (op_unit x) u) as [Hx|Hx].
    + rewrite (filter_none_unit u (snd (fst ey)) (op_unit y)); [now rewrite app_nil_r| |congruence].
      intros e He. eapply effect_events; eauto.
    + rewrite (filter_none_unit u (snd (fst ex)) (op_unit x)); [now rewrite app_nil_r| |auto].
      intros e He. eapply effect_events; eauto.
Qed.

Lemma run_spec_from_app w s a b : run_spec_from w s (a ++ b) = run_spec_from w (run_spec_from w s a) b.
Proof. unfold run_spec_from. apply fold_left_app. Qed.

Theorem reorder_seq w c t : reorder c t -> seq (run_spec w c) (run_spec w t).
Proof.
  induction 1 as [l|l a x y b Hr IH I]; [apply seq_refl|].
  eapply seq_trans; [exact IH|]. unfold run_spec.
  rewrite !run_spec_from_app. simpl. apply run_seq_cong. now apply swap_seq.
Qed.

(* ---------------------------------------------------------------- consequences at the heap level *)

Theorem reorder_unit_logs w c t :
  reorder c t ->
  forall u, filter (of_unit u) (st_log (run_script true w t)) = filter (of_unit u) (st_log (run_script true w c)).
Proof.
  intros Hr u. rewrite !script_log_spec. symmetry. apply (reorder_seq w c t Hr).
Qed.

Theorem reorder_flag w c t : reorder c t -> st_bad (run_script true w t) = st_bad (run_script true w c).
Proof.
  intros Hr. destruct (script_refines_spec w t) as (B1 & _). destruct (script_refines_spec w c) as (B2 & _).
  rewrite B1, B2. symmetry. apply (reorder_seq w c t Hr).
Qed.

Lemma reorder_in c t : reorder c t -> forall o, In o t <-> In o c.
Proof.
  induction 1 as [l|l a x y b Hr IH I]; intros o; [tauto|].
  rewrite <- IH. rewrite !in_app_iff. simpl. tauto.
Qed.

(* the engine theorems for every reordering of every schedule of the program tree *)
Theorem eager_unit_logs w is_stream g ginf opts stages t0 t :
  NoDup (g :: stages_uids stages) ->
  traces (graph_prog is_stream g ginf opts stages) t0 -> reorder t0 t ->
  forall e, In e (graph_table is_stream g ginf opts stages) ->
    filter (of_unit (ue_unit e)) (st_log (run_script true w t)) = uexp_events w e.
Proof.
  intros N T Hr e He. rewrite (reorder_unit_logs w t0 t Hr).
  exact (engine_unit_logs w is_stream g ginf opts stages t0 N T e He).
Qed.

Theorem eager_no_other_events w is_stream g ginf opts stages t0 t :
  NoDup (g :: stages_uids stages) ->
  traces (graph_prog is_stream g ginf opts stages) t0 -> reorder t0 t ->
  forall ev, In ev (st_log (run_script true w t)) ->
    exists e, In e (graph_table is_stream g ginf opts stages) /\ ev_unit ev = ue_unit e /\
              In ev (uexp_events w e).
Proof.
  intros N T Hr ev Hev.
  assert (H0 : In ev (st_log (run_script true w t0))).
  { assert (F : In ev (filter (of_unit (ev_unit ev)) (st_log (run_script true w t)))).
    { apply filter_In. split; auto. unfold of_unit. apply N.eqb_refl. }
    rewrite (reorder_unit_logs w t0 t Hr) in F. apply filter_In in F. tauto. }
  exact (engine_no_other_events w is_stream g ginf opts stages t0 N T ev H0).
Qed.

Theorem eager_never_flagged w is_stream g ginf opts stages t0 t :
  NoDup (g :: stages_uids stages) ->
  traces (graph_prog is_stream g ginf opts stages) t0 -> reorder t0 t ->
  st_bad (run_script true w t) = false.
Proof.
  intros N T Hr. rewrite (reorder_flag w t0 t Hr). exact (engine_never_flagged w is_stream g ginf opts stages t0 N T).
Qed.

Theorem eager_exactly_once_paired w is_stream g ginf opts stages t0 t :
  NoDup (g :: stages_uids stages) ->
  traces (graph_prog is_stream g ginf opts stages) t0 -> reorder t0 t ->
  forall e, In e (graph_table is_stream g ginf opts stages) ->
  forall s f, ue_timings e = [s; f] ->
  forall x tm,
    List.length (filter (is_ev (ue_unit e) x tm (ue_info e)) (st_log (run_script true w t))) =
    if (timing_eqb tm s || timing_eqb tm f) && w_needs w x tm
    then count_occ N.eq_dec (ue_list e ++ w_globals w) x else 0%nat.
Proof.
  intros N T Hr e He s f Ht x tm.
  rewrite <- (engine_exactly_once_paired w is_stream g ginf opts stages t0 N T e He s f Ht x tm).
  rewrite (count_unit_events _ _ _ _ (st_log (run_script true w t))).
  rewrite (count_unit_events _ _ _ _ (st_log (run_script true w t0))).
  now rewrite (reorder_unit_logs w t0 t Hr).
Qed.

(* ---------------------------------------------------------------- an eager execution that is no schedule of the tree *)

Lemma traces_seq_last a o t : traces (PSeq a (PAtom o)) t -> exists ta, t = ta ++ [o].
Proof.
  intros T. inversion T as [| |a' b' ta tb Ha Hb|]; subst.
  inversion Hb; subst. eauto.
Qed.

(* every schedule of the tree of a run whose options are accepted ends with the graph's own
   end-or-error callback *)
Lemma graph_prog_last is_stream g ginf opts stages t :
  graph_ok stages opts = true ->
  traces (graph_prog is_stream g ginf opts stages) t ->
  exists t' tm, t = t' ++ [OOn g tm].
Proof.
  intros OK T. unfold graph_prog, graph_body_prog in T. rewrite OK in T. simpl in T.
  inversion T as [| |a b ta tb Ha Hb|]; subst.
  inversion Hb as [| |a' b' ta' tb' Ha' Hb'|]; subst.
  destruct (traces_seq_last _ _ _ Hb') as (tc & ->).
  eexists (ta ++ ta' ++ tc), _. now rewrite <- !app_assoc.
Qed.

(* ---------------------------------------------------------------- every linearisation is a reordering *)

Lemma existsb_eqb_In u l : existsb (N.eqb u) l = true <-> In u l.
Proof.
  rewrite existsb_exists. split.
  - intros (x & Hx & E). apply N.eqb_eq in E. now subst.
  - intros H. exists u. split; auto. apply N.eqb_refl.
Qed.

Lemma indepb_indep x y : indepb x y = true -> indep x y.
Proof.
  unfold indepb, indep. rewrite !andb_true_iff, negb_true_iff, N.eqb_neq. intros ((NU & Cx) & Cy).
  split; auto. split.
  - intros u E. rewrite E in Cx. rewrite negb_true_iff in Cx. intros I. apply existsb_eqb_In in I. congruence.
  - intros u E. rewrite E in Cy. rewrite negb_true_iff in Cy. intros I. apply existsb_eqb_In in I. congruence.
Qed.

Lemma before_in_r {A} (l : list A) x y : before l x y -> In y l.
Proof. induction 1; simpl; auto. Qed.

Lemma before_in_l {A} (l : list A) x y : before l x y -> In x l.
Proof. induction 1; simpl; auto. Qed.

Lemma before_insert {A} (a b : list A) y x z : before (a ++ b) x z -> before (a ++ y :: b) x z.
Proof.
  induction a as [|h a IH]; simpl; intros H.
  - now apply bf_skip.
  - inversion H; subst.
    + apply bf_here. rewrite in_app_iff in *. simpl. tauto.
    + apply bf_skip. auto.
Qed.

Lemma before_split {A} (a b : list A) x y : In x a -> before (a ++ y :: b) x y.
Proof.
  induction a as [|h a IH]; simpl; intros H; [contradiction|].
  destruct H as [->|H].
  - apply bf_here. rewrite in_app_iff. simpl. auto.
  - apply bf_skip. auto.
Qed.

Lemma reorder_trans a b c : reorder a b -> reorder b c -> reorder a c.
Proof. intros H1 H2. induction H2; auto. apply RO_swap; auto. Qed.

Lemma reorder_cons y l t : reorder l t -> reorder (y :: l) (y :: t).
Proof.
  induction 1 as [l|l a x z b Hr IH I]; [apply RO_refl|].
  apply (RO_swap (y :: l) (y :: a) x z b); auto.
Qed.

Lemma bubble l y a : forall b,
  (forall x, In x a -> indep x y) -> reorder l (a ++ y :: b) -> reorder l (y :: a ++ b).
Proof.
  induction a as [|x a IH] using rev_ind; intros b I H; simpl in *; auto.
  rewrite <- app_assoc in H. simpl in H.
  assert (H' : reorder l (a ++ y :: x :: b)).
  { apply RO_swap; auto. apply I. apply in_or_app. right. simpl. auto. }
  specialize (IH (x :: b) (fun z Hz => I z (in_or_app _ _ _ (or_introl Hz))) H').
  now rewrite <- app_assoc.
Qed.

Theorem linearisation_reorder t : forall c, NoDup c -> linearisation c t -> reorder c t.
Proof.
  induction t as [|y t IH]; intros c ND (P & O).
  - apply Permutation_sym, Permutation_nil in P. subst. apply RO_refl.
  - assert (Hy : In y c) by (eapply Permutation_in; [apply Permutation_sym; exact P|simpl; auto]).
    destruct (in_split _ _ Hy) as (a & b & ->).
    assert (NDt : NoDup (y :: t)) by (eapply Permutation_NoDup; eauto).
    assert (Ny : ~ In y (a ++ b)) by (apply NoDup_remove_2; auto).
    assert (NDab : NoDup (a ++ b)) by (eapply NoDup_remove_1; eauto).
    assert (A : forall x, In x a -> indep x y).
    { intros x Hx. destruct (indepb x y) eqn:E; [now apply indepb_indep|]. exfalso.
      pose proof (O x y (before_split a b x y Hx) E) as B.
      inversion B; subst.
      - apply Ny. apply in_or_app. auto.
      - inversion NDt; subst. apply before_in_r in H3. contradiction. }
    eapply reorder_trans.
    + apply (bubble (a ++ y :: b) y a b A). apply RO_refl.
    + apply reorder_cons. apply IH; auto. split.
      * apply Permutation_cons_inv with (a := y).
        eapply Permutation_trans; [|exact P]. apply Permutation_middle.
      * intros x z B D. pose proof (O x z (before_insert a b y x z B) D) as B'.
        inversion B'; subst; auto.
        exfalso. apply Ny. eapply before_in_l; eauto.
Qed.

(* ---------------------------------------------------------------- the operations of a graph run are pairwise distinct *)

Lemma NoDup_app_intro {A} (l1 l2 : list A) :
  NoDup l1 -> NoDup l2 -> (forall x, In x l1 -> In x l2 -> False) -> NoDup (l1 ++ l2).
Proof.
  induction l1 as [|a l1 IH]; simpl; intros N1 N2 D; auto.
  inversion N1; subst. constructor.
  - rewrite in_app_iff. intros [H|H]; [auto|]. eapply D; eauto.
  - apply IH; auto. intros x H1' H2'. eapply D; eauto.
Qed.

Lemma NoDup_app_units (l1 l2 : list op) (U1 U2 : list ukey) :
  NoDup l1 -> NoDup l2 ->
  (forall o, In o l1 -> In (op_unit o) U1) -> (forall o, In o l2 -> In (op_unit o) U2) ->
  (forall u, In u U1 -> In u U2 -> False) -> NoDup (l1 ++ l2).
Proof.
  intros N1 N2 H1 H2 D. apply NoDup_app_intro; auto.
  intros x Hx1 Hx2. apply (D (op_unit x)); auto.
Qed.

Lemma stage_ops_NoDup (F : gnode -> list op * bool) st :
  NoDup (flat_map uids st) ->
  (forall m, In m st -> NoDup (uids m) -> NoDup (fst (F m))) ->
  (forall m o, In m st -> In o (fst (F m)) -> In (op_unit o) (uids m)) ->
  NoDup (List.concat (map fst (map F st))).
Proof.
  induction st as [|m st IH]; simpl; intros N HN HU; [constructor|].
  apply (NoDup_app_units _ _ (uids m) (flat_map uids st)).
  - apply HN; auto. eapply NoDup_app_l; eauto.
  - apply IH; [eapply NoDup_app_r; eauto| |]; intros; [apply HN|eapply HU]; eauto.
  - intros o Ho. apply (HU m); auto.
  - intros o Ho. apply in_concat in Ho. destruct Ho as (l & Hl & Hol).
    rewrite map_map in Hl. apply in_map_iff in Hl. destruct Hl as (m' & <- & Hm').
    apply in_flat_map. exists m'. split; [auto | apply (HU m'); auto].
  - intros u H1 H2. eapply NoDup_app_disj; eauto.
Qed.

Lemma stages_ops_NoDup (F : gnode -> list op * bool) stages :
  NoDup (stages_uids stages) ->
  (forall st m, In st stages -> In m st -> NoDup (uids m) -> NoDup (fst (F m))) ->
  (forall st m o, In st stages -> In m st -> In o (fst (F m)) -> In (op_unit o) (uids m)) ->
  NoDup (List.concat (map (fun st => List.concat (map fst st)) (map (map F) stages))).
Proof.
  unfold stages_uids. induction stages as [|st stages IH]; simpl; intros N HN HU; [constructor|].
  apply (NoDup_app_units _ _ (flat_map uids st) (flat_map (flat_map uids) stages)).
  - apply stage_ops_NoDup; [eapply NoDup_app_l; eauto| |]; intros; [eapply HN|eapply HU]; eauto.
  - apply IH; [eapply NoDup_app_r; eauto| |]; intros; [eapply HN|eapply HU]; eauto.
  - intros o Ho. apply in_concat in Ho. destruct Ho as (l & Hl & Hol).
    rewrite map_map in Hl. apply in_map_iff in Hl. destruct Hl as (m' & <- & Hm').
    apply in_flat_map. exists m'. split; [auto | apply (HU st m'); auto].
  - intros o Ho. apply in_concat in Ho. destruct Ho as (l & Hl & Hol).
    rewrite map_map in Hl. apply in_map_iff in Hl. destruct Hl as (st' & <- & Hst').
    apply in_concat in Hol. destruct Hol as (l2 & Hl2 & Hol2).
    rewrite map_map in Hl2. apply in_map_iff in Hl2. destruct Hl2 as (m' & <- & Hm').
    apply in_flat_map. exists st'. split; [auto|]. apply in_flat_map. exists m'. split; [auto|].
    apply (HU st' m'); auto.
  - intros u H1 H2. eapply NoDup_app_disj; eauto.
Qed.

Lemma stages_uids_app a b : stages_uids (a ++ b) = stages_uids a ++ stages_uids b.
Proof. unfold stages_uids. apply flat_map_app. Qed.

Lemma start_end_distinct (u : ukey) p (b : bool) : OOn u (start_timing_of p) <> OOn u (if b then TError else end_timing_of p).
Proof.
  intros E. injection E as E. pose proof (start_timing_is_start p) as S. rewrite E in S.
  destruct b; [discriminate|]. now rewrite end_timing_is_end in S.
Qed.

Lemma graph_start_end_distinct (u : ukey) is_stream (b : bool) :
  OOn u (graph_start is_stream) <> OOn u (if b then TError else graph_end is_stream).
Proof. destruct is_stream, b; simpl; intros E; discriminate. Qed.

(* the body of a graph run: start, the executed stages, end *)
Lemma graph_body_NoDup is_stream g ok opts (F : gnode -> list op * bool) stages :
  ~ In g (stages_uids stages) -> NoDup (stages_uids stages) ->
  (forall st m, In st stages -> In m st -> snd (F m) = node_fails opts m) ->
  (forall st m, In st stages -> In m st -> NoDup (uids m) -> NoDup (fst (F m))) ->
  (forall st m o, In st stages -> In m st -> In o (fst (F m)) -> In (op_unit o) (uids m)) ->
  NoDup (fst (graph_body is_stream g ok (map (map F) stages))).
Proof.
  intros Ng N Hf HN HU. unfold graph_body. destruct ok; simpl.
  2:{ constructor; [simpl; intros [E|[]]; symmetry in E; revert E; apply (graph_start_end_distinct g is_stream true)|constructor; auto; constructor]. }
  rewrite stages_body_exec. cbn [fst snd].
  rewrite (exec_rs_map F (node_fails opts) stages Hf).
  destruct (exec_st_prefix (node_fails opts) stages) as (rest & Erest).
  set (ex := exec_st (node_fails opts) stages) in *.
  assert (Nex : NoDup (stages_uids ex)) by (rewrite Erest, stages_uids_app in N; eapply NoDup_app_l; eauto).
  assert (Hin : forall st, In st ex -> In st stages) by (intros st; apply exec_st_incl).
  assert (NB : NoDup (List.concat (map (fun st => List.concat (map fst st)) (map (map F) ex)))).
  { apply stages_ops_NoDup; auto; intros; [eapply HN|eapply HU]; eauto. }
  assert (UB : forall o, In o (List.concat (map (fun st => List.concat (map fst st)) (map (map F) ex))) ->
                 In (op_unit o) (stages_uids stages)).
  { intros o Ho. apply in_concat in Ho. destruct Ho as (l & Hl & Hol).
    rewrite map_map in Hl. apply in_map_iff in Hl. destruct Hl as (st' & <- & Hst').
    apply in_concat in Hol. destruct Hol as (l2 & Hl2 & Hol2).
    rewrite map_map in Hl2. apply in_map_iff in Hl2. destruct Hl2 as (m' & <- & Hm').
    eapply in_stages_uids; eauto. }
  constructor.
  - rewrite in_app_iff. intros [H|[E|[]]].
    + apply UB in H. simpl in H. contradiction.
    + symmetry in E. revert E. apply graph_start_end_distinct.
  - apply NoDup_app_intro; auto.
    + constructor; auto. constructor.
    + intros x Hx [<-|[]]. apply UB in Hx. simpl in Hx. contradiction.
Qed.

Lemma node_ops_NoDup is_stream n : forall parent opts,
  NoDup (uids n) -> NoDup (fst (node_ops is_stream parent opts n)).
Proof.
  induction n as [uid key inf natives fails|uid key|uid key inf stages IH|uid key inf calls|] using gnode_ind';
    intros parent opts ND.
  - simpl. constructor; [simpl; intros [E|[E|[]]]; discriminate|].
    constructor; [simpl; intros [E|[]]; symmetry in E; revert E; apply start_end_distinct|]. constructor; auto. constructor.
  - simpl. constructor; auto. constructor.
  - cbn [node_ops fst]. cbn [uids] in ND. fold (stages_uids stages) in ND. inversion ND as [|? ? Ng N']; subst.
    constructor.
    + intros H. apply graph_body_in in H. destruct H as [[t E]|(st & m & Hs & Hm & Ho)]; [discriminate|].
      apply node_ops_units in Ho. simpl in Ho. apply Ng. eapply in_stages_uids; eauto.
    + apply (graph_body_NoDup is_stream uid _ (sub_opts key opts)); auto.
      * intros; apply node_ops_fails.
      * intros st m Hs Hm. apply (FF_in _ _ _ _ IH Hs Hm).
      * intros st m o Hs Hm. apply node_ops_units.
  - cbn [node_ops fst]. cbn [uids] in ND. inversion ND as [|? ? Ng N']; subst.
    set (cu := fun c : ukey * info * N * bool => fst (fst (fst c))) in *.
    assert (UC : forall o, In o (flat_map (call_ops is_stream uid) calls) -> In (op_unit o) (map cu calls)).
    { intros o Ho. apply in_flat_map in Ho. destruct Ho as (c & Hc & Ho). apply in_map_iff. exists c. split; auto.
      destruct c as [[[c1 cinf] natives] fails]. simpl in Ho. destruct Ho as [<-|[<-|[<-|[]]]]; reflexivity. }
    assert (NC : NoDup (flat_map (call_ops is_stream uid) calls)).
    { clear Ng UC ND. induction calls as [|c calls IHc]; simpl; [constructor|].
      simpl in N'. inversion N' as [|? ? Nc N'']; subst.
      apply (NoDup_app_units _ _ [cu c] (map cu calls)).
      - destruct c as [[[c1 cinf] natives] fails]. simpl.
        constructor; [simpl; intros [E|[E|[]]]; discriminate|].
        constructor; [simpl; intros [E|[]]; symmetry in E; revert E; apply start_end_distinct|]. constructor; auto. constructor.
      - apply IHc; auto.
      - intros o Ho. destruct c as [[[c1 cinf] natives] fails]. simpl in Ho.
        destruct Ho as [<-|[<-|[<-|[]]]]; simpl; auto.
      - intros o Ho. apply in_flat_map in Ho. destruct Ho as (c' & Hc' & Ho'). apply in_map_iff. exists c'. split; auto.
        destruct c' as [[[c1 cinf] natives] fails]. simpl in Ho'. destruct Ho' as [<-|[<-|[<-|[]]]]; reflexivity.
      - intros u [<-|[]] H. auto. }
    constructor; [simpl; intros [E|H]; [discriminate|]|].
    { apply in_app_or in H. destruct H as [H|[E|[]]]; [|discriminate]. apply UC in H. simpl in H. contradiction. }
    constructor.
    { intros H. apply in_app_or in H. destruct H as [H|[E|[]]].
      - apply UC in H. simpl in H. contradiction.
      - symmetry in E. revert E. apply start_end_distinct. }
    apply NoDup_app_intro; auto.
    + constructor; auto. constructor.
    + intros x Hx [<-|[]]. apply UC in Hx. simpl in Hx. contradiction.
  - simpl. constructor.
Qed.

Theorem graph_ops_NoDup is_stream g ginf opts stages :
  NoDup (g :: stages_uids stages) -> NoDup (graph_ops is_stream g ginf opts stages).
Proof.
  intros N. inversion N as [|? ? Ng N']; subst. unfold graph_ops. constructor.
  - intros H. apply graph_body_in in H. destruct H as [[t E]|(st & m & Hs & Hm & Ho)]; [discriminate|].
    apply node_ops_units in Ho. simpl in Ho. apply Ng. eapply in_stages_uids; eauto.
  - apply (graph_body_NoDup is_stream g _ opts); auto.
    + intros; apply node_ops_fails.
    + intros st m Hs Hm. apply node_ops_NoDup.
    + intros st m o Hs Hm. apply node_ops_units.
Qed.

(* the engine theorem for every linearisation of the causal order of the canonical schedule *)
Theorem linearisation_unit_logs w is_stream g ginf opts stages t :
  NoDup (g :: stages_uids stages) ->
  linearisation (graph_ops is_stream g ginf opts stages) t ->
  forall e, In e (graph_table is_stream g ginf opts stages) ->
    filter (of_unit (ue_unit e)) (st_log (run_script true w t)) = uexp_events w e.
Proof.
  intros N L. apply (eager_unit_logs w is_stream g ginf opts stages (graph_ops is_stream g ginf opts stages) t N).
  - apply graph_ops_is_a_schedule.
  - apply linearisation_reorder; auto. now apply graph_ops_NoDup.
Qed.

(* ---------------------------------------------------------------- ... and every reordering is a linearisation *)

Lemma indep_indepb x y : indep x y -> indepb x y = true.
Proof.
  unfold indepb, indep. intros (NU & Cx & Cy). rewrite !andb_true_iff, negb_true_iff, N.eqb_neq.
  split; [split; auto|].
  - destruct (op_creates x) as [u|]; auto. rewrite negb_true_iff.
    destruct (existsb (N.eqb u) (op_reads y)) eqn:E; auto. apply existsb_eqb_In in E. exfalso. eapply Cx; eauto.
  - destruct (op_creates y) as [u|]; auto. rewrite negb_true_iff.
    destruct (existsb (N.eqb u) (op_reads x)) eqn:E; auto. apply existsb_eqb_In in E. exfalso. eapply Cy; eauto.
Qed.

Lemma before_swap {A} (a b : list A) x y p q :
  before (a ++ x :: y :: b) p q -> before (a ++ y :: x :: b) p q \/ (p = x /\ q = y).
Proof.
  induction a as [|h a IH]; simpl; intros H.
  - inversion H as [l p' q' Hin|h' l p' q' Hb]; subst.
    + destruct Hin as [<-|Hin]; [right; auto|]. left. apply bf_skip. now apply bf_here.
    + inversion Hb as [l p' q' Hin|h' l p' q' Hb']; subst.
      * left. apply bf_here. simpl. auto.
      * left. apply bf_skip. now apply bf_skip.
  - inversion H as [l p' q' Hin|h' l p' q' Hb]; subst.
    + left. apply bf_here. rewrite in_app_iff in *. simpl in *. tauto.
    + destruct (IH Hb) as [B|E]; auto. left. now apply bf_skip.
Qed.

Theorem reorder_linearisation c t : reorder c t -> linearisation c t.
Proof.
  induction 1 as [l|l a x y b Hr (P & O) I].
  - split; auto.
  - split.
    + eapply Permutation_trans; [exact P|]. apply Permutation_app_head. apply perm_swap.
    + intros p q B D. destruct (before_swap a b x y p q (O p q B D)) as [B'|(-> & ->)]; auto.
      rewrite (indep_indepb _ _ I) in D. discriminate.
Qed.
