(* Proofs/CallbacksEager.v — exchanging adjacent independent operations changes neither the
   context of any unit, nor the events of any unit, nor the flag: every reordering of a schedule
   (Model/CallbacksEager.v [reorder]) serves every unit exactly what the schedule serves it.
   Hence the engine theorems hold for the executions of the eager task collection too. *)
From Coq Require Import List Arith Lia Bool NArith.
From Eino Require Import Base.Util Base.GoSlice Model.Callbacks Model.CallbacksSched Model.CallbacksEager.
From Eino Require Import Proofs.CallbacksSlice Proofs.Callbacks Proofs.CallbacksEngine Proofs.CallbacksSched.
Import ListNotations.

(* ---------------------------------------------------------------- a step as an effect *)

(* what a step does, given only the lookup function: a new binding, new events, the flag *)
Definition effect (w : world) (lk : ukey -> option sctx) (o : op) : option (ukey * sctx) * list event * bool :=
  match o with
  | ORaw new inf _ hs _ => (Some (new, snew w inf hs), [], false)
  | OAppend parent new inf opts =>
      match (match parent with None => Some None | Some p => lk p end) with
      | None => (None, [], true)
      | Some c => (Some (new, snew w inf (slist c ++ List.concat opts)), [], false)
      end
  | OReuse p new inf =>
      match lk p with
      | None => (None, [], true)
      | Some c => (Some (new, match c with None => None | Some (l, _) => Some (l, inf) end), [], false)
      end
  | OOn u t =>
      match lk u with
      | None => (None, [], true)
      | Some None => (None, [], false)
      | Some (Some (l, inf)) => (None, events_of u t inf (select w t (l ++ w_globals w)), false)
      end
  | OAlias src new inf lo hi =>
      match lk src with
      | Some (Some (l, _)) =>
          if (lo <=? hi)%nat && (hi <=? List.length l)%nat
          then (Some (new, snew w inf (firstn (hi - lo) (skipn lo l))), [], false)
          else (None, [], true)
      | _ => (None, [], true)
      end
  end.

Definition apply (s : sstate) (e : option (ukey * sctx) * list event * bool) : sstate :=
  {| ss_ctxs := match fst (fst e) with Some kv => kv :: ss_ctxs s | None => ss_ctxs s end;
     ss_log := ss_log s ++ snd (fst e);
     ss_bad := ss_bad s || snd e |}.

Definition lk (s : sstate) (u : ukey) : option sctx := lookup u (ss_ctxs s).

(* same contexts, same events per unit, same flag *)
Definition seq (s s' : sstate) : Prop :=
  ss_bad s = ss_bad s' /\ (forall u, lk s u = lk s' u) /\
  (forall u, filter (of_unit u) (ss_log s) = filter (of_unit u) (ss_log s')).

Lemma seq_refl s : seq s s.
Proof. repeat split; auto. Qed.

Lemma seq_trans a b c : seq a b -> seq b c -> seq a c.
Proof.
  intros (B1 & L1 & G1) (B2 & L2 & G2). split; [congruence|].
  split; intros u; [rewrite L1|rewrite G1]; auto.
Qed.

Lemma sstep_apply w s o : seq (sstep w s o) (apply s (effect w (lk s) o)).
Proof.
  unfold seq, apply, lk.
  destruct o as [new inf o0 hs spare | parent new inf opts | p new inf | v t | src new inf lo hi]; simpl.
  - rewrite app_nil_r, orb_false_r. repeat split; auto.
  - destruct (match parent with None => Some None | Some p => lookup p (ss_ctxs s) end); simpl;
      rewrite app_nil_r; [rewrite orb_false_r|rewrite orb_true_r]; repeat split; auto.
  - destruct (lookup p (ss_ctxs s)); simpl;
      rewrite app_nil_r; [rewrite orb_false_r|rewrite orb_true_r]; repeat split; auto.
  - destruct (lookup v (ss_ctxs s)) as [[[l inf]|]|]; simpl.
    + rewrite orb_false_r. repeat split; auto.
    + rewrite app_nil_r, orb_false_r. destruct s; repeat split; auto.
    + rewrite app_nil_r, orb_true_r. repeat split; auto.
  - destruct (lookup src (ss_ctxs s)) as [[[l inf']|]|]; simpl.
    + destruct ((lo <=? hi)%nat && (hi <=? List.length l)%nat); simpl;
        rewrite app_nil_r; [rewrite orb_false_r|rewrite orb_true_r]; repeat split; auto.
    + rewrite app_nil_r, orb_true_r. repeat split; auto.
    + rewrite app_nil_r, orb_true_r. repeat split; auto.
Qed.

(* the effect depends only on the contexts the operation reads *)
Lemma effect_ext w f f' o : (forall u, In u (op_reads o) -> f u = f' u) -> effect w f o = effect w f' o.
Proof.
  destruct o as [new inf o0 hs spare | [p|] new inf opts | p new inf | v t | src new inf lo hi]; simpl; intros H; auto;
    rewrite (H _ (or_introl eq_refl)); auto.
Qed.

(* what an effect binds and whom its events belong to *)
Lemma effect_binds w f o kv : fst (fst (effect w f o)) = Some kv -> op_creates o = Some (fst kv) /\ op_unit o = fst kv.
Proof.
  destruct o as [new inf o0 hs spare | parent new inf opts | p new inf | v t | src new inf lo hi]; simpl.
  - intros [= <-]. auto.
  - destruct (match parent with None => Some None | Some p => f p end); simpl; [intros [= <-]; auto|discriminate].
  - destruct (f p); simpl; [intros [= <-]; auto|discriminate].
  - destruct (f v) as [[[l inf]|]|]; simpl; discriminate.
  - destruct (f src) as [[[l inf']|]|]; simpl; try discriminate.
    destruct ((lo <=? hi)%nat && (hi <=? List.length l)%nat); simpl; [intros [= <-]; auto|discriminate].
Qed.

Lemma effect_events w f o e : In e (snd (fst (effect w f o))) -> ev_unit e = op_unit o.
Proof.
  destruct o as [new inf o0 hs spare | parent new inf opts | p new inf | v t | src new inf lo hi]; simpl.
  - contradiction.
  - destruct (match parent with None => Some None | Some p => f p end); simpl; contradiction.
  - destruct (f p); simpl; contradiction.
  - destruct (f v) as [[[l inf]|]|]; simpl; try contradiction.
    unfold events_of. rewrite in_map_iff. intros (x & <- & _). reflexivity.
  - destruct (f src) as [[[l inf']|]|]; simpl; try contradiction.
    destruct ((lo <=? hi)%nat && (hi <=? List.length l)%nat); simpl; contradiction.
Qed.

Lemma lk_apply s e u :
  lk (apply s e) u = match fst (fst e) with
                     | Some kv => if N.eqb u (fst kv) then Some (snd kv) else lk s u
                     | None => lk s u
                     end.
Proof. unfold lk, apply. simpl. destruct (fst (fst e)) as [[k c]|]; simpl; auto. Qed.

Lemma apply_seq s s' e : seq s s' -> seq (apply s e) (apply s' e).
Proof.
  intros (B & L & G). repeat split.
  - simpl. now rewrite B.
  - intros u. rewrite !lk_apply. destruct (fst (fst e)) as [kv|]; auto. now rewrite L.
  - intros u. simpl. rewrite !filter_app. now rewrite G.
Qed.

Lemma effect_seq w s s' o : seq s s' -> effect w (lk s) o = effect w (lk s') o.
Proof. intros (_ & L & _). apply effect_ext. intros u _. apply L. Qed.

Lemma seq_sym a b : seq a b -> seq b a.
Proof. intros (B & L & G). repeat split; auto. Qed.

Lemma sstep_seq w s s' o : seq s s' -> seq (sstep w s o) (sstep w s' o).
Proof.
  intros E.
  eapply seq_trans; [apply sstep_apply|].
  eapply seq_trans; [|apply seq_sym, sstep_apply].
  rewrite (effect_seq w s s' o E). now apply apply_seq.
Qed.

Lemma run_seq_cong w ops : forall s s', seq s s' -> seq (run_spec_from w s ops) (run_spec_from w s' ops).
Proof.
  induction ops as [|o ops IH]; simpl; intros s s' E; auto.
  apply IH. now apply sstep_seq.
Qed.

(* ---------------------------------------------------------------- exchanging two independent operations *)

Lemma filter_none_unit u (l : list event) v : (forall e, In e l -> ev_unit e = v) -> v <> u -> filter (of_unit u) l = [].
Proof.
  intros H N. apply filter_nil_iff. intros e He. unfold of_unit. rewrite (H e He).
  apply N.eqb_neq. auto.
Qed.

Lemma swap_seq w s x y : indep x y -> seq (sstep w (sstep w s x) y) (sstep w (sstep w s y) x).
Proof.
  intros (NU & Cxy & Cyx).
  set (ex := effect w (lk s) x). set (ey := effect w (lk s) y).
  (* after x the contexts y reads are unchanged, and conversely *)
  assert (Ey : effect w (lk (apply s ex)) y = ey).
  { apply effect_ext. intros u Hu. rewrite lk_apply. destruct (fst (fst ex)) as [kv|] eqn:B; auto.
    destruct (effect_binds _ _ _ _ B) as (C & _). destruct (N.eqb u (fst kv)) eqn:E; auto.
    apply N.eqb_eq in E. subst u. exfalso. eapply Cxy; eauto. }
  assert (Ex : effect w (lk (apply s ey)) x = ex).
  { apply effect_ext. intros u Hu. rewrite lk_apply. destruct (fst (fst ey)) as [kv|] eqn:B; auto.
    destruct (effect_binds _ _ _ _ B) as (C & _). destruct (N.eqb u (fst kv)) eqn:E; auto.
    apply N.eqb_eq in E. subst u. exfalso. eapply Cyx; eauto. }
  assert (L : seq (sstep w (sstep w s x) y) (apply (apply s ex) ey)).
  { eapply seq_trans; [apply sstep_seq, sstep_apply|]. fold ex.
    eapply seq_trans; [apply sstep_apply|]. rewrite Ey. apply seq_refl. }
  assert (Rr : seq (sstep w (sstep w s y) x) (apply (apply s ey) ex)).
  { eapply seq_trans; [apply sstep_seq, sstep_apply|]. fold ey.
    eapply seq_trans; [apply sstep_apply|]. rewrite Ex. apply seq_refl. }
  eapply seq_trans; [exact L|]. eapply seq_trans; [|apply seq_sym; exact Rr].
  repeat split.
  - simpl. now rewrite <- !orb_assoc, (orb_comm (snd ex)).
  - intros u. rewrite !lk_apply.
    destruct (fst (fst ex)) as [kx|] eqn:Bx, (fst (fst ey)) as [ky|] eqn:By; auto.
    destruct (effect_binds _ _ _ _ Bx) as (_ & Ux). destruct (effect_binds _ _ _ _ By) as (_ & Uy).
    destruct (N.eqb u (fst ky)) eqn:E1, (N.eqb u (fst kx)) eqn:E2; auto.
    apply N.eqb_eq in E1, E2. exfalso. apply NU. congruence.
  - intros u. simpl. rewrite <- !app_assoc, !filter_app. f_equal.
    destruct (N.eq_dec (op_unit x) u) as [Hx|Hx].
    + rewrite (filter_none_unit u (snd (fst ey)) (op_unit y)); [now rewrite app_nil_r| |congruence].
      intros e He. eapply effect_events; eauto.
    + rewrite (filter_none_unit u (snd (fst ex)) (op_unit x)); [now rewrite app_nil_r| |auto].
      intros e He. eapply effect_events; eauto.
Qed.

Lemma run_spec_from_app w s a b : run_spec_from w s (a ++ b) = run_spec_from w (run_spec_from w s a) b.
Proof. unfold run_spec_from. apply fold_left_app. Qed.

Theorem reorder_seq w c t : reorder c t -> seq (run_spec w c) (run_spec w t).
Proof.
  induction 1 as [l|l a x y b Hr IH I]; [apply seq_refl|].
  eapply seq_trans; [exact IH|]. unfold run_spec.
  rewrite !run_spec_from_app. simpl. apply run_seq_cong. now apply swap_seq.
Qed.

(* ---------------------------------------------------------------- consequences at the heap level *)

Theorem reorder_unit_logs w c t :
  reorder c t ->
  forall u, filter (of_unit u) (st_log (run_script true w t)) = filter (of_unit u) (st_log (run_script true w c)).
Proof.
  intros Hr u. rewrite !script_log_spec. symmetry. apply (reorder_seq w c t Hr).
Qed.

Theorem reorder_flag w c t : reorder c t -> st_bad (run_script true w t) = st_bad (run_script true w c).
Proof.
  intros Hr. destruct (script_refines_spec w t) as (B1 & _). destruct (script_refines_spec w c) as (B2 & _).
  rewrite B1, B2. symmetry. apply (reorder_seq w c t Hr).
Qed.

Lemma reorder_in c t : reorder c t -> forall o, In o t <-> In o c.
Proof.
  induction 1 as [l|l a x y b Hr IH I]; intros o; [tauto|].
  rewrite <- IH. rewrite !in_app_iff. simpl. tauto.
Qed.

(* the engine theorems for every reordering of every schedule of the program tree *)
Theorem eager_unit_logs w is_stream g ginf opts stages t0 t :
  NoDup (g :: stages_uids stages) ->
  traces (graph_prog is_stream g ginf opts stages) t0 -> reorder t0 t ->
  forall e, In e (graph_table is_stream g ginf opts stages) ->
    filter (of_unit (ue_unit e)) (st_log (run_script true w t)) = uexp_events w e.
Proof.
  intros N T Hr e He. rewrite (reorder_unit_logs w t0 t Hr).
  exact (engine_unit_logs w is_stream g ginf opts stages t0 N T e He).
Qed.

Theorem eager_no_other_events w is_stream g ginf opts stages t0 t :
  NoDup (g :: stages_uids stages) ->
  traces (graph_prog is_stream g ginf opts stages) t0 -> reorder t0 t ->
  forall ev, In ev (st_log (run_script true w t)) ->
    exists e, In e (graph_table is_stream g ginf opts stages) /\ ev_unit ev = ue_unit e /\
              In ev (uexp_events w e).
Proof.
  intros N T Hr ev Hev.
  assert (H0 : In ev (st_log (run_script true w t0))).
  { assert (F : In ev (filter (of_unit (ev_unit ev)) (st_log (run_script true w t)))).
    { apply filter_In. split; auto. unfold of_unit. apply N.eqb_refl. }
    rewrite (reorder_unit_logs w t0 t Hr) in F. apply filter_In in F. tauto. }
  exact (engine_no_other_events w is_stream g ginf opts stages t0 N T ev H0).
Qed.

Theorem eager_never_flagged w is_stream g ginf opts stages t0 t :
  NoDup (g :: stages_uids stages) ->
  traces (graph_prog is_stream g ginf opts stages) t0 -> reorder t0 t ->
  st_bad (run_script true w t) = false.
Proof.
  intros N T Hr. rewrite (reorder_flag w t0 t Hr). exact (engine_never_flagged w is_stream g ginf opts stages t0 N T).
Qed.

Theorem eager_exactly_once_paired w is_stream g ginf opts stages t0 t :
  NoDup (g :: stages_uids stages) ->
  traces (graph_prog is_stream g ginf opts stages) t0 -> reorder t0 t ->
  forall e, In e (graph_table is_stream g ginf opts stages) ->
  forall s f, ue_timings e = [s; f] ->
  forall x tm,
    List.length (filter (is_ev (ue_unit e) x tm (ue_info e)) (st_log (run_script true w t))) =
    if (timing_eqb tm s || timing_eqb tm f) && w_needs w x tm
    then count_occ N.eq_dec (ue_list e ++ w_globals w) x else 0%nat.
Proof.
  intros N T Hr e He s f Ht x tm.
  rewrite <- (engine_exactly_once_paired w is_stream g ginf opts stages t0 N T e He s f Ht x tm).
  rewrite (count_unit_events _ _ _ _ (st_log (run_script true w t))).
  rewrite (count_unit_events _ _ _ _ (st_log (run_script true w t0))).
  now rewrite (reorder_unit_logs w t0 t Hr).
Qed.

(* ---------------------------------------------------------------- an eager execution that is no schedule of the tree *)

Lemma traces_seq_last a o t : traces (PSeq a (PAtom o)) t -> exists ta, t = ta ++ [o].
Proof.
  intros T. inversion T as [| |a' b' ta tb Ha Hb|]; subst.
  inversion Hb; subst. eauto.
Qed.

(* every schedule of the tree of a run whose options are accepted ends with the graph's own
   end-or-error callback *)
Lemma graph_prog_last is_stream g ginf opts stages t :
  graph_ok stages opts = true ->
  traces (graph_prog is_stream g ginf opts stages) t ->
  exists t' tm, t = t' ++ [OOn g tm].
Proof.
  intros OK T. unfold graph_prog, graph_body_prog in T. rewrite OK in T. simpl in T.
  inversion T as [| |a b ta tb Ha Hb|]; subst.
  inversion Hb as [| |a' b' ta' tb' Ha' Hb'|]; subst.
  destruct (traces_seq_last _ _ _ Hb') as (tc & ->).
  eexists (ta ++ ta' ++ tc), _. now rewrite <- !app_assoc.
Qed.
