(* Proofs/CallbacksSched.v — every schedule of a nested graph run: per execution unit the
   event log is exactly what [graph_table] says ([engine_exactly_once_paired]). *)
From Coq Require Import List Arith Lia Bool NArith Permutation.
From Eino Require Import Base.Util Base.GoSlice Model.Callbacks Model.CallbacksSched.
From Eino Require Import Proofs.CallbacksSlice Proofs.Callbacks Proofs.CallbacksEngine.
Import ListNotations.

(* ---------------------------------------------------------------- interleavings of two lists *)

Lemma merge_nil_r {A} (l t : list A) : Merge l [] t -> t = l.
Proof.
  remember [] as e eqn:He. induction 1 as [|a l1 l2 l M IH|a l1 l2 l M IH]; auto; try discriminate.
  f_equal. auto.
Qed.

Lemma merge_nil_l {A} (l t : list A) : Merge [] l t -> t = l.
Proof.
  remember [] as e eqn:He. induction 1 as [|a l1 l2 l M IH|a l1 l2 l M IH]; auto; try discriminate.
  f_equal. auto.
Qed.

Lemma merge_filter {A} (f : A -> bool) l1 l2 t :
  Merge l1 l2 t -> Merge (filter f l1) (filter f l2) (filter f t).
Proof.
  induction 1 as [|a l1 l2 l M IH|a l1 l2 l M IH]; simpl; try constructor.
  - destruct (f a); [constructor|]; auto.
  - destruct (f a); [constructor|]; auto.
Qed.

Lemma merge_in {A} (l1 l2 t : list A) x : Merge l1 l2 t -> (In x t <-> In x l1 \/ In x l2).
Proof.
  induction 1 as [|a l1 l2 l M IH|a l1 l2 l M IH]; simpl; tauto.
Qed.

(* the sequential schedule is one of the interleavings *)
Lemma merge_app {A} (l1 l2 : list A) : Merge l1 l2 (l1 ++ l2).
Proof.
  induction l1 as [|a l1 IH]; simpl.
  - induction l2 as [|b l2 IH2]; constructor; auto.
  - constructor; auto.
Qed.

Lemma merge_app_rev {A} (l1 l2 : list A) : Merge l1 l2 (l2 ++ l1).
Proof.
  induction l2 as [|a l2 IH]; simpl.
  - induction l1 as [|b l1 IH1]; constructor; auto.
  - constructor; auto.
Qed.

Lemma merge_perm {A} (l1 l2 t : list A) : Merge l1 l2 t -> Permutation t (l1 ++ l2).
Proof.
  induction 1 as [|a l1 l2 l M IH|a l1 l2 l M IH]; simpl; auto.
  rewrite IH. apply Permutation_middle.
Qed.

(* ---------------------------------------------------------------- schedules of a program *)

Lemma traces_flatten p : traces p (flatten p).
Proof.
  induction p as [|o|a IHa b IHb|a IHa b IHb]; simpl; try constructor; auto.
  econstructor; eauto. apply merge_app.
Qed.

Lemma traces_in p t : traces p t -> forall o, In o t <-> In o (flatten p).
Proof.
  induction 1 as [|o|a b ta tb Ha IHa Hb IHb|a b ta tb t Ha IHa Hb IHb M]; intros x; simpl; try tauto.
  - rewrite !in_app_iff, IHa, IHb. tauto.
  - rewrite (merge_in _ _ _ x M), in_app_iff, IHa, IHb. tauto.
Qed.

Lemma traces_perm p t : traces p t -> Permutation t (flatten p).
Proof.
  induction 1 as [|o|a b ta tb Ha IHa Hb IHb|a b ta tb t Ha IHa Hb IHb M]; simpl; auto.
  - now rewrite IHa, IHb.
  - rewrite (merge_perm _ _ _ M). now rewrite IHa, IHb.
Qed.

Lemma traces_atoms l t : traces (atoms l) t -> t = l.
Proof.
  revert t. induction l as [|o l IH]; intros t H; unfold atoms in *; simpl in H.
  - inversion H; auto.
  - inversion H as [| |a b ta tb Ha Hb|]; subst. inversion Ha; subst. simpl. f_equal. auto.
Qed.

Lemma traces_seq_atom o b t : traces (PSeq (PAtom o) b) t -> exists tb, t = o :: tb /\ traces b tb.
Proof.
  intros H. inversion H as [| |a b' ta tb Ha Hb|]; subst. inversion Ha; subst. exists tb. split; [reflexivity | assumption].
Qed.

(* no operation of p satisfies f *)
Definition nof (f : op -> bool) (p : prog) : Prop := forall o, In o (flatten p) -> f o = false.
Definition allf (f : op -> bool) (p : prog) : Prop := forall o, In o (flatten p) -> f o = true.

Lemma filter_nil_iff {A} (f : A -> bool) l : filter f l = [] <-> (forall x, In x l -> f x = false).
Proof.
  induction l as [|a l IH]; simpl; [tauto|].
  destruct (f a) eqn:E; split; intros H.
  - discriminate.
  - specialize (H a (or_introl eq_refl)). congruence.
  - intros x [<-|Hx]; auto. apply IH; auto.
  - apply IH. intros x Hx. apply H. auto.
Qed.

Lemma filter_all {A} (f : A -> bool) l : (forall x, In x l -> f x = true) -> filter f l = l.
Proof.
  induction l as [|a l IH]; simpl; intros H; auto.
  rewrite (H a (or_introl eq_refl)). f_equal. apply IH. intros x Hx. apply H. auto.
Qed.

Lemma nof_trace f p t : traces p t -> nof f p -> filter f t = [].
Proof.
  intros T N. apply filter_nil_iff. intros o Ho. apply N. now apply (traces_in p t T).
Qed.

Lemma allf_trace f p t : traces p t -> allf f p -> filter f t = t.
Proof.
  intros T N. apply filter_all. intros o Ho. apply N. now apply (traces_in p t T).
Qed.

(* at every parallel composition at most one side has operations satisfying f *)
Fixpoint par_ok (f : op -> bool) (p : prog) : Prop :=
  match p with
  | PNil | PAtom _ => True
  | PSeq a b => par_ok f a /\ par_ok f b
  | PPar a b => par_ok f a /\ par_ok f b /\ (nof f a \/ nof f b)
  end.

(* ... then the f-operations occur in every schedule in the same order *)
Lemma proj_filter f p t : traces p t -> par_ok f p -> filter f t = filter f (flatten p).
Proof.
  induction 1 as [|o|a b ta tb Ha IHa Hb IHb|a b ta tb t Ha IHa Hb IHb M]; simpl; auto.
  - intros [Pa Pb]. rewrite !filter_app, IHa, IHb; auto.
  - intros (Pa & Pb & N). rewrite filter_app, <- IHa, <- IHb by auto.
    pose proof (merge_filter f _ _ _ M) as MF.
    destruct N as [N|N].
    + rewrite (nof_trace f a ta Ha N) in *. simpl. now apply merge_nil_l.
    + rewrite (nof_trace f b tb Hb N) in *. rewrite app_nil_r. now apply merge_nil_r.
Qed.

(* q is the part of p selected by f *)
Inductive sub_at (f : op -> bool) : prog -> prog -> Prop :=
| SA_here : forall q, allf f q -> sub_at f q q
| SA_seq_l : forall a b q, sub_at f a q -> nof f b -> sub_at f (PSeq a b) q
| SA_seq_r : forall a b q, nof f a -> sub_at f b q -> sub_at f (PSeq a b) q
| SA_par_l : forall a b q, sub_at f a q -> nof f b -> sub_at f (PPar a b) q
| SA_par_r : forall a b q, nof f a -> sub_at f b q -> sub_at f (PPar a b) q.

(* ... then the projection of a schedule of p is a schedule of q *)
Lemma proj_traces f p t q : traces p t -> sub_at f p q -> traces q (filter f t).
Proof.
  intros T S. revert t T. induction S as [q A|a b q S IH N|a b q N S IH|a b q S IH N|a b q N S IH]; intros t T.
  - now rewrite (allf_trace f q t T A).
  - inversion T as [| |a' b' ta tb Ha Hb|]; subst.
    rewrite filter_app, (nof_trace f b tb Hb N), app_nil_r. auto.
  - inversion T as [| |a' b' ta tb Ha Hb|]; subst.
    rewrite filter_app, (nof_trace f a ta Ha N). simpl. auto.
  - inversion T as [| | |a' b' ta tb t' Ha Hb M]; subst.
    pose proof (merge_filter f _ _ _ M) as MF. rewrite (nof_trace f b tb Hb N) in MF.
    apply merge_nil_r in MF. rewrite MF. auto.
  - inversion T as [| | |a' b' ta tb t' Ha Hb M]; subst.
    pose proof (merge_filter f _ _ _ M) as MF. rewrite (nof_trace f a ta Ha N) in MF.
    apply merge_nil_l in MF. rewrite MF. auto.
Qed.

Lemma flatten_seq_list l : flatten (seq_list l) = List.concat (map flatten l).
Proof. induction l as [|p l IH]; simpl; auto. now rewrite IH. Qed.

Lemma flatten_par_list l : flatten (par_list l) = List.concat (map flatten l).
Proof. induction l as [|p l IH]; simpl; auto. now rewrite IH. Qed.

Lemma flatten_atoms l : flatten (atoms l) = l.
Proof. unfold atoms. rewrite flatten_seq_list. induction l as [|o l IH]; simpl; auto. now rewrite IH. Qed.

Lemma nof_seq_list f l : Forall (nof f) l -> nof f (seq_list l).
Proof.
  intros F o Ho. rewrite flatten_seq_list in Ho. apply in_concat in Ho. destruct Ho as (x & Hx & Hox).
  apply in_map_iff in Hx. destruct Hx as (p & <- & Hp). rewrite Forall_forall in F. now apply (F p).
Qed.

Lemma nof_par_list f l : Forall (nof f) l -> nof f (par_list l).
Proof.
  intros F o Ho. rewrite flatten_par_list in Ho. apply in_concat in Ho. destruct Ho as (x & Hx & Hox).
  apply in_map_iff in Hx. destruct Hx as (p & <- & Hp). rewrite Forall_forall in F. now apply (F p).
Qed.

Lemma sub_at_seq_list f l1 p l2 q :
  Forall (nof f) l1 -> sub_at f p q -> Forall (nof f) l2 -> sub_at f (seq_list (l1 ++ p :: l2)) q.
Proof.
  intros F1 S F2. induction F1 as [|a l1 Ha F1 IH]; simpl.
  - apply SA_seq_l; auto. now apply nof_seq_list.
  - apply SA_seq_r; auto.
Qed.

Lemma sub_at_par_list f l1 p l2 q :
  Forall (nof f) l1 -> sub_at f p q -> Forall (nof f) l2 -> sub_at f (par_list (l1 ++ p :: l2)) q.
Proof.
  intros F1 S F2. induction F1 as [|a l1 Ha F1 IH]; simpl.
  - apply SA_par_l; auto. now apply nof_par_list.
  - apply SA_par_r; auto.
Qed.

Lemma par_ok_seq_list f l : Forall (par_ok f) l -> par_ok f (seq_list l).
Proof. induction 1; simpl; auto. Qed.

(* a parallel composition in which nothing satisfies f *)
Lemma par_ok_nof f p : nof f p -> par_ok f p.
Proof.
  induction p as [|o|a IHa b IHb|a IHa b IHb]; simpl; auto; intros N.
  - split; [apply IHa | apply IHb]; intros o Ho; apply N; simpl; apply in_or_app; auto.
  - split; [|split]; [apply IHa | apply IHb | left]; intros o Ho; apply N; simpl; apply in_or_app; auto.
Qed.

(* ---------------------------------------------------------------- induction over nested graphs *)

Section GnodeInd.
  Variable P : gnode -> Prop.
  Hypothesis HL : forall uid key inf natives fails, P (GLambda uid key inf natives fails).
  Hypothesis HP : forall uid key, P (GPass uid key).
  Hypothesis HS : forall uid key inf stages, Forall (Forall P) stages -> P (GSub uid key inf stages).
  Hypothesis HT : forall uid key inf calls, P (GTools uid key inf calls).
  Hypothesis HStop : P GStop.

  Fixpoint gnode_ind' (n : gnode) : P n :=
    match n with
    | GLambda uid key inf natives fails => HL uid key inf natives fails
    | GPass uid key => HP uid key
    | GSub uid key inf stages =>
        HS uid key inf stages
           ((fix fs (l : list (list gnode)) : Forall (Forall P) l :=
               match l with
               | [] => Forall_nil _
               | st :: l' =>
                   Forall_cons st
                     ((fix fn (s : list gnode) : Forall P s :=
                         match s with
                         | [] => Forall_nil _
                         | m :: s' => Forall_cons m (gnode_ind' m) (fn s')
                         end) st)
                     (fs l')
               end) stages)
    | GTools uid key inf calls => HT uid key inf calls
    | GStop => HStop
    end.
End GnodeInd.

Lemma FF_in {X} (P : X -> Prop) stages st m :
  Forall (Forall P) stages -> In st stages -> In m st -> P m.
Proof.
  intros F Hs Hm. rewrite Forall_forall in F. specialize (F st Hs). rewrite Forall_forall in F. auto.
Qed.

(* ---------------------------------------------------------------- the stages that execute *)

Fixpoint exec_st {X : Type} (fl : X -> bool) (stages : list (list X)) : list (list X) :=
  match stages with
  | [] => []
  | st :: r => st :: (if existsb fl st then [] else exec_st fl r)
  end.

Lemma existsb_map {X Y} (f : Y -> bool) (g : X -> Y) l : existsb f (map g l) = existsb (fun x => f (g x)) l.
Proof. induction l as [|a l IH]; simpl; auto. now rewrite IH. Qed.

Lemma existsb_ext_in {X} (f g : X -> bool) l : (forall x, In x l -> f x = g x) -> existsb f l = existsb g l.
Proof.
  induction l as [|a l IH]; simpl; intros H; auto.
  rewrite (H a (or_introl eq_refl)), IH; auto.
Qed.

Lemma exec_st_incl {X} (fl : X -> bool) stages st : In st (exec_st fl stages) -> In st stages.
Proof.
  induction stages as [|s r IH]; simpl; auto.
  intros [<-|H]; auto. destruct (existsb fl s); [contradiction|auto].
Qed.

(* the executed stages are a prefix *)
Lemma exec_st_prefix {X} (fl : X -> bool) stages : exists rest, stages = exec_st fl stages ++ rest.
Proof.
  induction stages as [|s r [rest IH]]; simpl; [exists []; auto|].
  destruct (existsb fl s).
  - exists r. reflexivity.
  - exists rest. simpl. now rewrite <- IH.
Qed.

Lemma exec_rs_map {X Y} (F : X -> Y * bool) (fl : X -> bool) stages :
  (forall st m, In st stages -> In m st -> snd (F m) = fl m) ->
  exec_rs (map (map F) stages) = map (map F) (exec_st fl stages).
Proof.
  induction stages as [|s r IH]; simpl; intros H; auto.
  rewrite existsb_map. rewrite (existsb_ext_in (fun x => snd (F x)) fl s) by (intros; apply (H s); auto).
  destruct (existsb fl s); simpl; auto.
  f_equal. apply IH. intros st m Hs Hm. apply (H st); auto.
Qed.

Lemma rs_failed_map {X Y} (F : X -> Y * bool) (fl : X -> bool) stages :
  (forall st m, In st stages -> In m st -> snd (F m) = fl m) ->
  rs_failed (map (map F) stages) = existsb (existsb fl) stages.
Proof.
  unfold rs_failed. induction stages as [|s r IH]; simpl; intros H; auto.
  rewrite existsb_map. rewrite (existsb_ext_in (fun x => snd (F x)) fl s) by (intros; apply (H s); auto).
  f_equal. apply IH. intros st m Hs Hm. apply (H st); auto.
Qed.

Lemma stages_body_exec rs :
  stages_body rs = (List.concat (map (fun st => List.concat (map fst st)) (exec_rs rs)), rs_failed rs).
Proof.
  unfold rs_failed. induction rs as [|st rs IH]; simpl; auto.
  destruct (existsb snd st) eqn:E; simpl.
  - now rewrite app_nil_r.
  - rewrite IH. simpl. reflexivity.
Qed.

(* whether the execution of a node ends with an error *)
Fixpoint node_fails (opts : list copt) (n : gnode) {struct n} : bool :=
  match n with
  | GLambda _ _ _ _ fails => fails
  | GPass _ _ => false
  | GSub _ key _ stages =>
      let sopts := sub_opts key opts in
      negb (graph_ok stages sopts) || existsb (existsb (node_fails sopts)) stages
  | GTools _ _ _ calls => existsb call_fails calls
  | GStop => true
  end.

Lemma node_ops_fails is_stream n : forall parent opts,
  snd (node_ops is_stream parent opts n) = node_fails opts n.
Proof.
  induction n as [uid key inf natives fails|uid key|uid key inf stages IH|uid key inf calls|] using gnode_ind'; intros parent opts; simpl; auto.
  unfold graph_body. destruct (graph_ok stages (sub_opts key opts)); simpl; auto.
  rewrite stages_body_exec. simpl.
  apply rs_failed_map. intros st m Hs Hm. apply (FF_in _ _ _ _ IH Hs Hm).
Qed.

Lemma node_prog_fails is_stream n : forall parent opts,
  snd (node_prog is_stream parent opts n) = node_fails opts n.
Proof.
  induction n as [uid key inf natives fails|uid key|uid key inf stages IH|uid key inf calls|] using gnode_ind'; intros parent opts; simpl; auto.
  unfold graph_body_prog. destruct (graph_ok stages (sub_opts key opts)); simpl; auto.
  apply rs_failed_map. intros st m Hs Hm. apply (FF_in _ _ _ _ IH Hs Hm).
Qed.

Lemma node_table_fails is_stream n : forall inh opts,
  snd (node_table is_stream inh opts n) = node_fails opts n.
Proof.
  induction n as [uid key inf natives fails|uid key|uid key inf stages IH|uid key inf calls|] using gnode_ind'; intros inh opts; simpl; auto.
  unfold body_table. destruct (graph_ok stages (sub_opts key opts)); simpl; auto.
  apply rs_failed_map. intros st m Hs Hm. apply (FF_in _ _ _ _ IH Hs Hm).
Qed.

(* ---------------------------------------------------------------- flattening gives the canonical order *)

Lemma concat_map_ext_in {X Y} (f g : X -> list Y) l :
  (forall x, In x l -> f x = g x) -> List.concat (map f l) = List.concat (map g l).
Proof.
  induction l as [|a l IH]; simpl; intros H; auto.
  rewrite (H a (or_introl eq_refl)), IH; auto.
Qed.

Lemma flatten_body_prog is_stream g ok stages (Fp : gnode -> prog * bool) (Fo : gnode -> list op * bool) fl :
  (forall st m, In st stages -> In m st -> snd (Fp m) = fl m) ->
  (forall st m, In st stages -> In m st -> snd (Fo m) = fl m) ->
  (forall st m, In st stages -> In m st -> flatten (fst (Fp m)) = fst (Fo m)) ->
  flatten (fst (graph_body_prog is_stream g ok (map (map Fp) stages))) =
    fst (graph_body is_stream g ok (map (map Fo) stages)) /\
  snd (graph_body_prog is_stream g ok (map (map Fp) stages)) =
    snd (graph_body is_stream g ok (map (map Fo) stages)).
Proof.
  intros Hp Ho Hf. unfold graph_body_prog, graph_body.
  destruct ok; simpl; [|split; reflexivity].
  rewrite stages_body_exec. simpl.
  rewrite (rs_failed_map Fp fl stages Hp), (rs_failed_map Fo fl stages Ho).
  split; [|reflexivity]. f_equal. f_equal.
  rewrite flatten_seq_list.
  rewrite (exec_rs_map Fp fl stages Hp), (exec_rs_map Fo fl stages Ho).
  rewrite !map_map.
  apply concat_map_ext_in. intros st Hst. apply exec_st_incl in Hst.
  rewrite flatten_par_list. rewrite !map_map.
  apply concat_map_ext_in. intros m Hm. apply (Hf st); auto.
Qed.

Lemma flatten_node_prog is_stream n : forall parent opts,
  flatten (fst (node_prog is_stream parent opts n)) = fst (node_ops is_stream parent opts n).
Proof.
  induction n as [uid key inf natives fails|uid key|uid key inf stages IH|uid key inf calls|] using gnode_ind'; intros parent opts.
  - simpl. reflexivity.
  - reflexivity.
  - cbn [node_prog node_ops fst flatten]. cbn [app]. f_equal.
    apply (flatten_body_prog is_stream uid _ stages _ _ (node_fails (sub_opts key opts))).
    + intros; apply node_prog_fails.
    + intros; apply node_ops_fails.
    + intros st m Hs Hm. apply (FF_in _ _ _ _ IH Hs Hm).
  - cbn [node_prog node_ops fst flatten]. cbn [app]. f_equal. f_equal. f_equal.
    rewrite flatten_par_list, map_map, flat_map_concat_map. f_equal.
    apply map_ext. intros c. apply flatten_atoms.
  - reflexivity.
Qed.

(* the left-to-right schedule of the program of a graph run is the canonical operation list
   of Model/Callbacks.v (the one Corr/C10.v evaluates) *)
Theorem flatten_graph_prog is_stream g ginf opts stages :
  flatten (graph_prog is_stream g ginf opts stages) = graph_ops is_stream g ginf opts stages.
Proof.
  unfold graph_prog, graph_ops. cbn [flatten app]. f_equal.
  apply (flatten_body_prog is_stream g _ stages _ _ (node_fails opts)).
  - intros; apply node_prog_fails.
  - intros; apply node_ops_fails.
  - intros; apply flatten_node_prog.
Qed.

Corollary graph_ops_is_a_schedule is_stream g ginf opts stages :
  traces (graph_prog is_stream g ginf opts stages) (graph_ops is_stream g ginf opts stages).
Proof. rewrite <- flatten_graph_prog. apply traces_flatten. Qed.

(* ---------------------------------------------------------------- which units a node's operations touch *)

Lemma touches_In U o : touches U o = true <-> In (op_unit o) U.
Proof.
  unfold touches. rewrite existsb_exists. split.
  - intros (x & Hx & E). apply N.eqb_eq in E. now subst.
  - intros H. exists (op_unit o). split; auto. apply N.eqb_refl.
Qed.

Lemma touches_false U o : touches U o = false <-> ~ In (op_unit o) U.
Proof. rewrite <- touches_In. destruct (touches U o); split; congruence. Qed.

Lemma mentions_op_unit u o : mentions u o = N.eqb (op_unit o) u.
Proof. destruct o; reflexivity. Qed.

Lemma creates_op_unit o u : creates o = Some u -> op_unit o = u.
Proof. destruct o; simpl; intros H; try discriminate; now injection H. Qed.

Lemma exec_rs_incl {X} (rs : list (list (X * bool))) st : In st (exec_rs rs) -> In st rs.
Proof.
  induction rs as [|s r IH]; simpl; auto.
  intros [<-|H]; auto. destruct (existsb snd s); [contradiction|auto].
Qed.

Lemma stages_body_in {X} (F : X -> list op * bool) stages o :
  In o (fst (stages_body (map (map F) stages))) ->
  exists st m, In st stages /\ In m st /\ In o (fst (F m)).
Proof.
  rewrite stages_body_exec. cbn [fst]. intros H.
  apply in_concat in H. destruct H as (l & Hl & Hol).
  apply in_map_iff in Hl. destruct Hl as (str & <- & Hstr).
  apply exec_rs_incl in Hstr. apply in_map_iff in Hstr. destruct Hstr as (st & <- & Hst).
  apply in_concat in Hol. destruct Hol as (l2 & Hl2 & Hol2).
  rewrite map_map in Hl2. apply in_map_iff in Hl2. destruct Hl2 as (m & <- & Hm).
  eauto.
Qed.

Lemma graph_body_in is_stream g ok {X} (F : X -> list op * bool) stages o :
  In o (fst (graph_body is_stream g ok (map (map F) stages))) ->
  (exists t, o = OOn g t) \/ exists st m, In st stages /\ In m st /\ In o (fst (F m)).
Proof.
  unfold graph_body. destruct ok; simpl.
  - intros [<-|H]; [left; eauto|]. apply in_app_or in H. destruct H as [H|[<-|[]]]; [|left; eauto].
    right. now apply stages_body_in.
  - intros [<-|[<-|[]]]; left; eauto.
Qed.

Lemma in_stages_uids stages st m u : In st stages -> In m st -> In u (uids m) -> In u (stages_uids stages).
Proof.
  intros Hs Hm Hu. unfold stages_uids. apply in_flat_map. exists st. split; auto.
  apply in_flat_map. exists m. auto.
Qed.

(* the operations of a node only touch the units of the node *)
Lemma node_ops_units is_stream n : forall parent opts o,
  In o (fst (node_ops is_stream parent opts n)) -> In (op_unit o) (uids n).
Proof.
  induction n as [uid key inf natives fails|uid key|uid key inf stages IH|uid key inf calls|] using gnode_ind'; intros parent opts o.
  - simpl. intros [<-|[<-|[<-|[]]]]; simpl; auto.
  - simpl. intros [<-|[]]; simpl; auto.
  - cbn [node_ops fst uids]. intros [<-|H]; [left; reflexivity|].
    apply graph_body_in in H. destruct H as [[t ->]|(st & m & Hs & Hm & Ho)]; [left; reflexivity|].
    right. fold (stages_uids stages). eapply in_stages_uids; eauto.
    eapply (FF_in _ _ _ _ IH Hs Hm); eauto.
  - cbn [node_ops fst uids]. intros [<-|[<-|H]]; [left; reflexivity | left; reflexivity|].
    apply in_app_or in H. destruct H as [H|[<-|[]]]; [|left; reflexivity].
    right. apply in_flat_map in H. destruct H as (c & Hc & Ho).
    apply in_map_iff. exists c. split; auto.
    destruct c as [[[cu cinf] natives] fails]. simpl in Ho.
    destruct Ho as [<-|[<-|[<-|[]]]]; reflexivity.
  - simpl. intros [].
Qed.

Lemma node_prog_units is_stream n parent opts o :
  In o (flatten (fst (node_prog is_stream parent opts n))) -> In (op_unit o) (uids n).
Proof. rewrite flatten_node_prog. apply node_ops_units. Qed.

(* ---------------------------------------------------------------- lists without duplicates *)

Lemma NoDup_app_l {A} (l1 l2 : list A) : NoDup (l1 ++ l2) -> NoDup l1.
Proof.
  induction l1 as [|a l1 IH]; simpl; intros H; [constructor|].
  apply NoDup_cons_iff in H. destruct H as [Hn H]. constructor; auto.
  intros Hin. apply Hn. apply in_or_app; auto.
Qed.

Lemma NoDup_app_r {A} (l1 l2 : list A) : NoDup (l1 ++ l2) -> NoDup l2.
Proof.
  induction l1 as [|a l1 IH]; simpl; intros H; auto.
  apply NoDup_cons_iff in H. destruct H as [_ H]. auto.
Qed.

Lemma NoDup_app_disj {A} (l1 l2 : list A) x : NoDup (l1 ++ l2) -> In x l1 -> In x l2 -> False.
Proof.
  induction l1 as [|a l1 IH]; simpl; intros H H1 H2; [contradiction|].
  apply NoDup_cons_iff in H. destruct H as [Hn H].
  destruct H1 as [->|H1]; [apply Hn; apply in_or_app; auto | eauto].
Qed.

Lemma NoDup_flat_map_elem {A B} (f : A -> list B) l x : NoDup (flat_map f l) -> In x l -> NoDup (f x).
Proof.
  induction l as [|a l IH]; simpl; intros H Hx; [contradiction|]. destruct Hx as [<-|Hx].
  - eapply NoDup_app_l; eauto.
  - apply IH; auto. eapply NoDup_app_r; eauto.
Qed.

Lemma NoDup_flat_map_split {A B} (f : A -> list B) l1 x l2 y b :
  NoDup (flat_map f (l1 ++ x :: l2)) -> In y (l1 ++ l2) -> In b (f x) -> In b (f y) -> False.
Proof.
  rewrite flat_map_app. simpl. intros H Hy Hbx Hby.
  apply in_app_or in Hy. destruct Hy as [Hy|Hy].
  - apply (NoDup_app_disj _ _ b H).
    + apply in_flat_map. eauto.
    + apply in_or_app. auto.
  - apply NoDup_app_r in H. apply (NoDup_app_disj _ _ b H); auto.
    apply in_flat_map. eauto.
Qed.

(* ---------------------------------------------------------------- the specification, one unit at a time *)

Notation run := (run_spec_from).

Lemma run_app w ss a b : run w ss (a ++ b) = run w (run w ss a) b.
Proof. unfold run_spec_from. apply fold_left_app. Qed.

Lemma slist_snew w inf l : slist (snew w inf l) = l.
Proof.
  unfold snew. destruct (_ =? 0)%nat eqn:E; simpl; auto.
  apply Nat.eqb_eq in E. destruct l; simpl in *; auto; lia.
Qed.

Lemma filter_filter_incl {A} (f g : A -> bool) l :
  (forall x, f x = true -> g x = true) -> filter f (filter g l) = filter f l.
Proof.
  intros H. induction l as [|a l IH]; simpl; auto.
  destruct (g a) eqn:G; simpl.
  - destruct (f a); [f_equal|]; auto.
  - destruct (f a) eqn:F; auto. apply H in F. congruence.
Qed.

Lemma no_touch_no_rebind U T u : In u U -> filter (touches U) T = [] -> no_rebind u T.
Proof.
  intros Hu F o Ho Hc. apply creates_op_unit in Hc.
  pose proof (proj1 (filter_nil_iff _ _) F o Ho) as N. apply touches_false in N. apply N. now rewrite Hc.
Qed.

(* AppendHandlers for unit u on the context of p, after any operations that do not rebind p *)
Lemma create_step w ss T1 p u inf dopts c_p :
  lookup p (ss_ctxs ss) = Some c_p -> no_rebind p T1 ->
  let ss1 := sstep w (run w ss T1) (OAppend (Some p) u inf dopts) in
  lookup u (ss_ctxs ss1) = Some (snew w inf (slist c_p ++ List.concat dopts)) /\
  ss_log ss1 = ss_log (run w ss T1) /\
  (forall v, v <> u -> lookup v (ss_ctxs ss1) = lookup v (ss_ctxs (run w ss T1))).
Proof.
  intros Hp NR. simpl. rewrite (spec_lookup_stable w T1 ss p NR), Hp. simpl.
  rewrite N.eqb_refl. split; [reflexivity|]. split; [reflexivity|].
  intros v Hv. apply N.eqb_neq in Hv. now rewrite Hv.
Qed.

(* every event comes from an On operation of its unit *)
Lemma log_from_on w T : forall ss ev,
  In ev (ss_log (run w ss T)) -> In ev (ss_log ss) \/ exists t, In (OOn (ev_unit ev) t) T.
Proof.
  induction T as [|o T IH]; intros ss ev H; simpl in *; auto.
  apply IH in H. destruct H as [H|[t Ht]]; [|right; eauto].
  destruct o as [new inf o0 hs spare | parent new inf opts | p new inf | v t | src new inf lo hi]; simpl in H; auto.
  - destruct (match parent with None => Some None | Some p => lookup p (ss_ctxs ss) end); simpl in H; auto.
  - destruct (lookup p (ss_ctxs ss)); simpl in H; auto.
  - destruct (lookup v (ss_ctxs ss)) as [[[l inf]|]|]; simpl in H; auto.
    apply in_app_or in H. destruct H as [H|H]; auto.
    apply in_events_of in H. destruct H as [_ <-]. right. eauto.
  - destruct (lookup src (ss_ctxs ss)) as [[[l i]|]|]; simpl in H; auto.
    destruct (_ && _); simpl in H; auto.
Qed.

(* ---------------------------------------------------------------- locating a node among the executed stages *)

Lemma stages_prog_shape {X} (G : X -> prog * bool) fl stages :
  (forall st m, In st stages -> In m st -> snd (G m) = fl m) ->
  fst (stages_prog (map (map G) stages)) =
    seq_list (map (fun st => par_list (map (fun m => fst (G m)) st)) (exec_st fl stages)).
Proof.
  intros H. unfold stages_prog. cbn [fst]. rewrite (exec_rs_map G fl stages H).
  rewrite map_map. f_equal. apply map_ext. intros st. now rewrite map_map.
Qed.

Lemma stages_table_in {X} (F : X -> list uexp * bool) fl stages e :
  (forall st m, In st stages -> In m st -> snd (F m) = fl m) ->
  In e (fst (stages_table (map (map F) stages))) ->
  exists E1 s1 m s2 E2, exec_st fl stages = E1 ++ (s1 ++ m :: s2) :: E2 /\ In e (fst (F m)).
Proof.
  intros H. unfold stages_table. cbn [fst]. rewrite (exec_rs_map F fl stages H).
  intros Hin. apply in_concat in Hin. destruct Hin as (l & Hl & Hel).
  rewrite map_map in Hl. apply in_map_iff in Hl. destruct Hl as (st & <- & Hst).
  apply in_concat in Hel. destruct Hel as (l2 & Hl2 & Hel2).
  rewrite map_map in Hl2. apply in_map_iff in Hl2. destruct Hl2 as (m & <- & Hm).
  apply in_split in Hst. destruct Hst as (E1 & E2 & HE).
  apply in_split in Hm. destruct Hm as (s1 & s2 & ->).
  exists E1, s1, m, s2, E2. auto.
Qed.

Lemma other_nodes_disjoint S1 s1 m s2 S2 :
  NoDup (stages_uids (S1 ++ (s1 ++ m :: s2) :: S2)) ->
  forall m', ((exists st', In st' (S1 ++ S2) /\ In m' st') \/ In m' (s1 ++ s2)) ->
  forall b, In b (uids m) -> In b (uids m') -> False.
Proof.
  intros ND m' [(st' & Hst' & Hm')|Hm'] b Hb Hb'.
  - unfold stages_uids in ND.
    apply (NoDup_flat_map_split (flat_map uids) S1 (s1 ++ m :: s2) S2 st' b ND Hst').
    + apply in_flat_map. exists m. split; auto. apply in_or_app. right. left. auto.
    + apply in_flat_map. eauto.
  - unfold stages_uids in ND.
    assert (ND2 : NoDup (flat_map uids (s1 ++ m :: s2))).
    { apply (NoDup_flat_map_elem (flat_map uids) _ _ ND). apply in_or_app. right. left. auto. }
    apply (NoDup_flat_map_split uids s1 m s2 m' b ND2 Hm' Hb Hb').
Qed.

Lemma filter_mentions_on g t l : filter (mentions g) (OOn g t :: l) = OOn g t :: filter (mentions g) l.
Proof. simpl. now rewrite N.eqb_refl. Qed.

Lemma ons_of_two g a b : ons_of g [OOn g a; OOn g b] = [a; b].
Proof. unfold ons_of. simpl. now rewrite N.eqb_refl. Qed.

Section Engine.
  Variable w : world.
  Variable is_stream : bool.

  Notation run := (run_spec_from w).
  Definition logu (ss : sstate) (u : ukey) : list event := filter (of_unit u) (ss_log ss).

  (* what is shown for every node n, by induction over the nesting *)
  Definition node_sound_stmt (n : gnode) : Prop :=
    forall parent opts ss T c_p,
      lookup parent (ss_ctxs ss) = Some c_p ->
      no_rebind parent T ->
      (forall u, In u (uids n) -> lookup u (ss_ctxs ss) = None) ->
      traces (fst (node_prog is_stream parent opts n)) (filter (touches (uids n)) T) ->
      NoDup (uids n) -> ~ In parent (uids n) ->
      forall e, In e (fst (node_table is_stream (slist c_p) opts n)) ->
        logu (run ss T) (ue_unit e) = logu ss (ue_unit e) ++ uexp_events w e.

  (* a node prog has nothing in common with the units of another node *)
  Lemma nof_other_node U parent opts m' :
    (forall b, In b U -> In b (uids m') -> False) ->
    nof (touches U) (fst (node_prog is_stream parent opts m')).
  Proof.
    intros D o Ho. apply touches_false. intros Hin.
    apply (D (op_unit o) Hin). eapply node_prog_units; eauto.
  Qed.

  Lemma allf_own_node parent opts m : allf (touches (uids m)) (fst (node_prog is_stream parent opts m)).
  Proof. intros o Ho. apply touches_In. eapply node_prog_units; eauto. Qed.

  (* the program of an executed child is the part of the stages program selected by the
     child's units *)
  Lemma child_sub_at g opts stages E1 s1 m s2 E2 :
    exec_st (node_fails opts) stages = E1 ++ (s1 ++ m :: s2) :: E2 ->
    NoDup (stages_uids stages) ->
    sub_at (touches (uids m))
           (fst (stages_prog (map (map (node_prog is_stream g opts)) stages)))
           (fst (node_prog is_stream g opts m)).
  Proof.
    intros HE ND.
    rewrite (stages_prog_shape (node_prog is_stream g opts) (node_fails opts) stages)
      by (intros; apply node_prog_fails).
    destruct (exec_st_prefix (node_fails opts) stages) as [rest Hrest].
    rewrite HE in Hrest. rewrite <- app_assoc in Hrest. simpl in Hrest.
    rewrite Hrest in ND.
    pose proof (other_nodes_disjoint E1 s1 m s2 (E2 ++ rest) ND) as D.
    rewrite HE. rewrite map_app. simpl.
    assert (Hst : forall st', In st' (E1 ++ E2) ->
              nof (touches (uids m)) (par_list (map (fun m0 => fst (node_prog is_stream g opts m0)) st'))).
    { intros st' Hst'. apply nof_par_list. apply Forall_forall. intros p Hp.
      apply in_map_iff in Hp. destruct Hp as (m' & <- & Hm').
      apply nof_other_node. intros b Hb Hb'. refine (D m' _ b Hb Hb').
      left. exists st'. split; auto.
      apply in_app_or in Hst'. apply in_or_app. destruct Hst'; auto. right. apply in_or_app. auto. }
    apply sub_at_seq_list.
    - apply Forall_forall. intros p Hp. apply in_map_iff in Hp. destruct Hp as (st' & <- & Hst').
      apply Hst. apply in_or_app. auto.
    - rewrite map_app. simpl. apply sub_at_par_list.
      + apply Forall_forall. intros p Hp. apply in_map_iff in Hp. destruct Hp as (m' & <- & Hm').
        apply nof_other_node. intros b Hb Hb'. refine (D m' _ b Hb Hb'). right. apply in_or_app. auto.
      + apply SA_here. apply allf_own_node.
      + apply Forall_forall. intros p Hp. apply in_map_iff in Hp. destruct Hp as (m' & <- & Hm').
        apply nof_other_node. intros b Hb Hb'. refine (D m' _ b Hb Hb'). right. apply in_or_app. auto.
    - apply Forall_forall. intros p Hp. apply in_map_iff in Hp. destruct Hp as (st' & <- & Hst').
      apply Hst. apply in_or_app. auto.
  Qed.

  (* the operations of the stages program belong to the nodes *)
  Lemma stages_prog_units g opts stages o :
    In o (flatten (fst (stages_prog (map (map (node_prog is_stream g opts)) stages)))) ->
    In (op_unit o) (stages_uids stages).
  Proof.
    rewrite (stages_prog_shape (node_prog is_stream g opts) (node_fails opts) stages)
      by (intros; apply node_prog_fails).
    rewrite flatten_seq_list. intros H. apply in_concat in H. destruct H as (l & Hl & Hol).
    rewrite map_map in Hl. apply in_map_iff in Hl. destruct Hl as (st & <- & Hst).
    apply exec_st_incl in Hst.
    rewrite flatten_par_list in Hol. apply in_concat in Hol. destruct Hol as (l2 & Hl2 & Hol2).
    rewrite map_map in Hl2. apply in_map_iff in Hl2. destruct Hl2 as (m & <- & Hm).
    eapply in_stages_uids; eauto. eapply node_prog_units; eauto.
  Qed.

  (* the body of a graph run (unit g, context c_g), its children by induction *)
  Lemma body_sound g ok opts stages ss T c_g :
    Forall (Forall node_sound_stmt) stages ->
    lookup g (ss_ctxs ss) = Some c_g ->
    (forall u, In u (stages_uids stages) -> lookup u (ss_ctxs ss) = None) ->
    traces (fst (graph_body_prog is_stream g ok (map (map (node_prog is_stream g opts)) stages)))
           (filter (touches (g :: stages_uids stages)) T) ->
    NoDup (g :: stages_uids stages) ->
    let r := body_table ok (map (map (node_table is_stream (slist c_g) opts)) stages) in
    logu (run ss T) g = logu ss g ++
      flat_map (sevents w g c_g) [graph_start is_stream; if snd r then TError else graph_end is_stream] /\
    forall e, In e (fst r) -> logu (run ss T) (ue_unit e) = logu ss (ue_unit e) ++ uexp_events w e.
  Proof.
    intros IH Hg Hfresh HT ND. cbv zeta.
    apply NoDup_cons_iff in ND. destruct ND as [Hgk NDk].
    set (U := g :: stages_uids stages) in *.
    set (body := fst (graph_body_prog is_stream g ok (map (map (node_prog is_stream g opts)) stages))) in *.
    (* the operations of the body: On of g, or operations of the children *)
    assert (Hbody_ops : forall o, In o (flatten body) -> (exists t, o = OOn g t) \/ In (op_unit o) (stages_uids stages)).
    { intros o Ho. unfold body, graph_body_prog in Ho. destruct ok; cbn [negb fst] in Ho.
      - cbn [flatten app] in Ho. destruct Ho as [<-|Ho]; [left; eauto|].
        apply in_app_or in Ho. destruct Ho as [Ho|[<-|[]]]; [|left; eauto].
        right. eapply stages_prog_units; eauto.
      - rewrite flatten_atoms in Ho. destruct Ho as [<-|[<-|[]]]; left; eauto. }
    (* g is not rebound *)
    assert (NRg : no_rebind g T).
    { intros o Ho Hc.
      assert (Hin : In o (filter (touches U) T)).
      { apply filter_In. split; auto. apply touches_In. rewrite (creates_op_unit o g Hc). left; auto. }
      apply (traces_in _ _ HT) in Hin. apply Hbody_ops in Hin.
      destruct Hin as [[t ->]|Hin]; [discriminate|].
      rewrite (creates_op_unit o g Hc) in Hin. contradiction. }
    (* the On operations of g *)
    assert (Hons : ons_of g T = [graph_start is_stream;
              if snd (body_table ok (map (map (node_table is_stream (slist c_g) opts)) stages))
              then TError else graph_end is_stream]).
    { rewrite (ons_of_filter g T).
      assert (E1 : filter (mentions g) T = filter (mentions g) (filter (touches U) T)).
      { symmetry. apply filter_filter_incl. intros o Ho. rewrite mentions_op_unit in Ho.
        apply N.eqb_eq in Ho. apply touches_In. left; auto. }
      rewrite E1.
      unfold body, graph_body_prog, body_table in *. destruct ok; cbn [negb fst snd] in *.
      - rewrite (proj_filter (mentions g) _ _ HT).
        + assert (Nf : filter (mentions g) (flatten (fst (stages_prog (map (map (node_prog is_stream g opts)) stages)))) = []).
          { apply filter_nil_iff. intros o Ho. apply stages_prog_units in Ho.
            rewrite mentions_op_unit. apply N.eqb_neq. intros E. rewrite E in Ho. contradiction. }
          cbn [flatten app]. rewrite filter_mentions_on, filter_app, Nf. cbn [app].
          rewrite filter_mentions_on. cbn [filter]. rewrite ons_of_two.
          unfold stages_prog, stages_table. cbn [snd].
          rewrite (rs_failed_map (node_prog is_stream g opts) (node_fails opts) stages) by (intros; apply node_prog_fails).
          rewrite (rs_failed_map (node_table is_stream (slist c_g) opts) (node_fails opts) stages) by (intros; apply node_table_fails).
          reflexivity.
        + cbn [par_ok]. split; [exact I|]. split; [|exact I].
          apply par_ok_nof. intros o Ho. apply stages_prog_units in Ho.
          rewrite mentions_op_unit. apply N.eqb_neq. intros E. rewrite E in Ho. contradiction.
      - apply traces_atoms in HT. rewrite HT. rewrite !filter_mentions_on. cbn [filter]. apply ons_of_two. }
    split.
    - unfold logu. rewrite (spec_unit_log w T ss g c_g Hg NRg). now rewrite Hons.
    - intros e He. unfold body_table in He. destruct ok; cbn [negb fst] in He; [|contradiction].
      destruct (stages_table_in (node_table is_stream (slist c_g) opts) (node_fails opts) stages e
                  ltac:(intros; apply node_table_fails) He) as (E1 & s1 & m & s2 & E2 & HE & Hem).
      assert (Hst : In (s1 ++ m :: s2) stages).
      { apply (exec_st_incl (node_fails opts)). rewrite HE. apply in_or_app. right. left. auto. }
      assert (Hm : In m (s1 ++ m :: s2)) by (apply in_or_app; right; left; auto).
      assert (Hsub : forall u, In u (uids m) -> In u (stages_uids stages))
        by (intros u Hu; eapply in_stages_uids; eauto).
      pose proof (FF_in _ _ _ _ IH Hst Hm) as IHm.
      apply (IHm g opts ss T c_g Hg NRg); [ | | | | exact Hem].
      + intros u Hu. apply Hfresh. auto.
      + (* the projection onto the child's units is a schedule of the child's program *)
        assert (E0 : filter (touches (uids m)) T = filter (touches (uids m)) (filter (touches U) T)).
        { symmetry. apply filter_filter_incl. intros o Ho. apply touches_In in Ho. apply touches_In.
          right. auto. }
        rewrite E0. apply (proj_traces _ _ _ _ HT).
        unfold body, graph_body_prog. cbn [negb fst].
        apply SA_seq_r.
        { intros o [<-|[]]. apply touches_false. simpl. intros Hin. apply Hgk. auto. }
        apply SA_seq_l.
        { eapply child_sub_at; eauto. }
        { intros o [<-|[]]. apply touches_false. simpl. intros Hin. apply Hgk. auto. }
      + unfold stages_uids in NDk.
        apply (NoDup_flat_map_elem uids (s1 ++ m :: s2) m); auto.
        apply (NoDup_flat_map_elem (flat_map uids) stages); auto.
      + intros Hin. apply Hgk. auto.
  Qed.
End Engine.

Lemma stages_table_units {X} (F : X -> list uexp * bool) (U : X -> list ukey) stages e :
  (forall st m e, In st stages -> In m st -> In e (fst (F m)) -> In (ue_unit e) (U m)) ->
  In e (fst (stages_table (map (map F) stages))) -> In (ue_unit e) (flat_map (flat_map U) stages).
Proof.
  intros H. unfold stages_table. cbn [fst]. intros Hin.
  apply in_concat in Hin. destruct Hin as (l & Hl & Hel).
  apply in_map_iff in Hl. destruct Hl as (str & <- & Hstr).
  apply exec_rs_incl in Hstr. apply in_map_iff in Hstr. destruct Hstr as (st & <- & Hst).
  apply in_concat in Hel. destruct Hel as (l2 & Hl2 & Hel2).
  rewrite map_map in Hl2. apply in_map_iff in Hl2. destruct Hl2 as (m & <- & Hm).
  apply in_flat_map. exists st. split; auto. apply in_flat_map. exists m. split; auto. eapply H; eauto.
Qed.

Lemma node_table_units is_stream n : forall inh opts e,
  In e (fst (node_table is_stream inh opts n)) -> In (ue_unit e) (uids n).
Proof.
  induction n as [uid key inf natives fails|uid key|uid key inf stages IH|uid key inf calls|] using gnode_ind'; intros inh opts e.
  - simpl. intros [<-|[]]. simpl. auto.
  - simpl. intros [<-|[]]. simpl. auto.
  - cbn [node_table fst uids]. intros [<-|H]; [left; reflexivity|]. right.
    unfold body_table in H. destruct (graph_ok stages (sub_opts key opts)); cbn [negb fst] in H; [|contradiction].
    eapply stages_table_units; eauto.
    intros st m e0 Hs Hm He0. eapply (FF_in _ _ _ _ IH Hs Hm); eauto.
  - cbn [node_table fst uids]. intros [<-|H]; [left; reflexivity|]. right.
    apply in_map_iff in H. destruct H as (c & <- & Hc).
    apply in_map_iff. exists c. split; auto. destruct c as [[[cu cinf] natives] fails]. reflexivity.
  - simpl. intros [].
Qed.

Section Engine2.
  Variable w : world.
  Variable is_stream : bool.
  Notation run := (run_spec_from w).

  Lemma sevents_two u inf l a b :
    flat_map (sevents w u (snew w inf l)) [a; b] = flat_map (served w u inf l) [a; b].
  Proof. simpl. now rewrite !sevents_served. Qed.

  (* a single unit: created from p's context, then its On operations *)
  Lemma leaf_sound parent u inf dopts ons ss T c_p :
    lookup parent (ss_ctxs ss) = Some c_p ->
    no_rebind parent T ->
    lookup u (ss_ctxs ss) = None ->
    filter (touches [u]) T = OAppend (Some parent) u inf dopts :: map (OOn u) ons ->
    logu (run ss T) u = logu ss u ++ flat_map (served w u inf (slist c_p ++ List.concat dopts)) ons.
  Proof.
    intros Hp NR Hu HF.
    destruct (filter_split _ _ _ _ HF) as (T1 & T2 & -> & F1 & F2).
    assert (NR1 : no_rebind parent T1) by (intros o Ho; apply NR; apply in_or_app; auto).
    destruct (create_step w ss T1 parent u inf dopts c_p Hp NR1) as (Lu & Lg & _).
    assert (Fr : forall o, In o T1 -> creates o <> Some u)
      by (apply (no_touch_no_rebind [u]); [left; auto | auto]).
    destruct (spec_no_events_before w T1 ss u Hu Fr) as [F0 _].
    replace (T1 ++ OAppend (Some parent) u inf dopts :: T2)
      with ((T1 ++ [OAppend (Some parent) u inf dopts]) ++ T2) by (rewrite <- app_assoc; reflexivity).
    rewrite run_app. rewrite run_app. cbn [run_spec_from fold_left].
    set (ss1 := sstep w (run ss T1) (OAppend (Some parent) u inf dopts)) in *.
    assert (NR2 : no_rebind u T2).
    { intros o Ho Hc. assert (Hin : In o (filter (touches [u]) T2)).
      { apply filter_In. split; auto. apply touches_In. rewrite (creates_op_unit o u Hc). left; auto. }
      rewrite F2 in Hin. apply in_map_iff in Hin. destruct Hin as (t & <- & _). discriminate. }
    unfold logu. change (fold_left (sstep w) T2 ss1) with (run ss1 T2).
    rewrite (spec_unit_log w T2 ss1 u _ Lu NR2). rewrite Lg. unfold logu in F0. rewrite F0. f_equal.
    assert (Eo : ons_of u T2 = ons).
    { rewrite (ons_of_filter u T2).
      assert (E : filter (mentions u) T2 = filter (touches [u]) T2).
      { apply filter_ext. intros o. rewrite mentions_op_unit. unfold touches. simpl. now rewrite orb_false_r. }
      rewrite E, F2. clear. induction ons as [|t ons IH]; simpl; auto.
      unfold ons_of in *. simpl. rewrite N.eqb_refl. simpl. now rewrite IH. }
    rewrite Eo. clear. induction ons as [|t ons IH]; simpl; auto. now rewrite sevents_served, IH.
  Qed.

  (* ---- a ToolsNode and its tool calls *)

  Lemma sevents_reuse u cinf inf0 l0 t :
    sevents w u (match snew w inf0 l0 with None => None | Some (l, _) => Some (l, cinf) end) t
    = served w u cinf l0 t.
  Proof.
    unfold snew, served. destruct (_ =? 0)%nat eqn:E; simpl; auto.
    apply Nat.eqb_eq in E.
    assert (l0 = [] /\ w_globals w = []) as [-> G].
    { destruct l0; simpl in E; [|lia]. destruct (w_globals w); simpl in E; [auto|lia]. }
    rewrite G. unfold events_of, select, invoke_order. simpl. destruct (is_start t); reflexivity.
  Qed.

  (* a tool call: ReuseHandlers on the ToolsNode's context, then its On operations *)
  Lemma call_sound tn cu cinf ons ss T inf0 l0 :
    lookup tn (ss_ctxs ss) = Some (snew w inf0 l0) ->
    no_rebind tn T ->
    lookup cu (ss_ctxs ss) = None ->
    filter (touches [cu]) T = OReuse tn cu cinf :: map (OOn cu) ons ->
    logu (run ss T) cu = logu ss cu ++ flat_map (served w cu cinf l0) ons.
  Proof.
    intros Hp NR Hu HF.
    destruct (filter_split _ _ _ _ HF) as (T1 & T2 & -> & F1 & F2).
    assert (NR1 : no_rebind tn T1) by (intros o Ho; apply NR; apply in_or_app; auto).
    assert (Fr : forall o, In o T1 -> creates o <> Some cu)
      by (apply (no_touch_no_rebind [cu]); [left; auto | auto]).
    destruct (spec_no_events_before w T1 ss cu Hu Fr) as [F0 _].
    replace (T1 ++ OReuse tn cu cinf :: T2) with ((T1 ++ [OReuse tn cu cinf]) ++ T2)
      by (rewrite <- app_assoc; reflexivity).
    rewrite run_app. rewrite run_app. cbn [run_spec_from fold_left].
    set (ss1 := sstep w (run ss T1) (OReuse tn cu cinf)) in *.
    assert (L1 : lookup cu (ss_ctxs ss1) =
                 Some (match snew w inf0 l0 with None => None | Some (l, _) => Some (l, cinf) end) /\
                 ss_log ss1 = ss_log (run ss T1)).
    { unfold ss1. simpl. rewrite (spec_lookup_stable w T1 ss tn NR1), Hp. simpl.
      rewrite N.eqb_refl. auto. }
    destruct L1 as [Lu Lg].
    assert (NR2 : no_rebind cu T2).
    { intros o Ho Hc. assert (Hin : In o (filter (touches [cu]) T2)).
      { apply filter_In. split; auto. apply touches_In. rewrite (creates_op_unit o cu Hc). left; auto. }
      rewrite F2 in Hin. apply in_map_iff in Hin. destruct Hin as (t & <- & _). discriminate. }
    unfold logu. change (fold_left (sstep w) T2 ss1) with (run ss1 T2).
    rewrite (spec_unit_log w T2 ss1 cu _ Lu NR2). rewrite Lg. unfold logu in F0. rewrite F0. f_equal.
    assert (Eo : ons_of cu T2 = ons).
    { rewrite (ons_of_filter cu T2).
      assert (E : filter (mentions cu) T2 = filter (touches [cu]) T2).
      { apply filter_ext. intros o. rewrite mentions_op_unit. unfold touches. simpl. now rewrite orb_false_r. }
      rewrite E, F2. clear. induction ons as [|t ons IH]; simpl; auto.
      unfold ons_of in *. simpl. rewrite N.eqb_refl. simpl. now rewrite IH. }
    rewrite Eo. clear. induction ons as [|t ons IH]; simpl; auto. now rewrite sevents_reuse, IH.
  Qed.

  Definition call_unit (c : ukey * info * N * bool) : ukey := fst (fst (fst c)).

  Lemma call_ops_units tn c o : In o (call_ops is_stream tn c) -> op_unit o = call_unit c.
  Proof.
    destruct c as [[[cu cinf] natives] fails]. simpl. intros [<-|[<-|[<-|[]]]]; reflexivity.
  Qed.

  Lemma tools_sound uid key inf calls : node_sound_stmt w is_stream (GTools uid key inf calls).
  Proof.
    intros parent opts ss T c_p Hp NR Hfresh HT ND Hpar e He.
    cbn [node_prog fst uids] in HT.
    change (map (fun c : ukey * info * N * bool => fst (fst (fst c))) calls) with (map call_unit calls) in *.
    cbn [uids] in Hfresh, ND, Hpar.
    change (map (fun c : ukey * info * N * bool => fst (fst (fst c))) calls) with (map call_unit calls) in *.
    set (U := uid :: map call_unit calls) in *.
    set (p3 := pick_native is_stream 3) in *.
    apply traces_seq_atom in HT. destruct HT as (tb & HF & Htb).
    destruct (filter_split _ _ _ _ HF) as (T1 & T2 & -> & F1 & F2).
    set (c := OAppend (Some parent) uid inf (designated key opts)) in *.
    assert (NR1 : no_rebind parent T1) by (intros o Ho; apply NR; apply in_or_app; auto).
    destruct (create_step w ss T1 parent uid inf (designated key opts) c_p Hp NR1) as (Lu & Lg & Lo).
    fold c in Lu, Lg, Lo.
    replace (T1 ++ c :: T2) with ((T1 ++ [c]) ++ T2) by (rewrite <- app_assoc; reflexivity).
    rewrite run_app. rewrite run_app. cbn [run_spec_from fold_left].
    set (ss1 := sstep w (run ss T1) c) in *.
    change (fold_left (sstep w) T2 ss1) with (run ss1 T2).
    set (L := slist c_p ++ List.concat (designated key opts)) in *.
    assert (Hbefore : forall v, In v U -> logu ss1 v = logu ss v /\ (v <> uid -> lookup v (ss_ctxs ss1) = None)).
    { intros v Hv.
      assert (Fr : forall o, In o T1 -> creates o <> Some v) by (apply (no_touch_no_rebind U); auto).
      destruct (spec_no_events_before w T1 ss v (Hfresh v Hv) Fr) as [F0 L0].
      split.
      - unfold logu. rewrite Lg. exact F0.
      - intros Hne. rewrite (Lo v Hne). exact L0. }
    apply NoDup_cons_iff in ND. destruct ND as [Hk NDk].
    rewrite <- F2 in Htb.
    set (body := PSeq (PAtom (OOn uid (start_timing_of p3)))
                   (PSeq (par_list (map (fun c0 => atoms (call_ops is_stream uid c0)) calls))
                      (PAtom (OOn uid (if existsb call_fails calls then TError else end_timing_of p3))))) in *.
    (* the operations of the calls *)
    assert (Hpc : forall o, In o (flatten (par_list (map (fun c0 => atoms (call_ops is_stream uid c0)) calls))) ->
                   In (op_unit o) (map call_unit calls)).
    { intros o Ho. rewrite flatten_par_list, map_map in Ho. apply in_concat in Ho.
      destruct Ho as (l & Hl & Hol). apply in_map_iff in Hl. destruct Hl as (c0 & <- & Hc0).
      rewrite flatten_atoms in Hol. apply call_ops_units in Hol. rewrite Hol. now apply in_map. }
    assert (Hbody_ops : forall o, In o (flatten body) -> (exists t, o = OOn uid t) \/ In (op_unit o) (map call_unit calls)).
    { intros o Ho. unfold body in Ho. cbn [flatten app] in Ho. destruct Ho as [<-|Ho]; [left; eauto|].
      apply in_app_or in Ho. destruct Ho as [Ho|[<-|[]]]; [right; auto | left; eauto]. }
    assert (NRu : no_rebind uid T2).
    { intros o Ho Hc.
      assert (Hin : In o (filter (touches U) T2)).
      { apply filter_In. split; auto. apply touches_In. rewrite (creates_op_unit o uid Hc). left; auto. }
      apply (traces_in _ _ Htb) in Hin. apply Hbody_ops in Hin.
      destruct Hin as [[t ->]|Hin]; [discriminate|].
      rewrite (creates_op_unit o uid Hc) in Hin. contradiction. }
    cbn [node_table fst] in He. fold p3 in He. fold L in He.
    destruct He as [<-|He].
    - (* the ToolsNode itself *)
      cbn [ue_unit]. unfold logu.
      rewrite (spec_unit_log w T2 ss1 uid _ Lu NRu).
      unfold logu in Hbefore. rewrite (proj1 (Hbefore uid (or_introl eq_refl))). f_equal.
      assert (Hons : ons_of uid T2 = [start_timing_of p3; if existsb call_fails calls then TError else end_timing_of p3]).
      { rewrite (ons_of_filter uid T2).
        assert (E1 : filter (mentions uid) T2 = filter (mentions uid) (filter (touches U) T2)).
        { symmetry. apply filter_filter_incl. intros o Ho. rewrite mentions_op_unit in Ho.
          apply N.eqb_eq in Ho. apply touches_In. left; auto. }
        rewrite E1, (proj_filter (mentions uid) _ _ Htb).
        - unfold body. cbn [flatten app]. rewrite filter_mentions_on, filter_app.
          assert (Nf : filter (mentions uid) (flatten (par_list (map (fun c0 => atoms (call_ops is_stream uid c0)) calls))) = []).
          { apply filter_nil_iff. intros o Ho. apply Hpc in Ho.
            rewrite mentions_op_unit. apply N.eqb_neq. intros E. rewrite E in Ho. contradiction. }
          rewrite Nf. cbn [app]. rewrite filter_mentions_on. cbn [filter]. apply ons_of_two.
        - unfold body. cbn [par_ok]. split; [exact I|]. split; [|exact I].
          apply par_ok_nof. intros o Ho. apply Hpc in Ho.
          rewrite mentions_op_unit. apply N.eqb_neq. intros E. rewrite E in Ho. contradiction. }
      rewrite Hons. unfold uexp_events. cbn [ue_unit ue_info ue_list ue_timings]. apply sevents_two.
    - (* a tool call *)
      apply in_map_iff in He. destruct He as (c0 & <- & Hc0).
      apply in_split in Hc0. destruct Hc0 as (c1 & c2 & Hcalls).
      destruct c0 as [[[cu cinf] natives] fails]. cbn [call_uexp ue_unit].
      assert (HcuU : In cu U).
      { right. rewrite Hcalls, map_app. apply in_or_app. right. left. reflexivity. }
      assert (Hcu_ne : cu <> uid).
      { intros ->. apply Hk. rewrite Hcalls, map_app. apply in_or_app. right. left. reflexivity. }
      destruct (Hbefore cu HcuU) as [Hl0 Hn0]. rewrite <- Hl0.
      unfold uexp_events. cbn [ue_unit ue_info ue_list ue_timings].
      apply (call_sound uid cu cinf
               [start_timing_of (pick_native is_stream natives);
                if fails then TError else end_timing_of (pick_native is_stream natives)]
               ss1 T2 inf L Lu NRu (Hn0 Hcu_ne)).
      assert (E0 : filter (touches [cu]) T2 = filter (touches [cu]) (filter (touches U) T2)).
      { symmetry. apply filter_filter_incl. intros o Ho. apply touches_In in Ho. apply touches_In.
        destruct Ho as [<-|[]]. exact HcuU. }
      rewrite E0.
      assert (Hsub : sub_at (touches [cu]) body (atoms (call_ops is_stream uid (cu, cinf, natives, fails)))).
      { unfold body. apply SA_seq_r.
        { intros o [<-|[]]. apply touches_false. simpl. intros [E|[]]. congruence. }
        apply SA_seq_l.
        2:{ intros o [<-|[]]. apply touches_false. simpl. intros [E|[]]. congruence. }
        rewrite Hcalls, map_app. cbn [map].
        assert (Hother : forall c', In c' (c1 ++ c2) -> nof (touches [cu]) (atoms (call_ops is_stream uid c'))).
        { intros c' Hc' o Ho. rewrite flatten_atoms in Ho. apply call_ops_units in Ho.
          apply touches_false. rewrite Ho. simpl. intros [E|[]].
          rewrite Hcalls, map_app in NDk. cbn [map] in NDk.
          apply in_app_or in Hc'. destruct Hc' as [Hc'|Hc'].
          - apply (NoDup_app_disj _ _ cu NDk); [apply in_map_iff; eauto | left; reflexivity].
          - apply NoDup_app_r in NDk. apply NoDup_cons_iff in NDk. destruct NDk as [Hn _].
            apply Hn. apply in_map_iff. eauto. }
        apply sub_at_par_list.
        - apply Forall_forall. intros q Hq. apply in_map_iff in Hq. destruct Hq as (c' & <- & Hc').
          apply Hother. apply in_or_app. auto.
        - apply SA_here. intros o Ho. rewrite flatten_atoms in Ho. apply call_ops_units in Ho.
          apply touches_In. rewrite Ho. left. reflexivity.
        - apply Forall_forall. intros q Hq. apply in_map_iff in Hq. destruct Hq as (c' & <- & Hc').
          apply Hother. apply in_or_app. auto. }
      pose proof (proj_traces _ _ _ _ Htb Hsub) as Hc.
      apply traces_atoms in Hc. rewrite Hc. reflexivity.
  Qed.

  Theorem node_sound n : node_sound_stmt w is_stream n.
  Proof.
    induction n as [uid key inf natives fails|uid key|uid key inf stages IH|uid key inf calls|] using gnode_ind';
      intros parent opts ss T c_p Hp NR Hfresh HT ND Hpar e He.
    - (* a lambda node *)
      cbn [node_table fst] in He. destruct He as [<-|[]]. cbn [ue_unit].
      cbn [node_prog fst uids] in HT. apply traces_atoms in HT.
      unfold uexp_events. cbn [ue_unit ue_info ue_list ue_timings].
      apply (leaf_sound parent uid inf (designated key opts)
               [start_timing_of (pick_native is_stream natives);
                if fails then TError else end_timing_of (pick_native is_stream natives)] ss T c_p Hp NR).
      + apply Hfresh. left; auto.
      + exact HT.
    - (* a passthrough node: created, never served *)
      cbn [node_table fst] in He. destruct He as [<-|[]]. cbn [ue_unit].
      cbn [node_prog fst uids] in HT. inversion HT as [|o Ho| |]; subst.
      unfold uexp_events. cbn [ue_unit ue_info ue_list ue_timings].
      apply (leaf_sound parent uid 0%N (designated key opts) [] ss T c_p Hp NR).
      + apply Hfresh. left; auto.
      + simpl. symmetry. assumption.
    - (* a sub graph *)
      cbn [node_prog fst uids] in HT. fold (stages_uids stages) in *.
      apply traces_seq_atom in HT. destruct HT as (tb & HF & Htb).
      destruct (filter_split _ _ _ _ HF) as (T1 & T2 & -> & F1 & F2).
      set (U := uid :: stages_uids stages) in *.
      set (c := OAppend (Some parent) uid inf (designated key opts)) in *.
      assert (NR1 : no_rebind parent T1) by (intros o Ho; apply NR; apply in_or_app; auto).
      destruct (create_step w ss T1 parent uid inf (designated key opts) c_p Hp NR1) as (Lu & Lg & Lo).
      fold c in Lu, Lg, Lo.
      replace (T1 ++ c :: T2) with ((T1 ++ [c]) ++ T2) by (rewrite <- app_assoc; reflexivity).
      rewrite run_app. rewrite run_app. cbn [run_spec_from fold_left].
      set (ss1 := sstep w (run ss T1) c) in *.
      change (fold_left (sstep w) T2 ss1) with (run ss1 T2).
      (* nothing of this node happened before its creation *)
      assert (Hbefore : forall v, In v U -> logu ss1 v = logu ss v /\ (v <> uid -> lookup v (ss_ctxs ss1) = None)).
      { intros v Hv.
        assert (Fr : forall o, In o T1 -> creates o <> Some v) by (apply (no_touch_no_rebind U); auto).
        destruct (spec_no_events_before w T1 ss v (Hfresh v Hv) Fr) as [F0 L0].
        split.
        - unfold logu. rewrite Lg. exact F0.
        - intros Hne. rewrite (Lo v Hne). exact L0. }
      apply NoDup_cons_iff in ND. destruct ND as [Hk NDk].
      set (cu := snew w inf (slist c_p ++ List.concat (designated key opts))) in *.
      pose proof (body_sound w is_stream uid (graph_ok stages (sub_opts key opts)) (sub_opts key opts)
                    stages ss1 T2 cu IH Lu) as B.
      cbv zeta in B.
      assert (Hf1 : forall u, In u (stages_uids stages) -> lookup u (ss_ctxs ss1) = None).
      { intros u Hu. apply (Hbefore u); [right; auto|]. intros ->. contradiction. }
      specialize (B Hf1).
      rewrite <- F2 in Htb. specialize (B Htb).
      assert (ND' : NoDup (uid :: stages_uids stages)) by (constructor; auto).
      specialize (B ND'). destruct B as [Bg Bk].
      unfold cu in Bg, Bk. rewrite slist_snew in Bg, Bk.
      cbn [node_table fst] in He. destruct He as [<-|He].
      + cbn [ue_unit]. rewrite Bg. rewrite (proj1 (Hbefore uid (or_introl eq_refl))). f_equal.
        unfold uexp_events. cbn [ue_unit ue_info ue_list ue_timings].
        apply sevents_two.
      + rewrite (Bk e He). f_equal.
        (* the unit of e is one of this node's *)
        apply Hbefore. right.
        unfold body_table in He. destruct (graph_ok stages (sub_opts key opts)); cbn [negb fst] in He; [|contradiction].
        unfold stages_uids. eapply stages_table_units; eauto.
        intros st m e0 Hs Hm He0. eapply node_table_units; eauto.
    - exact (tools_sound uid key inf calls parent opts ss T c_p Hp NR Hfresh HT ND Hpar e He).
    - (* a configured interrupt point: no unit *)
      cbn [node_table fst] in He. contradiction.
  Qed.
End Engine2.

(* ---------------------------------------------------------------- the whole run *)

Lemma body_prog_units is_stream g ok opts stages o :
  In o (flatten (fst (graph_body_prog is_stream g ok (map (map (node_prog is_stream g opts)) stages)))) ->
  In (op_unit o) (g :: stages_uids stages).
Proof.
  unfold graph_body_prog. destruct ok; cbn [negb fst]; intros Ho.
  - cbn [flatten app] in Ho. destruct Ho as [<-|Ho]; [left; reflexivity|].
    apply in_app_or in Ho. destruct Ho as [Ho|[<-|[]]]; [|left; reflexivity].
    right. eapply stages_prog_units; eauto.
  - rewrite flatten_atoms in Ho. destruct Ho as [<-|[<-|[]]]; left; reflexivity.
Qed.

(* Every schedule of a graph run, every unit of the table: the unit's events are exactly
   the expected ones, in order. *)
Theorem engine_unit_logs w is_stream g ginf opts stages t :
  NoDup (g :: stages_uids stages) ->
  traces (graph_prog is_stream g ginf opts stages) t ->
  forall e, In e (graph_table is_stream g ginf opts stages) ->
    filter (of_unit (ue_unit e)) (st_log (run_script true w t)) = uexp_events w e.
Proof.
  intros ND HT e He. rewrite script_log_spec.
  unfold graph_prog in HT. apply traces_seq_atom in HT. destruct HT as (tb & -> & Htb).
  set (c := OAppend None g ginf (undesignated opts)).
  unfold run_spec. cbn [run_spec_from fold_left].
  change (fold_left (sstep w) tb (sstep w sstate0 c)) with (run_spec_from w (sstep w sstate0 c) tb).
  set (ss1 := sstep w sstate0 c).
  set (cu := snew w ginf (List.concat (undesignated opts))).
  assert (Lu : lookup g (ss_ctxs ss1) = Some cu).
  { unfold ss1, c. simpl. now rewrite N.eqb_refl. }
  assert (Hf1 : forall u, In u (stages_uids stages) -> lookup u (ss_ctxs ss1) = None).
  { intros u Hu. unfold ss1, c. simpl. destruct (N.eqb u g) eqn:E; auto.
    apply N.eqb_eq in E. subst u. apply NoDup_cons_iff in ND. destruct ND as [Hn _]. contradiction. }
  assert (Hall : filter (touches (g :: stages_uids stages)) tb = tb).
  { apply filter_all. intros o Ho. apply touches_In. apply (traces_in _ _ Htb) in Ho.
    eapply body_prog_units; eauto. }
  assert (IH : Forall (Forall (node_sound_stmt w is_stream)) stages).
  { apply Forall_forall. intros st _. apply Forall_forall. intros m _. apply node_sound. }
  rewrite <- Hall in Htb.
  destruct (body_sound w is_stream g (graph_ok stages opts) opts stages ss1 tb cu IH Lu Hf1 Htb ND) as [Bg Bk].
  unfold cu in Bg, Bk. rewrite slist_snew in Bg, Bk.
  assert (L0 : forall u, logu ss1 u = []) by (intros u; reflexivity).
  unfold graph_table in He. cbv zeta in He. destruct He as [<-|He].
  - cbn [ue_unit]. unfold logu in Bg. rewrite Bg. simpl filter at 1. cbn [app].
    unfold uexp_events. cbn [ue_unit ue_info ue_list ue_timings]. apply sevents_two.
  - unfold logu in Bk. rewrite (Bk e He). reflexivity.
Qed.

(* ---------------------------------------------------------------- nothing else fires *)

Lemma stages_body_in_exec {X} (F : X -> list op * bool) fl stages o :
  (forall st m, In st stages -> In m st -> snd (F m) = fl m) ->
  In o (fst (stages_body (map (map F) stages))) ->
  exists st m, In st (exec_st fl stages) /\ In m st /\ In o (fst (F m)).
Proof.
  intros H. rewrite stages_body_exec. cbn [fst]. rewrite (exec_rs_map F fl stages H). intros Hin.
  apply in_concat in Hin. destruct Hin as (l & Hl & Hol).
  rewrite map_map in Hl. apply in_map_iff in Hl. destruct Hl as (st & <- & Hst).
  apply in_concat in Hol. destruct Hol as (l2 & Hl2 & Hol2).
  rewrite map_map in Hl2. apply in_map_iff in Hl2. destruct Hl2 as (m & <- & Hm).
  eauto.
Qed.

Lemma stages_table_intro {X} (F : X -> list uexp * bool) fl stages st m e :
  (forall st m, In st stages -> In m st -> snd (F m) = fl m) ->
  In st (exec_st fl stages) -> In m st -> In e (fst (F m)) ->
  In e (fst (stages_table (map (map F) stages))).
Proof.
  intros H Hst Hm He. unfold stages_table. cbn [fst]. rewrite (exec_rs_map F fl stages H).
  apply in_concat. exists (List.concat (map fst (map F st))). split.
  - apply in_map_iff. exists (map F st). split; auto. apply in_map. auto.
  - apply in_concat. exists (fst (F m)). split; auto. rewrite map_map. apply in_map_iff. eauto.
Qed.

(* the On operations of a body are those of the table *)
Lemma body_ons_in_table is_stream g ok opts inh stages u tm :
  (forall st m, In st stages -> In m st -> forall parent,
     In (OOn u tm) (fst (node_ops is_stream parent opts m)) ->
     exists e, In e (fst (node_table is_stream inh opts m)) /\ ue_unit e = u /\ In tm (ue_timings e)) ->
  In (OOn u tm) (fst (graph_body is_stream g ok (map (map (node_ops is_stream g opts)) stages))) ->
  let r := body_table ok (map (map (node_table is_stream inh opts)) stages) in
  (u = g /\ In tm [graph_start is_stream; if snd r then TError else graph_end is_stream]) \/
  exists e, In e (fst r) /\ ue_unit e = u /\ In tm (ue_timings e).
Proof.
  intros IH. unfold graph_body, body_table. destruct ok; cbn [negb fst snd].
  - rewrite stages_body_exec. cbn [fst snd].
    rewrite (rs_failed_map (node_ops is_stream g opts) (node_fails opts) stages) by (intros; apply node_ops_fails).
    unfold stages_table at 1. cbn [snd].
    rewrite (rs_failed_map (node_table is_stream inh opts) (node_fails opts) stages) by (intros; apply node_table_fails).
    intros [H|H]; [injection H as <- <-; left; split; [auto | left; auto]|].
    cbn [app] in H. apply in_app_or in H. destruct H as [H|[H|[]]].
    + right.
      assert (H' : In (OOn u tm) (fst (stages_body (map (map (node_ops is_stream g opts)) stages))))
        by (rewrite stages_body_exec; exact H).
      destruct (stages_body_in_exec _ (node_fails opts) stages _ ltac:(intros; apply node_ops_fails) H')
        as (st & m & Hst & Hm & Ho).
      destruct (IH st m (exec_st_incl _ _ _ Hst) Hm g Ho) as (e & He & Hu & Ht).
      exists e. split; auto.
      eapply stages_table_intro; eauto. intros; apply node_table_fails.
    + injection H as <- <-. left. split; [auto | right; left; auto].
  - intros [H|[H|[]]]; injection H as <- <-; left; split; auto; [left | right; left]; auto.
Qed.

Lemma node_ons_in_table is_stream n : forall parent opts inh u tm,
  In (OOn u tm) (fst (node_ops is_stream parent opts n)) ->
  exists e, In e (fst (node_table is_stream inh opts n)) /\ ue_unit e = u /\ In tm (ue_timings e).
Proof.
  induction n as [uid key inf natives fails|uid key|uid key inf stages IH|uid key inf calls|] using gnode_ind'; intros parent opts inh u tm.
  - cbn [node_ops fst]. intros [H|[H|[H|[]]]]; try discriminate; injection H as <- <-;
      eexists; (split; [left; reflexivity|]); cbn [ue_unit ue_timings]; (split; [reflexivity|]); simpl; auto.
  - cbn [node_ops fst]. intros [H|[]]. discriminate.
  - cbn [node_ops fst node_table]. intros [H|H]; [discriminate|].
    apply (body_ons_in_table is_stream uid _ (sub_opts key opts)
             (inh ++ List.concat (designated key opts)) stages u tm) in H.
    + cbv zeta in H. destruct H as [[-> Ht]|(e & He & Hu & Ht)].
      * eexists. split; [left; reflexivity|]. cbn [ue_unit ue_timings]. auto.
      * exists e. split; [right; exact He | auto].
    + intros st m Hs Hm p Ho. eapply (FF_in _ _ _ _ IH Hs Hm); eauto.
  - cbn [node_ops fst node_table]. intros [H|[H|H]]; [discriminate| |].
    + injection H as <- <-. eexists. split; [left; reflexivity|]. cbn [ue_unit ue_timings]. simpl; auto.
    + apply in_app_or in H. destruct H as [H|[H|[]]].
      * apply in_flat_map in H. destruct H as (c & Hc & Ho).
        exists (call_uexp is_stream (inh ++ List.concat (designated key opts)) c).
        split; [right; now apply in_map|].
        destruct c as [[[cu cinf] natives] fails]. cbn [call_ops] in Ho. cbn [call_uexp ue_unit ue_timings].
        destruct Ho as [Ho|[Ho|[Ho|[]]]]; try discriminate; injection Ho as <- <-; simpl; auto.
      * injection H as <- <-. eexists. split; [left; reflexivity|]. cbn [ue_unit ue_timings]. simpl; auto.
  - cbn [node_ops fst]. intros [].
Qed.

Lemma graph_ons_in_table is_stream g ginf opts stages u tm :
  In (OOn u tm) (graph_ops is_stream g ginf opts stages) ->
  exists e, In e (graph_table is_stream g ginf opts stages) /\ ue_unit e = u /\ In tm (ue_timings e).
Proof.
  unfold graph_ops, graph_table. intros [H|H]; [discriminate|].
  apply (body_ons_in_table is_stream g _ opts (List.concat (undesignated opts)) stages u tm) in H.
  - cbv zeta in H. destruct H as [[-> Ht]|(e & He & Hu & Ht)].
    + eexists. split; [left; reflexivity|]. cbn [ue_unit ue_timings]. auto.
    + exists e. split; [right; exact He | auto].
  - intros st m Hs Hm p Ho. eapply node_ons_in_table; eauto.
Qed.

(* Every event of every schedule belongs to a unit of the table, and is one of the events
   expected for that unit. *)
Theorem engine_no_other_events w is_stream g ginf opts stages t :
  NoDup (g :: stages_uids stages) ->
  traces (graph_prog is_stream g ginf opts stages) t ->
  forall ev, In ev (st_log (run_script true w t)) ->
    exists e, In e (graph_table is_stream g ginf opts stages) /\ ev_unit ev = ue_unit e /\
              In ev (uexp_events w e).
Proof.
  intros ND HT ev Hev.
  assert (Hs : In ev (ss_log (run_spec w t))) by (rewrite <- script_log_spec; exact Hev).
  apply log_from_on in Hs. destruct Hs as [[]|[tm Ht]].
  apply (traces_in _ _ HT) in Ht. rewrite flatten_graph_prog in Ht.
  apply graph_ons_in_table in Ht. destruct Ht as (e & He & Hu & _).
  exists e. split; auto. split; auto.
  rewrite <- (engine_unit_logs w is_stream g ginf opts stages t ND HT e He).
  apply filter_In. split; auto. unfold of_unit. rewrite Hu. apply N.eqb_refl.
Qed.

(* ---------------------------------------------------------------- counting: exactly once, paired *)

Lemma is_ev_of_unit u x t i e : is_ev u x t i e = true -> of_unit u e = true.
Proof.
  destruct e as [u' x' t' i']. unfold is_ev, of_unit. simpl.
  intros H. apply andb_prop in H. destruct H as [H _]. apply andb_prop in H. destruct H as [H _].
  apply andb_prop in H. destruct H as [H _]. exact H.
Qed.

Lemma count_unit_events u x t i log :
  filter (is_ev u x t i) log = filter (is_ev u x t i) (filter (of_unit u) log).
Proof. symmetry. apply filter_filter_incl. apply is_ev_of_unit. Qed.

Lemma timing_eqb_eq a b : timing_eqb a b = true <-> a = b.
Proof. destruct a, b; unfold timing_eqb; simpl; split; intros H; try discriminate; auto. Qed.

Lemma timing_eqb_refl a : timing_eqb a a = true.
Proof. now apply timing_eqb_eq. Qed.

Lemma timing_eqb_neq a b : a <> b -> timing_eqb a b = false.
Proof. intros H. destruct (timing_eqb a b) eqn:E; auto. apply timing_eqb_eq in E. contradiction. Qed.

Lemma count_occ_filter (p : N -> bool) l x :
  count_occ N.eq_dec (filter p l) x = if p x then count_occ N.eq_dec l x else 0.
Proof.
  induction l as [|a l IH]; simpl; [destruct (p x); auto|].
  destruct (p a) eqn:Pa; simpl; destruct (N.eq_dec a x) as [->|Hne]; rewrite IH; auto.
  - rewrite Pa. auto.
  - rewrite Pa. auto.
Qed.

(* number of events (u, x, tm, inf) among the events expected for a unit with timings [s; f] *)
Lemma count_uexp w u inf l s f x tm :
  s <> f ->
  List.length (filter (is_ev u x tm inf) (served w u inf l s ++ served w u inf l f)) =
  if timing_eqb tm s then count_occ N.eq_dec (select w s (l ++ w_globals w)) x
  else if timing_eqb tm f then count_occ N.eq_dec (select w f (l ++ w_globals w)) x
  else 0.
Proof.
  intros Hsf. rewrite filter_app, app_length.
  destruct (timing_eqb tm s) eqn:Es.
  - apply timing_eqb_eq in Es. subst tm.
    rewrite count_served. rewrite (count_served_other_timing w u inf l s f x) by (apply timing_eqb_neq; congruence).
    simpl. lia.
  - destruct (timing_eqb tm f) eqn:Ef.
    + apply timing_eqb_eq in Ef. subst tm.
      rewrite count_served. rewrite (count_served_other_timing w u inf l f s x) by (apply timing_eqb_neq; congruence).
      simpl. lia.
    + rewrite (count_served_other_timing w u inf l tm s x), (count_served_other_timing w u inf l tm f x); auto.
      * destruct (timing_eqb f tm) eqn:E; auto. apply timing_eqb_eq in E. subst. now rewrite timing_eqb_refl in Ef.
      * destruct (timing_eqb s tm) eqn:E; auto. apply timing_eqb_eq in E. subst. now rewrite timing_eqb_refl in Es.
Qed.

(* the timings of a unit of the table: none (passthrough), or a start timing and an
   end-or-error timing *)
Definition is_end (t : timing) : bool := negb (is_start t).

Lemma start_timing_is_start p : is_start (start_timing_of p) = true.
Proof. unfold start_timing_of. destruct (_ || _); reflexivity. Qed.
Lemma end_timing_is_end p : is_start (end_timing_of p) = false.
Proof. unfold end_timing_of. destruct (_ || _); reflexivity. Qed.

Lemma stages_table_timings {X} (F : X -> list uexp * bool) stages e :
  (forall st m e, In st stages -> In m st -> In e (fst (F m)) ->
     ue_timings e = [] \/ exists s f, ue_timings e = [s; f] /\ is_start s = true /\ is_start f = false) ->
  In e (fst (stages_table (map (map F) stages))) ->
  ue_timings e = [] \/ exists s f, ue_timings e = [s; f] /\ is_start s = true /\ is_start f = false.
Proof.
  intros H. unfold stages_table. cbn [fst]. intros Hin.
  apply in_concat in Hin. destruct Hin as (l & Hl & Hel).
  apply in_map_iff in Hl. destruct Hl as (str & <- & Hstr).
  apply exec_rs_incl in Hstr. apply in_map_iff in Hstr. destruct Hstr as (st & <- & Hst).
  apply in_concat in Hel. destruct Hel as (l2 & Hl2 & Hel2).
  rewrite map_map in Hl2. apply in_map_iff in Hl2. destruct Hl2 as (m & <- & Hm).
  eapply H; eauto.
Qed.

Lemma graph_timings is_stream (b : bool) :
  is_start (graph_start is_stream) = true /\
  is_start (if b then TError else graph_end is_stream) = false.
Proof. destruct is_stream, b; simpl; auto. Qed.

Lemma node_table_timings is_stream n : forall inh opts e,
  In e (fst (node_table is_stream inh opts n)) ->
  ue_timings e = [] \/ exists s f, ue_timings e = [s; f] /\ is_start s = true /\ is_start f = false.
Proof.
  induction n as [uid key inf natives fails|uid key|uid key inf stages IH|uid key inf calls|] using gnode_ind'; intros inh opts e.
  - simpl. intros [<-|[]]. right. cbn [ue_timings]. do 2 eexists. split; [reflexivity|].
    split; [apply start_timing_is_start|]. destruct fails; [reflexivity | apply end_timing_is_end].
  - simpl. intros [<-|[]]. left. reflexivity.
  - cbn [node_table fst]. intros [<-|H].
    + right. cbn [ue_timings]. do 2 eexists. split; [reflexivity|]. apply graph_timings.
    + unfold body_table in H. destruct (graph_ok stages (sub_opts key opts)); cbn [negb fst] in H; [|contradiction].
      eapply stages_table_timings; eauto.
      intros st m e0 Hs Hm He0. eapply (FF_in _ _ _ _ IH Hs Hm); eauto.
  - cbn [node_table fst]. intros [<-|H].
    + right. cbn [ue_timings]. do 2 eexists. split; [reflexivity|].
      split; [apply start_timing_is_start|]. destruct (existsb call_fails calls); [reflexivity | apply end_timing_is_end].
    + apply in_map_iff in H. destruct H as (c & <- & Hc). destruct c as [[[cu cinf] natives] fails].
      right. cbn [call_uexp ue_timings]. do 2 eexists. split; [reflexivity|].
      split; [apply start_timing_is_start|]. destruct fails; [reflexivity | apply end_timing_is_end].
  - simpl. intros [].
Qed.

Lemma graph_table_timings is_stream g ginf opts stages e :
  In e (graph_table is_stream g ginf opts stages) ->
  ue_timings e = [] \/ exists s f, ue_timings e = [s; f] /\ is_start s = true /\ is_start f = false.
Proof.
  unfold graph_table. cbv zeta. intros [<-|H].
  - right. cbn [ue_timings]. do 2 eexists. split; [reflexivity|]. apply graph_timings.
  - unfold body_table in H. destruct (graph_ok stages opts); cbn [negb fst] in H; [|contradiction].
    eapply stages_table_timings; eauto.
    intros st m e0 Hs Hm He0. eapply node_table_timings; eauto.
Qed.

(* EXACTLY ONCE, PAIRED.  In every schedule of the run, for every unit of the table that is
   served (timings [s; f]: s a start timing, f the end / stream end / error timing), every
   handler x and every timing tm: the number of invocations of x for this unit with timing tm
   and the unit's run info is the number of times x is attached to the unit (its list ++ the
   global handlers) if tm is s or f and x asks for that timing, and zero otherwise. *)
Theorem engine_exactly_once_paired w is_stream g ginf opts stages t :
  NoDup (g :: stages_uids stages) ->
  traces (graph_prog is_stream g ginf opts stages) t ->
  forall e, In e (graph_table is_stream g ginf opts stages) ->
  forall s f, ue_timings e = [s; f] ->
  forall x tm,
    List.length (filter (is_ev (ue_unit e) x tm (ue_info e)) (st_log (run_script true w t))) =
    if (timing_eqb tm s || timing_eqb tm f) && w_needs w x tm
    then count_occ N.eq_dec (ue_list e ++ w_globals w) x else 0.
Proof.
  intros ND HT e He s f Hsf x tm.
  rewrite count_unit_events, (engine_unit_logs w is_stream g ginf opts stages t ND HT e He).
  unfold uexp_events. rewrite Hsf. cbn [flat_map]. rewrite app_nil_r.
  destruct (graph_table_timings _ _ _ _ _ _ He) as [H0|(s' & f' & H1 & Hs & Hf)]; [congruence|].
  rewrite Hsf in H1. injection H1 as <- <-.
  assert (Hne : s <> f) by (intros ->; congruence).
  rewrite (count_uexp w _ _ _ s f x tm Hne).
  unfold select. rewrite !count_occ_filter.
  destruct (timing_eqb tm s) eqn:Es.
  - apply timing_eqb_eq in Es. subst tm. simpl. reflexivity.
  - destruct (timing_eqb tm f) eqn:Ef.
    + apply timing_eqb_eq in Ef. subst tm. simpl. reflexivity.
    + reflexivity.
Qed.

(* a unit that is created but never served (passthrough node) has no events *)
Theorem engine_unserved_silent w is_stream g ginf opts stages t :
  NoDup (g :: stages_uids stages) ->
  traces (graph_prog is_stream g ginf opts stages) t ->
  forall e, In e (graph_table is_stream g ginf opts stages) -> ue_timings e = [] ->
    filter (of_unit (ue_unit e)) (st_log (run_script true w t)) = [].
Proof.
  intros ND HT e He H0. rewrite (engine_unit_logs w is_stream g ginf opts stages t ND HT e He).
  unfold uexp_events. now rewrite H0.
Qed.

(* the observable compared with the implementation (per handler: sorted multiset of
   (timing, run info)) does not depend on the schedule *)
Theorem engine_schedule_independent w is_stream g ginf opts stages t :
  NoDup (g :: stages_uids stages) ->
  traces (graph_prog is_stream g ginf opts stages) t ->
  forall u, filter (of_unit u) (st_log (run_script true w t)) =
            filter (of_unit u) (st_log (run_script true w (graph_ops is_stream g ginf opts stages))).
Proof.
  intros ND HT u.
  pose proof (graph_ops_is_a_schedule is_stream g ginf opts stages) as HC.
  (* either u is a unit of the table, or it has no events in any schedule *)
  assert (D : (exists e, In e (graph_table is_stream g ginf opts stages) /\ ue_unit e = u) \/
              ~ (exists e, In e (graph_table is_stream g ginf opts stages) /\ ue_unit e = u)).
  { induction (graph_table is_stream g ginf opts stages) as [|e l IH].
    - right. intros (e & [] & _).
    - destruct (N.eq_dec (ue_unit e) u) as [E|E]; [left; exists e; split; [left|]; auto|].
      destruct IH as [(e' & He' & Hu)|IH]; [left; exists e'; split; [right|]; auto|].
      right. intros (e' & [<-|He'] & Hu); [contradiction|]. apply IH. eauto. }
  destruct D as [(e & He & <-)|D].
  - now rewrite !(engine_unit_logs w is_stream g ginf opts stages _ ND) by assumption.
  - assert (Z : forall t', traces (graph_prog is_stream g ginf opts stages) t' ->
                 filter (of_unit u) (st_log (run_script true w t')) = []).
    { intros t' HT'. apply filter_nil_iff. intros ev Hev.
      destruct (engine_no_other_events w is_stream g ginf opts stages t' ND HT' ev Hev) as (e & He & Hu & _).
      unfold of_unit. apply N.eqb_neq. intros E. apply D. exists e. split; auto. congruence. }
    now rewrite !Z.
Qed.

(* ---------------------------------------------------------------- other concrete schedules *)

Lemma merge_alt {A} (l1 : list A) : forall l2, Merge l1 l2 (alt l1 l2).
Proof.
  induction l1 as [|a l1 IH]; intros l2; simpl.
  - induction l2 as [|b l2 IH2]; constructor; auto.
  - destruct l2 as [|b l2].
    + clear IH. constructor. induction l1 as [|c l1 IH1]; constructor; auto.
    + constructor. constructor. apply IH.
Qed.

(* the round-robin schedule (parallel branches advance in turn) is a schedule *)
Lemma traces_flatten_alt p : traces p (flatten_alt p).
Proof.
  induction p as [|o|a IHa b IHb|a IHa b IHb]; simpl; try constructor; auto.
  econstructor; eauto. apply merge_alt.
Qed.

(* and so is the one that runs parallel branches right to left *)
Lemma traces_flatten_rl p : traces p (flatten_rl p).
Proof.
  induction p as [|o|a IHa b IHb|a IHa b IHb]; simpl; try constructor; auto.
  econstructor; eauto. apply merge_app_rev.
Qed.

(* ---------------------------------------------------------------- which handlers a unit is served: node paths *)

Lemma node_table_p_fails is_stream n : forall inh opts path,
  snd (node_table_p is_stream inh opts path n) = node_fails opts n.
Proof.
  induction n as [uid key inf natives fails|uid key|uid key inf stages IH|uid key inf calls|] using gnode_ind'; intros inh opts path; simpl; auto.
  unfold body_table. destruct (graph_ok stages (sub_opts key opts)); simpl; auto.
  apply rs_failed_map. intros st m Hs Hm. apply (FF_in _ _ _ _ IH Hs Hm).
Qed.

Lemma body_table_p_fst ok stages (Fp : gnode -> list (uexp * list N) * bool) (F : gnode -> list uexp * bool) fl :
  (forall st m, In st stages -> In m st -> snd (Fp m) = fl m) ->
  (forall st m, In st stages -> In m st -> snd (F m) = fl m) ->
  (forall st m, In st stages -> In m st -> map fst (fst (Fp m)) = fst (F m)) ->
  map fst (fst (body_table ok (map (map Fp) stages))) = fst (body_table ok (map (map F) stages)) /\
  snd (body_table ok (map (map Fp) stages)) = snd (body_table ok (map (map F) stages)).
Proof.
  intros Hp Hf Hm. unfold body_table. destruct ok; cbn [negb]; [|split; reflexivity].
  unfold stages_table. cbn [fst snd].
  rewrite (rs_failed_map Fp fl stages Hp), (rs_failed_map F fl stages Hf). split; [|reflexivity].
  rewrite (exec_rs_map Fp fl stages Hp), (exec_rs_map F fl stages Hf).
  rewrite concat_map, !map_map. apply concat_map_ext_in. intros st Hst.
  apply exec_st_incl in Hst. rewrite concat_map, !map_map.
  apply concat_map_ext_in. intros m Hin. apply (Hm st); auto.
Qed.

(* the table with paths is the table *)
Lemma node_table_p_fst is_stream n : forall inh opts path,
  map fst (fst (node_table_p is_stream inh opts path n)) = fst (node_table is_stream inh opts n).
Proof.
  induction n as [uid key inf natives fails|uid key|uid key inf stages IH|uid key inf calls|] using gnode_ind'; intros inh opts path.
  - reflexivity.
  - reflexivity.
  - cbn [node_table_p node_table fst map].
    destruct (body_table_p_fst (graph_ok stages (sub_opts key opts)) stages
                (node_table_p is_stream (inh ++ List.concat (designated key opts)) (sub_opts key opts) (path ++ [key]))
                (node_table is_stream (inh ++ List.concat (designated key opts)) (sub_opts key opts))
                (node_fails (sub_opts key opts))) as [E1 E2].
    + intros; apply node_table_p_fails.
    + intros; apply node_table_fails.
    + intros st m Hs Hm. apply (FF_in _ _ _ _ IH Hs Hm).
    + rewrite E1, E2. reflexivity.
  - cbn [node_table_p node_table fst map]. f_equal. rewrite map_map. reflexivity.
  - reflexivity.
Qed.

Theorem graph_table_p_fst is_stream g ginf opts stages :
  map fst (graph_table_p is_stream g ginf opts stages) = graph_table is_stream g ginf opts stages.
Proof.
  unfold graph_table_p, graph_table. cbv zeta. cbn [map fst].
  destruct (body_table_p_fst (graph_ok stages opts) stages
              (node_table_p is_stream (List.concat (undesignated opts)) opts [])
              (node_table is_stream (List.concat (undesignated opts)) opts)
              (node_fails opts)) as [E1 E2].
  - intros; apply node_table_p_fails.
  - intros; apply node_table_fails.
  - intros; apply node_table_p_fst.
  - rewrite E1, E2. reflexivity.
Qed.

(* the options of one graph level that carry a path q, with their handlers *)
Definition lvl_has (opts : list copt) (q : list N) (hs : list handler) : Prop :=
  exists o, In o opts /\ fst o = hs /\ In q (snd o).

Lemma in_designated key opts x :
  In x (List.concat (designated key opts)) <-> exists hs, In x hs /\ lvl_has opts [key] hs.
Proof.
  unfold designated. split.
  - intros H. apply in_concat in H. destruct H as (hs & Hhs & Hx).
    apply in_flat_map in Hhs. destruct Hhs as (o & Ho & Hin).
    destruct (existsb _ (snd o)) eqn:E; [|contradiction]. destruct Hin as [<-|[]].
    apply existsb_exists in E. destruct E as (p & Hp & Hk).
    destruct p as [|k [|k2 tl]]; try discriminate. apply N.eqb_eq in Hk. subst k.
    exists (fst o). split; auto. exists o. auto.
  - intros (hs & Hx & o & Ho & <- & Hq).
    apply in_concat. exists (fst o). split; auto.
    apply in_flat_map. exists o. split; auto.
    assert (E : existsb (fun p => match p with [k] => N.eqb k key | _ => false end) (snd o) = true).
    { apply existsb_exists. exists [key]. split; auto. apply N.eqb_refl. }
    rewrite E. left; auto.
Qed.

Lemma lvl_has_sub key opts q hs :
  lvl_has (sub_opts key opts) q hs <-> q <> [] /\ lvl_has opts (key :: q) hs.
Proof.
  unfold lvl_has, sub_opts. split.
  - intros (o' & Ho' & <- & Hq).
    apply in_flat_map in Ho'. destruct Ho' as (o & Ho & Hin).
    apply in_flat_map in Hin. destruct Hin as (p & Hp & Hin).
    destruct p as [|k [|k2 tl]]; try contradiction.
    destruct (N.eqb k key) eqn:E; [|contradiction]. destruct Hin as [<-|[]].
    apply N.eqb_eq in E. subst k. simpl in Hq. destruct Hq as [<-|[]].
    split; [discriminate|]. exists o. auto.
  - intros (Hne & o & Ho & <- & Hq).
    destruct q as [|k2 tl]; [contradiction|].
    exists (fst o, [k2 :: tl]). split; [|split; simpl; auto].
    apply in_flat_map. exists o. split; auto.
    apply in_flat_map. exists (key :: k2 :: tl). split; auto.
    rewrite N.eqb_refl. left; auto.
Qed.

Lemma in_undesignated opts x :
  In x (List.concat (undesignated opts)) <-> exists o, In o opts /\ In x (fst o) /\ snd o = [].
Proof.
  unfold undesignated. split.
  - intros H. apply in_concat in H. destruct H as (hs & Hhs & Hx).
    apply in_flat_map in Hhs. destruct Hhs as (o & Ho & Hin).
    destruct (snd o) eqn:E; [|contradiction]. destruct Hin as [<-|[]]. eauto.
  - intros (o & Ho & Hx & E). apply in_concat. exists (fst o). split; auto.
    apply in_flat_map. exists o. split; auto. rewrite E. left; auto.
Qed.

Lemma stages_table_p_in (F : gnode -> list (uexp * list N) * bool) stages ep :
  In ep (fst (stages_table (map (map F) stages))) ->
  exists st m, In st stages /\ In m st /\ In ep (fst (F m)).
Proof.
  unfold stages_table. cbn [fst]. intros Hin.
  apply in_concat in Hin. destruct Hin as (l & Hl & Hel).
  apply in_map_iff in Hl. destruct Hl as (str & <- & Hstr).
  apply exec_rs_incl in Hstr. apply in_map_iff in Hstr. destruct Hstr as (st & <- & Hst).
  apply in_concat in Hel. destruct Hel as (l2 & Hl2 & Hel2).
  rewrite map_map in Hl2. apply in_map_iff in Hl2. destruct Hl2 as (m & <- & Hm).
  eauto.
Qed.

(* relative to one graph level: the unit's path continues the level's path by q <> [], and
   its list is the inherited one plus the handlers of the level's options that carry a
   non-empty prefix of q *)
Lemma node_table_p_lists is_stream n : forall inh opts path e pe,
  In (e, pe) (fst (node_table_p is_stream inh opts path n)) ->
  exists q, pe = path ++ q /\ q <> [] /\
    forall x, In x (ue_list e) <->
      In x inh \/ exists hs p, In x hs /\ p <> [] /\ is_prefix p q /\ lvl_has opts p hs.
Proof.
  induction n as [uid key inf natives fails|uid key|uid key inf stages IH|uid key inf calls|] using gnode_ind'; intros inh opts path e pe.
  - simpl. intros [H|[]]. injection H as <- <-. exists [key]. split; auto. split; [discriminate|].
    intros x. cbn [ue_list]. rewrite in_app_iff, in_designated. split.
    + intros [H|(hs & Hx & Hl)]; auto. right. exists hs, [key]. repeat split; auto; [discriminate | exists []; auto].
    + intros [H|(hs & p & Hx & Hne & [r Hr] & Hl)]; auto. right. exists hs. split; auto.
      destruct p as [|k p']; [contradiction|]. simpl in Hr. injection Hr as -> Hr.
      symmetry in Hr. apply app_eq_nil in Hr. destruct Hr as [-> _]. exact Hl.
  - simpl. intros [H|[]]. injection H as <- <-. exists [key]. split; auto. split; [discriminate|].
    intros x. cbn [ue_list]. rewrite in_app_iff, in_designated. split.
    + intros [H|(hs & Hx & Hl)]; auto. right. exists hs, [key]. repeat split; auto; [discriminate | exists []; auto].
    + intros [H|(hs & p & Hx & Hne & [r Hr] & Hl)]; auto. right. exists hs. split; auto.
      destruct p as [|k p']; [contradiction|]. simpl in Hr. injection Hr as -> Hr.
      symmetry in Hr. apply app_eq_nil in Hr. destruct Hr as [-> _]. exact Hl.
  - cbn [node_table_p fst]. intros [H|H].
    + injection H as <- <-. exists [key]. split; auto. split; [discriminate|].
      intros x. cbn [ue_list]. rewrite in_app_iff, in_designated. split.
      * intros [H|(hs & Hx & Hl)]; auto. right. exists hs, [key]. repeat split; auto; [discriminate | exists []; auto].
      * intros [H|(hs & p & Hx & Hne & [r Hr] & Hl)]; auto. right. exists hs. split; auto.
        destruct p as [|k p']; [contradiction|]. simpl in Hr. injection Hr as -> Hr.
        symmetry in Hr. apply app_eq_nil in Hr. destruct Hr as [-> _]. exact Hl.
    + unfold body_table in H. destruct (graph_ok stages (sub_opts key opts)); cbn [negb fst] in H; [|contradiction].
      apply stages_table_p_in in H. destruct H as (st & m & Hs & Hm & Hin).
      destruct (FF_in _ _ _ _ IH Hs Hm _ _ _ _ _ Hin) as (q' & Hpe & Hq' & Hx).
      exists (key :: q'). split; [rewrite Hpe, <- app_assoc; reflexivity|]. split; [discriminate|].
      intros x. rewrite Hx, in_app_iff, in_designated. split.
      * intros [[H|(hs & Hxh & Hl)]|(hs & p & Hxh & Hne & [r Hr] & Hl)]; auto.
        -- right. exists hs, [key]. repeat split; auto; [discriminate | exists q'; auto].
        -- apply lvl_has_sub in Hl. destruct Hl as [_ Hl].
           right. exists hs, (key :: p). repeat split; auto; [discriminate|]. exists r. simpl. now rewrite Hr.
      * intros [H|(hs & p & Hxh & Hne & [r Hr] & Hl)]; auto.
        destruct p as [|k p']; [contradiction|]. simpl in Hr. injection Hr as -> Hr.
        destruct p' as [|k2 p''].
        -- left. right. exists hs. auto.
        -- right. exists hs, (k2 :: p''). repeat split; auto; [discriminate | exists r; auto |].
           apply lvl_has_sub. split; [discriminate | auto].
  - cbn [node_table_p fst]. intros H.
    assert (Hl : ue_list e = inh ++ List.concat (designated key opts) /\ pe = path ++ [key]).
    { destruct H as [H|H]; [injection H as <- <-; auto|].
      apply in_map_iff in H. destruct H as (c & H & _). injection H as <- <-.
      destruct c as [[[cu cinf] natives] fails]. auto. }
    destruct Hl as [Hl ->]. exists [key]. split; auto. split; [discriminate|].
    intros x. rewrite Hl, in_app_iff, in_designated. split.
    + intros [H0|(hs & Hx & Hlv)]; auto. right. exists hs, [key]. repeat split; auto; [discriminate | exists []; auto].
    + intros [H0|(hs & p & Hx & Hne & [r Hr] & Hlv)]; auto. right. exists hs. split; auto.
      destruct p as [|k p']; [contradiction|]. simpl in Hr. injection Hr as -> Hr.
      symmetry in Hr. apply app_eq_nil in Hr. destruct Hr as [-> _]. exact Hlv.
  - cbn [node_table_p fst]. intros [].
Qed.

(* DESIGNATED ONLY THERE, in terms of the call options and node paths: the handler list of a
   unit of the table consists exactly of the handlers of the options that attach to the
   unit's node path — options without designation, and options designated to the unit or to
   a sub graph node enclosing it. *)
Theorem engine_lists_by_path is_stream g ginf opts stages e pe :
  In (e, pe) (graph_table_p is_stream g ginf opts stages) ->
  forall x, In x (ue_list e) <-> exists o, In o opts /\ In x (fst o) /\ attaches o pe.
Proof.
  unfold graph_table_p. cbv zeta. intros [H|H] x.
  - injection H as <- <-. cbn [ue_list]. rewrite in_undesignated. split.
    + intros (o & Ho & Hx & E). exists o. repeat split; auto. left; auto.
    + intros (o & Ho & Hx & [E|(p & Hp & Hne & [r Hr])]); [eauto|].
      symmetry in Hr. apply app_eq_nil in Hr. destruct Hr as [-> _]. contradiction.
  - unfold body_table in H. destruct (graph_ok stages opts); cbn [negb fst] in H; [|contradiction].
    apply stages_table_p_in in H. destruct H as (st & m & Hs & Hm & Hin).
    destruct (node_table_p_lists is_stream m _ _ _ _ _ Hin) as (q & Hpe & Hq & Hx).
    simpl in Hpe. subst pe. rewrite Hx, in_undesignated. split.
    + intros [(o & Ho & Hxo & E)|(hs & p & Hxh & Hne & Hpre & o & Ho & <- & Hp)].
      * exists o. repeat split; auto. left; auto.
      * exists o. repeat split; auto. right. exists p. auto.
    + intros (o & Ho & Hxo & [E|(p & Hp & Hne & Hpre)]).
      * left. eauto.
      * right. exists (fst o), p. repeat split; auto. exists o. auto.
Qed.

(* A handler is invoked for a unit only if it is global or some call option attaches it to
   the unit's node path — in every schedule. *)
Theorem engine_invoked_only_where_attached w is_stream g ginf opts stages t :
  NoDup (g :: stages_uids stages) ->
  traces (graph_prog is_stream g ginf opts stages) t ->
  forall ev, In ev (st_log (run_script true w t)) ->
    exists e pe, In (e, pe) (graph_table_p is_stream g ginf opts stages) /\
      ev_unit ev = ue_unit e /\
      (In (ev_handler ev) (w_globals w) \/
       exists o, In o opts /\ In (ev_handler ev) (fst o) /\ attaches o pe).
Proof.
  intros ND HT ev Hev.
  destruct (engine_no_other_events w is_stream g ginf opts stages t ND HT ev Hev) as (e & He & Hu & Hin).
  rewrite <- graph_table_p_fst in He. apply in_map_iff in He. destruct He as ([e' pe] & <- & He).
  exists e', pe. split; auto. split; auto. cbn [fst] in *.
  unfold uexp_events in Hin. apply in_flat_map in Hin. destruct Hin as (tm & _ & Hin).
  unfold served in Hin. apply in_events_of in Hin. destruct Hin as [Hin _].
  apply in_select in Hin. apply in_app_or in Hin. destruct Hin as [Hin|Hin]; auto.
  right. apply (engine_lists_by_path is_stream g ginf opts stages e' pe He). exact Hin.
Qed.

(* ---------------------------------------------------------------- no operation misses its context *)

(* the context an operation needs exists (otherwise the specification flags the run) *)
Definition op_ok (ss : sstate) (o : op) : bool :=
  match o with
  | ORaw _ _ _ _ _ => true
  | OAppend None _ _ _ => true
  | OAppend (Some p) _ _ _ => match lookup p (ss_ctxs ss) with Some _ => true | None => false end
  | OReuse p _ _ => match lookup p (ss_ctxs ss) with Some _ => true | None => false end
  | OOn u _ => match lookup u (ss_ctxs ss) with Some _ => true | None => false end
  | OAlias src _ _ lo hi =>
      match lookup src (ss_ctxs ss) with
      | Some (Some (l, _)) => (lo <=? hi)%nat && (hi <=? List.length l)%nat
      | _ => false
      end
  end.

Lemma sstep_bad w ss o : op_ok ss o = true -> ss_bad (sstep w ss o) = ss_bad ss.
Proof.
  destruct o as [new inf o0 hs spare | parent new inf opts | p new inf | v t | src new inf lo hi]; simpl; auto.
  - destruct parent as [p|]; simpl; auto. destruct (lookup p (ss_ctxs ss)); simpl; auto. discriminate.
  - destruct (lookup p (ss_ctxs ss)); simpl; auto. discriminate.
  - destruct (lookup v (ss_ctxs ss)) as [[[l i]|]|]; simpl; auto. discriminate.
  - destruct (lookup src (ss_ctxs ss)) as [[[l i]|]|]; simpl; try discriminate.
    intros ->. reflexivity.
Qed.

(* every operation of T that satisfies f finds its context, at the moment it runs *)
Definition ok_on (w : world) (f : op -> bool) (ss : sstate) (T : list op) : Prop :=
  forall T1 o T2, T = T1 ++ o :: T2 -> f o = true -> op_ok (run_spec_from w ss T1) o = true.

Lemma all_ok_bad w T : forall ss, ok_on w (fun _ => true) ss T -> ss_bad (run_spec_from w ss T) = ss_bad ss.
Proof.
  induction T as [|o T IH]; intros ss H; simpl; auto.
  rewrite IH.
  - apply sstep_bad. apply (H [] o T); auto.
  - intros T1 o' T2 E _. apply (H (o :: T1) o' T2); auto. simpl. now rewrite E.
Qed.

Lemma ok_on_cons w f ss o T :
  (f o = true -> op_ok ss o = true) -> ok_on w f (sstep w ss o) T -> ok_on w f ss (o :: T).
Proof.
  intros Ho HT T1 o' T2 E Hf. destruct T1 as [|a T1]; simpl in E.
  - injection E as <- <-. simpl. auto.
  - injection E as <- E. simpl. apply (HT T1 o' T2); auto.
Qed.

Lemma ok_on_app w f ss A B :
  ok_on w f ss A -> ok_on w f (run_spec_from w ss A) B -> ok_on w f ss (A ++ B).
Proof.
  revert ss. induction A as [|a A IH]; intros ss HA HB; simpl in *; auto.
  apply ok_on_cons.
  - intros Hf. apply (HA [] a A); auto.
  - apply IH; auto. intros T1 o T2 E Hf. apply (HA (a :: T1) o T2); auto. simpl. now rewrite E.
Qed.

Lemma ok_on_none w f ss T : filter f T = [] -> ok_on w f ss T.
Proof.
  intros F T1 o T2 E Hf. subst T.
  pose proof (proj1 (filter_nil_iff f _) F o) as N. rewrite N in Hf; [discriminate|].
  apply in_or_app. right. left. auto.
Qed.

(* combining two families of operations *)
Lemma ok_on_or w f g h ss T :
  (forall o, h o = true -> f o = true \/ g o = true) ->
  ok_on w f ss T -> ok_on w g ss T -> ok_on w h ss T.
Proof.
  intros H Hf Hg T1 o T2 E Hh. destruct (H o Hh); [eapply Hf | eapply Hg]; eauto.
Qed.

(* after its creation, the On operations of a unit find its context as long as nothing
   rebinds ... in the specification a context is never removed *)
Lemma lookup_some_stable w T : forall ss u c,
  lookup u (ss_ctxs ss) = Some c -> exists c', lookup u (ss_ctxs (run_spec_from w ss T)) = Some c'.
Proof.
  induction T as [|o T IH]; intros ss u c H; simpl; eauto.
  assert (exists c1, lookup u (ss_ctxs (sstep w ss o)) = Some c1) as [c1 H1].
  { destruct o as [new inf o0 hs spare | parent new inf opts | p new inf | v t | src new inf lo hi]; simpl.
    - destruct (N.eqb u new); eauto.
    - destruct (match parent with None => Some None | Some p => lookup p (ss_ctxs ss) end); simpl; eauto.
      destruct (N.eqb u new); eauto.
    - destruct (lookup p (ss_ctxs ss)); simpl; eauto. destruct (N.eqb u new); eauto.
    - destruct (lookup v (ss_ctxs ss)) as [[[l i]|]|]; simpl; eauto.
    - destruct (lookup src (ss_ctxs ss)) as [[[l i]|]|]; simpl; eauto.
      destruct (_ && _); simpl; eauto. destruct (N.eqb u new); eauto. }
  eapply IH; eauto.
Qed.

(* the On operations of an existing unit are fine *)
Lemma ok_on_ons w u ss T c :
  lookup u (ss_ctxs ss) = Some c ->
  ok_on w (fun o => match o with OOn v _ => N.eqb v u | _ => false end) ss T.
Proof.
  intros H T1 o T2 E Hf. destruct o as [| | |v t|]; try discriminate.
  apply N.eqb_eq in Hf. subst v. simpl.
  destruct (lookup_some_stable w T1 ss u c H) as [c' ->]. reflexivity.
Qed.

Lemma filter_touch_single u T : filter (touches [u]) T = filter (mentions u) T.
Proof. apply filter_ext. intros o. rewrite mentions_op_unit. unfold touches. simpl. now rewrite orb_false_r. Qed.

(* a unit created by AppendHandlers / ReuseHandlers on an existing context, then served *)
Lemma unit_ok w u c ons ss T p cp :
  (exists inf dopts, c = OAppend (Some p) u inf dopts) \/ (exists inf, c = OReuse p u inf) ->
  lookup p (ss_ctxs ss) = Some cp ->
  filter (touches [u]) T = c :: map (OOn u) ons ->
  ok_on w (touches [u]) ss T.
Proof.
  intros Hc Hp HF.
  destruct (filter_split _ _ _ _ HF) as (T1 & T2 & -> & F1 & F2).
  apply ok_on_app; [now apply ok_on_none|].
  destruct (lookup_some_stable w T1 ss p cp Hp) as [cp' Hp'].
  apply ok_on_cons.
  - intros _. destruct Hc as [(inf & dopts & ->)|(inf & ->)]; simpl; now rewrite Hp'.
  - assert (Hu : exists cu, lookup u (ss_ctxs (sstep w (run_spec_from w ss T1) c)) = Some cu).
    { destruct Hc as [(inf & dopts & ->)|(inf & ->)]; simpl; rewrite Hp'; simpl; rewrite N.eqb_refl; eauto. }
    destruct Hu as [cu Hu].
    intros A o B E Hf.
    assert (Hin : In o (filter (touches [u]) T2)).
    { apply filter_In. split; auto. rewrite E. apply in_or_app. right. left. auto. }
    rewrite F2 in Hin. apply in_map_iff in Hin. destruct Hin as (t & <- & _).
    apply (ok_on_ons w u _ T2 cu Hu A (OOn u t) B E). simpl. apply N.eqb_refl.
Qed.

Section EngineOk.
  Variable w : world.
  Variable is_stream : bool.
  Notation run := (run_spec_from w).

  Definition node_ok_stmt (n : gnode) : Prop :=
    forall parent opts ss T c_p,
      lookup parent (ss_ctxs ss) = Some c_p ->
      traces (fst (node_prog is_stream parent opts n)) (filter (touches (uids n)) T) ->
      NoDup (uids n) ->
      ok_on w (touches (uids n)) ss T.

  Lemma stages_prog_in g opts stages o :
    In o (flatten (fst (stages_prog (map (map (node_prog is_stream g opts)) stages)))) ->
    exists E1 s1 m s2 E2, exec_st (node_fails opts) stages = E1 ++ (s1 ++ m :: s2) :: E2 /\
                          In o (flatten (fst (node_prog is_stream g opts m))).
  Proof.
    rewrite (stages_prog_shape (node_prog is_stream g opts) (node_fails opts) stages)
      by (intros; apply node_prog_fails).
    rewrite flatten_seq_list. intros H. apply in_concat in H. destruct H as (l & Hl & Hol).
    rewrite map_map in Hl. apply in_map_iff in Hl. destruct Hl as (st & <- & Hst).
    rewrite flatten_par_list in Hol. apply in_concat in Hol. destruct Hol as (l2 & Hl2 & Hol2).
    rewrite map_map in Hl2. apply in_map_iff in Hl2. destruct Hl2 as (m & <- & Hm).
    apply in_split in Hst. destruct Hst as (E1 & E2 & HE).
    apply in_split in Hm. destruct Hm as (s1 & s2 & ->).
    exists E1, s1, m, s2, E2. auto.
  Qed.

  Lemma body_ok g ok opts stages ss T c_g :
    Forall (Forall node_ok_stmt) stages ->
    lookup g (ss_ctxs ss) = Some c_g ->
    traces (fst (graph_body_prog is_stream g ok (map (map (node_prog is_stream g opts)) stages)))
           (filter (touches (g :: stages_uids stages)) T) ->
    NoDup (g :: stages_uids stages) ->
    ok_on w (touches (g :: stages_uids stages)) ss T.
  Proof.
    intros IH Hg HT ND A o B E Hf.
    apply NoDup_cons_iff in ND. destruct ND as [Hgk NDk].
    assert (Hin : In o (filter (touches (g :: stages_uids stages)) T)).
    { apply filter_In. split; auto. rewrite E. apply in_or_app. right. left. auto. }
    apply (traces_in _ _ HT) in Hin.
    assert (Hcases : (exists t, o = OOn g t) \/
              exists E1 s1 m s2 E2, ok = true /\ exec_st (node_fails opts) stages = E1 ++ (s1 ++ m :: s2) :: E2 /\
                                    In o (flatten (fst (node_prog is_stream g opts m)))).
    { unfold graph_body_prog in Hin. destruct ok; cbn [negb fst] in Hin.
      - cbn [flatten app] in Hin. destruct Hin as [<-|Hin]; [left; eauto|].
        apply in_app_or in Hin. destruct Hin as [Hin|[<-|[]]]; [|left; eauto].
        right. apply stages_prog_in in Hin. destruct Hin as (E1 & s1 & m & s2 & E2 & HE & Ho).
        exists E1, s1, m, s2, E2. auto.
      - rewrite flatten_atoms in Hin. destruct Hin as [<-|[<-|[]]]; left; eauto. }
    destruct Hcases as [[t ->]|(E1 & s1 & m & s2 & E2 & -> & HE & Ho)].
    - apply (ok_on_ons w g ss T c_g Hg A (OOn g t) B E). simpl. apply N.eqb_refl.
    - assert (Hst : In (s1 ++ m :: s2) stages).
      { apply (exec_st_incl (node_fails opts)). rewrite HE. apply in_or_app. right. left. auto. }
      assert (Hm : In m (s1 ++ m :: s2)) by (apply in_or_app; right; left; auto).
      pose proof (FF_in _ _ _ _ IH Hst Hm) as IHm.
      assert (Hsub : forall u, In u (uids m) -> In u (stages_uids stages))
        by (intros u Hu; eapply in_stages_uids; eauto).
      apply (IHm g opts ss T c_g Hg) with (T1 := A) (T2 := B); auto.
      + assert (E0 : filter (touches (uids m)) T = filter (touches (uids m)) (filter (touches (g :: stages_uids stages)) T)).
        { symmetry. apply filter_filter_incl. intros o' Ho'. apply touches_In in Ho'. apply touches_In.
          right. auto. }
        rewrite E0. apply (proj_traces _ _ _ _ HT).
        unfold graph_body_prog. cbn [negb fst].
        apply SA_seq_r.
        { intros o' [<-|[]]. apply touches_false. simpl. intros Hin'. apply Hgk. auto. }
        apply SA_seq_l.
        { eapply child_sub_at; eauto. }
        { intros o' [<-|[]]. apply touches_false. simpl. intros Hin'. apply Hgk. auto. }
      + unfold stages_uids in NDk.
        apply (NoDup_flat_map_elem uids (s1 ++ m :: s2) m); auto.
        apply (NoDup_flat_map_elem (flat_map uids) stages); auto.
      + apply touches_In. eapply node_prog_units; eauto.
  Qed.

  Theorem node_ok n : node_ok_stmt n.
  Proof.
    induction n as [uid key inf natives fails|uid key|uid key inf stages IH|uid key inf calls|] using gnode_ind';
      intros parent opts ss T c_p Hp HT ND.
    - cbn [node_prog fst uids] in *. apply traces_atoms in HT.
      apply (unit_ok w uid (OAppend (Some parent) uid inf (designated key opts))
               [start_timing_of (pick_native is_stream natives);
                if fails then TError else end_timing_of (pick_native is_stream natives)] ss T parent c_p);
        [left; eauto | exact Hp | exact HT].
    - cbn [node_prog fst uids] in *. inversion HT as [|o Ho| |]; subst.
      apply (unit_ok w uid (OAppend (Some parent) uid 0%N (designated key opts)) [] ss T parent c_p);
        [left; eauto | exact Hp | simpl; symmetry; assumption].
    - cbn [node_prog fst uids] in *. fold (stages_uids stages) in *.
      apply traces_seq_atom in HT. destruct HT as (tb & HF & Htb).
      destruct (filter_split _ _ _ _ HF) as (T1 & T2 & -> & F1 & F2).
      apply ok_on_app; [now apply ok_on_none|].
      destruct (lookup_some_stable w T1 ss parent c_p Hp) as [cp' Hp'].
      apply ok_on_cons.
      + intros _. simpl. now rewrite Hp'.
      + assert (Hu : exists cu, lookup uid (ss_ctxs (sstep w (run ss T1) (OAppend (Some parent) uid inf (designated key opts)))) = Some cu).
        { simpl. rewrite Hp'. simpl. rewrite N.eqb_refl. eauto. }
        destruct Hu as [cu Hu].
        rewrite <- F2 in Htb.
        eapply body_ok; eauto.
    - (* a ToolsNode *)
      cbn [node_prog fst uids] in *.
      change (map (fun c : ukey * info * N * bool => fst (fst (fst c))) calls) with (map (call_unit) calls) in *.
      set (U := uid :: map call_unit calls) in *.
      apply traces_seq_atom in HT. destruct HT as (tb & HF & Htb).
      destruct (filter_split _ _ _ _ HF) as (T1 & T2 & -> & F1 & F2).
      apply ok_on_app; [now apply ok_on_none|].
      destruct (lookup_some_stable w T1 ss parent c_p Hp) as [cp' Hp'].
      apply ok_on_cons; [intros _; simpl; now rewrite Hp'|].
      set (ss1 := sstep w (run ss T1) (OAppend (Some parent) uid inf (designated key opts))).
      assert (Hu : exists cu, lookup uid (ss_ctxs ss1) = Some cu).
      { unfold ss1. simpl. rewrite Hp'. simpl. rewrite N.eqb_refl. eauto. }
      destruct Hu as [cu0 Hu].
      rewrite <- F2 in Htb.
      apply NoDup_cons_iff in ND. destruct ND as [Hk NDk].
      set (p3 := pick_native is_stream 3) in *.
      set (body := PSeq (PAtom (OOn uid (start_timing_of p3)))
                     (PSeq (par_list (map (fun c0 => atoms (call_ops is_stream uid c0)) calls))
                        (PAtom (OOn uid (if existsb call_fails calls then TError else end_timing_of p3))))) in *.
      intros A o B E Hf.
      assert (Hin : In o (filter (touches U) T2)).
      { apply filter_In. split; auto. rewrite E. apply in_or_app. right. left. auto. }
      apply (traces_in _ _ Htb) in Hin. unfold body in Hin. cbn [flatten app] in Hin.
      assert (Hcases : (exists t, o = OOn uid t) \/ exists c1 c0 c2, calls = c1 ++ c0 :: c2 /\ In o (call_ops is_stream uid c0)).
      { destruct Hin as [<-|Hin]; [left; eauto|].
        apply in_app_or in Hin. destruct Hin as [Hin|[<-|[]]]; [|left; eauto].
        right. rewrite flatten_par_list, map_map in Hin. apply in_concat in Hin.
        destruct Hin as (l & Hl & Hol). apply in_map_iff in Hl. destruct Hl as (c0 & <- & Hc0).
        rewrite flatten_atoms in Hol. apply in_split in Hc0. destruct Hc0 as (c1 & c2 & ->). eauto. }
      destruct Hcases as [[t ->]|(c1 & c0 & c2 & Hcalls & Ho)].
      + apply (ok_on_ons w uid ss1 T2 cu0 Hu A (OOn uid t) B E). simpl. apply N.eqb_refl.
      + destruct c0 as [[[cu cinf] natives] fails].
        assert (HcuU : In cu U).
        { right. rewrite Hcalls, map_app. apply in_or_app. right. left. reflexivity. }
        assert (Hcu_ne : cu <> uid).
        { intros ->. apply Hk. rewrite Hcalls, map_app. apply in_or_app. right. left. reflexivity. }
        assert (Hsub : sub_at (touches [cu]) body (atoms (call_ops is_stream uid (cu, cinf, natives, fails)))).
        { unfold body. apply SA_seq_r.
          { intros o' [<-|[]]. apply touches_false. simpl. intros [E'|[]]. congruence. }
          apply SA_seq_l.
          2:{ intros o' [<-|[]]. apply touches_false. simpl. intros [E'|[]]. congruence. }
          rewrite Hcalls, map_app. cbn [map].
          assert (Hother : forall c', In c' (c1 ++ c2) -> nof (touches [cu]) (atoms (call_ops is_stream uid c'))).
          { intros c' Hc' o' Ho'. rewrite flatten_atoms in Ho'. apply (call_ops_units is_stream) in Ho'.
            apply touches_false. rewrite Ho'. simpl. intros [E'|[]].
            rewrite Hcalls, map_app in NDk. cbn [map] in NDk.
            apply in_app_or in Hc'. destruct Hc' as [Hc'|Hc'].
            - apply (NoDup_app_disj _ _ cu NDk); [apply in_map_iff; eauto | left; reflexivity].
            - apply NoDup_app_r in NDk. apply NoDup_cons_iff in NDk. destruct NDk as [Hn _].
              apply Hn. apply in_map_iff. eauto. }
          apply sub_at_par_list.
          - apply Forall_forall. intros q Hq. apply in_map_iff in Hq. destruct Hq as (c' & <- & Hc').
            apply Hother. apply in_or_app. auto.
          - apply SA_here. intros o' Ho'. rewrite flatten_atoms in Ho'. apply (call_ops_units is_stream) in Ho'.
            apply touches_In. rewrite Ho'. left. reflexivity.
          - apply Forall_forall. intros q Hq. apply in_map_iff in Hq. destruct Hq as (c' & <- & Hc').
            apply Hother. apply in_or_app. auto. }
        pose proof (proj_traces _ _ _ _ Htb Hsub) as Hc.
        apply traces_atoms in Hc.
        assert (E0 : filter (touches [cu]) (filter (touches U) T2) = filter (touches [cu]) T2).
        { apply filter_filter_incl. intros o' Ho'. apply touches_In in Ho'. apply touches_In.
          destruct Ho' as [<-|[]]. exact HcuU. }
        rewrite E0 in Hc.
        apply (unit_ok w cu (OReuse uid cu cinf)
                 [start_timing_of (pick_native is_stream natives);
                  if fails then TError else end_timing_of (pick_native is_stream natives)]
                 ss1 T2 uid cu0) with (T1 := A) (T2 := B); auto.
        * right. eauto.
        * apply touches_In. apply (call_ops_units is_stream) in Ho. rewrite Ho. left. reflexivity.
    - (* a configured interrupt point: no operation *)
      cbn [node_prog fst uids] in *. apply ok_on_none. inversion HT; auto.
  Qed.
End EngineOk.

(* In every schedule of a graph run every operation finds the context it needs: the model
   never flags the run (no On on a context that does not exist yet). *)
Theorem engine_never_flagged w is_stream g ginf opts stages t :
  NoDup (g :: stages_uids stages) ->
  traces (graph_prog is_stream g ginf opts stages) t ->
  st_bad (run_script true w t) = false.
Proof.
  intros ND HT.
  destruct (script_refines_spec w t) as (Bd & _ & _). rewrite Bd. clear Bd.
  unfold graph_prog in HT. apply traces_seq_atom in HT. destruct HT as (tb & -> & Htb).
  unfold run_spec. cbn [run_spec_from fold_left].
  change (fold_left (sstep w) tb (sstep w sstate0 (OAppend None g ginf (undesignated opts))))
    with (run_spec_from w (sstep w sstate0 (OAppend None g ginf (undesignated opts))) tb).
  set (ss1 := sstep w sstate0 (OAppend None g ginf (undesignated opts))).
  assert (Lu : exists cu, lookup g (ss_ctxs ss1) = Some cu).
  { unfold ss1. simpl. rewrite N.eqb_refl. eauto. }
  destruct Lu as [cu Lu].
  assert (Hall : filter (touches (g :: stages_uids stages)) tb = tb).
  { apply filter_all. intros o Ho. apply touches_In. apply (traces_in _ _ Htb) in Ho.
    eapply body_prog_units; eauto. }
  assert (IH : Forall (Forall (node_ok_stmt w is_stream)) stages).
  { apply Forall_forall. intros st _. apply Forall_forall. intros m _. apply node_ok. }
  rewrite <- Hall in Htb.
  pose proof (body_ok w is_stream g (graph_ok stages opts) opts stages ss1 tb cu IH Lu Htb ND) as OK.
  rewrite all_ok_bad.
  - reflexivity.
  - intros A o B E _. apply (OK A o B E).
    assert (Hin : In o tb) by (rewrite E; apply in_or_app; right; left; auto).
    rewrite <- Hall in Hin. apply filter_In in Hin. apply Hin.
Qed.
