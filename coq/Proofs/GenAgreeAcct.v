(* Proofs/GenAgreeAcct.v — property C19, translator tie: the Gallina functions that tools/go2v (extractor
   "acctcode") translates statement by statement from compose/graph_run.go (copyItem, uniqueKeys, the loop
   body of runner.resolveCompletedTasks) and compose/graph_manager.go (the per-target loop of
   channelManager.updateValues) — coq/Gen/AcctCode.v, regenerated on every run — are, for ALL arguments,
   the functions of Model/StreamAcct.v that the theorems of Props/C19.v (copies_eq_consumers,
   every_copy_has_one_consumer, successors_receive_once, and through resolve_one the run theorems) are about.
   A changed copy count, slice bound, index, comparison, loop range, de-duplication or keep/close decision
   in the source yields a different Gallina term and these proofs stop compiling.  Untranslated, i.e.
   meanings fixed by Model/AcctGenLib.v: Go slicing / indexing (panic when out of range), StreamReader.Copy
   for n >= 2, calculateBranch (branch i consumes input[i]; fails on a short input), map assignment, the
   set operations on map[string]struct{}.
   When the extractor does not recognise the source, Gen/AcctCode.v re-exports the model's functions and
   every theorem here holds by reflexivity (tie unavailable). *)
From Eino Require Import Base.Util Model.StreamAcct Model.AcctGenLib.
From Eino Require Gen.AcctCode.
From Coq Require Import Lia ZifyBool ZifyNat.
Open Scope Z_scope.

Theorem gen_copy_item_agrees : forall h n s, Gen.AcctCode.copy_item h n s = StreamAcct.copy_item h n s.
Proof.
  intros. unfold Gen.AcctCode.copy_item, copy_item, g_stream_copy.
  (* whatever comparison the source uses, it must decide n < 2 *)
  destruct (Z.ltb_spec n 2);
    repeat match goal with |- context [if ?c then _ else _] => destruct c eqn:? end;
    try reflexivity; exfalso; lia.
Qed.

Lemma unique_fold : forall l seen ret,
  snd (fold_left (fun (acc : list key * list key) k => let '(sn, rt) := acc in
     if negb (g_set_mem k sn) then (g_set_add k sn, rt ++ [k]) else (sn, rt)) l (seen, ret))
  = ret ++ unique_from seen l.
Proof.
  induction l as [|k l IH]; intros seen ret; simpl.
  - now rewrite app_nil_r.
  - unfold g_set_mem at 2. destruct (memb k seen); simpl.
    + apply IH.
    + unfold g_set_add at 2. rewrite IH. now rewrite <- app_assoc.
Qed.

Theorem gen_unique_keys_agrees : forall l, Gen.AcctCode.unique_keys l = StreamAcct.unique_keys l.
Proof.
  intros l.
  first [ reflexivity
        | unfold Gen.AcctCode.unique_keys, unique_keys, g_range, g_set_empty;
          pose proof (unique_fold l [] []) as H; simpl in H;
          match goal with |- (let '(_, _) := ?f in _) = _ => destruct f as [a b] eqn:E end;
          simpl in *; exact H ].
Qed.

(* ---- the loop body of resolveCompletedTasks *)
Lemma slice_from_nat : forall A (l : list A) (n : nat),
  g_slice_from l (Z.of_nat n) = if Nat.ltb (List.length l) n then Panic else Ok (skipn n l).
Proof.
  intros. unfold g_slice_from, glen. rewrite Nat2Z.id.
  destruct (Nat.ltb_spec (List.length l) n); destruct (Z.ltb_spec (Z.of_nat n) 0); destruct (Z.ltb_spec (Z.of_nat (List.length l)) (Z.of_nat n)); simpl; try reflexivity; lia.
Qed.

Lemma slice_to_sub : forall A (l : list A) (b : nat),
  g_slice_to l (glen l - Z.of_nat b) = if Nat.ltb (List.length l) b then Panic else Ok (firstn (List.length l - b) l).
Proof.
  intros. unfold g_slice_to, glen.
  destruct (Nat.ltb_spec (List.length l) b).
  - destruct (Z.ltb_spec (Z.of_nat (List.length l) - Z.of_nat b) 0); simpl; try reflexivity; lia.
  - destruct (Z.ltb_spec (Z.of_nat (List.length l) - Z.of_nat b) 0); try lia.
    destruct (Z.ltb_spec (Z.of_nat (List.length l)) (Z.of_nat (List.length l) - Z.of_nat b)); try lia.
    simpl. do 2 f_equal. lia.
Qed.

Lemma index_last : forall A (l : list A),
  g_index l (glen l - 1) = match last_opt l with Some x => Ok x | None => Panic end.
Proof.
  intros. unfold g_index, glen, last_opt. destruct l as [|a l]; [reflexivity|].
  cbn [List.length]. destruct (Z.ltb_spec (Z.of_nat (S (List.length l)) - 1) 0); try lia.
  replace (Z.to_nat (Z.of_nat (S (List.length l)) - 1)) with (S (List.length l) - 1)%nat by lia.
  reflexivity.
Qed.

Lemma assign_all_ok_len : forall next vs m r, assign_all next vs m = Ok r -> (List.length next <= List.length vs)%nat.
Proof.
  induction next as [|k next IH]; intros vs m r H; simpl in *; [lia|].
  destruct vs as [|h vs]; [discriminate|]. simpl. apply IH in H. lia.
Qed.

Lemma slice_to_last : forall A (l : list A), l <> [] ->
  g_slice_to l (glen l - 1) = Ok (firstn (List.length l - 1) l).
Proof.
  intros A l Hl. replace 1 with (Z.of_nat 1) by reflexivity. rewrite slice_to_sub.
  destruct l; [congruence|]. reflexivity.
Qed.

(* the translated loop body IS the model's resolve_task: for every task (successor list, branch list,
   branch outcomes), every output handle and every store *)
Theorem gen_resolve_task_agrees : forall t out s,
  Gen.AcctCode.resolve_task t out s = StreamAcct.resolve_task t out s.
Proof.
  intros t out s.
  first [ reflexivity |
  unfold Gen.AcctCode.resolve_task, resolve_task;
  rewrite gen_copy_item_agrees;
  replace (glen (t_write_to t) + glen (t_branches t) * 2)
    with (Z.of_nat (List.length (t_write_to t) + 2 * List.length (t_branches t))) by (unfold glen; lia);
  destruct (copy_item out _ s) as [vs s1];
  replace (glen (t_write_to t) + glen (t_branches t))
    with (Z.of_nat (List.length (t_write_to t) + List.length (t_branches t))) by (unfold glen; lia);
  rewrite slice_from_nat;
  set (w := List.length (t_write_to t)); set (b := List.length (t_branches t));
  destruct (Nat.ltb (List.length vs) (w + b)); [reflexivity|];
  cbn [res_bind];
  unfold g_calculate_branch; fold b;
  replace (glen (skipn (w + b) vs) <? glen (t_branches t))
    with (Nat.ltb (List.length (skipn (w + b) vs)) b)
    by (unfold glen; fold b; destruct (Nat.ltb_spec (List.length (skipn (w + b) vs)) b);
        destruct (Z.ltb_spec (Z.of_nat (List.length (skipn (w + b) vs))) (Z.of_nat b)); try reflexivity; lia);
  destruct (Nat.ltb (List.length (skipn (w + b) vs)) b); [reflexivity|];
  cbn [res_bind]; rewrite gen_unique_keys_agrees;
  set (next := unique_keys (selected t ++ t_write_to t));
  unfold glen at 2; fold b; rewrite slice_to_sub;
  destruct (Nat.ltb (List.length vs) b); [reflexivity|];
  cbn [res_bind];
  set (vs1 := firstn (List.length vs - b) vs);
  unfold glen at 1 2;
  (* whatever comparison the source uses, it must decide 0 < len(next) - len(vs) *)
  destruct (Z.ltb_spec 0 (Z.of_nat (List.length next) - Z.of_nat (List.length vs1))) as [Hc|Hc];
  match goal with |- res_bind (if ?c then _ else _) _ = _ => destruct c eqn:Hg end; try (exfalso; lia);
  [ rewrite index_last; destruct (last_opt vs1) as [l|] eqn:Hl; [|reflexivity];
    cbn [res_bind]; rewrite gen_copy_item_agrees; unfold glen;
    destruct (copy_item l _ s1) as [nvs s2];
    rewrite slice_to_last by (intro E; rewrite E in Hl; discriminate);
    cbn [res_bind]; unfold g_write_range;
    destruct (assign_all next _ []) as [wr| |] eqn:Ha; try reflexivity;
    cbn [res_bind]; apply assign_all_ok_len in Ha;
    unfold glen; rewrite slice_from_nat;
    destruct (Nat.ltb_spec (List.length (firstn (List.length vs1 - 1) vs1 ++ nvs)) (List.length next)); [lia|];
    reflexivity
  | cbn [res_bind]; unfold g_write_range;
    destruct (assign_all next vs1 []) as [wr| |] eqn:Ha; try reflexivity;
    cbn [res_bind]; apply assign_all_ok_len in Ha;
    unfold glen; rewrite slice_from_nat;
    destruct (Nat.ltb_spec (List.length vs1) (List.length next)); [lia|];
    reflexivity ] ].
Qed.

(* ---- channelManager.updateValues, one target *)
Lemma update_fold : forall dps (f : upd_acc -> key * handle -> upd_acc),
  (forall acc fv, f acc fv = if memb (fst fv) dps then ua_keep (fst fv) (snd fv) acc else ua_close (snd fv) acc) ->
  forall fm a,
  fold_left f fm a
  = {| ua_kept := ua_kept a ++ filter (fun kv => memb (fst kv) dps) fm;
       ua_closed := ua_closed a ++ map snd (filter (fun kv => negb (memb (fst kv) dps)) fm) |}.
Proof.
  intros dps f Hf. induction fm as [|[k v] fm IH]; intros a; simpl.
  - rewrite !app_nil_r. now destruct a.
  - rewrite IH, Hf. simpl. destruct (memb k dps); simpl; now rewrite <- ?app_assoc.
Qed.

(* the translated per-target loop keeps exactly the values whose writer is in dataPredecessors[target]
   and closes exactly the others (in whichever order the source tests it) *)
Theorem gen_update_from_map_agrees : forall dps fm,
  Gen.AcctCode.update_from_map dps fm
  = {| ua_kept := filter (fun kv => memb (fst kv) dps) fm;
       ua_closed := map snd (filter (fun kv => negb (memb (fst kv) dps)) fm) |}.
Proof.
  intros.
  first [ reflexivity
        | unfold Gen.AcctCode.update_from_map, g_range;
          rewrite (update_fold dps) by (intros acc [k v]; unfold g_set_mem; simpl; destruct (memb k dps); reflexivity);
          reflexivity ].
Qed.

(* the values one task wrote (writeChannelValues[target][node]), target by target, through the
   translated loop = update_values of the model, provided dataPredecessors[target] lists the node
   exactly when the model says it is a data predecessor (graph.compile, not translated) *)
Theorem gen_update_values_agrees : forall t (dps_of : key -> list key) writes,
  (forall target, memb (t_node t) (dps_of target) = is_data_pred t target) ->
  let per := map (fun kh : key * handle =>
                    (fst kh, Gen.AcctCode.update_from_map (dps_of (fst kh)) [(t_node t, snd kh)])) writes in
  u_chan (update_values t writes)
    = flat_map (fun ta : key * upd_acc => map (fun fh : key * handle => (fst ta, snd fh)) (ua_kept (snd ta))) per
  /\ u_closed (update_values t writes) = flat_map (fun ta : key * upd_acc => ua_closed (snd ta)) per.
Proof.
  intros t dps_of writes H per. subst per.
  rewrite (map_ext _ (fun kh : key * handle => (fst kh,
             {| ua_kept := filter (fun kv => memb (fst kv) (dps_of (fst kh))) [(t_node t, snd kh)];
                ua_closed := map snd (filter (fun kv => negb (memb (fst kv) (dps_of (fst kh)))) [(t_node t, snd kh)]) |})))
    by (intros; now rewrite gen_update_from_map_agrees).
  unfold update_values; simpl.
  induction writes as [|[k h] ws [IH1 IH2]]; [split; reflexivity|].
  simpl. rewrite H.
  destruct (is_data_pred t k); simpl; split; try (f_equal; assumption); assumption.
Qed.

(* ---- internal/callbacks.OnWithStreamHandle *)
Lemma hand_range_firstn : forall A (hs : list A) xs, (List.length hs <= List.length xs)%nat ->
  g_hand_range hs xs = Ok (firstn (List.length hs) xs).
Proof.
  induction hs as [|a hs IH]; intros xs H; simpl; [reflexivity|].
  destruct xs as [|x xs]; simpl in H; [lia|]. rewrite IH by lia. reflexivity.
Qed.

Lemma copy_item_length : forall h n s, 2 <= n -> List.length (fst (copy_item h n s)) = Z.to_nat n.
Proof.
  intros h n s H. unfold copy_item. destruct (Z.ltb_spec n 2); [lia|]. simpl.
  unfold fresh_handles. now rewrite map_length, seq_length.
Qed.

Lemma index_last_default : forall (l : list handle) d, l <> [] -> g_index l (glen l - 1) = Ok (List.last l d).
Proof.
  intros l d Hl. rewrite index_last. unfold last_opt.
  destruct l as [|a l]; [congruence|]. clear Hl. cbn [List.length]. replace (S (List.length l) - 1)%nat with (List.length l) by lia.
  revert a. induction l as [|b l IH]; intros a; [reflexivity|]. cbn [List.length nth_error]. rewrite IH. reflexivity.
Qed.

(* the translated function hands every handler exactly one copy, in order, and lets the last copy
   continue: it IS the model's on_with_stream_handle (callback_copies_have_one_consumer is about it), for
   every number of handlers, every stream and every store; it never panics *)
Theorem gen_on_with_stream_handle_agrees : forall (hs : list unit) h s,
  Gen.AcctCode.on_with_stream_handle hs h s = Ok (StreamAcct.on_with_stream_handle (List.length hs) h s).
Proof.
  intros hs h s.
  first [ reflexivity |
    unfold Gen.AcctCode.on_with_stream_handle, on_with_stream_handle, g_cpy;
    destruct hs as [|u hs];
    [ reflexivity
    | (* whatever comparison the source uses, it must decide len(handlers) = 0 *)
      match goal with |- (if ?c then _ else _) = _ => assert (Hc : c = false) by (unfold glen; cbn [List.length]; lia); rewrite Hc end;
      replace (glen (u :: hs) + 1) with (Z.of_nat (List.length (u :: hs) + 1)) by (unfold glen; lia);
      pose proof (copy_item_length h (Z.of_nat (List.length (u :: hs) + 1)) s ltac:(cbn [List.length]; lia)) as Hlen;
      destruct (copy_item h (Z.of_nat (List.length (u :: hs) + 1)) s) as [cs s1]; cbn [fst] in Hlen;
      rewrite Nat2Z.id in Hlen;
      rewrite hand_range_firstn by lia; cbn [res_bind];
      rewrite (index_last_default cs h) by (intro E; rewrite E in Hlen; cbn [List.length] in Hlen; lia);
      cbn [res_bind]; rewrite removelast_firstn_len, Hlen;
      cbn [List.length]; replace (Init.Nat.pred (S (List.length hs) + 1)) with (S (List.length hs)) by lia;
      reflexivity ] ].
Qed.

Example gen_callback_copies_two_handlers :
  Gen.AcctCode.on_with_stream_handle [tt; tt] 0%N (init_store 0%N)
  = Ok (3%N, [1%N; 2%N], {| s_next := 4%N; s_open := [1%N; 2%N; 3%N]; s_log := [3%Z]; s_hist := [HCopy 0%N [1%N; 2%N; 3%N]; HFresh 0%N] |}).
Proof. vm_compute. reflexivity. Qed.

(* ---- consequences: the theorems of Props/C19.v about one task hold of the translated code *)
From Eino Require Import Proofs.StreamAcct.

Corollary gen_account_task_is_model : forall t,
  res_map (account_of t) (Gen.AcctCode.resolve_task t 0%N (init_store 0%N)) = account_task t.
Proof. intros. unfold account_task. now rewrite gen_resolve_task_agrees. Qed.

(* non-vacuity: on the F-C19 witness shapes the translated code computes what the hook observed *)
Example gen_resolve_fanout :
  let t := {| t_node := 5%N; t_write_to := [7%N; 8%N];
              t_branches := [{| b_nodata := false; b_ends := [8%N; 9%N]; b_sel := [8%N; 9%N] |}] |} in
  match Gen.AcctCode.resolve_task t 0%N (init_store 0%N) with
  | Ok r => (r_branch_in r, r_writes r, r_closed r, s_log (r_store r))
            = ([4%N], [(8%N, 1%N); (9%N, 2%N); (7%N, 3%N)], [], [4%Z])
  | _ => False
  end.
Proof. vm_compute. reflexivity. Qed.

Example gen_resolve_selects_none :
  let t := {| t_node := 5%N; t_write_to := [];
              t_branches := [{| b_nodata := false; b_ends := [8%N; 9%N]; b_sel := [] |}] |} in
  match Gen.AcctCode.resolve_task t 0%N (init_store 0%N) with
  | Ok r => (r_branch_in r, r_writes r, r_closed r, s_log (r_store r)) = ([2%N], [], [1%N], [2%Z])
  | _ => False
  end.
Proof. vm_compute. reflexivity. Qed.

Example gen_update_keeps_and_closes :
  Gen.AcctCode.update_from_map [3%N; 4%N] [(3%N, 10%N); (5%N, 11%N)]
  = {| ua_kept := [(3%N, 10%N)]; ua_closed := [11%N] |}.
Proof. vm_compute. reflexivity. Qed.
