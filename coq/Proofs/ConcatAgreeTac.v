(* Proofs/ConcatAgreeTac.v — how Proofs/GenAgreeConcatCode.v compares a regenerated translation with the
   reference translation: first by conversion ([reflexivity]: renamed locals, let-bound intermediates); if the
   two terms are not convertible, POINTWISE — descend through the control vocabulary of Model/ConcatGenLib.v with
   the extensionality lemmas below (loop bodies and continuations are compared for every state), split every
   test and every destructured value that stands in the way, and compare the leaves.  That absorbs rewrites of
   the Go source that keep the meaning but not the shape: a nested test flattened ([if e != nil { if e == EOF {A}
   ; B }] <-> [if e == EOF {A}; if e != nil {B}]), independent tests swapped, [!a] <-> [a == false], an early
   [continue] against a nested [if].  It is a proof, not a heuristic: an edit that changes the meaning leaves a
   leaf that cannot be closed and the obligation is reported broken, as before. *)
From Coq Require Import Lia.
From Eino Require Import Base.Util Model.Concat Model.ConcatStream Model.ConcatGenLib.

Lemma crun_ext {S R} (c c' : ctl S R) : c = c' -> crun c = crun c'.
Proof. intros ->; reflexivity. Qed.

Lemma cbind_ext {S T R} (c c' : ctl S R) (k k' : S -> ctl T R) :
  c = c' -> (forall s, k s = k' s) -> cbind c k = cbind c' k'.
Proof. intros -> H. destruct c'; simpl; auto. Qed.

Lemma cdo_ext {A T R} (e e' : res A) (k k' : A -> ctl T R) :
  e = e' -> (forall a, k a = k' a) -> cdo e k = cdo e' k'.
Proof. intros -> H. destruct e'; simpl; auto. Qed.

Lemma cfold_ext {X S R} (f g : S -> X -> ctl S R) :
  (forall s x, f s x = g s x) -> forall xs xs' s s', xs = xs' -> s = s' -> cfold f xs s = cfold g xs' s'.
Proof.
  intros H xs xs' s s' <- <-. revert s. induction xs as [|x xs IH]; intros s; simpl; [reflexivity|].
  rewrite H. destruct (g s x); simpl; auto.
Qed.

Lemma c_loop_ext {S R} (f g : S -> ctl (S + S) R) :
  (forall s, f s = g s) -> forall n n' s s', n = n' -> s = s' -> c_loop n f s = c_loop n' g s'.
Proof.
  intros H n n' s s' <- <-. revert s. induction n as [|n IH]; intros s; simpl; [reflexivity|].
  rewrite H. destruct (g s) as [[s1|s1]|r]; auto.
Qed.

(* one step: close by conversion, else descend / split *)
(* agreement theorems already proved (a translated function calling another translated function) *)
Create HintDb agree_db.

Ltac agree_step :=
  first
    [ reflexivity
    | progress autorewrite with agree_db
    | match goal with
      | |- crun _ = crun _ => apply crun_ext
      | |- cbind _ _ = cbind _ _ => apply cbind_ext; [|intros]
      | |- cdo _ _ = cdo _ _ => apply cdo_ext; [|intros]
      | |- cfold _ _ _ = cfold _ _ _ => apply cfold_ext; [intros| |]
      | |- c_loop _ _ _ = c_loop _ _ _ => apply c_loop_ext; [intros| |]
      | |- Next _ = Next _ => f_equal
      | |- Return _ = Return _ => f_equal
      (* the error of a Recv: three cases decide every test on it *)
      | e : rerr |- _ => destruct e; cbn [rerr_is_nil rerr_is_eof negb andb orb r_ret]
      | |- context[match ?x with _ => _ end] => is_var x; destruct x
      | |- context[match ?x with _ => _ end] => destruct x eqn:?
      end ].

Ltac agree_leaf := try reflexivity; try congruence; try (exfalso; congruence); try lia.

(* after [intros] and the unfolding of the two definitions compared *)
Ltac agree_descend := repeat agree_step; agree_leaf.
