(* Proofs/ConcatOrderMsg.v — determinism of chat-message concatenation: concatToolCalls
   visits its index map in an arbitrary order and then sorts stably; the Extra maps go
   through concatMaps under an arbitrary schedule (Proofs/ConcatOrder.v). *)
From Eino Require Import Base.Util Model.ConcatTable Model.Concat Model.ConcatMsg Model.ConcatOrder.
From Eino Require Import Proofs.Concat Proofs.ConcatRechunk Proofs.ConcatMsg Proofs.ConcatOrder.
From Coq Require Import Sorting.Permutation Sorting.Sorted.

Section User.
Context {U : UserFn} {L : UserLaw}.

(* ------------------------------------------------------------------ the stable sort *)

Lemma sinsert_nil_front x l : tc_idx x = None -> sinsert x l = x :: l.
Proof.
  intros Hx. destruct l as [|y l]; cbn; [reflexivity|].
  unfold tc_less. rewrite Hx. destruct (tc_idx y); reflexivity.
Qed.

Lemma ssort_nils nils X :
  Forall (fun c => tc_idx c = None) nils -> ssort (nils ++ X) = nils ++ ssort X.
Proof.
  induction 1 as [|c nils Hc _ IH]; cbn; [reflexivity|].
  unfold ssort in *. rewrite IH. apply sinsert_nil_front, Hc.
Qed.

(* insertion sort on the indexes themselves *)
Fixpoint zins (i : Z) (l : list Z) : list Z :=
  match l with
  | [] => [i]
  | j :: l' => if Z.ltb j i then j :: zins i l' else i :: j :: l'
  end.
Definition zsort (l : list Z) : list Z := fold_right zins [] l.

Lemma sinsert_map (g : Z -> toolcall) i l :
  tc_idx (g i) = Some i -> Forall (fun j => tc_idx (g j) = Some j) l ->
  sinsert (g i) (map g l) = map g (zins i l).
Proof.
  intros Hi. induction 1 as [|j l Hj _ IH]; cbn; [reflexivity|].
  unfold tc_less. rewrite Hi, Hj. destruct (Z.ltb j i); cbn; [|reflexivity].
  f_equal. exact IH.
Qed.

Lemma zins_In i l j : In j (zins i l) <-> j = i \/ In j l.
Proof.
  induction l as [|a l IH]; cbn; [intuition|].
  destruct (Z.ltb a i); cbn; rewrite ?IH; intuition.
Qed.

Lemma zsort_In l j : In j (zsort l) <-> In j l.
Proof.
  induction l as [|a l IH]; cbn; [tauto|]. rewrite zins_In, IH. intuition.
Qed.

Lemma ssort_map (g : Z -> toolcall) p :
  Forall (fun j => tc_idx (g j) = Some j) p -> ssort (map g p) = map g (zsort p).
Proof.
  induction 1 as [|i p Hi Hp IH]; cbn; [reflexivity|].
  unfold ssort in *. rewrite IH. apply sinsert_map; [exact Hi|].
  apply Forall_forall. intros j Hj. apply (proj1 (zsort_In p j)) in Hj.
  apply (proj1 (Forall_forall _ _) Hp j Hj).
Qed.

Lemma zins_sorted i l : StronglySorted Z.lt l -> ~ In i l -> StronglySorted Z.lt (zins i l).
Proof.
  induction 1 as [|a l Hs IH Ha]; intros Hn; cbn.
  - constructor; constructor.
  - destruct (Z.ltb a i) eqn:E.
    + apply Z.ltb_lt in E. constructor.
      * apply IH. intros H. apply Hn. now right.
      * apply Forall_forall. intros j Hj. apply zins_In in Hj. destruct Hj as [->|Hj]; [exact E|].
        apply (proj1 (Forall_forall _ _) Ha j Hj).
    + apply Z.ltb_ge in E.
      assert (Lt : (i < a)%Z).
      { destruct (Z.eq_dec i a) as [->|Ne]; [exfalso; apply Hn; now left|lia]. }
      constructor; [constructor; assumption|].
      constructor; [exact Lt|].
      apply Forall_forall. intros j Hj. pose proof (proj1 (Forall_forall _ _) Ha j Hj). lia.
Qed.

Lemma zsort_sorted p : NoDup p -> StronglySorted Z.lt (zsort p).
Proof.
  induction 1 as [|i p Hi _ IH]; cbn; [constructor|].
  apply zins_sorted; [exact IH|]. rewrite zsort_In. exact Hi.
Qed.

Lemma sorted_unique l1 : forall l2,
  StronglySorted Z.lt l1 -> StronglySorted Z.lt l2 -> (forall x, In x l1 <-> In x l2) -> l1 = l2.
Proof.
  induction l1 as [|a l1 IH]; intros l2 S1 S2 H.
  - destruct l2 as [|b l2]; [reflexivity|]. exfalso. apply (H b). now left.
  - destruct l2 as [|b l2]; [exfalso; apply (H a); now left|].
    inversion S1 as [|? ? S1' F1]; inversion S2 as [|? ? S2' F2]; subst.
    assert (a = b).
    { destruct (proj1 (H a) (or_introl eq_refl)) as [E|Hin]; [congruence|].
      destruct (proj2 (H b) (or_introl eq_refl)) as [E|Hin']; [congruence|].
      pose proof (proj1 (Forall_forall _ _) F2 a Hin). pose proof (proj1 (Forall_forall _ _) F1 b Hin'). lia. }
    subst b. f_equal. apply IH; [assumption|assumption|].
    intros x. split; intros Hx.
    + destruct (proj1 (H x) (or_intror Hx)) as [E|Hin]; [|exact Hin].
      subst x. pose proof (proj1 (Forall_forall _ _) F1 a Hx). lia.
    + destruct (proj2 (H x) (or_intror Hx)) as [E|Hin]; [|exact Hin].
      subst x. pose proof (proj1 (Forall_forall _ _) F2 a Hx). lia.
Qed.

(* ------------------------------------------------------------------ concatToolCalls in any order *)

Lemma res_mapM_map {A B} (f : A -> res B) (g : A -> B) l :
  (forall a, In a l -> f a = Ok (g a)) -> res_mapM f l = Ok (map g l).
Proof.
  induction l as [|a l IH]; intros H; cbn; [reflexivity|].
  rewrite (H a) by now left. cbn. rewrite IH by (intros; apply H; now right). reflexivity.
Qed.

Lemma nilp_all_nil cs : Forall (fun c => tc_idx c = None) (filter is_nil_idx cs).
Proof.
  apply Forall_forall. intros c Hc. apply filter_In in Hc. destruct Hc as [_ Hc].
  unfold is_nil_idx in Hc. destruct (tc_idx c); [discriminate|reflexivity].
Qed.

Definition dummy_tc : toolcall := mkTC None EmptyString EmptyString EmptyString EmptyString 0.

Theorem toolcalls_order p cs :
  Permutation p (idxs_of cs) -> rrel eq (concat_toolcalls_o p cs) (concat_toolcalls cs).
Proof.
  intros HP. unfold concat_toolcalls_o, concat_toolcalls.
  set (f := fun i => merge_group i (filter (has_idx i) cs)).
  set (g := fun i => match f i with Ok m => m | _ => dummy_tc end).
  assert (NPf : forall l, res_mapM f l <> Panic).
  { intros l. apply res_mapM_no_panic. intros i _. apply merge_group_no_panic. }
  destruct (res_mapM f p) as [merged|e|] eqn:Ep; cbn [res_bind].
  - apply res_mapM_Forall2 in Ep.
    assert (Hall : forall i, In i p -> f i = Ok (g i)).
    { intros i Hi. destruct (F2_In_l _ _ _ _ Ep Hi) as [m [_ Hm]]. unfold g. rewrite Hm. reflexivity. }
    assert (Em : merged = map g p).
    { clear - Ep Hall. induction Ep as [|i m l r Him _ IH]; cbn; [reflexivity|].
      rewrite IH by (intros; apply Hall; now right).
      pose proof (Hall i (or_introl eq_refl)) as E. rewrite Him in E. inversion E. congruence. }
    rewrite (res_mapM_map f g (idxs_of cs)).
    2:{ intros i Hi. apply Hall. apply (Permutation_in i (Permutation_sym HP) Hi). }
    cbn [res_bind rrel]. f_equal. subst merged.
    rewrite ssort_nils by apply nilp_all_nil. f_equal.
    rewrite ssort_map.
    + f_equal. apply sorted_unique.
      * apply zsort_sorted. apply (Permutation_NoDup (Permutation_sym HP)).
        apply sorted_NoDup, idxs_of_sorted.
      * apply idxs_of_sorted.
      * intros x. rewrite zsort_In. split; apply Permutation_in; [exact HP|apply Permutation_sym, HP].
    + apply Forall_forall. intros j Hj.
      apply (merge_group_idx j cs (g j)); [apply (Permutation_in j HP Hj)|]. apply Hall, Hj.
  - assert (Fl : fails (res_mapM f p)) by (rewrite Ep; reflexivity).
    apply res_mapM_fails_inv in Fl. destruct Fl as [i [Hi Fi]].
    pose proof (res_mapM_fails f (idxs_of cs) i (Permutation_in i HP Hi) Fi) as Fl'.
    pose proof (NPf (idxs_of cs)) as NP.
    unfold fails in Fl'. destruct (res_mapM f (idxs_of cs)); cbn in *; [discriminate|exact I|congruence].
  - exfalso. apply (NPf p). exact Ep.
Qed.

(* with the ascending order the two definitions coincide (no sorting needed) *)
Corollary toolcalls_o_sorted cs : rrel eq (concat_toolcalls_o (idxs_of cs) cs) (concat_toolcalls cs).
Proof. apply toolcalls_order, Permutation_refl. Qed.

(* ------------------------------------------------------------------ ConcatMessages *)

Lemma msg_same_refl m : msg_same m m.
Proof. unfold msg_same, meq. repeat split; try reflexivity. apply ceq_refl. Qed.

Lemma F2_all_some l l' :
  Forall2 omsg_same l l' ->
  match all_some l, all_some l' with
  | Some ms, Some ms' => Forall2 msg_same ms ms'
  | None, None => True
  | _, _ => False
  end.
Proof.
  induction 1 as [|a b l l' Hab _ IH]; cbn; [constructor|].
  destruct a as [x|], b as [y|]; cbn in Hab; try contradiction; [|exact I].
  destruct (all_some l), (all_some l'); try contradiction; [|exact I].
  constructor; assumption.
Qed.

Lemma F2_map_eq {A B} (R : A -> A -> Prop) (h : A -> B) l l' :
  (forall a b, R a b -> h a = h b) -> Forall2 R l l' -> map h l = map h l'.
Proof.
  intros Hh. induction 1 as [|a b l l' Hab _ IH]; cbn; [reflexivity|].
  rewrite IH, (Hh a b Hab). reflexivity.
Qed.

Lemma F2_tcs ms ms' : Forall2 msg_same ms ms' -> flat_map m_tcs ms = flat_map m_tcs ms'.
Proof.
  induction 1 as [|a b l l' Hab _ IH]; cbn; [reflexivity|].
  rewrite IH. destruct Hab as (_ & _ & _ & _ & _ & -> & _). reflexivity.
Qed.

Lemma F2_extras ms ms' :
  Forall2 msg_same ms ms' ->
  Forall2 meq (filter nonempty_map (map m_extra ms)) (filter nonempty_map (map m_extra ms')).
Proof.
  induction 1 as [|a b l l' Hab _ IH]; cbn; [constructor|].
  destruct Hab as (_ & _ & _ & _ & _ & _ & _ & Hx).
  rewrite (meq_nonempty _ _ Hx). destruct (nonempty_map (m_extra b)); [constructor|]; assumption.
Qed.

Theorem concat_msgs_order po s l l' :
  (forall x, Permutation (po x) x) -> sched_ok s -> Forall2 omsg_same l l' ->
  rrel msg_same (concat_msgs_o po s l) (concat_msgs l').
Proof.
  intros Hpo Hs H. unfold concat_msgs_o, concat_msgs.
  pose proof (F2_all_some l l' H) as HA.
  destruct (all_some l) as [ms|], (all_some l') as [ms'|]; try contradiction; [|exact I].
  rewrite (F2_map_eq msg_same m_role ms ms' (fun a b R => proj1 R) HA).
  rewrite (F2_map_eq msg_same m_name ms ms' (fun a b R => proj1 (proj2 R)) HA).
  rewrite (F2_map_eq msg_same m_tcid ms ms' (fun a b R => proj1 (proj2 (proj2 R))) HA).
  rewrite (F2_map_eq msg_same m_content ms ms' (fun a b R => proj1 (proj2 (proj2 (proj2 R)))) HA).
  rewrite (F2_map_eq msg_same m_multi ms ms' (fun a b R => proj1 (proj2 (proj2 (proj2 (proj2 R))))) HA).
  rewrite (F2_map_eq msg_same m_meta ms ms' (fun a b R => proj1 (proj2 (proj2 (proj2 (proj2 (proj2 (proj2 R))))))) HA).
  rewrite (F2_tcs ms ms' HA).
  destruct (pick (map m_role ms')) as [role|e|] eqn:E1; cbn [res_bind]; [|exact I|exact I].
  destruct (pick (map m_name ms')) as [name|e|] eqn:E2; cbn [res_bind]; [|exact I|exact I].
  destruct (pick (map m_tcid ms')) as [tcid|e|] eqn:E3; cbn [res_bind]; [|exact I|exact I].
  pose proof (toolcalls_order (po (idxs_of (flat_map m_tcs ms'))) (flat_map m_tcs ms') (Hpo _)) as HT.
  destruct (concat_toolcalls_o _ _) as [tcs|e|], (concat_toolcalls (flat_map m_tcs ms')) as [tcs'|e'|];
    cbn [rrel] in HT; try contradiction; cbn [res_bind]; try exact I.
  subst tcs'.
  pose proof (concat_maps_order s _ _ Hs (F2_extras ms ms' HA)) as HE.
  destruct (concat_maps_top_o s _) as [ex|e|], (concat_maps_top _) as [ex'|e'|];
    cbn [rrel] in HE; try contradiction; cbn [res_bind rrel]; try exact I.
  unfold msg_same. cbn. repeat split; try reflexivity. exact HE.
Qed.

End User.
